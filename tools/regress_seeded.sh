#!/bin/bash
# applies every seeded change to /repo in turn, runs the quick check of its property, undoes it.
# expectation: exit 1 for seeded/Cxx-mN, exit 0 for every property under seeded/harmless-*
cd /verif
if [ -n "$(git -C /repo status --porcelain)" ]; then echo "/repo not clean"; exit 2; fi
bad=0
for d in seeded/C*-m*; do
  P=$(basename $d); P=${P%-m*}
  git -C /repo apply /verif/$d/patch.diff || { echo "$d: patch does not apply"; bad=1; continue; }
  ./check $P --tier quick > /tmp/regress.log 2>&1; RC=$?
  git -C /repo checkout -- . ; git -C /repo clean -fdq
  if [ $RC -eq 1 ]; then echo "$(basename $d): detected"; else echo "$(basename $d): NOT DETECTED (exit $RC)"; bad=1; fi
done
for d in seeded/harmless-*; do
  git -C /repo apply /verif/$d/patch.diff || { echo "$d: patch does not apply"; bad=1; continue; }
  for i in $(seq -w 1 20); do
    ./check C$i --tier quick > /tmp/regress.log 2>&1; RC=$?
    [ $RC -eq 0 ] || { echo "$(basename $d): C$i ALARM (exit $RC)"; bad=1; }
  done
  git -C /repo checkout -- . ; git -C /repo clean -fdq
  echo "$(basename $d): done"
done
exit $bad
