#!/usr/bin/env python3
"""tools/sexpdiff.py <replay.json> : first differences between implementation and model observables"""
import json, sys
d = json.load(open(sys.argv[1]))
a, b = d["implementation"], d["model"]
out = []
def walk(x, y, path):
    if len(out) >= int(sys.argv[2]) if len(sys.argv) > 2 else len(out) >= 6:
        return
    if isinstance(x, list) and isinstance(y, list):
        # align lists of keyed records by their first element when both look keyed
        if x and y and all(isinstance(e, list) and e and isinstance(e[0], str) for e in x + y) and len(set(e[0] for e in x)) == len(x) and len(set(e[0] for e in y)) == len(y):
            kx = {e[0]: e for e in x}; ky = {e[0]: e for e in y}
            for k in sorted(set(kx) | set(ky)):
                if k not in kx: out.append((path + [k], "<absent in impl>", ky[k]))
                elif k not in ky: out.append((path + [k], kx[k], "<absent in model>"))
                else: walk(kx[k], ky[k], path + [k])
            return
        if len(x) != len(y):
            out.append((path, x, y)); return
        for i, (p, q) in enumerate(zip(x, y)):
            walk(p, q, path + [i])
    elif x != y:
        out.append((path, x, y))
walk(a, b, [])
for p, x, y in out:
    print("AT", p, "\n   impl :", json.dumps(x, ensure_ascii=False)[:400], "\n   model:", json.dumps(y, ensure_ascii=False)[:400])
