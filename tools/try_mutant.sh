#!/bin/bash
# usage: tools/try_mutant.sh <property> <patch.diff> [<demo_test.go> <package dir relative to repo root>]
# 1. (if a demonstration is given) in a scratch worktree of /repo: the demo passes without the patch,
#    fails with it, and the package's own tests still pass with it
# 2. applies the patch to /repo, runs ./check <property> (quick), and undoes the patch straight afterwards
set -u
P=$1; PATCH=$(readlink -f "$2"); DEMO=${3:-}; DIR=${4:-}
export GOFLAGS=-mod=mod GOPROXY=off GOSUMDB=off GOTOOLCHAIN=local
if [ -n "$DEMO" ]; then
  DEMO=$(readlink -f "$DEMO")
  W=$(mktemp -d /tmp/mutwt.XXXXXX); rmdir "$W"
  git -C /repo worktree add -q --detach "$W" HEAD || exit 2
  cp "$DEMO" "$W/$DIR/zz_demo_test.go"
  case "$DIR" in v2|v2/*) MOD="$W/v2"; REL=./${DIR#v2}; REL=${REL%/};; *) MOD="$W"; REL=./$DIR;; esac
  [ "$REL" = "./" ] && REL=.
  (cd "$MOD" && go test -count=1 "$REL" >/tmp/mut_pre.log 2>&1) && echo "demo-without-patch: PASS" || { echo "demo-without-patch: FAIL (bad demo)"; tail -5 /tmp/mut_pre.log; }
  git -C "$W" apply "$PATCH" || { echo "patch does not apply"; git -C /repo worktree remove --force "$W"; exit 2; }
  (cd "$MOD" && go test -count=1 "$REL" >/tmp/mut_post.log 2>&1) && echo "demo-with-patch: PASS (demo does not detect)" || echo "demo-with-patch: FAIL (as intended)"
  rm "$W/$DIR/zz_demo_test.go"
  (cd "$W" && go build ./... >/dev/null 2>&1 && go test -count=1 ./... >/tmp/mut_suite1.log 2>&1) && echo "suite-v1-with-patch: PASS" || { echo "suite-v1-with-patch: FAIL"; grep -v "^ok\|no test files" /tmp/mut_suite1.log | head -5; }
  (cd "$W/v2" && go build ./... >/dev/null 2>&1 && go test -count=1 ./... >/tmp/mut_suite2.log 2>&1) && echo "suite-v2-with-patch: PASS" || { echo "suite-v2-with-patch: FAIL"; grep -v "^ok\|no test files" /tmp/mut_suite2.log | head -5; }
  git -C /repo worktree remove --force "$W"
fi
if [ -n "$(git -C /repo status --porcelain)" ]; then echo "/repo not clean"; exit 2; fi
git -C /repo apply "$PATCH" || exit 2
cd /verif && ./check "$P" --tier quick > /tmp/mut_check.log 2>&1; RC=$?
git -C /repo checkout -- . ; git -C /repo clean -fdq
echo "check exit=$RC"; grep -E "VIOLATION|SUMMARY|BROKEN|^OK" /tmp/mut_check.log | head -4
if [ $RC -eq 1 ]; then F=$(grep -m1 VIOLATION /tmp/mut_check.log | sed 's/.*replay=\([^ ]*\).*/\1/'); python3 -c "
import json,sys; d=json.load(open('$F')); print('  first replay:', d.get('why','')[:70], '|', d.get('entry'), json.dumps(d.get('input_readable'),ensure_ascii=False)[:300])"; fi
