#!/bin/bash
# usage: tools/run_all.sh [tier]   -- every property, one line each
cd /verif
T=${1:-quick}
for i in $(seq -w 1 20); do
  S=$(date +%s)
  ./check C$i --tier $T > /tmp/runall_C$i.log 2>&1; RC=$?
  echo "C$i exit=$RC $(( $(date +%s) - S ))s $(grep -E '^OK|^SUMMARY|BROKEN|KNOWN-FINDING' /tmp/runall_C$i.log | head -2 | cut -c1-160 | tr '\n' ' ')"
done
