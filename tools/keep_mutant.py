#!/usr/bin/env python3
# usage: tools/keep_mutant.py <prop> <m-index> "<what it breaks>" "<detected_by>"
import sys,os,shutil,json
p,i,breaks,det=sys.argv[1:5]
src='/tmp/mut/%s-m%s'%(p,i)
dst='/verif/seeded/%s-m%s'%(p,i)
os.makedirs(dst,exist_ok=True)
shutil.copy(src+'.diff',dst+'/patch.diff')
shutil.copy(src+'_demo_test.go',dst+'/demo_test.go')
d=open(dst+'/demo_test.go').readline().replace('// dir:','').strip()
json.dump({"property":p,"breaks":breaks,"demo_package_dir":d,
 "confirmed":"tools/try_mutant.sh %s seeded/%s-m%s/patch.diff seeded/%s-m%s/demo_test.go %s : demo passes without the patch and fails with it; both modules' test suites pass with the patch; %s"%(p,p,i,p,i,d,det),
 "origin":"written by an independent sub-agent given only the property text and a scratch worktree",
 "detected_by":det},open(dst+'/meta.json','w'),indent=1)
print("kept",dst)
