#!/bin/bash
# Build the framework from files on disk only (offline): full .vo build of the Coq development,
# extraction, OCaml driver, and a warm Go build cache for the harnesses.
set -e
cd "$(dirname "$0")"
export GOFLAGS=-mod=mod GOPROXY=off GOSUMDB=off GOTOOLCHAIN=local
( cd coq && coq_makefile -f _CoqProject -o Makefile >/dev/null && timeout 3000 make -j16 )
( cd coq/Extract && coqc -Q .. Gengo Extract.v )
cp coq/Extract/model.ml coq/Extract/model.mli ocaml/
( cd ocaml && ocamlfind ocamlopt -w -a model.mli model.ml driver.ml -o model_run )
for v in v1 v2; do
  d=$(mktemp -d)
  cp harness/$v/*.go harness/$v/go.mod "$d"/
  if [ $v = v1 ]; then cp /repo/go.sum "$d"/; else cp /repo/v2/go.sum "$d"/; fi
  ( cd "$d" && go build -tags verif -o hbin . ) || { rm -rf "$d"; exit 1; }
  rm -rf "$d"
done
echo setup-ok
