package main

import (
	"k8s.io/gengo/types"
)

func init() { register("C08", c08v1) }

func c08v1(g *Gen) {
	defer c08boolRepeated(g)
	validateUnicodeTables()
	n := g.N(2500, 100000)
	for i := 0; i < n; i++ {
		marker := g.Pick(c08Markers)
		lines, cls := g.c08lines(marker)
		cls = append(cls, "v1")
		var m map[string][]string
		if p, _ := catch(func() { m = types.ExtractCommentTags(marker, lines) }); p {
			g.Emit("C08.old", list(atom(marker), atoms(lines)), tag("panic"), cls...)
		} else {
			g.Emit("C08.old", list(atom(marker), atoms(lines)), c08oldOut(m), cls...)
		}
		if i%3 == 0 {
			key := g.Pick(c08Keys)
			def := g.Chance(0.5)
			var b bool
			var err error
			in := list(atom(marker), atom(key), boolS(def), atoms(lines))
			if p, _ := catch(func() { b, err = types.ExtractSingleBoolCommentTag(marker, key, def, lines) }); p {
				g.Emit("C08.bool1", in, tag("panic"), cls...)
			} else if err != nil {
				g.Emit("C08.bool1", in, tag("err", c08errS(err)), append(cls, "bool-error")...)
			} else {
				g.Emit("C08.bool1", in, tag("ok", boolS(b)), cls...)
			}
		}
	}
}

// c08boolRepeated: one key several times; the helper answers for the FIRST value, boolean or not
func c08boolRepeated(g *Gen) {
	for _, marker := range []string{"+", "+k8s:"} {
		for _, firstV := range []string{"=blue", "", "=", "=TRUE", "=1", "=true", "=false"} {
			for _, second := range []string{"=true", "=false", "=blue"} {
				for _, def := range []bool{false, true} {
					lines := []string{marker + "flag" + firstV, marker + "other=true", "plain text", marker + "flag" + second}
					var b bool
					var err error
					in := list(atom(marker), atom("flag"), boolS(def), atoms(lines))
					cls := []string{"tagline", "v1", "bool-one-key-several-times"}
					if p, _ := catch(func() { b, err = types.ExtractSingleBoolCommentTag(marker, "flag", def, lines) }); p {
						g.Emit("C08.bool1", in, tag("panic"), append(cls, "PANIC")...)
					} else if err != nil {
						g.Emit("C08.bool1", in, tag("err", c08errS(err)), append(cls, "bool-error")...)
					} else {
						g.Emit("C08.bool1", in, tag("ok", boolS(b)), cls...)
					}
				}
			}
		}
	}
}
