package main

import (
	"os"
	"path/filepath"

	"k8s.io/gengo/parser"
	"k8s.io/gengo/types"
)

func c01sig(s *types.Signature) (string, string, bool, *types.Type) {
	var ps, rs []string
	for i, p := range s.Parameters {
		ps = append(ps, list(atom(s.ParameterNames[i]), tref(p)))
	}
	for i, r := range s.Results {
		rs = append(rs, list(atom(s.ResultNames[i]), tref(r)))
	}
	return list(ps...), list(rs...), s.Variadic, s.Receiver
}

func c01tparams(t *types.Type) string { return list() }

func c01load(g *Gen, i int, prog []GenPkg) (types.Universe, error) {
	b := parser.New()
	for _, gp := range prog {
		if err := b.AddFileForTest(gp.Path, gp.Path+"/file.go", []byte(gp.Src)); err != nil {
			return nil, err
		}
		// a second, later file of the same package that imports nothing: the package's imports are those of
		// ALL its files
		if err := b.AddFileForTest(gp.Path, gp.Path+"/zz_last.go", []byte("package "+gp.Name+"\n")); err != nil {
			return nil, err
		}
	}
	return b.FindTypes()
}

func c06sigTypes(s *types.Signature) []*types.Type {
	return append(append([]*types.Type{}, s.Parameters...), s.Results...)
}
func c06nameOf(s string) types.Name            { return parser.TcNameToName(s) }
func c20comparable(t *types.Type) (bool, bool) { return false, false }

func c05load(g *Gen, i int, path string, files map[string]string, names []string) (types.Universe, error) {
	// a multi-file package has to come from disk (AddFileForTest type-checks after the first file)
	d := filepath.Join(os.Getenv("GOPATH"), "src", path)
	os.MkdirAll(d, 0755)
	defer os.RemoveAll(d)
	for _, n := range names {
		os.WriteFile(filepath.Join(d, n), []byte(files[n]), 0644)
	}
	cwd, _ := os.Getwd()
	os.Chdir(filepath.Join(os.Getenv("GOPATH"), "src"))
	defer os.Chdir(cwd)
	b := parser.New()
	if c05depFirst {
		ud := filepath.Join(os.Getenv("GOPATH"), "src", path+"user")
		os.MkdirAll(ud, 0755)
		defer os.RemoveAll(ud)
		os.WriteFile(filepath.Join(ud, names[0]), []byte(c05userSrc(path, files)), 0644) // the same file name as a file of the package under test
		if err := b.AddDir(path + "user"); err != nil {
			return nil, err
		}
		if c05universeBetween {
			u, err := b.FindTypes()
			if err != nil {
				return nil, err
			}
			if err := b.AddDirTo(path, &u); err != nil {
				return nil, err
			}
			return u, nil
		}
	}
	if err := b.AddDir(path); err != nil {
		return nil, err
	}
	if c05twice {
		// requested once more, into the universe that already holds it (Context.AddDir / AddDirectory)
		u, err := b.FindTypes()
		if err != nil {
			return nil, err
		}
		if err := b.AddDirTo(path, &u); err != nil {
			return nil, err
		}
		if _, err := b.AddDirectoryTo(path, &u); err != nil {
			return nil, err
		}
		return u, nil
	}
	return b.FindTypes()
}

func c02nresults(s *types.Signature) int { return len(s.Results) }

func c12load(g *Gen, i int, tags []string, path string, files map[string]string, names []string, deps map[string]string) (types.Universe, error) {
	src := filepath.Join(os.Getenv("GOPATH"), "src")
	write := func(p, name, text string) {
		d := filepath.Join(src, p)
		os.MkdirAll(d, 0755)
		os.WriteFile(filepath.Join(d, name), []byte(text), 0644)
	}
	for _, n := range names {
		write(path, n, files[n])
	}
	for dp, text := range deps {
		write(dp, "dep.go", text)
	}
	defer os.RemoveAll(filepath.Join(src, path))
	cwd, _ := os.Getwd()
	os.Chdir(src)
	defer os.Chdir(cwd)
	b := parser.New()
	if i%2 == 0 {
		b.AddBuildTags(tags...)
	} else {
		for _, tg := range tags {
			b.AddBuildTags(tg)
		}
	}
	if c12root != "" {
		write(c12root, "root.go", "package root\n")
		defer os.RemoveAll(filepath.Join(src, c12root))
		if err := b.AddDirRecursive(c12root); err != nil {
			return nil, err
		}
		return b.FindTypes()
	}
	if c12viaImporter {
		write(path+"user", "user.go", "package c12user\n\nimport _ \""+path+"\"\n")
		defer os.RemoveAll(filepath.Join(src, path+"user"))
		if err := b.AddDir(path + "user"); err != nil {
			return nil, err
		}
	}
	if err := b.AddDir(path); err != nil {
		return nil, err
	}
	return b.FindTypes()
}

// c06loadInto adds the requested packages of prog to the given universe (AddDirTo, from GOPATH).
func c06loadInto(g *Gen, i int, prog []GenPkg, u *types.Universe) error {
	src := filepath.Join(os.Getenv("GOPATH"), "src")
	for _, gp := range prog {
		d := filepath.Join(src, gp.Path)
		os.MkdirAll(d, 0755)
		os.WriteFile(filepath.Join(d, "file.go"), []byte(gp.Src), 0644)
		defer os.RemoveAll(d)
	}
	cwd, _ := os.Getwd()
	os.Chdir(src)
	defer os.Chdir(cwd)
	b := parser.New()
	for _, gp := range prog {
		if gp.Requested {
			if err := b.AddDirTo(gp.Path, u); err != nil {
				return err
			}
		}
	}
	return nil
}

// c11dirOf: where the loader says the package lives on disk
func c11dirOf(p *types.Package) string { return p.SourcePath }

// (v2 only: the v1 builder makes its universe from everything it was given)
func c06secondUniverse(g *Gen, i int, prog []GenPkg) ([]string, bool) { return nil, false }

// c01vendored: the vendored GOPATH layouts are a v2 case (packages.Load); v1's vendor handling is exercised by C03.
func c01vendored(g *Gen) {}
