package main

import (
	"fmt"
	"go/ast"
	goparser "go/parser"
	"go/token"
	gotypes "go/types"
	"os"
	"path/filepath"
	"sort"
	"strings"

	"k8s.io/gengo/parser"
	"k8s.io/gengo/types"
)

func c01sig(s *types.Signature) (string, string, bool, *types.Type) {
	var ps, rs []string
	for i, p := range s.Parameters {
		ps = append(ps, list(atom(s.ParameterNames[i]), tref(p)))
	}
	for i, r := range s.Results {
		rs = append(rs, list(atom(s.ResultNames[i]), tref(r)))
	}
	return list(ps...), list(rs...), s.Variadic, s.Receiver
}

func c01tparams(t *types.Type) string { return list() }

func c01load(g *Gen, i int, prog []GenPkg) (types.Universe, error) {
	b := parser.New()
	for _, gp := range prog {
		if err := b.AddFileForTest(gp.Path, gp.Path+"/file.go", []byte(gp.Src)); err != nil {
			return nil, err
		}
		// a second, later file of the same package that imports nothing: the package's imports are those of
		// ALL its files
		if err := b.AddFileForTest(gp.Path, gp.Path+"/zz_last.go", []byte("package "+gp.Name+"\n")); err != nil {
			return nil, err
		}
	}
	return b.FindTypes()
}

func c06sigTypes(s *types.Signature) []*types.Type {
	return append(append([]*types.Type{}, s.Parameters...), s.Results...)
}
func c06nameOf(s string) types.Name            { return parser.TcNameToName(s) }
func c20comparable(t *types.Type) (bool, bool) { return false, false }

func c05load(g *Gen, i int, path string, files map[string]string, names []string) (types.Universe, error) {
	// a multi-file package has to come from disk (AddFileForTest type-checks after the first file)
	d := filepath.Join(os.Getenv("GOPATH"), "src", path)
	os.MkdirAll(d, 0755)
	defer os.RemoveAll(d)
	for _, n := range names {
		os.WriteFile(filepath.Join(d, n), []byte(files[n]), 0644)
	}
	cwd, _ := os.Getwd()
	os.Chdir(filepath.Join(os.Getenv("GOPATH"), "src"))
	defer os.Chdir(cwd)
	b := parser.New()
	if c05depFirst {
		ud := filepath.Join(os.Getenv("GOPATH"), "src", path+"user")
		os.MkdirAll(ud, 0755)
		defer os.RemoveAll(ud)
		os.WriteFile(filepath.Join(ud, names[0]), []byte(c05userSrc(path, files)), 0644) // the same file name as a file of the package under test
		if err := b.AddDir(path + "user"); err != nil {
			return nil, err
		}
		if c05universeBetween {
			u, err := b.FindTypes()
			if err != nil {
				return nil, err
			}
			if err := b.AddDirTo(path, &u); err != nil {
				return nil, err
			}
			return u, nil
		}
	}
	if err := b.AddDir(path); err != nil {
		return nil, err
	}
	if c05twice {
		// requested once more, into the universe that already holds it (Context.AddDir / AddDirectory)
		u, err := b.FindTypes()
		if err != nil {
			return nil, err
		}
		if err := b.AddDirTo(path, &u); err != nil {
			return nil, err
		}
		if _, err := b.AddDirectoryTo(path, &u); err != nil {
			return nil, err
		}
		return u, nil
	}
	return b.FindTypes()
}

func c02nresults(s *types.Signature) int { return len(s.Results) }

func c12load(g *Gen, i int, tags []string, path string, files map[string]string, names []string, deps map[string]string) (types.Universe, error) {
	src := filepath.Join(os.Getenv("GOPATH"), "src")
	write := func(p, name, text string) {
		d := filepath.Join(src, p)
		os.MkdirAll(d, 0755)
		os.WriteFile(filepath.Join(d, name), []byte(text), 0644)
	}
	for _, n := range names {
		write(path, n, files[n])
	}
	for dp, text := range deps {
		write(dp, "dep.go", text)
	}
	defer os.RemoveAll(filepath.Join(src, path))
	cwd, _ := os.Getwd()
	os.Chdir(src)
	defer os.Chdir(cwd)
	b := parser.New()
	if i%2 == 0 {
		b.AddBuildTags(tags...)
	} else {
		for _, tg := range tags {
			b.AddBuildTags(tg)
		}
	}
	if c12root != "" {
		write(c12root, "root.go", "package root\n")
		defer os.RemoveAll(filepath.Join(src, c12root))
		if err := b.AddDirRecursive(c12root); err != nil {
			return nil, err
		}
		return b.FindTypes()
	}
	if c12viaImporter {
		write(path+"user", "user.go", "package c12user\n\nimport _ \""+path+"\"\n")
		defer os.RemoveAll(filepath.Join(src, path+"user"))
		if err := b.AddDir(path + "user"); err != nil {
			return nil, err
		}
	}
	if err := b.AddDir(path); err != nil {
		return nil, err
	}
	return b.FindTypes()
}

// c06loadInto adds the requested packages of prog to the given universe (AddDirTo, from GOPATH).
func c06loadInto(g *Gen, i int, prog []GenPkg, u *types.Universe) error {
	src := filepath.Join(os.Getenv("GOPATH"), "src")
	for _, gp := range prog {
		d := filepath.Join(src, gp.Path)
		os.MkdirAll(d, 0755)
		os.WriteFile(filepath.Join(d, "file.go"), []byte(gp.Src), 0644)
		defer os.RemoveAll(d)
	}
	cwd, _ := os.Getwd()
	os.Chdir(src)
	defer os.Chdir(cwd)
	b := parser.New()
	for _, gp := range prog {
		if gp.Requested {
			if err := b.AddDirTo(gp.Path, u); err != nil {
				return err
			}
		}
	}
	return nil
}

// c11dirOf: where the loader says the package lives on disk
func c11dirOf(p *types.Package) string { return p.SourcePath }

// (v2 only: the v1 builder makes its universe from everything it was given)
func c06secondUniverse(g *Gen, i int, prog []GenPkg) ([]string, bool) { return nil, false }

// c01vendored (v1): the vendored GOPATH layouts are a v2 case (packages.Load); v1's vendor handling is
// exercised by C03. What v1 gets here instead is the other way in which "the direct imports of a package"
// are more than one import list: a requested package of THREE files on disk -- one imports a package it
// uses, one imports a package for its side effects only (blank import), one imports nothing -- in each of
// the six orders in which the three can sort (k = 0..5, by construction). The direct imports gengo
// reports are compared with those of the type checker run here on the same three files
// (go/types, Package.Imports()), and every declaration of every file must be in the universe.
type c01mapImporter map[string]*gotypes.Package

func (m c01mapImporter) Import(path string) (*gotypes.Package, error) {
	if p, ok := m[path]; ok {
		return p, nil
	}
	return nil, fmt.Errorf("c01multifile: unknown import %q", path)
}

func c01vendored(g *Gen) {
	perms := [][3]string{{"a.go", "b.go", "c.go"}, {"a.go", "c.go", "b.go"}, {"b.go", "a.go", "c.go"}, {"b.go", "c.go", "a.go"}, {"c.go", "a.go", "b.go"}, {"c.go", "b.go", "a.go"}}
	srcRoot := filepath.Join(os.Getenv("GOPATH"), "src")
	for k, names := range perms {
		base := fmt.Sprintf("c01mf%d", k)
		contents := [3]string{
			"package foo\n\nimport \"" + base + "/dep\"\n\ntype A struct {\n\tD dep.D\n}\n",
			"package foo\n\nimport _ \"" + base + "/side\"\n\ntype B int8\n",
			"package foo\n\ntype C uint8\n",
		}
		tree := map[string]string{
			base + "/dep/dep.go":   "package dep\n\ntype D struct {\n\tN int8\n}\n",
			base + "/side/side.go": "package side\n\ntype S struct{}\n",
		}
		for j := 0; j < 3; j++ {
			tree[base+"/foo/"+names[j]] = contents[j]
		}
		for rel, src := range tree {
			full := filepath.Join(srcRoot, filepath.FromSlash(rel))
			os.MkdirAll(filepath.Dir(full), 0755)
			os.WriteFile(full, []byte(src), 0644)
		}
		// the type checker's answer
		fset := token.NewFileSet()
		imp := c01mapImporter{}
		check := func(path string, rels ...string) *gotypes.Package {
			var files []*ast.File
			sort.Strings(rels)
			for _, rel := range rels {
				f, err := goparser.ParseFile(fset, rel, tree[rel], 0)
				if err != nil {
					panic(err)
				}
				files = append(files, f)
			}
			pk, err := (&gotypes.Config{Importer: imp}).Check(path, fset, files, nil)
			if err != nil {
				panic(fmt.Sprintf("c01multifile: the layout does not type-check: %v", err))
			}
			imp[path] = pk
			return pk
		}
		check(base+"/dep", base+"/dep/dep.go")
		check(base+"/side", base+"/side/side.go")
		foo := check(base+"/foo", base+"/foo/a.go", base+"/foo/b.go", base+"/foo/c.go")
		var want []string
		for _, ip := range foo.Imports() {
			want = append(want, ip.Path())
		}
		sort.Strings(want)
		if len(want) != 2 {
			panic(fmt.Sprintf("c01multifile: unexpected imports from the type checker: %q", want))
		}
		// gengo's answer
		cwd, _ := os.Getwd()
		os.Chdir(srcRoot)
		b := parser.New()
		err := b.AddDir(base + "/foo")
		var u types.Universe
		if err == nil {
			u, err = b.FindTypes()
		}
		os.Chdir(cwd)
		os.RemoveAll(filepath.Join(srcRoot, base))
		if err != nil {
			g.Emit("C01.multifile!", list(num(k), atom(err.Error())), boolS(false), "imports-of-a-package-of-several-files", "LOAD-ERROR")
			continue
		}
		pk := u[base+"/foo"]
		got := []string{}
		ok := pk != nil
		if pk != nil {
			for path := range pk.Imports {
				got = append(got, path)
			}
			for _, n := range []string{"A", "B", "C"} {
				if pk.Types[n] == nil {
					ok = false
				}
			}
			if ok && (pk.Types["B"].Underlying != types.Int8 || len(pk.Types["A"].Members) != 1 || pk.Types["A"].Members[0].Type.Name.Package != base+"/dep") {
				ok = false
			}
		}
		sort.Strings(got)
		if strings.Join(got, "\x00") != strings.Join(want, "\x00") {
			ok = false
		}
		g.Emit("C01.multifile!", list(num(k), atoms(names[:]), atoms(want), atoms(got)), boolS(ok), "imports-of-a-package-of-several-files", fmt.Sprintf("file-order-%d", k))
	}
}
