// Shared harness plumbing (an identical copy lives in harness/v1 and harness/v2; `./check`
// refuses to run if the two copies differ).
//
// usage: <bin> <property> <tier> <seed> <outfile>
// Every case is one line:  entry TAB input-sexp TAB implementation-observable-sexp TAB classes
package main

import (
	"bufio"
	"fmt"
	"math/rand"
	"os"
	"sort"
	"strconv"
	"strings"
)

type Gen struct {
	R     *rand.Rand
	Tier  string
	Seed  int64
	out   *bufio.Writer
	Cases int
	Notes map[string]string
}

var props = map[string]func(g *Gen){}

func register(id string, f func(g *Gen)) { props[id] = f }

// N returns the case count for the tier.
func (g *Gen) N(quick, thorough int) int {
	if g.Tier == "thorough" {
		return thorough
	}
	return quick
}

func (g *Gen) Emit(entry, input, output string, classes ...string) {
	if strings.ContainsAny(input, "\t\n") || strings.ContainsAny(output, "\t\n") {
		panic("harness: tab/newline in sexp")
	}
	fmt.Fprintf(g.out, "%s\t%s\t%s\t%s\n", entry, input, output, strings.Join(classes, ","))
	g.Cases++
}

func (g *Gen) Pick(xs []string) string { return xs[g.R.Intn(len(xs))] }
func (g *Gen) Chance(p float64) bool   { return g.R.Float64() < p }

// ---- s-expression printing ----

func atom(s string) string {
	var b strings.Builder
	b.WriteByte('<')
	first := true
	for _, r := range s {
		if !first {
			b.WriteByte(' ')
		}
		first = false
		b.WriteString(strconv.Itoa(int(r)))
	}
	b.WriteByte('>')
	return b.String()
}
func num(n int) string { return "<" + strconv.Itoa(n) + ">" }
func boolS(b bool) string {
	if b {
		return "<1>"
	}
	return "<0>"
}
func list(items ...string) string { return "(" + strings.Join(items, " ") + ")" }
func atoms(xs []string) string {
	it := make([]string, len(xs))
	for i, x := range xs {
		it[i] = atom(x)
	}
	return list(it...)
}
func tag(t string, items ...string) string {
	return list(append([]string{atom(t)}, items...)...)
}
func opt(present bool, x string) string {
	if present {
		return list(x)
	}
	return list()
}
func sortedKeys(m map[string][]string) []string {
	ks := make([]string, 0, len(m))
	for k := range m {
		ks = append(ks, k)
	}
	sort.Strings(ks)
	return ks
}

// catch runs f and reports whether it panicked.
func catch(f func()) (panicked bool, msg string) {
	defer func() {
		if r := recover(); r != nil {
			panicked = true
			msg = fmt.Sprint(r)
		}
	}()
	f()
	return
}

func main() {
	if len(os.Args) != 5 {
		fmt.Fprintln(os.Stderr, "usage: harness <property> <tier> <seed> <outfile>")
		os.Exit(2)
	}
	f, ok := props[os.Args[1]]
	if !ok {
		fmt.Fprintln(os.Stderr, "NO-SUCH-PROPERTY", os.Args[1])
		os.Exit(3)
	}
	seed, _ := strconv.ParseInt(os.Args[3], 10, 64)
	of, err := os.Create(os.Args[4])
	if err != nil {
		panic(err)
	}
	g := &Gen{R: rand.New(rand.NewSource(seed)), Tier: os.Args[2], Seed: seed, out: bufio.NewWriterSize(of, 1<<20), Notes: map[string]string{}}
	f(g)
	g.out.Flush()
	of.Close()
	for k, v := range g.Notes {
		fmt.Printf("NOTE %s %s\n", k, v)
	}
	fmt.Printf("CASES %d\n", g.Cases)
}
