// DUAL: harness/v1/c15.go is generated from this file by harness/sync.sh (import paths only).
package main

import (
	"bytes"
	"errors"
	"fmt"
	"sort"
	"strings"
	"text/template"

	"k8s.io/gengo/generator"
	"k8s.io/gengo/namer"
	"k8s.io/gengo/types"
)

func init() { register("C15", c15) }

const c15ver = 1

type recWriter struct{ chunks []string }

func (w *recWriter) Write(p []byte) (int, error) { w.chunks = append(w.chunks, string(p)); return len(p), nil }

var c15Templates = []struct{ src, cls string }{
	{"hello L.nameR!", "valid"},
	{"L.type|rawR and L.type|publicR", "namer-call"},
	{"Lrange .listR[L.R]LendR", "valid"},
	{"Lif .flagRyesLelseRnoLendR tail", "valid"},
	{"plain text only", "valid"},
	{"", "valid"},
	{"type L.type|privateR struct{}", "namer-call"},
	{"L.name", "parse-error"},
	{"LendR", "parse-error"},
	{"L.type|nosuchfuncR", "parse-error"},
	{"ok L.nameR Lindex .list 99R tail", "exec-error"},
	{"head L.name|rawR tail", "exec-error"},
	{"a L.nameR b L.type|rawR c Lindex .list 7R", "exec-error"},
	// each snippet is a template of its own: what one defines is not visible to a later one
	{"Ldefine \"h\"RhelperLendRa:Ltemplate \"h\"R;", "defines-template"},
	{"b:Ltemplate \"h\"R;", "uses-undefined-template"},
	{"Lblock \"h\" .Rdefault-LendRc;", "defines-template"},
	// a key the data map does not have: text/template prints "<no value>" and goes on
	{"func L.nameR() { return L.valueR } // L.commentR", "missing-key"},
	// written with nil data: dot is nil, not an empty map
	{"dot=L.R;", "nil-data"},
	{"n=Llen .R items", "nil-data"},
}

func (g *Gen) c15namers() (namer.NameSystems, []string) {
	all := []string{"raw", "public", "private"}
	ns := namer.NameSystems{}
	var names []string
	for _, n := range all {
		if g.Chance(0.75) {
			names = append(names, n)
			switch n {
			case "raw":
				ns[n] = namer.NewRawNamer("", nil)
			case "public":
				ns[n] = namer.NewPublicNamer(1)
			default:
				ns[n] = namer.NewPrivateNamer(0)
			}
		}
	}
	return ns, names
}

func c15errS(err error, tmplOp map[error]int) string {
	if err == nil {
		return list()
	}
	var fe fwErr
	if errors.As(err, &fe) {
		return tag("writer", num(fe.id))
	}
	if op, ok := tmplOp[err]; ok { // keyed by the error value itself (identity), not its text
		return tag("tmpl", num(op))
	}
	return tag("?unclassified?", atom(err.Error()))
}

func c15(g *Gen) {
	n := g.N(600, 20000)
	// an empty delimiter means text/template's default for THAT side
	delims := [][2]string{{"$", "$"}, {"{{", "}}"}, {"@", "@"}, {"<<", ">>"}, {"$", ""}, {"", "@"}, {"", ""}}
	for i := 0; i < n; i++ {
		ns, nsNames := g.c15namers()
		d := delims[g.R.Intn(len(delims))]
		if i%9 == 4 {
			d = delims[4+(i/9)%3]
		}
		srcL, srcR := d[0], d[1]
		if srcL == "" {
			srcL = "{{"
		}
		if srcR == "" {
			srcR = "}}"
		}
		ty := &types.Type{Name: types.Name{Package: "ex.test/pkg", Name: "Foo"}, Kind: types.Struct}
		data := map[string]interface{}{"type": ty, "name": "x", "list": []int{1, 2, 3}, "flag": g.Chance(0.5)}
		funcs := template.FuncMap{}
		for k, v := range ns {
			funcs[k] = v.Name
		}
		// writers: writer 0 plus up to 2 more for Dup
		nw := 1 + g.R.Intn(3)
		var ws []*faultyWriter
		var wsS []string
		for k := 0; k < nw; k++ {
			fa := 1000
			if g.Chance(0.45) {
				fa = g.R.Intn(6)
			}
			w := &faultyWriter{failAt: fa, part: g.R.Intn(3), eid: 10 * (k + 1)}
			ws = append(ws, w)
			wsS = append(wsS, list(num(w.failAt), num(w.part), num(w.eid)))
		}
		ctx := &generator.Context{Namers: ns}
		sws := []*generator.SnippetWriter{generator.NewSnippetWriter(ws[0], ctx, d[0], d[1])}
		swW := []int{0}
		nops := 1 + g.R.Intn(g.N(8, 20))
		var opsS, dumps []string
		cls := []string{"chain", fmt.Sprintf("namers-%d", len(nsNames)), "delim-" + d[0]}
		if (d[0] == "") != (d[1] == "") {
			cls = append(cls, "one-delimiter-empty")
		}
		tmplOp := map[error]int{}
		firstErr := map[int]string{}
		stable := true
		for k := 0; k < nops; k++ {
			si := g.R.Intn(len(sws))
			kind := "do"
			if c15ver == 2 {
				kind = g.Pick([]string{"do", "do", "do", "append", "merge", "dup"})
			}
			forceMissingKey := k == 0 && i%7 == 3
			forceNilData := k == 0 && i%7 == 5
			if forceMissingKey || forceNilData {
				kind = "do"
			}
			switch kind {
			case "do":
				t := c15Templates[g.R.Intn(len(c15Templates))]
				if forceMissingKey {
					t = c15Templates[len(c15Templates)-3]
				}
				if forceNilData {
					t = c15Templates[len(c15Templates)-1-(i/7)%2]
				}
				var dd interface{} = data
				if t.cls == "nil-data" {
					dd = nil
				}
				src := strings.NewReplacer("L", srcL, "R", srcR).Replace(t.src)
				// the oracle: text/template invoked directly
				rec := &recWriter{}
				parseErr, execErr := false, false
				tm, err := template.New("oracle").Delims(d[0], d[1]).Funcs(funcs).Parse(src)
				if err != nil {
					parseErr = true
				} else if err := tm.Execute(rec, dd); err != nil {
					execErr = true
				}
				tc := t.cls
				if strings.HasSuffix(tc, "-template") || tc == "nil-data" {
					// keep the class
				} else if parseErr {
					tc = "parse-error"
				} else if execErr {
					tc = "exec-error"
				}
				cls = append(cls, "tmpl-"+tc)
				before := sws[si].Error()
				sws[si].Do(src, dd)
				if after := sws[si].Error(); before == nil && after != nil {
					var fe fwErr
					if !errors.As(after, &fe) {
						tmplOp[after] = k
					}
				}
				opsS = append(opsS, tag("do", num(si), list(boolS(parseErr), atoms(rec.chunks), boolS(execErr))))
			case "append":
				content := g.Pick([]string{"", "APPENDED;", "xyz"})
				c15Append(sws[si], bytes.NewBufferString(content))
				opsS = append(opsS, tag("append", num(si), atom(content)))
				cls = append(cls, "op-append")
			case "merge":
				content := g.Pick([]string{"", "MERGED;", "m"})
				oj := g.R.Intn(len(sws))
				c15Merge(sws[si], bytes.NewBufferString(content), sws[oj])
				opsS = append(opsS, tag("merge", num(si), atom(content), num(oj)))
				cls = append(cls, "op-merge")
			case "dup":
				wi := g.R.Intn(len(ws))
				sws = append(sws, c15Dup(sws[si], ws[wi]))
				swW = append(swW, wi)
				opsS = append(opsS, tag("dup", num(si), num(wi)))
				cls = append(cls, "op-dup")
			}
			var logs, errs []string
			for _, w := range ws {
				logs = append(logs, atom(string(w.log)))
			}
			for j, s := range sws {
				e := s.Error()
				errs = append(errs, c15errS(e, tmplOp))
				if e != nil {
					if prev, ok := firstErr[j]; ok && prev != e.Error() {
						stable = false
					}
					if _, ok := firstErr[j]; !ok {
						firstErr[j] = e.Error()
						if strings.HasPrefix(c15errS(e, tmplOp), "(<119") {
							cls = append(cls, "writer-error")
						}
					}
				} else if _, ok := firstErr[j]; ok {
					stable = false
				}
			}
			dumps = append(dumps, list(list(logs...), list(errs...)))
		}
		sort.Strings(cls)
		var ucls []string
		for j, c := range cls {
			if j == 0 || cls[j-1] != c {
				ucls = append(ucls, c)
			}
		}
		g.Emit("C15.chain", list(list(wsS...), list(opsS...)), list(dumps...), ucls...)
		g.Emit("C15.err-stable!", list(list(wsS...), list(opsS...)), boolS(stable), "first-error-kept")
	}
	// Args.With / WithArgs: copy semantics and the clash rule
	for i := 0; i < g.N(200, 3000); i++ {
		keys := []string{"a", "b", "c", "type"}
		mk := func() (generator.Args, string) {
			a := generator.Args{}
			var it []string
			ks := append([]string{}, keys...)
			g.R.Shuffle(len(ks), func(x, y int) { ks[x], ks[y] = ks[y], ks[x] })
			ks = ks[:g.R.Intn(len(ks)+1)]
			sort.Strings(ks)
			for _, k := range ks {
				v := fmt.Sprintf("v%d", g.R.Intn(100))
				a[k] = v
				it = append(it, list(atom(k), atom(v)))
			}
			return a, list(it...)
		}
		render := func(a generator.Args) string {
			var ks []string
			for k := range a {
				ks = append(ks, k.(string))
			}
			sort.Strings(ks)
			var it []string
			for _, k := range ks {
				it = append(it, list(atom(k), atom(a[k].(string))))
			}
			return list(it...)
		}
		a, aS := mk()
		if g.Chance(0.15) {
			a, aS = nil, list() // a nil receiver
		}
		unchangedAfterMutation := func(r generator.Args, others ...generator.Args) (ok bool) {
			// extending the result must not reach the operands; changing an operand afterwards must not reach the result
			defer func() {
				if recover() != nil {
					ok = false
				}
			}()
			var before []string
			for _, o := range others {
				before = append(before, render(o))
			}
			r["zz-added-to-result"] = "1"
			for i, o := range others {
				if render(o) != before[i] {
					return false
				}
			}
			rs := render(r)
			for _, o := range others {
				if o != nil {
					o["zz-added-to-operand"] = "1"
				}
			}
			return render(r) == rs
		}
		if g.Chance(0.5) {
			k, v := g.Pick(keys), "new"
			r := a.With(k, v)
			cl := []string{"args-with"}
			if _, clash := a[k]; clash {
				cl = append(cl, "args-clash")
			}
			g.Emit("C15.args", list(num(c15ver), atom("with"), aS, list(atom(k), atom(v))), render(r), cl...)
			same := render(a) == aS
			g.Emit("C15.args-copy!", list(aS, atom(k)), boolS(same && unchangedAfterMutation(r, a)), "args-unchanged", "args-mutation-independent")
		} else {
			b, bS := mk()
			r := a.WithArgs(b)
			cl := []string{"args-withargs"}
			for k := range b {
				if _, clash := a[k]; clash {
					cl = append(cl, "args-clash")
					break
				}
			}
			g.Emit("C15.args", list(num(c15ver), atom("withargs"), aS, bS), render(r), cl...)
			same := render(a) == aS && render(b) == bS
			if len(a) == 0 {
				cl = append(cl, "args-empty-receiver")
			}
			g.Emit("C15.args-copy!", list(aS, bS), boolS(same && unchangedAfterMutation(r, a, b)), append(cl, "args-unchanged", "args-mutation-independent")...)
		}
	}
}
