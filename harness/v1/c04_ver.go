package main

import (
	"bytes"
	"io"
	"os"
	"path/filepath"

	"k8s.io/gengo/args"
	"k8s.io/gengo/generator"
)

func c04RunTarget(ctx *generator.Context, t *recTarget, base, realDir string) error {
	return ctx.ExecutePackage(base, t)
}

func c04RunTargets(ctx *generator.Context, ts []*recTarget, base string) error {
	var tl generator.Packages
	for _, t := range ts {
		tl = append(tl, t)
	}
	return ctx.ExecutePackages(base, tl)
}

func c13assemble(g *Gen) {
	work := os.Getenv("VERIF_WORK")
	dir := filepath.Join(work, "c13asm")
	os.MkdirAll(dir, 0755)
	defer os.RemoveAll(dir)
	ft := generator.NewGolangFile()
	c13assembleCases(g, dir, func(f *generator.File, p string) error { return ft.AssembleFile(f, p) }, func(src []byte) ([]byte, error) { return generator.ImportsWrapper(src) })
}

func c13assembleText(w *bytes.Buffer, f *generator.File) { generator.AssembleGolangFile(w, f) }

func c15Dup(s *generator.SnippetWriter, w io.Writer) *generator.SnippetWriter { panic("v1 has no Dup") }
func c15Append(s *generator.SnippetWriter, r io.Reader) error                 { panic("v1 has no Append") }
func c15Merge(s *generator.SnippetWriter, r io.Reader, o *generator.SnippetWriter) error {
	panic("v1 has no Merge")
}

func c09boilerplate(path, buildTag, genBy string) ([]byte, error) {
	a := args.Default()
	a.GoHeaderFilePath = path
	a.GeneratedByCommentTemplate = genBy
	return a.LoadGoBoilerplate()
}

func c09fileType() *generator.DefaultFileType { return generator.NewGolangFile() }

// c13mergedInit: v1's SnippetWriter has no Dup/Merge; never called (c04ver == 1)
func c13mergedInit(c *generator.Context, w io.Writer, text string) error { return nil }

// c09RunReal: one run of the library's own package type (DefaultPackage) with the given header slice
// (which may have spare capacity), package documentation and generators
func c09RunReal(ctx *generator.Context, name, path, base string, header, doc []byte, gens []generator.Generator) error {
	return ctx.ExecutePackage(base, &generator.DefaultPackage{PackageName: name, PackagePath: path, HeaderText: header, PackageDocumentation: doc, GeneratorList: gens})
}
