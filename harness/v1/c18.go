package main

import (
	"encoding/json"
	"fmt"
	"os"
	"path/filepath"
	"regexp"
	"sort"
	"strings"

	"k8s.io/gengo/args"
	ibgen "k8s.io/gengo/examples/import-boss/generators"
	"k8s.io/gengo/generator"
	"k8s.io/gengo/types"
)

func init() { register("C18", c18) }

var c18Imports = []string{"k8s.io/api/core/v1", "k8s.io/apimachinery/pkg/x", "example.com/internal/a", "example.com/b", "k8s.io/kubernetes/pkg/y", "fmt"}
var c18Selectors = []string{"k8s[.]io", "^k8s[.]io/(api|apimachinery)", ".*", "example", "internal", "^fmt$", "nomatch"}
var c18Prefixes = []string{"k8s.io/api", "k8s.io", "example.com", "example.com/internal", "", "fmt", "zzz"}

const c18Pkg = "ex.test/p"

type c18rule struct {
	Sel         string
	Allowed     []string
	Forbidden   []string
	Transitive  bool
	inverseRule bool
}

func (g *Gen) c18rule(inverse bool) c18rule {
	r := c18rule{Sel: g.Pick(c18Selectors), inverseRule: inverse}
	if inverse && g.Chance(0.4) {
		r.Sel = g.Pick([]string{"ex[.]test", ".*", "example", "q$"})
	}
	for i := g.R.Intn(3); i > 0; i-- {
		r.Allowed = append(r.Allowed, g.Pick(c18Prefixes))
	}
	for i := g.R.Intn(2); i > 0; i-- {
		r.Forbidden = append(r.Forbidden, g.Pick(c18Prefixes))
	}
	if inverse {
		r.Transitive = g.Chance(0.5)
		if g.Chance(0.5) {
			r.Allowed = append(r.Allowed, g.Pick([]string{"ex.test", "ex.test/q", "example.com"}))
		}
	}
	return r
}

func c18ruleSexp(r c18rule, universe []string) string {
	re := regexp.MustCompile(r.Sel)
	var sel []string
	for _, v := range universe {
		if re.MatchString(v) {
			sel = append(sel, v)
		}
	}
	return list(atoms(sel), atoms(r.Allowed), atoms(r.Forbidden), boolS(r.Transitive))
}

type c18file struct {
	Rules, Inverse []c18rule
}

func c18write(path string, f c18file, yamlStyle bool) {
	type rj struct {
		SelectorRegexp    string
		AllowedPrefixes   []string
		ForbiddenPrefixes []string
	}
	type irj struct {
		SelectorRegexp    string
		AllowedPrefixes   []string
		ForbiddenPrefixes []string
		Transitive        bool
	}
	var b strings.Builder
	if yamlStyle {
		q := func(s string) string { bs, _ := json.Marshal(s); return string(bs) }
		lst := func(indent string, name string, xs []string) {
			if len(xs) == 0 {
				return
			}
			fmt.Fprintf(&b, "%s%s:\n", indent, name)
			for _, x := range xs {
				fmt.Fprintf(&b, "%s- %s\n", indent, q(x))
			}
		}
		if len(f.Rules) > 0 {
			b.WriteString("rules:\n")
			for _, r := range f.Rules {
				fmt.Fprintf(&b, "- selectorRegexp: %s\n", q(r.Sel))
				lst("  ", "allowedPrefixes", r.Allowed)
				lst("  ", "forbiddenPrefixes", r.Forbidden)
			}
		}
		if len(f.Inverse) > 0 {
			b.WriteString("inverseRules:\n")
			for _, r := range f.Inverse {
				fmt.Fprintf(&b, "- selectorRegexp: %s\n", q(r.Sel))
				lst("  ", "allowedPrefixes", r.Allowed)
				lst("  ", "forbiddenPrefixes", r.Forbidden)
				fmt.Fprintf(&b, "  transitive: %v\n", r.Transitive)
			}
		}
		if b.Len() == 0 {
			b.WriteString("{}\n")
		}
	} else {
		out := struct {
			Rules        []rj
			InverseRules []irj
		}{}
		for _, r := range f.Rules {
			out.Rules = append(out.Rules, rj{r.Sel, r.Allowed, r.Forbidden})
		}
		for _, r := range f.Inverse {
			out.InverseRules = append(out.InverseRules, irj{r.Sel, r.Allowed, r.Forbidden, r.Transitive})
		}
		bs, _ := json.MarshalIndent(out, "", "  ")
		b.Write(bs)
	}
	if err := os.WriteFile(path, []byte(b.String()), 0644); err != nil {
		panic(err)
	}
}

// c18parse turns import-boss's error text into the canonical observable.
func c18parse(err error) string {
	if err == nil {
		return tag("ok")
	}
	msg := err.Error()
	stage := "rules"
	if strings.Contains(msg, "(inverse):") {
		stage = "inverse"
	}
	var forb, mism []string
	forbMap := map[string]string{}
	inList := false
	for _, line := range strings.Split(msg, "\n") {
		l := strings.TrimPrefix(line, "(inverse): ")
		switch {
		case strings.HasPrefix(l, "import ") && strings.Contains(l, " has forbidden prefix "):
			rest := strings.TrimPrefix(l, "import ")
			i := strings.Index(rest, " has forbidden prefix ")
			forbMap[rest[:i]] = rest[i+len(" has forbidden prefix "):]
			inList = false
		case strings.HasPrefix(l, "the following imports did not match any allowed prefix:"):
			inList = true
		case inList && strings.HasPrefix(line, "  "):
			mism = append(mism, line[2:])
		case strings.TrimSpace(line) == "" || strings.HasPrefix(line, "some packages had errors") || strings.HasPrefix(line, "errors in package"):
		default:
			// a failure in a wording not known here: matches any failing verdict of the model
			// (lines sorted: import-boss reports in map order)
			ls := strings.Split(msg, "\n")
			sort.Strings(ls)
			return tag("?unclassified?", atom(strings.Join(ls, "\n")))
		}
	}
	var fk []string
	for k := range forbMap {
		fk = append(fk, k)
	}
	sort.Strings(fk)
	for _, k := range fk {
		forb = append(forb, list(atom(k), atom(forbMap[k])))
	}
	sort.Strings(mism)
	return tag(stage, list(list(forb...), atoms(mism)))
}

func c18graphSexp(graph map[string][]string) string {
	var ks []string
	for k := range graph {
		ks = append(ks, k)
	}
	sort.Strings(ks)
	var it []string
	for _, k := range ks {
		it = append(it, list(atom(k), atoms(graph[k])))
	}
	return list(it...)
}

func c18universe(graph map[string][]string, srcDirs map[string]string) types.Universe {
	u := types.Universe{}
	for p, imps := range graph {
		pk := u.Package(p)
		pk.Name = "p"
		pk.SourcePath = srcDirs[p]
		for _, i := range imps {
			pk.Imports[i] = u.Package(i)
		}
	}
	return u
}

func c18(g *Gen) {
	work := os.Getenv("VERIF_WORK")
	if work == "" {
		panic("VERIF_WORK not set")
	}
	root := filepath.Join(work, "c18")
	// ---- exhaustive: TransitiveIncomingImports on every digraph with <= 3 (quick) / 4 (thorough) nodes
	maxN := g.N(3, 4)
	nodes := []string{"n/a", "n/b", "n/c", "n/d"}
	for n := 1; n <= maxN; n++ {
		pairs := n * n
		for mask := 0; mask < 1<<uint(pairs); mask++ {
			graph := map[string][]string{}
			for i := 0; i < n; i++ {
				graph[nodes[i]] = nil
				for j := 0; j < n; j++ {
					if mask&(1<<uint(i*n+j)) != 0 {
						graph[nodes[i]] = append(graph[nodes[i]], nodes[j])
					}
				}
			}
			ctx := &generator.Context{Universe: c18universe(graph, nil)}
			c18closureCase(g, ctx, graph, "exhaustive-digraphs")
		}
	}
	// ---- fixed: a package with 3 (5, 6, 7) direct importers and one indirect one (slices with spare capacity)
	for _, nd := range []int{3, 5, 6, 7} {
		graph := map[string][]string{"x": nil, "a/indirect": {"m/d0"}}
		for k := 0; k < nd; k++ {
			graph[fmt.Sprintf("m/d%d", k)] = []string{"x"}
		}
		ctx := &generator.Context{Universe: c18universe(graph, nil)}
		c18closureCase(g, ctx, graph, "several-direct-one-indirect")
	}
	// ---- random: rule stacks on real directory trees + universes
	n := g.N(250, 5000)
	for i := 0; i < n; i++ {
		// import graph
		universe := append([]string{c18Pkg, "ex.test/q", "ex.test/r/s"}, c18Imports...)
		graph := map[string][]string{}
		for _, p := range universe {
			graph[p] = nil
			for _, q := range universe {
				if p != q && g.Chance(0.22) {
					graph[p] = append(graph[p], q)
				}
			}
		}
		chain := g.Chance(0.45)
		if chain {
			// an indirect importer: r/s -> q -> p (and nothing else importing p directly from r/s)
			graph["ex.test/q"] = append(graph["ex.test/q"], c18Pkg)
			graph["ex.test/r/s"] = append(graph["ex.test/r/s"], "ex.test/q")
			var keep []string
			for _, x := range graph["ex.test/r/s"] {
				if x != c18Pkg {
					keep = append(keep, x)
				}
			}
			graph["ex.test/r/s"] = keep
		}
		// directory levels from the package dir upwards
		depth := 1 + g.R.Intn(4)
		type lvl struct {
			name  string
			file  *c18file
			gomod bool
			yaml  bool
		}
		var levels []lvl
		for d := 0; d < depth; d++ {
			l := lvl{name: g.Pick([]string{"a", "b", "pkg", "x", "src", "p"}), gomod: g.Chance(0.15), yaml: g.Chance(0.5)}
			if g.Chance(0.6) {
				f := &c18file{}
				for k := g.R.Intn(3); k > 0; k-- {
					f.Rules = append(f.Rules, g.c18rule(false))
				}
				ninv := g.R.Intn(3)
				if chain {
					ninv = 1 + g.R.Intn(4)
				}
				for k := ninv; k > 0; k-- {
					r := g.c18rule(true)
					if chain && g.Chance(0.6) {
						r.Sel = g.Pick([]string{"ex[.]test", ".*", "^ex[.]test/r"})
					}
					f.Inverse = append(f.Inverse, r)
				}
				l.file = f
			}
			levels = append(levels, l)
		}
		levels = append(levels, lvl{name: "top", gomod: true}) // the tree always has a stopping directory
		dir := filepath.Join(root, fmt.Sprintf("t%d", i))
		cls := []string{"verify"}
		if chain {
			cls = append(cls, "indirect-importer-chain")
		}
		stopAt := -1
		for d := len(levels) - 1; d >= 0; d-- {
			dir = filepath.Join(dir, levels[d].name)
		}
		// dir is now the package directory (levels[0]); create and populate upwards
		if err := os.MkdirAll(dir, 0755); err != nil {
			panic(err)
		}
		cur := dir
		var lv []string
		for d, l := range levels {
			fs := list()
			if l.file != nil {
				c18write(filepath.Join(cur, ".import-restrictions"), *l.file, l.yaml)
				var rs, irs []string
				for _, r := range l.file.Rules {
					rs = append(rs, c18ruleSexp(r, universe))
				}
				for _, r := range l.file.Inverse {
					irs = append(irs, c18ruleSexp(r, universe))
				}
				fs = list(list(list(rs...), list(irs...)))
				if stopAt >= 0 {
					cls = append(cls, "file-above-stop")
				}
				if d > 0 && stopAt < 0 {
					cls = append(cls, "ancestor-file")
				}
			}
			if l.gomod {
				os.WriteFile(filepath.Join(cur, "go.mod"), []byte("module x\n"), 0644)
			}
			if stopAt < 0 && (l.gomod || l.name == "src") {
				stopAt = d
				if l.name == "src" {
					cls = append(cls, "stop-at-src")
				} else if d < len(levels)-1 {
					cls = append(cls, "stop-at-gomod")
				}
			}
			lv = append(lv, list(atom(l.name), fs, boolS(l.gomod)))
			cur = filepath.Dir(cur)
		}
		for k, v := range graph {
			seen := map[string]bool{}
			var d []string
			for _, x := range v {
				if !seen[x] {
					seen[x] = true
					d = append(d, x)
				}
			}
			graph[k] = d
		}
		in := list(list(lv...), c18graphSexp(graph), atom(c18Pkg))
		ctx := &generator.Context{Universe: c18universe(graph, map[string]string{c18Pkg: dir})}
		pkgs := ibgen.Packages(ctx, &args.GeneratorArgs{InputDirs: []string{c18Pkg}})
		err := ctx.ExecutePackages(filepath.Join(root, "out"), pkgs)
		out := c18parse(err)
		if strings.HasPrefix(out, "(<114 117") {
			cls = append(cls, "rules-fail")
		} else if strings.HasPrefix(out, "(<105 110") {
			cls = append(cls, "inverse-fail")
		} else {
			cls = append(cls, "pass")
		}
		// same verdict on repeated runs (map iteration order)
		stable := true
		for r := 0; r < 4; r++ {
			ctx2 := &generator.Context{Universe: c18universe(graph, map[string]string{c18Pkg: dir})}
			pk2 := ibgen.Packages(ctx2, &args.GeneratorArgs{InputDirs: []string{c18Pkg}})
			if c18parse(ctx2.ExecutePackages(filepath.Join(root, "out"), pk2)) != out {
				stable = false
			}
		}
		g.Emit("C18.verify", in, out, cls...)
		g.Emit("C18.stable!", in, boolS(stable), "verdict-repeat")
		if i%5 == 0 {
			c18closureCase(g, ctx, graph, "random-graphs")
		}
		os.RemoveAll(filepath.Join(root, fmt.Sprintf("t%d", i)))
	}
	os.RemoveAll(root)
	c18fresh(g)
}

func c18closureCase(g *Gen, ctx *generator.Context, graph map[string][]string, cls string) {
	tc := ctx.TransitiveIncomingImports()
	var ks []string
	for k := range tc {
		ks = append(ks, k)
	}
	sort.Strings(ks)
	var it []string
	for _, k := range ks {
		it = append(it, list(atom(k), atoms(tc[k])))
	}
	g.Emit("C18.closure", c18graphSexp(graph), list(it...), cls)
	// the direct importers, asked for AFTER the closure was computed from them: still the direct ones
	inc := ctx.IncomingImports()
	var qs []string
	for q := range inc {
		qs = append(qs, q)
	}
	sort.Strings(qs)
	var di []string
	for _, q := range qs {
		v := append([]string{}, inc[q]...)
		sort.Strings(v)
		di = append(di, list(atom(q), atoms(v)))
	}
	g.Emit("C18.incoming", c18graphSexp(graph), list(di...), cls, "direct-importers-after-closure")
}
