// DUAL: harness/v1/c04.go is generated from this file by harness/sync.sh (import paths only).
// C04 (protocol), C13 (failures): recording generators/targets/file types driven by data.
package main

import (
	"errors"
	"fmt"
	"io"
	"os"
	"path/filepath"
	"regexp"
	"sort"
	"strconv"
	"strings"

	"k8s.io/gengo/generator"
	"k8s.io/gengo/namer"
	"k8s.io/gengo/types"
)

func init() { register("C04", c04); register("C13", c13) }

const c04ver = 1

type recGen struct {
	name         string
	filter       map[int]bool
	filterL      []int
	namers       []string
	namersNil    bool
	fileType     string
	fileName     string
	vars         []string
	consts       []string
	initOut      string
	initErr      bool
	typeOut      string
	typeErr      int // -1: none
	finOut       string
	finErr       bool
	imports      []string
	silent       bool
	initViaMerge bool // (v2) Init fails through a merged snippet writer; for the model: an Init error
	log          *[]string
	own          namer.NameSystems // what the Namers hook returned
	nsAtInit     string            // the naming systems visible in Init
}

func tid(t *types.Type) int { n, _ := strconv.Atoi(t.Name.Name); return n }
func ids(ts []*types.Type) string {
	var it []string
	for _, t := range ts {
		it = append(it, num(tid(t)))
	}
	return list(it...)
}

// nsKeys: the visible naming systems by name, each marked with whose it is -- the generator's own (the very
// object its Namers hook returned) or the context's
func nsKeys(ns namer.NameSystems, own namer.NameSystems) string {
	var ks []string
	for k, v := range ns {
		if o, ok := own[k]; ok && o == v {
			ks = append(ks, k+"=own")
		} else {
			ks = append(ks, k+"=ctx")
		}
	}
	sort.Strings(ks)
	return atoms(ks)
}

// recScramble: every Finalize hook reverses, in place, the Order of the context it was handed
var recScramble = false

// recViaWriteString: the hooks emit their text with io.WriteString (which uses the destination's
// WriteString method when it has one) instead of Write
var recViaWriteString = false

// recWrapTracker: the hooks wrap the writer they are handed in an ErrorTracker of their own (as
// generators commonly do) and write through that, unchecked
var recWrapTracker = false

func recEmit(w io.Writer, s string) {
	switch {
	case recWrapTracker:
		generator.NewErrorTracker(w).Write([]byte(s))
	case recViaWriteString:
		io.WriteString(w, s)
	default:
		w.Write([]byte(s))
	}
}

func (g *recGen) Name() string { return g.name }
func (g *recGen) Filter(c *generator.Context, t *types.Type) bool {
	*g.log = append(*g.log, tag("filter", atom(g.name), ids(c.Order), num(tid(t))))
	return g.filter[tid(t)]
}
func (g *recGen) Namers(c *generator.Context) namer.NameSystems {
	*g.log = append(*g.log, tag("namers", atom(g.name), ids(c.Order)))
	if g.namersNil {
		return nil
	}
	ns := namer.NameSystems{}
	for _, n := range g.namers {
		ns[n] = namer.NewRawNamer("", nil)
	}
	g.own = ns
	return ns
}
func (g *recGen) PackageVars(c *generator.Context) []string {
	*g.log = append(*g.log, tag("vars", atom(g.name), nsKeys(c.Namers, g.own)))
	return g.vars
}
func (g *recGen) PackageConsts(c *generator.Context) []string {
	*g.log = append(*g.log, tag("consts", atom(g.name), nsKeys(c.Namers, g.own)))
	return g.consts
}
func (g *recGen) Init(c *generator.Context, w io.Writer) error {
	*g.log = append(*g.log, tag("init", atom(g.name), nsKeys(c.Namers, g.own), ids(c.Order)))
	g.nsAtInit = nsKeys(c.Namers, g.own)
	if g.initViaMerge {
		// the text goes through a snippet writer into which a failed side writer was merged: the
		// generator returns what the writer reports at the end, as documented
		if err := c13mergedInit(c, w, g.initOut); err != nil {
			return fmt.Errorf("HOOK:%s:0: %v", g.name, err)
		}
		return nil
	}
	recEmit(w, g.initOut)
	if g.initErr {
		return fmt.Errorf("HOOK:%s:0", g.name)
	}
	return nil
}
func (g *recGen) GenerateType(c *generator.Context, t *types.Type, w io.Writer) error {
	*g.log = append(*g.log, tag("type", atom(g.name), num(tid(t))))
	recEmit(w, g.typeOut+t.Name.Name)
	if g.typeErr == tid(t) {
		return fmt.Errorf("HOOK:%s:1", g.name)
	}
	return nil
}
func (g *recGen) Finalize(c *generator.Context, w io.Writer) error {
	*g.log = append(*g.log, tag("finalize", atom(g.name)))
	if recScramble {
		// the context a hook is handed is its own: what it does to the order it was given is nobody else's
		// business (the next generators and targets still see the canonical order)
		for a, b := 0, len(c.Order)-1; a < b; a, b = a+1, b-1 {
			c.Order[a], c.Order[b] = c.Order[b], c.Order[a]
		}
	}
	recEmit(w, g.finOut)
	if g.finErr {
		return fmt.Errorf("HOOK:%s:2", g.name)
	}
	return nil
}
func (g *recGen) Imports(c *generator.Context) []string {
	*g.log = append(*g.log, tag("imports", atom(g.name)))
	if now := nsKeys(c.Namers, g.own); g.nsAtInit != "" && now != g.nsAtInit {
		// every hook of a generator sees the same naming systems (its own included), Imports too
		*g.log = append(*g.log, tag("imports-sees-other-naming-systems", atom(g.name), now))
	}
	return g.imports
}
func (g *recGen) Filename() string { return g.fileName }
func (g *recGen) FileType() string { return g.fileType }

func (g *recGen) sexp() string {
	nm := list(atoms(g.namers))
	if g.namersNil {
		nm = list()
	}
	var fl []string
	for _, i := range g.filterL {
		fl = append(fl, num(i))
	}
	te := list()
	if g.typeErr >= 0 {
		te = list(num(g.typeErr))
	}
	return list(atom(g.name), list(fl...), nm, atom(g.fileType), atom(g.fileName), atoms(g.vars), atoms(g.consts),
		atom(g.initOut), boolS(g.initErr || g.initViaMerge), atom(g.typeOut), te, atom(g.finOut), boolS(g.finErr), atoms(g.imports))
}

type recTarget struct {
	name, path, dir string
	filter          map[int]bool
	filterL         []int
	header          string
	gens            []*recGen
	log             *[]string
}

func (t *recTarget) Name() string       { return t.name }
func (t *recTarget) Path() string       { return t.path }
func (t *recTarget) Dir() string        { return t.dir }
func (t *recTarget) SourcePath() string { return t.dir }
func (t *recTarget) Filter(c *generator.Context, ty *types.Type) bool {
	*t.log = append(*t.log, tag("tfilter", ids(c.Order), num(tid(ty))))
	return t.filter[tid(ty)]
}
func (t *recTarget) Header(filename string) []byte { return []byte(t.header) }
func (t *recTarget) Generators(c *generator.Context) []generator.Generator {
	var gs []generator.Generator
	for _, g := range t.gens {
		gs = append(gs, g)
	}
	return gs
}
func (t *recTarget) sexp(dirForModel string) string {
	var fl, gs []string
	for _, i := range t.filterL {
		fl = append(fl, num(i))
	}
	for _, g := range t.gens {
		gs = append(gs, g.sexp())
	}
	return list(atom(t.name), atom(t.path), atom(dirForModel), list(fl...), atom(t.header), list(gs...))
}

type recFileType struct {
	fails map[string]bool
	files *[]string
}

func (ft recFileType) AssembleFile(f *generator.File, path string) error {
	var imps []string
	for i := range f.Imports {
		imps = append(imps, i)
	}
	sort.Strings(imps)
	*ft.files = append(*ft.files, f.Name+"\x00"+list(atom(f.Name), atom(f.FileType), atom(string(f.Header)), atoms(imps), atom(f.Vars.String()), atom(f.Consts.String()), atom(f.Body.String())))
	if ft.fails[f.Name] {
		return fmt.Errorf("ASSEMBLE:%s:", f.Name)
	}
	return nil
}
func (ft recFileType) VerifyFile(f *generator.File, path string) error {
	return ft.AssembleFile(f, path)
}

var (
	reHook     = regexp.MustCompile(`HOOK:([^:\s]+):(\d)`)
	reAssemble = regexp.MustCompile(`ASSEMBLE:([^:\s]+):`)
	reNoType   = regexp.MustCompile(`generator "([^"]*)" must specify a file type`)
	reConflict = regexp.MustCompile(`file "([^"]*)" already has type "[^"]*", but generator "([^"]*)" wants`)
)

func c04errClass(err error) string {
	if err == nil {
		return list()
	}
	m := err.Error()
	switch {
	case strings.Contains(m, "no directory for target"):
		return list(tag("no-dir"))
	case reNoType.MatchString(m):
		return list(tag("no-filetype", atom(reNoType.FindStringSubmatch(m)[1])))
	case reConflict.MatchString(m):
		x := reConflict.FindStringSubmatch(m)
		return list(tag("conflict", atom(x[1]), atom(x[2])))
	case reHook.MatchString(m):
		x := reHook.FindStringSubmatch(m)
		w, _ := strconv.Atoi(x[2])
		return list(tag("hook", atom(x[1]), num(w)))
	case strings.Contains(m, "does not exist in the context"):
		return list(tag("unknown-filetype"))
	case reAssemble.MatchString(m):
		var fs []string
		for _, x := range reAssemble.FindAllStringSubmatch(m, -1) {
			fs = append(fs, x[1])
		}
		sort.Strings(fs)
		return list(tag("assemble", atoms(fs)))
	}
	return list(tag("?unclassified?", atom(m))) // an error, but not one of the wordings known here: matches any error the model predicts
}

type c04config struct {
	order     []int
	namers    []string
	fileTypes []string
	fails     []string
	targets   []*recTarget
}

func (g *Gen) c04gen(i int, ntypes int, hookFaults bool) *recGen {
	rg := &recGen{name: fmt.Sprintf("g%d", i), filter: map[int]bool{}, typeErr: -1}
	for t := 0; t < ntypes; t++ {
		if g.Chance(0.6) {
			rg.filter[t] = true
			rg.filterL = append(rg.filterL, t)
		}
	}
	switch g.R.Intn(4) {
	case 0:
		rg.namersNil = true
	case 1:
		rg.namers = []string{"raw"}
	case 2:
		rg.namers = []string{"mine" + rg.name}
	default:
		rg.namers = []string{"public", "extra"}
	}
	rg.fileType = g.Pick([]string{"rec", "rec", "rec", "rec", "rec2", "", "nope"})
	rg.fileName = g.Pick([]string{"a.go", "a.go", "b.go", "c.txt", "sub/d.go", "sub/d.go"})
	for k := g.R.Intn(3); k > 0; k-- {
		rg.vars = append(rg.vars, fmt.Sprintf("v%d_%d = 1", i, k))
	}
	for k := g.R.Intn(3); k > 0; k-- {
		rg.consts = append(rg.consts, fmt.Sprintf("c%d_%d = 2", i, k))
	}
	rg.initOut = fmt.Sprintf("// init %d\n", i)
	rg.typeOut = fmt.Sprintf("// g%d type ", i)
	rg.finOut = g.Pick([]string{"", fmt.Sprintf("// fin %d\n", i)})
	for k := g.R.Intn(3); k > 0; k-- {
		rg.imports = append(rg.imports, g.Pick([]string{"fmt", "os", "x \"ex.test/x\"", "k8s.io/api"}))
	}
	if g.Chance(0.2) {
		// contributes variables, constants and imports only: writes no byte of body
		rg.filter, rg.filterL = map[int]bool{}, nil
		rg.initOut, rg.finOut = "", ""
		rg.silent = true
		if len(rg.imports) == 0 {
			rg.imports = []string{"time"}
		}
	}
	if hookFaults && g.Chance(0.25) {
		switch g.R.Intn(3) {
		case 0:
			rg.initErr = true
		case 1:
			rg.typeErr = g.R.Intn(ntypes + 1)
		default:
			rg.finErr = true
		}
	}
	return rg
}

func (g *Gen) c04config(hookFaults bool) c04config {
	c := c04config{namers: []string{"raw", "public"}, fileTypes: []string{"rec", "rec2"}}
	if g.Chance(0.07) {
		c.fileTypes = nil // a context built by hand, without any registered file type: every file type is unknown
	}
	ntypes := g.R.Intn(5)
	for t := 0; t < ntypes; t++ {
		c.order = append(c.order, t)
	}
	g.R.Shuffle(len(c.order), func(i, j int) { c.order[i], c.order[j] = c.order[j], c.order[i] })
	if g.Chance(0.3) {
		c.fails = append(c.fails, g.Pick([]string{"a.go", "b.go", "c.txt"}))
	}
	nt := g.R.Intn(4)
	gi := 0
	for i := 0; i < nt; i++ {
		t := &recTarget{name: fmt.Sprintf("t%d", i), path: fmt.Sprintf("ex.test/t%d", i), dir: fmt.Sprintf("d%d", i), filter: map[int]bool{}, header: g.Pick([]string{"", "// header\n\n"})}
		if c04ver == 2 && g.Chance(0.08) {
			t.dir = ""
		}
		for ty := 0; ty < ntypes; ty++ {
			if g.Chance(0.7) {
				t.filter[ty] = true
				t.filterL = append(t.filterL, ty)
			}
		}
		ngens := g.R.Intn(5)
		if g.Chance(0.04) {
			ngens = 13 + g.R.Intn(8) // more generators than a small-slice sort keeps in order
		}
		for k := ngens; k > 0; k-- {
			t.gens = append(t.gens, g.c04gen(gi, ntypes, hookFaults))
			gi++
		}
		c.targets = append(c.targets, t)
	}
	return c
}

// c04run executes the configuration target by target (fresh logs), then all at once.
func c04run(g *Gen, c c04config, entry string, cls []string) {
	work := os.Getenv("VERIF_WORK")
	base := filepath.Join(work, "c04out")
	var orderT []*types.Type
	var orderS []string
	for _, i := range c.order {
		orderT = append(orderT, &types.Type{Name: types.Name{Package: "ex.test/types", Name: strconv.Itoa(i)}, Kind: types.Struct})
		orderS = append(orderS, num(i))
	}
	fails := map[string]bool{}
	for _, f := range c.fails {
		fails[f] = true
	}
	mkctx := func(log, files *[]string) *generator.Context {
		ns := namer.NameSystems{}
		for _, n := range c.namers {
			ns[n] = namer.NewRawNamer("", nil)
		}
		fts := map[string]generator.FileType{}
		for _, ft := range c.fileTypes {
			fts[ft] = recFileType{fails, files}
		}
		if len(c.fileTypes) == 0 && len(c.order)%2 == 0 {
			fts = nil
		}
		return &generator.Context{Namers: ns, Order: orderT, FileTypes: fts}
	}
	var tsexp, results []string
	anyErr := false
	total := 0
	seen := map[string]bool{}
	for _, t := range c.targets {
		var log, files []string
		t.log = &log
		for _, gg := range t.gens {
			gg.log = &log
			for _, k := range []string{"ft:" + gg.fileType, "fn:" + gg.fileName} {
				seen[k] = true
			}
		}
		ctx := mkctx(&log, &files)
		realDir := ""
		if t.dir != "" {
			realDir = filepath.Join(base, t.dir)
		}
		err := c04RunTarget(ctx, t, base, realDir)
		if err != nil {
			anyErr = true
		}
		ec := c04errClass(err)
		fs := ""
		if strings.Contains(ec, atom("?unclassified?")) {
			// an error in an unknown wording: whether the files written so far are specified depends on
			// which error it is; the files slot then matches anything
			fs = tag("??anything??", atoms(files))
		} else {
			sort.Strings(files)
			var it []string
			for _, f := range files {
				it = append(it, f[strings.Index(f, "\x00")+1:])
			}
			fs = list(it...)
		}
		total += len(log)
		results = append(results, list(list(log...), fs, ec))
		tsexp = append(tsexp, t.sexp(t.dir))
		for _, k := range []string{"no-dir", "no-filetype", "conflict", "hook", "unknown-filetype", "assemble"} {
			if strings.Contains(ec, atom(k)) {
				cls = append(cls, "err-"+k)
			}
		}
		if len(files) > 1 {
			cls = append(cls, "multi-file")
		}
	}
	for _, t := range c.targets {
		names := map[string]int{}
		for _, gg := range t.gens {
			names[gg.fileName]++
		}
		for _, n := range names {
			if n > 1 {
				cls = append(cls, "shared-file")
			}
		}
		for _, gg := range t.gens {
			if gg.silent {
				cls = append(cls, "silent-generator")
			}
			if strings.Contains(gg.fileName, "/") {
				cls = append(cls, "file-name-with-directory")
			}
		}
		if len(t.gens) >= 13 {
			cls = append(cls, "thirteen-or-more-generators")
		}
	}
	if len(c.fileTypes) == 0 {
		cls = append(cls, "context-without-file-types")
	}
	in := list(list(list(orderS...), atoms(c.namers), atoms(c.fileTypes), atoms(c.fails)), list(tsexp...))
	g.Emit(entry, in, list(list(results...), boolS(anyErr)), cls...)
	// all targets in one call: must run the same hooks in the same order and fail iff some target failed
	var log2, files2 []string
	for _, t := range c.targets {
		t.log = &log2
		for _, gg := range t.gens {
			gg.log = &log2
		}
	}
	err := c04RunTargets(mkctx(&log2, &files2), c.targets, base)
	g.Emit(entry+".continue!", list(in, atom(fmt.Sprint(err))), boolS((err != nil) == anyErr && len(log2) == total), "targets-continue")
	os.RemoveAll(base)
}

func c04(g *Gen) {
	n := g.N(700, 15000)
	for i := 0; i < n; i++ {
		recScramble = i%3 == 1
		cls := []string{"exec"}
		if recScramble {
			cls = append(cls, "hooks-reorder-the-order-they-were-handed")
		}
		c04run(g, g.c04config(i%4 == 0), "C04.exec", cls)
		recScramble = false
	}
}

// ---- C13 ----

type faultyWriter struct {
	log    []byte
	count  int
	failAt int
	part   int
	eid    int
}

type fwErr struct{ id int }

func (e fwErr) Error() string { return fmt.Sprintf("FW:%d", e.id) }

func (w *faultyWriter) Write(p []byte) (int, error) {
	defer func() { w.count++ }()
	if w.count < w.failAt {
		w.log = append(w.log, p...)
		return len(p), nil
	}
	n := w.part
	if n > len(p) {
		n = len(p)
	}
	w.log = append(w.log, p[:n]...)
	return n, fwErr{w.eid + w.count - w.failAt}
}

// the same writer, also offering WriteString (as *os.File, *bufio.Writer and *bytes.Buffer do)
type faultyStringWriter struct{ *faultyWriter }

func (w faultyStringWriter) WriteString(s string) (int, error) {
	return w.faultyWriter.Write([]byte(s))
}

func fwErrS(err error) string {
	if err == nil {
		return list()
	}
	var fe fwErr
	if errors.As(err, &fe) {
		return list(num(fe.id))
	}
	return list(tag("?unclassified?", atom(err.Error())))
}

func c13(g *Gen) {
	// (1) ErrorTracker over a writer failing at every write index (all positions, not sampled)
	chunks := []string{"ab", "", "cde", "f", "ghij", "k"}
	for nw := 0; nw <= 5; nw++ {
		for failAt := 0; failAt <= nw; failAt++ {
			for _, part := range []int{0, 1, 99} {
				ws := chunks[:nw]
				for _, viaString := range []bool{false, true} {
					fw := &faultyWriter{failAt: failAt, part: part, eid: 7}
					var dest io.Writer = fw
					cl := "through-Write"
					if viaString {
						dest, cl = faultyStringWriter{fw}, "through-io.WriteString"
					}
					et := generator.NewErrorTracker(dest)
					var rs []string
					for _, c := range ws {
						var n int
						var err error
						if viaString {
							n, err = io.WriteString(et, c)
						} else {
							n, err = et.Write([]byte(c))
						}
						rs = append(rs, list(num(n), fwErrS(err)))
					}
					g.Emit("C13.tracker", list(num(failAt), num(part), num(7), atoms(ws)), list(list(rs...), atom(string(fw.log)), fwErrS(et.Error())), "tracker", "fault-every-write-index", cl)
				}
			}
		}
	}
	// (1b) a SnippetWriter directly over the failing writer (no tracker in between): the failure of the
	// destination is an error of the snippet writer like any other -- reported by Error(), first one kept,
	// nothing written afterwards
	for nw := 1; nw <= 4; nw++ {
		for failAt := 0; failAt <= nw; failAt++ {
			for _, part := range []int{0, 1} {
				fw := &faultyWriter{failAt: failAt, part: part, eid: 7}
				sw := generator.NewSnippetWriter(fw, &generator.Context{Namers: namer.NameSystems{}}, "$", "$")
				texts := []string{"ab", "cde", "f", "ghij"}[:nw]
				for _, x := range texts {
					sw.Do(x, nil)
				}
				var problems []string
				err := sw.Error()
				switch {
				case failAt < nw && err == nil:
					problems = append(problems, fmt.Sprintf("write %d of %d failed, Error() is nil", failAt, nw))
				case failAt < nw && !strings.Contains(err.Error(), "FW:7"):
					problems = append(problems, fmt.Sprintf("write %d failed with FW:7, Error() is %q", failAt, err.Error()))
				case failAt >= nw && err != nil:
					problems = append(problems, "no write failed, Error() is "+err.Error())
				}
				if want := failAt + 1; failAt < nw && fw.count != want {
					problems = append(problems, fmt.Sprintf("the destination was written to %d times, the failure was at its call %d", fw.count, failAt))
				}
				g.Emit("C13.snippet-write!", list(num(nw), num(failAt), num(part), atom(strings.Join(problems, "; "))), boolS(len(problems) == 0), "snippet-writer-over-failing-destination")
			}
		}
	}
	// (2) executeBody over a failing writer, a fault at every write index and at every hook
	for ntypes := 0; ntypes <= 3; ntypes++ {
		var orderT []*types.Type
		var orderS []string
		for i := 0; i < ntypes; i++ {
			orderT = append(orderT, &types.Type{Name: types.Name{Package: "ex.test/types", Name: strconv.Itoa(i)}, Kind: types.Struct})
			orderS = append(orderS, num(i))
		}
		for hook := -1; hook <= ntypes+1; hook++ { // -1 none, 0 init, 1..ntypes type i-1, ntypes+1 finalize
			for failAt := 0; failAt <= ntypes+3; failAt++ {
				var log []string
				rg := &recGen{name: "g", typeErr: -1, initOut: "I;", typeOut: "T", finOut: "F;", log: &log, filter: map[int]bool{}, namersNil: true, fileType: "rec", fileName: "a.go"}
				switch {
				case hook == 0:
					rg.initErr = true
				case hook >= 1 && hook <= ntypes:
					rg.typeErr = hook - 1
				case hook == ntypes+1:
					rg.finErr = true
				}
				fw := &faultyWriter{failAt: failAt, part: 1, eid: 3}
				ctx := &generator.Context{Order: orderT, Namers: namer.NameSystems{}}
				var dest io.Writer = fw
				bodyCls := "through-Write"
				switch (hook + failAt + 3) % 3 {
				case 0:
					dest, recViaWriteString, bodyCls = faultyStringWriter{fw}, true, "through-io.WriteString"
				case 1:
					recWrapTracker, bodyCls = true, "through-a-tracker-of-the-hook's-own"
				}
				err := ctx.ExecuteBody(dest, rg)
				recViaWriteString, recWrapTracker = false, false
				out := list()
				if err != nil {
					if m := reHook.FindStringSubmatch(err.Error()); m != nil {
						w, _ := strconv.Atoi(m[2])
						out = tag("hook", num(w))
					} else if fe := fwErrS(err); fe != list() {
						out = tag("writer", fe[1:len(fe)-1])
					}
				}
				g.Emit("C13.body", list(rg.sexp(), list(orderS...), num(failAt), num(1), num(3)), list(atom(string(fw.log)), out), "body", "fault-every-hook", "fault-every-write-index", bodyCls)
			}
		}
	}
	// (3) hook failures inside full runs: every fallible hook of every generator of small configurations
	n := g.N(60, 800)
	for i := 0; i < n; i++ {
		c := g.c04config(false)
		c04run(g, c, "C13.exec", []string{"exec-nofault"})
		for _, t := range c.targets {
			for _, gg := range t.gens {
				for h := 0; h < 4; h++ {
					saved := *gg
					switch h {
					case 3:
						if c04ver != 2 {
							continue
						}
						gg.initViaMerge = true
					case 0:
						gg.initErr = true
					case 1:
						if len(c.order) == 0 {
							continue
						}
						gg.typeErr = c.order[g.R.Intn(len(c.order))]
					case 2:
						gg.finErr = true
					}
					hcls := []string{"exec-hook-fault", "fault-every-hook"}
					if h == 3 {
						hcls = append(hcls, "error-through-a-merged-snippet-writer")
					}
					c04run(g, c, "C13.exec", hcls)
					*gg = saved
				}
			}
		}
	}
	// (4) the real Go file type on disk: uncreatable path, unformattable content, good file
	c13assemble(g)
}
