// Generator of packages that deepcopy-gen accepts (C16, and the in-place regeneration of C12).
package main

import (
	"fmt"
	"strings"
)

type dcPkg struct {
	Path, Name string
	Src        string // file.go
	Doc        string // doc.go ("" = none)
	Types      []dcType
}

type dcType struct {
	Name       string
	Kind       string // struct, slice, map, basic, iface, impl, handwritten
	Generated  bool   // expected to get generated DeepCopy functions
	HandCopy   bool   // has hand-written DeepCopy/DeepCopyInto
	Comparable bool
}

type dcGen struct {
	g         *Gen
	pkgs      []dcPkg
	classes   map[string]bool
	arrayRefs bool // also generate array fields whose elements are pointers, slices or maps
}

var dcScalars = []string{"int", "string", "bool", "int64", "float64", "byte", "uint32", "int8", "rune"}

// field type expression in package index p; depth-limited
func (d *dcGen) fieldType(p int, depth int, self string) string {
	return d.fieldTypeI(p, depth, self, true)
}

func (d *dcGen) fieldTypeI(p int, depth int, self string, allowIface bool) string {
	g := d.g
	leaf := func() string {
		if g.Chance(0.55) {
			return g.Pick(dcScalars)
		}
		// a struct / defined type declared earlier (this or a lower package)
		var cands []string
		for q := 0; q <= p && q < len(d.pkgs); q++ {
			for _, t := range d.pkgs[q].Types {
				// only types that have deep-copy functions (generated or hand-written) or named interfaces
				if t.Kind == "impl" || !(t.Generated || t.HandCopy || t.Kind == "iface") || (t.Kind == "iface" && !allowIface) {
					continue
				}
				name := t.Name
				if q != p {
					name = d.pkgs[q].Name + "." + t.Name
					d.classes["cross-package"] = true
				}
				if t.Name == self {
					continue
				}
				cands = append(cands, name)
			}
		}
		if len(cands) == 0 {
			return g.Pick(dcScalars)
		}
		return cands[g.R.Intn(len(cands))]
	}
	if depth <= 0 || g.Chance(0.3) {
		return leaf()
	}
	switch g.R.Intn(6) {
	case 0:
		d.classes["pointer"] = true
		return "*" + d.fieldTypeI(p, depth-1, self, false) // deepcopy-gen does not support pointers to interfaces
	case 1:
		d.classes["slice"] = true
		return "[]" + d.fieldType(p, depth-1, self)
	case 2:
		d.classes["map"] = true
		return "map[" + g.Pick([]string{"string", "int", "int64", "bool"}) + "]" + d.fieldType(p, depth-1, self)
	case 3:
		// deepcopy-gen supports arrays as struct fields only
		if depth < 2 {
			return leaf()
		}
		if d.arrayRefs && g.Chance(0.5) {
			d.classes["array-of-references"] = true
			return fmt.Sprintf("[%d]", 1+g.R.Intn(3)) + g.Pick([]string{"*int", "[]string", "map[string]int"})
		}
		d.classes["array"] = true
		return fmt.Sprintf("[%d]", 1+g.R.Intn(3)) + g.Pick(dcScalars)
	case 4:
		d.classes["self-pointer"] = true
		if self != "" {
			return g.Pick([]string{"*", "[]", "map[string]*"}) + self
		}
		return leaf()
	default:
		return leaf()
	}
}

// dcFixedProgram: shapes worth having in every run, whatever the seed: a type with hand-written
// methods that is also copyable by assignment, directly in every kind of slot, and wrapped in a
// struct that is itself copyable by assignment
func dcFixedProgram(prefix string) []dcPkg {
	pk := dcPkg{Path: "ex.test/" + prefix + "d0", Name: "d0"}
	pk.Doc = "// +k8s:deepcopy-gen=package\n\n// Package d0 is generated test input.\npackage d0\n"
	pk.Src = `package d0

var HandCalls int

type HandA struct{ N int }

func (in *HandA) DeepCopyInto(out *HandA) {
	HandCalls++
	*out = *in
}

func (in *HandA) DeepCopy() *HandA {
	if in == nil {
		return nil
	}
	out := new(HandA)
	in.DeepCopyInto(out)
	return out
}

type Direct struct {
	F HandA
	P *HandA
	S []HandA
	M map[string]HandA
	N int
}

type Wrap struct {
	A HandA
	N int
}

type Nested struct {
	W Wrap
	P *int
	S []Wrap
	M map[string]Wrap
	Q *Wrap
}

type ArrRef struct {
	A [2]*int
	N int
}
`
	pk.Types = []dcType{{Name: "HandA", Kind: "handwritten", HandCopy: true}, {Name: "Direct", Kind: "struct", Generated: true},
		{Name: "Wrap", Kind: "struct", Generated: true}, {Name: "Nested", Kind: "struct", Generated: true},
		{Name: "ArrRef", Kind: "struct", Generated: true}}
	return []dcPkg{pk}
}

// dcForce makes the first package of the next generated program use a given tag layout, so that every
// run covers them whatever the seed: "no-tag" (no package tag, type-level opt-in), "detached" (the same
// with every type tag in a comment block of its own)
var dcForce = ""

// genDeepcopyProgram builds npk packages, package i may use types of packages < i.
// dcCrossed: package paths and package names sort in opposite orders
var dcCrossed = false

// dcSuffix: the import path of the first package ends with the whole import path of the second one
// (sigs.ex.test/x/d1 and ex.test/x/d1), and the second names a struct of the first behind a pointer, in a slice
// and as a map value -- so its generated file must import the first
var dcSuffix = false

// dcEmbedded: structs whose only reference-holding member is an embedded one, used in nested positions
var dcEmbedded = false

func (g *Gen) genDeepcopyProgram(prefix string, npk int, arrayRefs bool) ([]dcPkg, []string) {
	d := &dcGen{g: g, classes: map[string]bool{}, arrayRefs: arrayRefs}
	for p := 0; p < npk; p++ {
		pk := dcPkg{Path: fmt.Sprintf("ex.test/%sd%d", prefix, p), Name: fmt.Sprintf("d%d", p)}
		if dcCrossed {
			// the packages are processed in path order (a/.., b/.., c/..) while the generator's names for
			// their types (last directory + "_" + type name) sort differently: the first package's last
			// (z0_...), the others' before nearly everything else in the universe (A1_... < Array_...,
			// B2_... < Map_... < bool)
			leaf := []string{"z0", "A1", "B2"}[p]
			pk.Path = fmt.Sprintf("ex.test/%s%c/%s", prefix, 'a'+p, leaf)
			// ... and the package clause does not say the directory's name (an import line that is missing
			// cannot be guessed back from the identifier used in the code)
			pk.Name = "pk" + strings.ToLower(leaf)
		}
		if dcSuffix && p == 0 {
			pk.Path = fmt.Sprintf("sigs.ex.test/%sd1", prefix)
		}
		d.pkgs = append(d.pkgs, pk)
		cur := &d.pkgs[p]
		pkgTag := g.Chance(0.7)
		forced := p == 0 && dcForce != ""
		if forced {
			pkgTag = false
		}
		if pkgTag {
			cur.Doc = "// +k8s:deepcopy-gen=package\n\n// Package " + pk.Name + " is generated test input.\npackage " + pk.Name + "\n"
			d.classes["package-tag"] = true
		} else {
			d.classes["no-package-tag"] = true
		}
		var b strings.Builder
		// a named interface with a DeepCopy method and an implementation
		hasIface := g.Chance(0.5)
		if dcEmbedded && p == 0 {
			hasIface = true
		}
		if hasIface {
			b.WriteString("type Obj interface {\n\tDeepCopyObj() Obj\n\tGet() int\n}\n\n")
			b.WriteString("// +k8s:deepcopy-gen=false\ntype Impl struct{ V *int }\n\nfunc (i *Impl) Get() int { return *i.V }\nfunc (i *Impl) DeepCopyObj() Obj {\n\tif i == nil {\n\t\treturn nil\n\t}\n\tv := *i.V\n\treturn &Impl{V: &v}\n}\n\n")
			cur.Types = append(cur.Types, dcType{Name: "Obj", Kind: "iface"}, dcType{Name: "Impl", Kind: "impl"})
			d.classes["named-interface"] = true
			// ... and an implementation with value receivers (nonpointer-interfaces): the generator writes its DeepCopyObj
			fmt.Fprintf(&b, "// +k8s:deepcopy-gen=true\n// +k8s:deepcopy-gen:interfaces=%s.Obj\n// +k8s:deepcopy-gen:interfaces=%s.Obj\n// +k8s:deepcopy-gen:nonpointer-interfaces=true\ntype ValImpl struct {\n\tN int\n\tP *int\n}\n\nfunc (v ValImpl) Get() int { return v.N }\n\n", pk.Path, pk.Path)
			cur.Types = append(cur.Types, dcType{Name: "ValImpl", Kind: "struct", Generated: true})
			d.classes["value-implementation-of-interface"] = true
		}
		// a type with hand-written deep copy functions which count their calls
		if g.Chance(0.5) {
			b.WriteString("type Hand struct{ P *int }\n\nvar HandCalls int\n\nfunc (in *Hand) DeepCopyInto(out *Hand) {\n\tHandCalls++\n\t*out = *in\n\tif in.P != nil {\n\t\tv := *in.P\n\t\tout.P = &v\n\t}\n}\n\nfunc (in *Hand) DeepCopy() *Hand {\n\tif in == nil {\n\t\treturn nil\n\t}\n\tout := new(Hand)\n\tin.DeepCopyInto(out)\n\treturn out\n}\n\n")
			cur.Types = append(cur.Types, dcType{Name: "Hand", Kind: "handwritten", HandCopy: true})
			d.classes["hand-written"] = true
			if g.Chance(0.6) {
				// a type with hand-written deep copy functions that would also be copyable by assignment
				b.WriteString("type HandA struct{ N int }\n\nfunc (in *HandA) DeepCopyInto(out *HandA) {\n\tHandCalls++\n\t*out = *in\n}\n\nfunc (in *HandA) DeepCopy() *HandA {\n\tif in == nil {\n\t\treturn nil\n\t}\n\tout := new(HandA)\n\tin.DeepCopyInto(out)\n\treturn out\n}\n\n")
				cur.Types = append(cur.Types, dcType{Name: "HandA", Kind: "handwritten", HandCopy: true})
				d.classes["hand-written-assignable"] = true
			}
		}
		// in a package without the package tag: every type-level tag in a comment block of its own,
		// separated from the doc comment by a blank line
		detached := !pkgTag && g.Chance(0.4)
		if forced {
			detached = dcForce == "detached"
		}
		optedIn := false
		nt := 2 + g.R.Intn(4)
		for k := 0; k < nt; k++ {
			name := fmt.Sprintf("S%d", k)
			declKind := g.R.Intn(6)
			if forced && !optedIn && k == nt-1 {
				declKind = 5 // the forced layout needs at least one struct to carry the type-level tag
			}
			switch declKind {
			case 0:
				fmt.Fprintf(&b, "type %s []%s\n\n", fmt.Sprintf("L%d", k), d.fieldType(p, 1, ""))
				cur.Types = append(cur.Types, dcType{Name: fmt.Sprintf("L%d", k), Kind: "slice", Generated: pkgTag})
				d.classes["defined-slice"] = true
				continue
			case 1:
				fmt.Fprintf(&b, "type %s map[string]%s\n\n", fmt.Sprintf("M%d", k), d.fieldType(p, 1, ""))
				cur.Types = append(cur.Types, dcType{Name: fmt.Sprintf("M%d", k), Kind: "map", Generated: pkgTag})
				d.classes["defined-map"] = true
				continue
			}
			tagLine := ""
			gen := pkgTag
			switch {
			case pkgTag && g.Chance(0.2):
				tagLine = "// +k8s:deepcopy-gen=false\n"
				gen = false
				d.classes["type-opt-out"] = true
			case !pkgTag && (g.Chance(0.6) || forced && !optedIn):
				optedIn = true
				tagLine = "// +k8s:deepcopy-gen=true\n"
				gen = true
				d.classes["type-opt-in"] = true
				if detached {
					tagLine = "// +k8s:deepcopy-gen=true\n\n// " + name + " has its tag in a comment block of its own.\n"
					d.classes["type-opt-in-detached"] = true
				}
			}
			fmt.Fprintf(&b, "%stype %s struct {\n", tagLine, name)
			for f, nf := 0, 1+g.R.Intn(5); f < nf; f++ {
				fmt.Fprintf(&b, "\tF%d %s\n", f, d.fieldType(p, 2, name))
			}
			if hasIface && g.Chance(0.4) {
				b.WriteString("\tO Obj\n")
				d.classes["interface-field"] = true
			}
			b.WriteString("}\n\n")
			cur.Types = append(cur.Types, dcType{Name: name, Kind: "struct", Generated: gen})
		}
		if dcEmbedded && p == 0 {
			b.WriteString("// +k8s:deepcopy-gen=true\ntype EBase struct {\n\tLabels map[string]string\n}\n\n// +k8s:deepcopy-gen=true\ntype EItem struct {\n\tEBase\n\tN int\n}\n\n// +k8s:deepcopy-gen=true\ntype EPItem struct {\n\t*EBase\n\tN int\n}\n\n// +k8s:deepcopy-gen=true\ntype EUser struct {\n\tS []EItem\n\tM map[string]EPItem\n\tOne EItem\n\tP *EItem\n}\n\n")
			// ... and a struct holding an interface value, used as a field, an element, a map value and a pointee
			b.WriteString("// +k8s:deepcopy-gen=true\ntype EIfHolder struct {\n\tO Obj\n\tN int\n}\n\n// +k8s:deepcopy-gen=true\ntype EIfUser struct {\n\tF EIfHolder\n\tS []EIfHolder\n\tM map[string]EIfHolder\n\tP *EIfHolder\n}\n\n")
			d.classes["interface-field"] = true
			d.classes["struct-with-interface-field-in-nested-positions"] = true
			for _, n := range []string{"EBase", "EItem", "EPItem", "EUser", "EIfHolder", "EIfUser"} {
				cur.Types = append(cur.Types, dcType{Name: n, Kind: "struct", Generated: true})
			}
			d.classes["references-only-in-embedded-members"] = true
		}
		if dcSuffix && p == 0 {
			b.WriteString("// +k8s:deepcopy-gen=true\ntype SufLeaf struct {\n\tN int\n\tP *int\n}\n\n")
			cur.Types = append(cur.Types, dcType{Name: "SufLeaf", Kind: "struct", Generated: true})
		}
		if dcSuffix && p == 1 {
			fmt.Fprintf(&b, "// +k8s:deepcopy-gen=true\ntype SufUser struct {\n\tP *%s.SufLeaf\n\tS []%s.SufLeaf\n\tM map[string]%s.SufLeaf\n}\n\n", d.pkgs[0].Name, d.pkgs[0].Name, d.pkgs[0].Name)
			cur.Types = append(cur.Types, dcType{Name: "SufUser", Kind: "struct", Generated: true})
			d.classes["dependency-path-ends-with-the-package-path"] = true
		}
		var imports []string
		body := b.String()
		for q := 0; q < p; q++ {
			if strings.Contains(body, d.pkgs[q].Name+".") {
				imports = append(imports, d.pkgs[q].Path)
			}
		}
		var s strings.Builder
		fmt.Fprintf(&s, "package %s\n\n", pk.Name)
		for _, im := range imports {
			fmt.Fprintf(&s, "import %q\n", im)
		}
		s.WriteString("\n" + body)
		cur.Src = s.String()
	}
	var cls []string
	for c := range d.classes {
		cls = append(cls, "dc-"+c)
	}
	return d.pkgs, cls
}
