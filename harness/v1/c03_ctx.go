package main

import (
	"k8s.io/gengo/generator"
	"k8s.io/gengo/namer"
	"k8s.io/gengo/parser"
)

// c03context loads prog with the real loader and builds a generator.Context through NewContext.
func c03context(g *Gen, i int, prog []GenPkg, systems namer.NameSystems, order string) (*generator.Context, error) {
	b := parser.New()
	for _, gp := range prog {
		if err := b.AddFileForTest(gp.Path, gp.Path+"/file.go", []byte(gp.Src)); err != nil {
			return nil, err
		}
	}
	return generator.NewContext(b, systems, order)
}
