package main

import (
	"bytes"
	"fmt"
	"os"
	"os/exec"
	"path/filepath"
	"regexp"
	"sort"
	"strconv"
	"strings"

	"k8s.io/gengo/args"
	sgen "k8s.io/gengo/examples/set-gen/generators"
)

func init() { register("C17", c17) }

type c17type struct {
	set, elem string // sets.<set>, element Go type
	mk        string // Go expression building element number i
	id        string // Go expression giving the number of element e
}

var c17Types = []c17type{
	{"Int", "int", "i", "e"},
	{"Int64", "int64", "int64(i)", "int(e)"},
	{"Byte", "byte", "byte(i)", "int(e)"},
	{"String", "string", `fmt.Sprintf("k%02d", i)`, `atoi(e[1:])`},
	{"Pair", "keys.Pair", `keys.Pair{A: i / 3, B: string(rune('a' + i%3))}`, `e.A*3 + int(e.B[0]-'a')`},
	// FlattenMembers puts the struct's own members before the embedded ones: the order is C, X, Y
	{"Key", "keys.Key", `keys.Key{Inner: keys.Inner{X: (i / 2) % 2, Y: i % 2}, C: i / 4}`, `e.C*4 + e.X*2 + e.Y`},
	// two tagged keys, the second embedding the first, which embeds a struct of two fields: the
	// members of Ident are flattened twice in one run (for its own set, and again inside Port)
	{"Ident", "keys.Ident", `keys.Ident{Meta: keys.Meta{P: i / 3, Q: i % 3}}`, `e.P*3 + e.Q`},
	// an embedded field of a named scalar type: flattening keeps it (it is no struct), less must compare it
	{"NKey", "keys.NKey", `keys.NKey{NS: keys.NS(string(rune('a' + i/4))), Name: i % 4}`, `int(e.NS[0]-'a')*4 + e.Name`},
	{"Port", "keys.Port", `keys.Port{Ident: keys.Ident{Meta: keys.Meta{P: (i / 2) % 2, Q: i % 2}}, Number: i / 4}`, `e.Number*4 + e.P*2 + e.Q`},
}

const c17keys = `package keys

// Pair is a struct key with two ordered fields.
// +genset=true
type Pair struct {
	A int
	B string
}

type Inner struct{ X, Y int }

// Key embeds a struct: its members are flattened for the ordering.
// +genset=true
type Key struct {
	Inner
	C int
}

type Meta struct{ P, Q int }

// Ident is a key and is embedded in another key.
// +genset=true
type Ident struct{ Meta }

// +genset=true
type Port struct {
	Ident
	Number int
}

type NS string

// +genset=true
type NKey struct {
	NS
	Name int
}

// Plain mentions builtin types in both of their spellings (byte/uint8, rune/int32), and bool: one set per
// builtin element type that can be ordered, none for bool.
type Plain struct {
	OK bool
	B  []byte
	U  uint8
	R  rune
	I  int32
	F  float64
}

// NotAKey has no tag: no set is generated for it.
type NotAKey struct{ Z int }

// OptOut says so explicitly.
// +genset=false
type OptOut struct{ Z int }
`

const c17driverHead = `package main

import (
	"bufio"
	"fmt"
	"os"
	"sort"
	"strconv"
	"strings"

	"ex.test/regen/keys"
	"ex.test/regen/sets"
)

var _ = keys.Pair{}

func atoi(s string) int { n, _ := strconv.Atoi(s); return n }
func ints(xs []int) string {
	ss := make([]string, len(xs))
	for i, x := range xs {
		ss[i] = strconv.Itoa(x)
	}
	return strings.Join(ss, " ")
}

func main() {
	sc := bufio.NewScanner(os.Stdin)
	sc.Buffer(make([]byte, 1<<20), 1<<26)
	w := bufio.NewWriter(os.Stdout)
	defer w.Flush()
	for sc.Scan() {
		f := strings.SplitN(sc.Text(), " ", 3)
		nv := atoi(f[1])
		var ops []string
		if len(f) > 2 && f[2] != "" {
			ops = strings.Split(f[2], ";")
		}
		var out []string
		switch f[0] {
DISPATCH
		}
		fmt.Fprintln(w, strings.Join(out, "|"))
	}
}
`

const c17runner = `
func run_SET(nvars int, ops []string) []string {
	mk := func(i int) ELEM { return MK }
	id := func(e ELEM) int { return ID }
	vars := make([]sets.SET, nvars)
	for i := range vars {
		vars[i] = sets.NewSET()
	}
	var out []string
	for _, op := range ops {
		f := strings.Split(op, ",")
		n := func(k int) int { return atoi(f[k]) }
		items := func(from int) []ELEM {
			var xs []ELEM
			for _, s := range f[from:] {
				if s != "" {
					xs = append(xs, mk(atoi(s)))
				}
			}
			return xs
		}
		idl := func(l []ELEM) string {
			xs := make([]int, len(l))
			for i, e := range l {
				xs[i] = id(e)
			}
			return ints(xs)
		}
		res := ""
		switch f[0] {
		case "new":
			vars[n(1)] = sets.NewSET(items(2)...)
		case "keyset":
			m := map[ELEM]bool{}
			for _, x := range items(2) {
				m[x] = true
			}
			vars[n(1)] = sets.SETKeySet(m)
		case "zero":
			vars[n(1)] = nil // the zero value of the set type: an empty set
		case "insert":
			if vars[n(1)] == nil {
				vars[n(1)] = sets.NewSET() // Go cannot insert into the zero value (a nil map)
			}
			if r := vars[n(1)].Insert(items(2)...); len(r) != len(vars[n(1)]) {
				res = "insert-returned-other-set"
			}
		case "delete":
			vars[n(1)].Delete(items(2)...)
		case "has":
			res = fmt.Sprint("bool:", vars[n(1)].Has(mk(n(2))))
		case "hasall":
			res = fmt.Sprint("bool:", vars[n(1)].HasAll(items(2)...))
		case "hasany":
			res = fmt.Sprint("bool:", vars[n(1)].HasAny(items(2)...))
		case "clone":
			vars[n(1)] = vars[n(2)].Clone()
		case "alias":
			vars[n(1)] = vars[n(2)]
		case "diff":
			vars[n(1)] = vars[n(2)].Difference(vars[n(3)])
		case "symdiff":
			vars[n(1)] = vars[n(2)].SymmetricDifference(vars[n(3)])
		case "union":
			vars[n(1)] = vars[n(2)].Union(vars[n(3)])
		case "inter":
			vars[n(1)] = vars[n(2)].Intersection(vars[n(3)])
		case "superset":
			res = fmt.Sprint("bool:", vars[n(1)].IsSuperset(vars[n(2)]))
		case "equal":
			res = fmt.Sprint("bool:", vars[n(1)].Equal(vars[n(2)]))
		case "list":
			res = "list:" + idl(vars[n(1)].List())
		case "len":
			res = fmt.Sprint("len:", vars[n(1)].Len())
		case "popany":
			if k, ok := vars[n(1)].PopAny(); ok {
				res = fmt.Sprint("pop:", id(k))
			} else {
				res = "pop:none"
			}
		}
		var dump []string
		for _, v := range vars {
			xs := make([]int, 0, len(v))
			for _, e := range v.UnsortedList() {
				xs = append(xs, id(e))
			}
			sort.Ints(xs)
			dump = append(dump, ints(xs))
		}
		out = append(out, res+"#"+strings.Join(dump, "/"))
	}
	return out
}
`

func (g *Gen) c17seq(nvars, nelem, length int) []string {
	var ops []string
	v := func() int { return g.R.Intn(nvars) }
	items := func() string {
		var xs []string
		for k := g.R.Intn(4); k > 0; k-- {
			xs = append(xs, strconv.Itoa(g.R.Intn(nelem)))
		}
		return strings.Join(xs, ",")
	}
	// which variables hold the zero value (a nil map: Go cannot insert into it, and an insertion
	// that first allocates would not be seen through the variable's aliases)
	isNil := map[int]bool{}
	for len(ops) < length {
		k := len(ops)
		switch g.R.Intn(20) {
		case 19:
			x := v()
			isNil[x] = true
			ops = append(ops, fmt.Sprintf("zero,%d", x))
		case 0:
			ops = append(ops, fmt.Sprintf("new,%d,%s", v(), items()))
		case 1:
			ops = append(ops, fmt.Sprintf("keyset,%d,%s", v(), items()))
		case 2, 3, 4:
			if x := v(); isNil[x] {
				ops = append(ops, fmt.Sprintf("new,%d,%s", x, items()))
			} else {
				ops = append(ops, fmt.Sprintf("insert,%d,%s", x, items()))
			}
		case 5:
			ops = append(ops, fmt.Sprintf("delete,%d,%s", v(), items()))
		case 6:
			ops = append(ops, fmt.Sprintf("has,%d,%d", v(), g.R.Intn(nelem)))
		case 7:
			ops = append(ops, fmt.Sprintf("hasall,%d,%s", v(), items()))
		case 8:
			ops = append(ops, fmt.Sprintf("hasany,%d,%s", v(), items()))
		case 9:
			ops = append(ops, fmt.Sprintf("clone,%d,%d", v(), v()))
		case 10:
			ops = append(ops, fmt.Sprintf("alias,%d,%d", v(), v()))
		case 11:
			ops = append(ops, fmt.Sprintf("diff,%d,%d,%d", v(), v(), v()))
		case 12:
			ops = append(ops, fmt.Sprintf("symdiff,%d,%d,%d", v(), v(), v()))
		case 13:
			ops = append(ops, fmt.Sprintf("union,%d,%d,%d", v(), v(), v()))
		case 14:
			ops = append(ops, fmt.Sprintf("inter,%d,%d,%d", v(), v(), v()))
		case 15:
			ops = append(ops, fmt.Sprintf("superset,%d,%d", v(), v()))
		case 16:
			ops = append(ops, fmt.Sprintf("equal,%d,%d", v(), v()))
		case 17:
			ops = append(ops, fmt.Sprintf("list,%d", v()))
		default:
			if g.Chance(0.5) {
				ops = append(ops, fmt.Sprintf("len,%d", v()))
			} else {
				ops = append(ops, fmt.Sprintf("popany,%d", v()))
			}
		}
		if len(ops) > k {
			f := strings.Split(ops[k], ",")
			ai := func(s string) int { n, _ := strconv.Atoi(s); return n }
			switch f[0] {
			case "alias":
				isNil[ai(f[1])] = isNil[ai(f[2])]
			case "new", "keyset", "clone", "diff", "symdiff", "union", "inter":
				isNil[ai(f[1])] = false
			}
		}
	}
	return ops
}

// all single operations over 2 variables and 2 elements (for the exhaustive short sequences)
func c17allOps() []string {
	var ops []string
	for v := 0; v < 2; v++ {
		for x := 0; x < 2; x++ {
			ops = append(ops, fmt.Sprintf("insert,%d,%d", v, x), fmt.Sprintf("delete,%d,%d", v, x), fmt.Sprintf("has,%d,%d", v, x))
		}
		ops = append(ops, fmt.Sprintf("list,%d", v), fmt.Sprintf("len,%d", v), fmt.Sprintf("popany,%d", v), fmt.Sprintf("insert,%d,0,1", v), fmt.Sprintf("zero,%d", v))
		for a := 0; a < 2; a++ {
			ops = append(ops, fmt.Sprintf("clone,%d,%d", v, a))
			for b := 0; b < 2; b++ {
				for _, o := range []string{"diff", "symdiff", "union", "inter"} {
					ops = append(ops, fmt.Sprintf("%s,%d,%d,%d", o, v, a, b))
				}
			}
		}
	}
	for a := 0; a < 2; a++ {
		for b := 0; b < 2; b++ {
			ops = append(ops, fmt.Sprintf("superset,%d,%d", a, b), fmt.Sprintf("equal,%d,%d", a, b))
		}
	}
	return ops
}

var reGenBy = regexp.MustCompile(`// Code generated by [^.]+\. DO NOT EDIT\.`)

func c17(g *Gen) {
	gopath := os.Getenv("GOPATH")
	repo := os.Getenv("VERIF_REPO")
	src := filepath.Join(gopath, "src")
	os.MkdirAll(filepath.Join(src, "k8s.io"), 0755)
	os.Symlink(repo, filepath.Join(src, "k8s.io", "gengo"))
	os.MkdirAll(filepath.Join(src, "ex.test/regen/keys"), 0755)
	os.WriteFile(filepath.Join(src, "ex.test/regen/keys/keys.go"), []byte(c17keys), 0644)
	cwd, _ := os.Getwd()
	os.Chdir(src)
	defer os.Chdir(cwd)
	// 1. regenerate from the current templates
	a := args.Default().WithoutDefaultFlagParsing()
	a.InputDirs = []string{"k8s.io/gengo/examples/set-gen/sets/types", "ex.test/regen/keys"}
	a.OutputBase = src
	a.OutputPackagePath = "ex.test/regen/sets"
	a.GoHeaderFilePath = filepath.Join(repo, "boilerplate/boilerplate.go.txt")
	if err := a.Execute(sgen.NameSystems(), sgen.DefaultNameSystem(), sgen.Packages); err != nil {
		panic("set-gen failed: " + err.Error())
	}
	out := filepath.Join(src, "ex.test/regen/sets")
	// 2. the checked-in sets are what the generator currently produces; which element types got a set
	var problems []string
	for _, f := range []string{"byte.go", "int.go", "int64.go", "string.go", "empty.go", "doc.go"} {
		got, err1 := os.ReadFile(filepath.Join(out, f))
		want, err2 := os.ReadFile(filepath.Join(repo, "examples/set-gen/sets", f))
		if err1 != nil || err2 != nil {
			problems = append(problems, f+": missing")
			continue
		}
		norm := func(b []byte) []byte { return reGenBy.ReplaceAll(b, []byte("// Code generated by X. DO NOT EDIT.")) }
		if !bytes.Equal(norm(got), norm(want)) {
			problems = append(problems, "regenerated "+f+" differs from the checked-in file")
		}
	}
	ents, _ := os.ReadDir(out)
	var files []string
	for _, e := range ents {
		files = append(files, e.Name())
	}
	sort.Strings(files)
	if want := "byte.go doc.go empty.go float64.go ident.go int.go int32.go int64.go key.go nKey.go pair.go port.go string.go"; strings.Join(files, " ") != want {
		problems = append(problems, "generated files: "+strings.Join(files, " ")+" (accepted element types should give: "+want+")")
	}
	g.Emit("C17.regen!", list(atom(strings.Join(problems, "; "))), boolS(len(problems) == 0), "regenerated-vs-checked-in", "filter")
	// 3. compile a driver against the regenerated package and replay operation sequences
	var disp, runners strings.Builder
	for _, t := range c17Types {
		fmt.Fprintf(&disp, "\t\tcase %q:\n\t\t\tout = run_%s(nv, ops)\n", t.set, t.set)
		r := strings.NewReplacer("SET", t.set, "ELEM", t.elem, "MK", t.mk, "ID", t.id)
		runners.WriteString(r.Replace(c17runner))
	}
	drv := filepath.Join(src, "ex.test/regen/driver")
	os.MkdirAll(drv, 0755)
	os.WriteFile(filepath.Join(drv, "main.go"), []byte(strings.Replace(c17driverHead, "DISPATCH", disp.String(), 1)+runners.String()), 0644)
	type seq struct {
		typ   string
		nvars int
		ops   []string
		cls   []string
	}
	var seqs []seq
	all := c17allOps()
	for _, o1 := range all { // exhaustive: all sequences of length <= 2 over 2 variables x 2 elements (Int)
		seqs = append(seqs, seq{"Int", 2, []string{o1}, []string{"exhaustive-short"}})
		for _, o2 := range all {
			seqs = append(seqs, seq{"Int", 2, []string{o1, o2}, []string{"exhaustive-short"}})
			if g.Tier == "thorough" {
				for _, o3 := range all {
					if g.Chance(0.15) {
						seqs = append(seqs, seq{"Int", 2, []string{o1, o2, o3}, []string{"exhaustive-short"}})
					}
				}
			}
		}
	}
	for _, t := range c17Types {
		for i := 0; i < g.N(150, 5000); i++ {
			nv := 2 + g.R.Intn(3)
			seqs = append(seqs, seq{t.set, nv, g.c17seq(nv, 2+g.R.Intn(6), 1+g.R.Intn(30)), []string{"random", "type-" + t.set}})
		}
	}
	// every element inserted in a random order, then listed (keys that differ only in their last
	// field sit next to each other in the listing)
	for _, t := range c17Types {
		for i := 0; i < g.N(12, 200); i++ {
			var xs []string
			for _, x := range g.R.Perm(8) {
				xs = append(xs, strconv.Itoa(x))
			}
			half := strings.Join(xs[:4], ",")
			seqs = append(seqs, seq{t.set, 2, []string{"new,0," + strings.Join(xs, ","), "list,0", "clone,1,0", "delete,1," + half, "list,1", "insert,1," + half, "list,1"},
				[]string{"all-elements-listed", "type-" + t.set}})
		}
	}
	var in bytes.Buffer
	for _, s := range seqs {
		fmt.Fprintf(&in, "%s %d %s\n", s.typ, s.nvars, strings.Join(s.ops, ";"))
	}
	cmd := exec.Command("go", "run", "ex.test/regen/driver")
	cmd.Dir = src
	cmd.Env = append(os.Environ(), "GO111MODULE=off", "GOPATH="+gopath, "GOFLAGS=")
	cmd.Stdin = &in
	var stderr bytes.Buffer
	cmd.Stderr = &stderr
	outb, err := cmd.Output()
	if err != nil {
		g.Emit("C17.compiles!", list(atom(stderr.String())), boolS(false), "driver-build")
		return
	}
	g.Emit("C17.compiles!", list(atom("")), boolS(true), "driver-build")
	lines := strings.Split(strings.TrimRight(string(outb), "\n"), "\n")
	if len(lines) != len(seqs) {
		panic(fmt.Sprintf("driver printed %d lines for %d sequences", len(lines), len(seqs)))
	}
	nums := func(s string) string {
		var it []string
		for _, f := range strings.Fields(s) {
			n, _ := strconv.Atoi(f)
			it = append(it, num(n))
		}
		return list(it...)
	}
	for k, s := range seqs {
		results := strings.Split(lines[k], "|")
		var opsS, outS []string
		for j, op := range s.ops {
			f := strings.Split(op, ",")
			res, dump := "", ""
			if j < len(results) {
				if h := strings.Index(results[j], "#"); h >= 0 {
					res, dump = results[j][:h], results[j][h+1:]
				}
			}
			var its []string
			argn := func(i int) string { n, _ := strconv.Atoi(f[i]); return num(n) }
			for _, x := range f[2:] {
				if x != "" {
					n, _ := strconv.Atoi(x)
					its = append(its, num(n))
				}
			}
			switch f[0] {
			case "zero":
				opsS = append(opsS, tag("new", argn(1), list()))
			case "new", "keyset", "insert", "delete", "hasall", "hasany":
				opsS = append(opsS, tag(f[0], argn(1), list(its...)))
			case "popany":
				ch := list()
				if strings.HasPrefix(res, "pop:") && res != "pop:none" {
					n, _ := strconv.Atoi(res[4:])
					ch = list(num(n))
				}
				opsS = append(opsS, tag("popany", argn(1), ch))
			case "has", "clone", "alias", "superset", "equal":
				opsS = append(opsS, tag(f[0], argn(1), argn(2)))
			case "diff", "symdiff", "union", "inter":
				opsS = append(opsS, tag(f[0], argn(1), argn(2), argn(3)))
			default:
				opsS = append(opsS, tag(f[0], argn(1)))
			}
			r := list()
			switch {
			case strings.HasPrefix(res, "bool:"):
				r = tag("bool", boolS(res == "bool:true"))
			case strings.HasPrefix(res, "list:"):
				r = tag("list", nums(res[5:]))
			case strings.HasPrefix(res, "len:"):
				n, _ := strconv.Atoi(res[4:])
				r = tag("len", num(n))
			case strings.HasPrefix(res, "pop:"):
				r = tag("pop", boolS(res != "pop:none"))
			case res != "":
				r = tag("BAD", atom(res))
			}
			var ds []string
			for _, d := range strings.Split(dump, "/") {
				ds = append(ds, nums(d))
			}
			outS = append(outS, list(r, list(ds...)))
		}
		cls := s.cls
		for _, op := range s.ops {
			if strings.HasPrefix(op, "zero,") {
				cls = append(append([]string{}, cls...), "zero-value-set")
				break
			}
		}
		g.Emit("C17.ops", list(num(s.nvars), list(opsS...)), list(outS...), cls...)
	}
	os.RemoveAll(filepath.Join(src, "ex.test/regen"))
	c17flatten(g)
}
