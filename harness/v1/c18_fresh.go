package main

import (
	"fmt"
	"os"
	"path/filepath"
	"sort"
	"strings"

	"k8s.io/gengo/generator"
	"k8s.io/gengo/namer"
	"k8s.io/gengo/parser"
)

// c18fresh: IncomingImports / TransitiveIncomingImports of a Context built by NewContext from real
// packages, asked again after every Context.AddDir / AddDirectory: each answer has to be the model's
// answer for the universe as it is at that moment (the caches may never outlive a change).
func c18fresh(g *Gen) {
	src := filepath.Join(os.Getenv("GOPATH"), "src")
	cwd, _ := os.Getwd()
	os.Chdir(src)
	defer os.Chdir(cwd)
	n := g.N(10, 120)
	for i := 0; i < n; i++ {
		base := fmt.Sprintf("ex.test/fr%d", i)
		k := 3 + g.R.Intn(3)
		var paths []string
		for j := 0; j < k; j++ {
			paths = append(paths, fmt.Sprintf("%s/p%d", base, j))
		}
		// an acyclic import graph: p_j imports some of the packages after it; the chain p0 -> p1 -> p2
		// is always there so that the transitive answer differs from the direct one
		imports := map[int][]int{}
		for j := 0; j < k; j++ {
			for l := j + 1; l < k; l++ {
				if l == j+1 && j < 2 || g.Chance(0.3) {
					imports[j] = append(imports[j], l)
				}
			}
		}
		for j, p := range paths {
			d := filepath.Join(src, p)
			os.MkdirAll(d, 0755)
			var sb strings.Builder
			fmt.Fprintf(&sb, "package p%d\n\n", j)
			for _, l := range imports[j] {
				fmt.Fprintf(&sb, "import p%d \"%s\"\n", l, paths[l])
			}
			fmt.Fprintf(&sb, "\ntype T%d struct {\n", j)
			for _, l := range imports[j] {
				fmt.Fprintf(&sb, "\tF%d p%d.T%d\n", l, l, l)
			}
			sb.WriteString("}\n")
			os.WriteFile(filepath.Join(d, "file.go"), []byte(sb.String()), 0644)
		}
		// the order in which the packages are requested: a random permutation; the first one or two
		// before NewContext, the rest one at a time through the context
		perm := g.R.Perm(k)
		first := 1 + g.R.Intn(2)
		b := parser.New()
		ok := true
		for _, j := range perm[:first] {
			if err := b.AddDir(paths[j]); err != nil {
				ok = false
			}
		}
		ctx, err := generator.NewContext(b, namer.NameSystems{"raw": namer.NewRawNamer("", nil)}, "raw")
		if err != nil || !ok {
			g.Emit("C18.fresh-load!", atom(fmt.Sprint(err)), boolS(false), "fresh-load")
			os.RemoveAll(filepath.Join(src, base))
			continue
		}
		graphOf := func() map[string][]string {
			graph := map[string][]string{}
			for p, pk := range ctx.Universe {
				graph[p] = nil
				for imp := range pk.Imports {
					graph[p] = append(graph[p], imp)
				}
				sort.Strings(graph[p])
			}
			return graph
		}
		sortedMap := func(m map[string][]string) string {
			var ks []string
			for q := range m {
				ks = append(ks, q)
			}
			sort.Strings(ks)
			var it []string
			for _, q := range ks {
				v := append([]string{}, m[q]...)
				sort.Strings(v)
				it = append(it, list(atom(q), atoms(v)))
			}
			return list(it...)
		}
		g0 := graphOf()
		var ops, answers []string
		// questions in a random pattern: each fills one cache or both, in either order
		ask := func(cls string, pat int) {
			graph := graphOf()
			for _, q := range [][]string{{"inc"}, {"trans"}, {"inc", "trans"}, {"trans", "inc"}, {"trans", "trans"}, {}}[pat] {
				ops = append(ops, list(atom(q)))
				if q == "inc" {
					a := sortedMap(ctx.IncomingImports())
					answers = append(answers, list(a))
					g.Emit("C18.incoming", c18graphSexp(graph), a, cls)
				} else {
					answers = append(answers, list(sortedMap(ctx.TransitiveIncomingImports())))
					c18closureCase(g, ctx, graph, cls)
				}
			}
		}
		ask("context-from-builder", i%5)
		for step, j := range perm[first:] {
			var err error
			if (step+i)%2 == 0 {
				err = ctx.AddDir(paths[j])
			} else {
				_, err = ctx.AddDirectory(paths[j])
			}
			if err != nil {
				g.Emit("C18.fresh-load!", atom(fmt.Sprint(err)), boolS(false), "fresh-load")
				break
			}
			ops = append(ops, list(atom("set"), c18graphSexp(graphOf())))
			answers = append(answers, list())
			ask("asked-again-after-adding-a-package", (i+step+g.R.Intn(2)*3)%6)
		}
		// once more at the end, both questions: whatever was cached on the way is stale by now
		ops = append(ops, list(atom("inc")), list(atom("trans")))
		answers = append(answers, list(sortedMap(ctx.IncomingImports())), list(sortedMap(ctx.TransitiveIncomingImports())))
		g.Emit("C18.history", list(c18graphSexp(g0), list(ops...)), list(answers...), "context-history")
		os.RemoveAll(filepath.Join(src, base))
	}
}
