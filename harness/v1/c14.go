// DUAL: harness/v1/c14.go is generated from this file by harness/sync.sh (import paths only).
package main

import (
	"k8s.io/gengo/namer"
	"k8s.io/gengo/types"
	"strings"
)

func init() { register("C14", c14) }

type c14cfg struct {
	prefix, suffix string
	public         bool
	ignore         []string
	ignoreNil      bool
	prepend        int
}

var c14Affixes = []string{"", "", "", "Foo", "foo", "2", "12", "S", "Slice", "x_", "Arr", "ay", "1", "Int", "t"}

func (g *Gen) c14cfg() c14cfg {
	c := c14cfg{prefix: g.Pick(c14Affixes), suffix: g.Pick(c14Affixes), public: g.Chance(0.5)}
	switch g.R.Intn(6) {
	case 0:
		c.ignoreNil = true
	case 1:
		c.ignore = []string{"proto"}
	case 2:
		c.ignore = []string{"pkg", "apis", "v1"}
	case 3:
		// ignore words are compared with the directory names as written, not as sanitised
		c.ignore = []string{"k8s.io", "core-v1", "my-pkg"}
	case 4:
		c.ignore = []string{"ab", "proto", "k8sio"}
	}
	c.prepend = []int{0, 0, 1, 1, 2, 5, -1}[g.R.Intn(7)]
	return c
}

func (c c14cfg) namer() *namer.NameStrategy {
	var ns *namer.NameStrategy
	if c.public {
		ns = namer.NewPublicNamer(c.prepend, c.ignore...)
	} else {
		ns = namer.NewPrivateNamer(c.prepend, c.ignore...)
	}
	if c.ignoreNil {
		ns.IgnoreWords = nil
	}
	ns.Prefix, ns.Suffix = c.prefix, c.suffix
	return ns
}

func (c c14cfg) sexp() string {
	first := 1
	if c.public {
		first = 0
	}
	ig := list(atoms(c.ignore))
	if c.ignoreNil {
		ig = list()
	}
	sg := 0
	m := c.prepend
	if m < 0 {
		sg, m = 1, -m
	}
	return list(atom(c.prefix), atom(c.suffix), num(first), num(0), ig, list(num(sg), num(m)))
}

func c14(g *Gen) {
	n := g.N(1200, 40000)
	for i := 0; i < n; i++ {
		c := g.c14cfg()
		depth := 1 + g.R.Intn(4)
		root := g.tyGen(TyOpts{Depth: depth, Interfaces: true, Funcs: true, Others: true}, 0)
		forcedIgnored := false
		if i%6 == 5 && len(c.ignore) > 0 && !c.ignoreNil {
			// a type whose own NAME is one of the ignore words: those apply to directory names only
			root = &TNode{Kind: "slice", Kids: []*TNode{{Kind: "named", Pkg: g.Pick([]string{"pkg/server/frobbing/proto", "a/apis/v1", "x/ab"}), Nm: c.ignore[g.R.Intn(len(c.ignore))]}}}
			forcedIgnored = true
		}
		subs := tySubterms(root, nil)
		// call sequence: subterms and root in random order with repeats, one namer (one memo)
		var order []*TNode
		for j, k := 0, 1+g.R.Intn(5); j < k; j++ {
			order = append(order, subs[g.R.Intn(len(subs))])
		}
		order = append(order, root, root)
		named := map[string]*types.Type{}
		built := map[*TNode]*types.Type{}
		for _, s := range subs {
			built[s] = nil
		}
		rootT := root.Build(named)
		_ = rootT
		// rebuild per node so that a node maps to the object reachable from the root where possible
		ns := c.namer()
		var ins, outs []string
		cls := []string{"names"}
		hasKind := map[string]bool{}
		for _, s := range subs {
			hasKind[s.Kind] = true
		}
		for k := range hasKind {
			cls = append(cls, "kind-"+k)
		}
		if c.prefix != "" || c.suffix != "" {
			cls = append(cls, "affix")
		}
		if c.prefix != "" && c.prefix[0] >= '0' && c.prefix[0] <= '9' || c.suffix != "" && c.suffix[0] >= '0' && c.suffix[0] <= '9' {
			cls = append(cls, "digit-affix")
		}
		if c.prepend > 0 {
			cls = append(cls, "prepend")
		}
		if c.prepend < 0 {
			cls = append(cls, "negative-prepend")
		}
		if !c.public {
			cls = append(cls, "private")
		}
		if c.prepend > 0 {
			for _, s := range subs {
				if s.Kind != "named" {
					continue
				}
				for _, w := range c.ignore {
					for _, d := range strings.Split(s.Pkg, "/") {
						if strings.ContainsAny(w+d, ".-") && (d == w || strings.NewReplacer(".", "", "-", "").Replace(d) == w) {
							cls = append(cls, "ignore-word-with-punctuation")
						}
					}
				}
			}
		}
		for _, s := range order {
			t := s.Build(named)
			var name string
			if p, _ := catch(func() { name = ns.Name(t) }); p {
				outs = append(outs, tag("panic"))
				cls = append(cls, "PANIC")
			} else {
				outs = append(outs, list(atom(name)))
			}
			ins = append(ins, s.Sexp())
		}
		if forcedIgnored {
			cls = append(cls, "type-named-like-an-ignore-word")
		}
		g.Emit("C14.names", list(c.sexp(), list(ins...)), list(outs...), cls...)
		// determinism across fresh namers (Go randomises map iteration: interface methods)
		if hasKind["interface"] && i%3 == 0 {
			t := root.Build(map[string]*types.Type{})
			first := c.namer().Name(t)
			same := true
			for r := 0; r < 30; r++ {
				if c.namer().Name(t) != first {
					same = false
				}
			}
			g.Emit("C14.deterministic!", list(c.sexp(), root.Sexp(), atom(first)), boolS(same), "fresh-namers")
		}
	}
	// plural namer: exhaustive small words, then random names
	exceptions := map[string]string{"Endpoints": "Endpoints", "fish": "fish", "Ox": "oxen", "Y": "Yen", "x": "xen"}
	exS := list(list(atom("Endpoints"), atom("Endpoints")), list(atom("fish"), atom("fish")), list(atom("Ox"), atom("oxen")), list(atom("Y"), atom("Yen")), list(atom("x"), atom("xen")))
	pl := func(which int, ex bool, w string, cls string) {
		var e map[string]string
		es := list()
		if ex {
			e, es = exceptions, exS
		}
		var pn namer.Namer
		cs := 0
		switch which {
		case 0:
			pn = namer.NewPublicPluralNamer(e)
		case 1:
			pn, cs = namer.NewPrivatePluralNamer(e), 1
		default:
			pn, cs = namer.NewAllLowercasePluralNamer(e), 2
		}
		out := pn.Name(&types.Type{Name: types.Name{Name: w}})
		g.Emit("C14.plural", list(es, num(cs), atom(w)), atom(out), cls)
	}
	for _, w := range allStrings([]rune("sxyhefcba"), g.N(3, 4)) {
		pl(0, false, w, "plural-exhaustive")
	}
	for which := 0; which < 3; which++ {
		for _, w := range []string{"Y", "x", "X", "y"} { // the exception table comes first, also for names of one letter
			pl(which, true, w, "plural-one-letter-exception")
		}
	}
	words := []string{"Pod", "Endpoints", "fish", "Ox", "Policy", "Key", "Class", "Box", "Quiz", "Batch", "Mesh", "Path", "Knife", "Leaf", "Safe", "Y", "", "IngressClass", "Gateway", "Proxy", "Status", "Life", "ProxyV2y", "APIKEy", "Gateway_y", "Xy", "x9y", "Ay"}
	for i := 0; i < g.N(300, 5000); i++ {
		pl(g.R.Intn(3), g.Chance(0.5), g.Pick(words), "plural-words")
	}
	for _, w := range append(words, "foo", "Foo", "_x", "1a", "éa") {
		if len(w) > 0 && w[0] >= 0x80 {
			continue
		}
		g.Emit("C14.private", atom(w), boolS(namer.IsPrivateGoName(w)), "is-private")
	}
}
