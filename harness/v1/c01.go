// DUAL: harness/v1/c01.go is generated from this file by harness/sync.sh (import paths only).
package main

import (
	"sort"

	"k8s.io/gengo/types"
)

func init() { register("C01", c01) }

const c01ver = 1

func tref(t *types.Type) string {
	if t == nil {
		return list()
	}
	return refS(t.Name.Package, t.Name.Name)
}

func dumpEntry(key string, t *types.Type) string {
	var ms []string
	for _, m := range t.Members {
		ms = append(ms, list(atom(m.Name), boolS(m.Embedded), atom(m.Tags), tref(m.Type)))
	}
	var mnames []string
	for k := range t.Methods {
		mnames = append(mnames, k)
	}
	sort.Strings(mnames)
	var meths []string
	for _, k := range mnames {
		meths = append(meths, list(atom(k), tref(t.Methods[k])))
	}
	sg := list()
	if t.Signature != nil {
		ps, rs, vr, rc := c01sig(t.Signature)
		sg = list(ps, rs, boolS(vr), tref(rc))
	}
	cv := list()
	if t.ConstValue != nil {
		cv = list(atom(*t.ConstValue))
	}
	return list(atom(key), tref(t), atom(string(t.Kind)), tref(t.Elem), tref(t.Key), tref(t.Underlying), num(int(t.Len)),
		list(ms...), list(meths...), sg, c01tparams(t), cv)
}

func dumpTable(m map[string]*types.Type) string {
	var ks []string
	for k := range m {
		ks = append(ks, k)
	}
	sort.Strings(ks)
	var it []string
	for _, k := range ks {
		it = append(it, dumpEntry(k, m[k]))
	}
	return list(it...)
}

func dumpUniverse(u types.Universe) string {
	var paths []string
	for p := range u {
		paths = append(paths, p)
	}
	sort.Strings(paths)
	var it []string
	for _, p := range paths {
		pk := u[p]
		var imps []string
		for i := range pk.Imports {
			imps = append(imps, i)
		}
		sort.Strings(imps)
		it = append(it, list(atom(p), atom(pk.Name), dumpTable(pk.Types), dumpTable(pk.Functions), dumpTable(pk.Variables), dumpTable(pk.Constants), atoms(imps)))
	}
	return list(it...)
}

// c01lastFirst: the last package (which may import the others) is loaded first, so that the others
// are first seen as dependencies; they are then requested one call at a time
var c01lastFirst = false

func c01(g *Gen) {
	c01vendored(g)
	n := g.N(120, 3000)
	for i := 0; i < n; i++ {
		if i%4 == 1 {
			prelookupCase(g, i, 1+g.R.Intn(3), "C01")
		}
		npk := 1 + g.R.Intn(4)
		c01lastFirst = i%5 == 3
		// import paths that begin like the spelling of an anonymous type ("chan ...", "func(...")
		pgModule = []string{"ex.test", "ex.test", "ex.test", "ex.test", "ex.test", "chantest.example", "functional"}[i%7]
		prog, cls := g.genProgram(c01ver == 2, npk, 1+g.R.Intn(3))
		if pgModule != "ex.test" {
			cls = append(cls, "path-starts-like-anonymous-type")
		}
		if c01lastFirst && npk > 1 && c01ver == 2 {
			cls = append(cls, "importer-loaded-first-then-the-rest-one-by-one")
		}
		chk, err := typeCheck(prog)
		if err != nil {
			panic(err)
		}
		in, _ := chk.serialise(c01ver, prog)
		u, err := c01load(g, i, prog)
		if err != nil {
			g.Emit("C01.universe", in, tag("load-error", atom(err.Error())), append(cls, "LOAD-ERROR")...)
			continue
		}
		g.Emit("C01.universe", in, dumpUniverse(u), append(cls, "universe")...)
	}
	pgModule = "ex.test"
	c01lastFirst = false
}
