// DUAL: harness/v1/c07.go is generated from this file by harness/sync.sh (import paths only).
package main

import (
	"fmt"
	"go/token"
	"sort"
	"strings"

	"k8s.io/gengo/generator"
	"k8s.io/gengo/types"
)

func init() { register("C07", c07) }

const c07ver = 1

var c07Paths = []string{"a/go", "b/go", "go", "x/b", "ab", "a/b", "a/b/c", "a.b/c", "a-b/c", "ab/c",
	"k8s.io/api/core/v1", "k8s.io/apimachinery/pkg/apis/meta/v1", "v1", "x/v1", "c/2fa", "2fa", "x/y~z", "x/yz",
	"m/pkg", "p/_", "q/struct", "r/struct", "local/out", "other/out", "out", "t/a_b", "t/ab", "u/type", "net/http", "x/http",
	"w/b2", "b/2", "x/b+", "z/-", "a/init", "init", "in/it", "i/n/it", "x/in_it"}
var c07Small = []string{"a/go", "b/go", "x/b", "ab", "a/b", "a.b", "x/v1", "v1", "c/2fa", "local/out", "q/out", "p/_"}
var c07Locals = []string{"", "local/out", "x/v1", "a/b", "go", "o/ab2", "q/ab3", "r/b2"}
var c07Cluster = []string{"x/b", "ab", "a/b", "a.b", "a-b", "a_b", "b", "y/b", "w/b2"}

func c07classes(local string, ops []string) []string {
	cls := []string{}
	seen := map[string]bool{}
	add := func(c string) {
		if !seen[c] {
			seen[c] = true
			cls = append(cls, c)
		}
	}
	leaf := func(p string) string {
		for i := len(p) - 1; i >= 0; i-- {
			if p[i] == '/' {
				return p[i+1:]
			}
		}
		return p
	}
	kw := map[string]bool{"go": true, "struct": true, "type": true}
	leaves := map[string]int{}
	for _, p := range ops {
		l := leaf(p)
		if kw[l] {
			add("keyword-leaf")
		}
		if l != "" && l[0] >= '0' && l[0] <= '9' {
			add("digit-leaf")
		}
		if l == "_" || l == "-" {
			add("punct-only-leaf")
		}
		for _, c := range l {
			if c == '~' || c == '+' {
				add("nonident-char")
			}
		}
		if p == local {
			add("local-added")
		}
		if local != "" && l == leaf(local) && p != local {
			add("local-leaf-shared")
		}
		leaves[l]++
	}
	for _, n := range leaves {
		if n > 1 {
			add("shared-leaf")
		}
	}
	return cls
}

func c07case(g *Gen, local string, ops []string, cls []string) {
	universe := []string{}
	seen := map[string]bool{}
	for _, p := range append(append([]string{}, ops...), local) {
		if !seen[p] {
			seen[p] = true
			universe = append(universe, p)
		}
	}
	in := list(num(c07ver), atom(local), atoms(ops))
	tr := generator.NewImportTrackerForPackage(local)
	var dumps []string
	for _, p := range ops {
		if pn, _ := catch(func() { tr.AddSymbol(types.Name{Package: p, Name: "T"}) }); pn {
			dumps = append(dumps, tag("panic"))
			cls = append(cls, "PANIC")
			break
		}
		var names, pathof []string
		for _, u := range universe {
			n := tr.LocalNameOf(u)
			names = append(names, atom(n))
			if n != "" {
				pth, ok := tr.PathOf(n)
				pathof = append(pathof, list(atom(n), opt(ok, atom(pth))))
			}
		}
		dumps = append(dumps, list(list(names...), list(pathof...), atoms(tr.ImportLines())))
	}
	g.Emit("C07.run", in, list(dumps...), append(cls, c07classes(local, ops)...)...)
}

func c07(g *Gen) {
	validateUnicodeTables()
	defer c07options(g)
	defer c07unicode(g)
	// exhaustive: all sequences of length <= 3 over a 12-path alphabet, two output packages
	for _, local := range []string{"", "local/out"} {
		for _, a := range c07Small {
			c07case(g, local, []string{a}, []string{"exhaustive"})
			for _, b := range c07Small {
				c07case(g, local, []string{a, b}, []string{"exhaustive"})
				for _, c := range c07Small {
					c07case(g, local, []string{a, b, c}, []string{"exhaustive"})
				}
			}
		}
	}
	n := g.N(1500, 40000)
	for i := 0; i < n; i++ {
		local := g.Pick(c07Locals)
		k := 2 + g.R.Intn(10)
		ops := make([]string, k)
		for j := range ops {
			ops[j] = g.Pick(c07Paths)
		}
		c07case(g, local, ops, []string{"random"})
	}
	// the numbered fallback against output packages whose leaf looks like a numbered name
	for i := 0; i < n/3; i++ {
		local := g.Pick([]string{"o/ab2", "q/ab3", "r/b2", "o/ab2"})
		k := 3 + g.R.Intn(5)
		ops := make([]string, k)
		for j := range ops {
			ops[j] = g.Pick(c07Cluster)
		}
		c07case(g, local, ops, []string{"numbered-vs-local-leaf"})
	}
}

// c07options: the tracker's other entry points and options -- symbols whose types.Name carries a Path
// different from its Package (the key is the Path, the alias is made from the Package), types added
// through AddType on a tracker whose IsInvalidType rejects some of them (their package name is reserved,
// nothing is imported) -- mixed with ordinary symbols.  After every step the observable state is dumped
// for the model (C07.ops) and the clauses of C07 are asserted directly (C07.options!).
func c07options(g *Gen) {
	n := g.N(300, 6000)
	type op struct {
		kind      string // sym, type, invalid
		pkg, path string
		builtin   bool
	}
	for i := 0; i < n; i++ {
		local := g.Pick(c07Locals)
		cls := map[string]bool{"tracker-options": true}
		// the operations first (the model's dump lists every key of the case from the first step on)
		var ops []op
		var vendored [][2]string
		for step, k := 0, 3+g.R.Intn(8); step < k; step++ {
			pkg := g.Pick(c07Paths)
			switch g.R.Intn(5) {
			case 0: // a vendored copy: same Package, another Path (often one that was added before)
				key := g.Pick([]string{"vendor/", "example.com/vendor/", "third_party/"}) + pkg
				if len(vendored) > 0 && g.Chance(0.5) {
					v := vendored[g.R.Intn(len(vendored))]
					pkg, key = v[0], v[1]
					cls["name-with-path-again"] = true
				}
				vendored = append(vendored, [2]string{pkg, key})
				ops = append(ops, op{kind: "sym", pkg: pkg, path: key})
				cls["name-with-path"] = true
			case 1: // an invalid type: reserves its package NAME (as written in Name.Package)
				leaf := pkg[strings.LastIndex(pkg, "/")+1:]
				if leaf == "" {
					continue
				}
				ops = append(ops, op{kind: "invalid", pkg: leaf, builtin: g.Chance(0.3)})
				cls["invalid-type"] = true
			case 2:
				ops = append(ops, op{kind: "type", pkg: pkg})
			default:
				ops = append(ops, op{kind: "sym", pkg: pkg})
			}
		}
		if i%7 == 3 {
			// more packages with one candidate name than one digit can number: ab, ab2 ... ab9, ab10, ab11
			var many []op
			for _, pth := range []string{"ab", "a.b", "a-b", "a_b", "a~b", "a+b", "a--b", "a__b", "a-_b", "a_-b", "a.-b"} {
				many = append(many, op{kind: "sym", pkg: pth})
			}
			ops = append(many, ops...)
			cls["more-than-nine-packages-with-one-name"] = true
		}
		if i%5 == 1 {
			// a directory called init: no package can be imported under that name ("init must be a func")
			ops = append([]op{{kind: "sym", pkg: g.Pick([]string{"a/init", "init", "x/in_it"})}}, ops...)
			cls["path-ending-in-init"] = true
		}
		if i%4 == 2 {
			// package-less names that are not builtins (an unnamed composite type such as []string has Name.Package
			// "", so has a symbol like len): they are nobody's import, whatever the output package is
			if local == "" {
				local = "local/out"
			}
			at := g.R.Intn(len(ops) + 1)
			ops = append(ops[:at], append([]op{{kind: "type", pkg: ""}, {kind: "sym", pkg: ""}}, ops[at:]...)...)
			cls["package-less-name-with-named-output-package"] = true
		}
		var universe, extra, opsS, desc []string
		seenU, seenX := map[string]bool{}, map[string]bool{}
		for _, o := range ops {
			switch o.kind {
			case "invalid":
				if !seenX[o.pkg] {
					seenX[o.pkg] = true
					extra = append(extra, o.pkg)
				}
				opsS = append(opsS, tag("invalid", atom(o.pkg), boolS(o.builtin)))
				desc = append(desc, "invalid "+o.pkg)
			default:
				key := o.path
				if key == "" {
					key = o.pkg
				}
				if !seenU[key] {
					seenU[key] = true
					universe = append(universe, key)
				}
				opsS = append(opsS, tag("sym", atom(o.pkg), atom(o.path)))
				desc = append(desc, o.kind+" "+o.pkg+" @ "+o.path)
			}
		}
		if !seenU[local] {
			universe = append(universe, local)
		}
		tr := generator.NewImportTrackerForPackage(local)
		tr.IsInvalidType = func(t *types.Type) bool { return t.Name.Name == "Invalid" }
		first := map[string]string{} // key -> alias when first seen
		var keys, problems, dumps []string
		reserved := map[string]bool{}
		for _, o := range ops {
			key := o.path
			if key == "" {
				key = o.pkg
			}
			switch o.kind {
			case "invalid":
				kind := types.Struct
				if o.builtin {
					kind = types.Builtin
				}
				tr.AddType(&types.Type{Name: types.Name{Package: o.pkg, Name: "Invalid"}, Kind: kind})
				if p, ok := tr.PathOf(o.pkg); ok && p == "" {
					reserved[o.pkg] = true
				}
				key = ""
			case "type":
				tr.AddType(&types.Type{Name: types.Name{Package: o.pkg, Name: "T"}, Kind: types.Struct})
			default:
				tr.AddSymbol(types.Name{Package: o.pkg, Path: o.path, Name: "T"})
			}
			if o.pkg == local || o.pkg == "" {
				key = ""
			}
			if key != "" {
				if _, ok := first[key]; !ok {
					first[key] = tr.LocalNameOf(key)
					keys = append(keys, key)
				}
			}
			// the dump for the model
			var names, pathof []string
			for _, u := range universe {
				a := tr.LocalNameOf(u)
				names = append(names, atom(a))
				if a != "" {
					pth, ok := tr.PathOf(a)
					pathof = append(pathof, list(atom(a), opt(ok, atom(pth))))
				}
			}
			for _, x := range extra {
				pth, ok := tr.PathOf(x)
				pathof = append(pathof, list(atom(x), opt(ok, atom(pth))))
			}
			dumps = append(dumps, list(list(names...), list(pathof...), atoms(tr.ImportLines())))
			if len(problems) > 0 {
				continue
			}
			// the clauses
			seen := map[string]string{}
			var want []string
			sorted := append([]string{}, keys...)
			sort.Strings(sorted)
			for _, kk := range sorted {
				a := tr.LocalNameOf(kk)
				switch {
				case a == "":
					problems = append(problems, "no local name for "+kk)
				case a != first[kk]:
					problems = append(problems, fmt.Sprintf("the local name of %s changed from %q to %q", kk, first[kk], a))
				case !token.IsIdentifier(a) || token.IsKeyword(a) || a == "init":
					problems = append(problems, fmt.Sprintf("local name %q of %s is not a legal non-keyword identifier", a, kk))
				}
				if reserved[a] {
					problems = append(problems, fmt.Sprintf("%s is imported under %q, the name reserved for an invalid type's package", kk, a))
				}
				if other, dup := seen[a]; dup {
					problems = append(problems, fmt.Sprintf("%s and %s share the local name %q", other, kk, a))
				}
				seen[a] = kk
				if pth, ok := tr.PathOf(a); !ok || pth != kk {
					problems = append(problems, fmt.Sprintf("PathOf(LocalNameOf(%q)) = %q, %v", kk, pth, ok))
				}
				want = append(want, a+" \""+kk+"\"")
			}
			if got := tr.ImportLines(); strings.Join(got, "\n") != strings.Join(want, "\n") {
				problems = append(problems, fmt.Sprintf("ImportLines = %q, want %q", got, want))
			}
		}
		var cl []string
		for c := range cls {
			cl = append(cl, c)
		}
		sort.Strings(cl)
		g.Emit("C07.ops", list(num(c07ver), atom(local), list(opsS...)), list(dumps...), cl...)
		g.Emit("C07.options!", list(atom(local), atoms(desc), atom(strings.Join(problems, "; "))), boolS(len(problems) == 0), cl...)
	}
}

// c07unicode: import paths with non-ASCII letters and digits (the Coq model's strings are ASCII; these
// sequences are checked against C07's clauses directly): every alias a legal non-keyword identifier
// (go/token), one per package, stable, inverse lookups, import lines sorted one per package.
func c07unicode(g *Gen) {
	paths := []string{"docs/\u0663d", "api/\u0968fa", "x/\u00e9toile", "y/\u65e5\u672c", "\u0663", "z/\u0663", "q/d\u0663", "w/\u00e9toile", "api/2fa", "k/\u0968fa"}
	n := g.N(150, 3000)
	for i := 0; i < n; i++ {
		local := g.Pick([]string{"", "local/out", "x/\u00e9toile"})
		tr := generator.NewImportTrackerForPackage(local)
		first := map[string]string{}
		var keys, problems, desc []string
		for step, k := 0, 2+g.R.Intn(6); step < k && len(problems) == 0; step++ {
			pkg := paths[(i+step*3+g.R.Intn(3))%len(paths)]
			tr.AddSymbol(types.Name{Package: pkg, Name: "T"})
			desc = append(desc, pkg)
			if pkg != local {
				if _, ok := first[pkg]; !ok {
					first[pkg] = tr.LocalNameOf(pkg)
					keys = append(keys, pkg)
				}
			}
			seen := map[string]string{}
			var want []string
			sorted := append([]string{}, keys...)
			sort.Strings(sorted)
			for _, kk := range sorted {
				a := tr.LocalNameOf(kk)
				switch {
				case a == "":
					problems = append(problems, "no local name for "+kk)
				case a != first[kk]:
					problems = append(problems, fmt.Sprintf("the local name of %s changed from %q to %q", kk, first[kk], a))
				case !token.IsIdentifier(a) || token.IsKeyword(a) || a == "init":
					problems = append(problems, fmt.Sprintf("local name %q of %s is not a legal non-keyword identifier", a, kk))
				}
				if other, dup := seen[a]; dup {
					problems = append(problems, fmt.Sprintf("%s and %s share the local name %q", other, kk, a))
				}
				seen[a] = kk
				if pth, ok := tr.PathOf(a); !ok || pth != kk {
					problems = append(problems, fmt.Sprintf("PathOf(LocalNameOf(%q)) = %q, %v", kk, pth, ok))
				}
				want = append(want, a+" \""+kk+"\"")
			}
			if got := tr.ImportLines(); strings.Join(got, "\n") != strings.Join(want, "\n") {
				problems = append(problems, fmt.Sprintf("ImportLines = %q, want %q", got, want))
			}
		}
		g.Emit("C07.unicode!", list(atom(local), atoms(desc), atom(strings.Join(problems, "; "))), boolS(len(problems) == 0), "non-ascii-paths")
	}
}
