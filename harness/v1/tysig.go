package main

import "k8s.io/gengo/types"

func tyMkSig(ps, rs []*types.Type, variadic bool) *types.Signature {
	return &types.Signature{Parameters: ps, Results: rs, Variadic: variadic}
}
