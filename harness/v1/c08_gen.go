// C08 input generators (identical copy in harness/v1 and harness/v2).
package main

import (
	"strings"
	"unicode"
)

// non-ASCII tables mirrored from coq/Model/Tags.v (letter_table, digit_table); validated below
var c08Letters = []rune{233, 960, 20013, 1046, 223}
var c08Digits = []rune{1635, 2409, 65303}
var c08Spaces = []rune{' ', '\t', 0xA0, 0x2003, 0x85}

func modelIsSpace(c rune) bool {
	return (9 <= c && c <= 13) || c == 32 || c == 133 || c == 160 || c == 5760 ||
		(8192 <= c && c <= 8202) || c == 8232 || c == 8233 || c == 8239 || c == 8287 || c == 12288
}
func inRunes(c rune, t []rune) bool {
	for _, x := range t {
		if x == c {
			return true
		}
	}
	return false
}
func modelIsLetter(c rune) bool {
	return (c >= 'A' && c <= 'Z') || (c >= 'a' && c <= 'z') || inRunes(c, c08Letters)
}
func modelIsDigit(c rune) bool { return (c >= '0' && c <= '9') || inRunes(c, c08Digits) }

var c08Alphabet = []rune("+=(),/ \tab1k8s:-_\"é中π٣  x")

// validateUnicodeTables checks the model's classifier tables against Go's unicode package:
// IsSpace over the whole code space, IsLetter/IsDigit over every rune the generators can emit.
func validateUnicodeTables() {
	for c := rune(0); c <= unicode.MaxRune; c++ {
		if unicode.IsSpace(c) != modelIsSpace(c) {
			panic("harness: model is_space disagrees with unicode.IsSpace")
		}
	}
	all := append(append(append([]rune{}, c08Alphabet...), c08Letters...), c08Digits...)
	all = append(all, c08Spaces...)
	for c := rune(0); c < 128; c++ {
		all = append(all, c)
	}
	for _, c := range all {
		if unicode.IsLetter(c) != modelIsLetter(c) || unicode.IsDigit(c) != modelIsDigit(c) {
			panic("harness: model letter/digit table disagrees with unicode package for " + string(c))
		}
	}
}

var c08Markers = []string{"+", "+", "+", "+k8s:", "", "// +", "+ ", "+/", "π+", "++", "//", "=", "+("}
var c08Keys = []string{"foo", "bar", "k", "", "foo", "a.b/c", "x-y", "Foo", "fooé", "f o", "true"}
var c08Args = []string{"", "a", "arg1", "中é", "٣", "a,b", "a b", "a)b", "a-b", "(", "7"}
var c08Vals = []string{"", "true", "false", "v", "a=b", "\"q\"", " v", "v ", "True", "1", "x//y", "é"}
var c08Cmts = []string{"", " // c", "// c", " //", " // a // b", " /c", "\t// c=d"}

func (g *Gen) c08ws() string {
	s := ""
	for g.Chance(0.25) {
		s += string(c08Spaces[g.R.Intn(len(c08Spaces))])
	}
	return s
}

func (g *Gen) c08soup(maxLen int) string {
	n := g.R.Intn(maxLen + 1)
	var b strings.Builder
	for i := 0; i < n; i++ {
		b.WriteRune(c08Alphabet[g.R.Intn(len(c08Alphabet))])
	}
	return b.String()
}

// c08line returns a line and the classes it was built to hit.
func (g *Gen) c08line(marker string) (string, []string) {
	switch {
	case g.Chance(0.12):
		return g.c08soup(10), []string{"soup"}
	case g.Chance(0.08):
		return g.c08ws(), []string{"blank"}
	case g.Chance(0.08):
		return g.c08ws() + g.Pick(c08Keys) + "=" + g.Pick(c08Vals), []string{"no-marker"}
	}
	cls := []string{"tagline"}
	var b strings.Builder
	b.WriteString(g.c08ws())
	b.WriteString(marker)
	b.WriteString(g.Pick(c08Keys))
	if g.Chance(0.45) {
		cls = append(cls, "args")
		b.WriteString("(")
		b.WriteString(g.Pick(c08Args))
		if !g.Chance(0.12) {
			b.WriteString(")")
		} else {
			cls = append(cls, "unclosed")
		}
		if g.Chance(0.08) {
			b.WriteString("x")
		}
	}
	if g.Chance(0.6) {
		cls = append(cls, "value")
		b.WriteString("=")
		b.WriteString(g.Pick(c08Vals))
	}
	if g.Chance(0.3) {
		cls = append(cls, "trailing-comment")
		b.WriteString(g.Pick(c08Cmts))
	}
	b.WriteString(g.c08ws())
	return b.String(), cls
}

func (g *Gen) c08lines(marker string) ([]string, []string) {
	n := g.R.Intn(6)
	lines := make([]string, 0, n)
	seen := map[string]bool{}
	var cls []string
	for i := 0; i < n; i++ {
		l, c := g.c08line(marker)
		lines = append(lines, l)
		for _, x := range c {
			if !seen[x] {
				seen[x] = true
				cls = append(cls, x)
			}
		}
	}
	if strings.Contains(marker, "//") || strings.HasSuffix(marker, "/") || strings.HasSuffix(marker, " ") {
		cls = append(cls, "marker-comment-or-space")
	}
	if marker == "" {
		cls = append(cls, "empty-marker")
	}
	return lines, cls
}

// all strings of length <= n over alphabet
func allStrings(alphabet []rune, n int) []string {
	out := []string{""}
	prev := []string{""}
	for i := 0; i < n; i++ {
		var next []string
		for _, p := range prev {
			for _, c := range alphabet {
				next = append(next, p+string(c))
			}
		}
		out = append(out, next...)
		prev = next
	}
	return out
}

// c08errS: the error kind as an s-expression; an unknown wording becomes the wildcard (? text)
func c08errS(err error) string {
	k := c08errKind(err)
	if strings.HasPrefix(k, "other:") {
		return tag("?unclassified?", atom(k[6:]))
	}
	return atom(k)
}

func c08errKind(err error) string {
	m := err.Error()
	switch {
	case strings.Contains(m, "multiple arguments are not supported"):
		return "multiple"
	case strings.Contains(m, "unexpected characters after ')'"):
		return "after-paren"
	case strings.Contains(m, "unsupported character"):
		return "unsupported-char"
	case strings.Contains(m, "no closing ')' found"):
		return "no-close"
	case strings.Contains(m, "is not boolean"):
		return "not-bool"
	}
	return "other:" + m
}

func c08oldOut(m map[string][]string) string {
	var items []string
	for _, k := range sortedKeys(m) {
		items = append(items, list(atom(k), atoms(m[k])))
	}
	return list(items...)
}
