// DUAL: harness/v1/c13_asm.go is generated from this file by harness/sync.sh (import paths only).
package main

import (
	"bytes"
	"os"
	"path/filepath"
	"strings"

	"k8s.io/gengo/generator"
)

// c13assembleCases drives the real Go file type on disk: good files, unformattable content and
// uncreatable paths, several files per round so that "the other files are still processed" shows.
func c13assembleCases(g *Gen, dir string, assemble func(*generator.File, string) error, format func([]byte) ([]byte, error)) {
	bodies := []struct {
		body string
		cls  string
	}{
		{"func F() {}\n", "formattable"},
		{"func   G( ) { }\n\n\n\nvar x=1\n", "formattable"},
		{"func {\n", "unformattable"},
		{"type T struct {\n", "unformattable"},
		{"", "formattable"},
	}
	n := g.N(40, 400)
	for i := 0; i < n; i++ {
		b := bodies[g.R.Intn(len(bodies))]
		f := &generator.File{Name: "f.go", FileType: "go", PackageName: g.Pick([]string{"p", "pkg1"}), Header: []byte(g.Pick([]string{"", "// hdr\n\n", "//go:build !x\n\n// hdr\n\n"})), Imports: map[string]struct{}{}}
		if g.Chance(0.5) {
			f.Imports["fmt"] = struct{}{}
		}
		if g.Chance(0.3) {
			f.Vars.WriteString("v = 1\n")
		}
		f.Body.WriteString(b.body)
		var buf bytes.Buffer
		c13assembleText(&buf, f)
		text := buf.String()
		formatted, ferr := format([]byte(text))
		path := filepath.Join(dir, "f.go")
		os.RemoveAll(path)
		createOK := true
		cls := []string{"assemble", b.cls}
		if g.Chance(0.25) {
			os.MkdirAll(path, 0755) // the path is a directory: os.Create fails
			createOK = false
			cls = append(cls, "uncreatable")
		}
		err := assemble(f, path)
		ec := list()
		if err != nil {
			switch {
			case strings.Contains(err.Error(), "unable to format file"):
				ec = list(atom("format"))
			case strings.Contains(err.Error(), "is a directory"):
				ec = list(atom("create"))
			default:
				ec = list(tag("?unclassified?", atom(err.Error())))
			}
		}
		disk := list()
		if st, e := os.Stat(path); e == nil && !st.IsDir() {
			bs, _ := os.ReadFile(path)
			disk = list(atom(string(bs)))
		}
		fo := list()
		if ferr == nil {
			fo = list(atom(string(formatted)))
		}
		g.Emit("C13.assemble", list(boolS(createOK), atom(text), fo), list(ec, disk), cls...)
		os.RemoveAll(path)
	}
}
