package main

import (
	"crypto/sha256"
	"fmt"
	"io"
	"os"
	"path/filepath"
	"regexp"
	"sort"
	"strings"

	"k8s.io/gengo/generator"
	"k8s.io/gengo/namer"
)

func init() { register("C10", c10) }

var (
	reMissing  = regexp.MustCompile(`unable to read file "([^"]*)" for comparison`)
	reDiffers  = regexp.MustCompile(`output for "([^"]*)" differs`)
	reUnformat = regexp.MustCompile(`unable to format (?:the output for|file) "([^"]*)"`)
)

// c10errs: which files the error names, and as what.  A file that is named in an unknown wording
// becomes the wildcard (? name), which matches whatever the model says about that file.
func c10errs(err error, names []string) string {
	if err == nil {
		return list()
	}
	m := err.Error()
	var it []string
	defer func() { _ = it }()
	base := func(s string) string { return s[strings.LastIndex(s, "/")+1:] }
	for _, x := range reMissing.FindAllStringSubmatch(m, -1) {
		it = append(it, base(x[1])+":m\x00"+tag("missing", atom(base(x[1]))))
	}
	for _, x := range reDiffers.FindAllStringSubmatch(m, -1) {
		it = append(it, base(x[1])+":d\x00"+tag("differs", atom(base(x[1]))))
	}
	for _, x := range reUnformat.FindAllStringSubmatch(m, -1) {
		it = append(it, base(x[1])+":u\x00"+tag("unformattable", atom(base(x[1]))))
	}
	for _, n := range names {
		classified := false
		for _, x := range it {
			if strings.HasPrefix(x, n+":") {
				classified = true
			}
		}
		if !classified && strings.Contains(m, n) {
			it = append(it, n+":?\x00"+tag("?unclassified?", atom(n)))
		}
	}
	if len(it) == 0 {
		return list(tag("?unclassified?", atom(m)))
	}
	sort.Strings(it)
	for i := range it {
		it[i] = it[i][strings.Index(it[i], "\x00")+1:]
	}
	return list(it...)
}

type c10snap struct {
	dir   bool
	files map[string]string
	meta  string // names, sizes, mtimes, hashes: for the read-only assertion
}

func c10snapshot(dir string) c10snap {
	s := c10snap{files: map[string]string{}}
	st, err := os.Stat(dir)
	if err != nil || !st.IsDir() {
		return s
	}
	s.dir = true
	ents, _ := os.ReadDir(dir)
	var meta []string
	for _, e := range ents {
		p := filepath.Join(dir, e.Name())
		info, _ := e.Info()
		if e.IsDir() {
			meta = append(meta, "D "+e.Name())
			continue
		}
		b, _ := os.ReadFile(p)
		s.files[e.Name()] = string(b)
		meta = append(meta, fmt.Sprintf("F %s %d %d %x", e.Name(), info.Size(), info.ModTime().UnixNano(), sha256.Sum256(b)))
	}
	sort.Strings(meta)
	s.meta = strings.Join(meta, "\n")
	return s
}

func (s c10snap) sexp() string {
	var ks []string
	for k := range s.files {
		ks = append(ks, k)
	}
	sort.Strings(ks)
	var it []string
	for _, k := range ks {
		it = append(it, list(atom(k), atom(s.files[k])))
	}
	return list(boolS(s.dir), list(it...))
}

func c10(g *Gen) {
	defer c10viaArgs(g)
	work := os.Getenv("VERIF_WORK")
	n := g.N(60, 1500)
	for i := 0; i < n; i++ {
		base := filepath.Join(work, fmt.Sprintf("c10-%d", i))
		// one target, 1-3 generators writing 1-2 files of valid Go
		var log []string
		t := &recTarget{name: "tpkg", path: "ex.test/tpkg", dir: "tpkg", filter: map[int]bool{}, header: "// hdr\n\n", log: &log}
		ng := 1 + g.R.Intn(3)
		for k := 0; k < ng; k++ {
			rg := &recGen{name: fmt.Sprintf("g%d", k), filter: map[int]bool{}, typeErr: -1, namersNil: true, fileType: "golang",
				fileName: g.Pick([]string{"a.go", "a.go", "b.go"}), log: &log,
				initOut: fmt.Sprintf("// init %d\n", k), finOut: fmt.Sprintf("func F%d( ) { }\n", k)}
			if g.Chance(0.5) {
				rg.vars = []string{fmt.Sprintf("v%d = %d", k, k)}
			}
			if g.Chance(0.3) {
				rg.finOut = "func {\n" // unformattable
			}
			t.gens = append(t.gens, rg)
		}
		if i%3 == 0 {
			// a file nobody contributes anything to (like the doc.go of DefaultGen{OptionalName: "doc"}): it still
			// consists of the header and the package clause, in generation and in verification alike
			t.gens = append(t.gens, &recGen{name: "gempty", filter: map[int]bool{}, typeErr: -1, namersNil: true, fileType: "golang", fileName: "doc.go", log: &log})
		}
		hasText := g.Chance(0.35)
		if hasText {
			// a file type of the tool's own with a formatter that returns its input: a long text file
			t.gens = append(t.gens, &recGen{name: "gtext", filter: map[int]bool{}, typeErr: -1, namersNil: true, fileType: "text", fileName: "notes.txt", log: &log,
				initOut: strings.Repeat(fmt.Sprintf("a line of notes, %d\n", i), 40+g.R.Intn(300)) + map[bool]string{true: "last line without a newline", false: ""}[i%2 == 0]})
		}
		mkctx := func(verify bool) *generator.Context {
			return &generator.Context{Namers: namer.NameSystems{}, FileTypes: map[string]generator.FileType{"golang": generator.NewGolangFile(),
				"text": &generator.DefaultFileType{Format: func(b []byte) ([]byte, error) { return b, nil },
					Assemble: func(w io.Writer, f *generator.File) { w.Write(f.Body.Bytes()) }}}, Verify: verify}
		}
		// what the run wants to write: generate into a reference directory
		ref := filepath.Join(base, "ref")
		mkctx(false).ExecutePackage(ref, t)
		refSnap := c10snapshot(filepath.Join(ref, "ex.test/tpkg"))
		var wanted []string
		var names []string
		for k := range refSnap.files {
			names = append(names, k)
		}
		sort.Strings(names)
		unform := map[string]bool{}
		// a file is unformattable iff its generator said so: find by re-formatting the reference content
		for _, k := range names {
			_, ferr := generator.ImportsWrapper([]byte(refSnap.files[k]))
			if strings.HasSuffix(k, ".txt") {
				ferr = nil // the text type's formatter accepts everything
			}
			if ferr != nil {
				unform[k] = true
				wanted = append(wanted, list(atom(k), list(atom(refSnap.files[k]), list())))
			} else {
				wanted = append(wanted, list(atom(k), list(atom(""), list(atom(refSnap.files[k])))))
			}
		}
		out := filepath.Join(base, "out")
		dir := filepath.Join(out, "ex.test/tpkg")
		steps := 2 + g.R.Intn(4)
		history := []string{}
		for s := 0; s < steps; s++ {
			kind := "verify"
			if s == 0 && g.Chance(0.7) || s > 0 && g.Chance(0.25) {
				kind = "generate"
			}
			// perturb the on-disk copy before some verifies
			lastPerturb := ""
			if s > 0 && g.Chance(0.6) && len(names) > 0 {
				f := filepath.Join(dir, g.Pick(names))
				b, err := os.ReadFile(f)
				p := g.Pick([]string{"flip-first", "flip-middle", "flip-last", "truncate", "extend", "delete", "delete-dir", "extra-file", "longer", "longer"})
				switch {
				case p == "longer" && err == nil:
					// what an earlier version of the tool left behind: the same file with more in it
					os.WriteFile(f, append(b, []byte(strings.Repeat("// left over from an earlier, longer output\n", 30))...), 0644)
				case p == "delete-dir":
					os.RemoveAll(dir)
				case p == "extra-file":
					os.MkdirAll(dir, 0755)
					os.WriteFile(filepath.Join(dir, "unrelated.txt"), []byte("x"), 0644)
				case err != nil:
				case p == "delete":
					os.Remove(f)
				case p == "truncate" && len(b) > 0:
					os.WriteFile(f, b[:len(b)-1], 0644)
				case p == "extend":
					os.WriteFile(f, append(b, '\n'), 0644)
				case len(b) > 0:
					idx := map[string]int{"flip-first": 0, "flip-middle": len(b) / 2, "flip-last": len(b) - 1}[p]
					b[idx] ^= 0x20
					os.WriteFile(f, b, 0644)
				}
				history = append(history, p)
				lastPerturb = p
			}
			before := c10snapshot(dir)
			mode := 1
			if kind == "generate" {
				mode = 0
			}
			err := mkctx(kind == "verify").ExecutePackage(out, t)
			after := c10snapshot(dir)
			history = append(history, kind)
			cls := []string{"step", "mode-" + kind}
			for _, h := range history {
				if h != "verify" && h != "generate" {
					cls = append(cls, "perturb-"+h)
				}
			}
			if kind == "generate" && (lastPerturb == "longer" || lastPerturb == "extend") {
				cls = append(cls, "generate-over-longer-file")
			}
			if !before.dir {
				cls = append(cls, "dir-missing")
			}
			if len(unform) > 0 {
				cls = append(cls, "unformattable-file")
			}
			if hasText {
				cls = append(cls, "long-file-of-a-type-with-identity-formatter")
				if i%2 == 0 {
					cls = append(cls, "text-file-without-final-newline")
				}
			}
			if kind == "verify" && err == nil {
				cls = append(cls, "verify-ok")
			}
			if kind == "verify" && err != nil {
				cls = append(cls, "verify-fails")
			}
			g.Emit("C10.step", list(num(mode), before.sexp(), list(wanted...)), list(after.sexp(), c10errs(err, names)), cls...)
			if kind == "verify" {
				// read-only: nothing created, truncated or touched (names, sizes, mtimes, hashes, directory)
				_, outErr := os.Stat(out)
				ro := before.meta == after.meta && before.dir == after.dir && (before.dir || s > 0 || os.IsNotExist(outErr))
				g.Emit("C10.readonly!", list(atom(strings.Join(history, ",")), before.sexp(), after.sexp()), boolS(ro), "verify-readonly")
			}
		}
		os.RemoveAll(base)
	}
}
