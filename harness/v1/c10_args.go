package main

import (
	"bytes"
	"fmt"
	"os"
	"path/filepath"
	"strings"

	"github.com/spf13/pflag"
	"k8s.io/gengo/args"
	dcgen "k8s.io/gengo/examples/deepcopy-gen/generators"
)

// c10viaArgs: --verify-only as a user reaches it, through args.GeneratorArgs.Execute (VerifyOnly),
// with the real deepcopy-gen: generate, then verify (must succeed and touch nothing), then verify
// after a one-byte edit, an extension and a deletion (must fail naming the file, and touch nothing).
func c10viaArgs(g *Gen) {
	src := filepath.Join(os.Getenv("GOPATH"), "src")
	repo := os.Getenv("VERIF_REPO")
	os.MkdirAll(filepath.Join(src, "k8s.io"), 0755)
	os.Symlink(repo, filepath.Join(src, "k8s.io", "gengo"))
	cwd, _ := os.Getwd()
	os.Chdir(src)
	defer os.Chdir(cwd)
	hdr := filepath.Join(os.Getenv("VERIF_WORK"), "c10hdr.txt")
	os.WriteFile(hdr, []byte("/*\nCopyright YEAR.\n*/\n"), 0644)
	n := g.N(3, 30)
	for i := 0; i < n; i++ {
		prog, _ := g.genDeepcopyProgram(fmt.Sprintf("vf%d/", i), 1, false)
		pkg := prog[0]
		d := filepath.Join(src, pkg.Path)
		os.MkdirAll(d, 0755)
		os.WriteFile(filepath.Join(d, "doc.go"), []byte("// +k8s:deepcopy-gen=package\n\npackage "+pkg.Name+"\n"), 0644)
		os.WriteFile(filepath.Join(d, "file.go"), []byte(pkg.Src), 0644)
		outBase := filepath.Join(os.Getenv("VERIF_WORK"), fmt.Sprintf("c10out%d", i))
		outFile := filepath.Join(outBase, pkg.Path, "zz_generated.deepcopy.go")
		// three ways to ask for verify-only: the field preset and no flag parsing; the field preset
		// by the tool and Execute's own flag parsing on a command line without the flag; the flag
		how := i % 3
		howCls := []string{"verify-only-preset-no-flag-parsing", "verify-only-preset-with-flag-parsing", "verify-only-flag"}[how]
		run := func(verify bool) error {
			a := args.Default()
			if how == 0 {
				a = a.WithoutDefaultFlagParsing()
			} else {
				savedFlags, savedArgs := pflag.CommandLine, os.Args
				pflag.CommandLine = pflag.NewFlagSet("tool", pflag.ContinueOnError)
				os.Args = []string{"tool"}
				if how == 2 && verify {
					os.Args = []string{"tool", "--verify-only"}
				}
				defer func() { pflag.CommandLine, os.Args = savedFlags, savedArgs }()
			}
			a.InputDirs = []string{pkg.Path}
			a.OutputBase = outBase
			a.OutputFileBaseName = "zz_generated.deepcopy"
			a.GoHeaderFilePath = hdr
			if how != 2 {
				a.VerifyOnly = verify
			}
			a.CustomArgs = &dcgen.CustomArgs{}
			return a.Execute(dcgen.NameSystems(), dcgen.DefaultNameSystem(), dcgen.Packages)
		}
		var problems []string
		snap := func() string { return c10snapshot(filepath.Join(outBase, pkg.Path)).meta }
		// verify before anything exists: must fail and create nothing
		if err := run(true); err == nil {
			problems = append(problems, "verify-only succeeded although nothing was generated yet")
		}
		if _, err := os.Stat(outBase); err == nil {
			problems = append(problems, "verify-only created the output base")
		}
		if err := run(false); err != nil {
			problems = append(problems, "generate failed: "+err.Error())
		}
		good, _ := os.ReadFile(outFile)
		if len(good) == 0 {
			problems = append(problems, "nothing generated")
		}
		before := snap()
		if err := run(true); err != nil {
			problems = append(problems, "verify-only right after generating failed: "+err.Error())
		}
		if snap() != before {
			problems = append(problems, "verify-only changed the output directory")
		}
		for _, edit := range []string{"flip", "extend", "truncate", "delete"} {
			switch edit {
			case "flip":
				b := append([]byte{}, good...)
				if len(b) > 0 {
					b[len(b)/2] ^= 1
				}
				os.WriteFile(outFile, b, 0644)
			case "extend":
				os.WriteFile(outFile, append(append([]byte{}, good...), '\n'), 0644)
			case "truncate":
				if len(good) > 0 {
					os.WriteFile(outFile, good[:len(good)-1], 0644)
				}
			case "delete":
				os.Remove(outFile)
			}
			before := snap()
			err := run(true)
			if err == nil {
				problems = append(problems, "verify-only accepted the on-disk copy after: "+edit)
			} else if !strings.Contains(err.Error(), "zz_generated.deepcopy.go") {
				problems = append(problems, "the verify-only error after "+edit+" does not name the file: "+err.Error())
			}
			if snap() != before {
				problems = append(problems, "verify-only changed the output directory after: "+edit)
			}
			os.WriteFile(outFile, good, 0644)
		}
		_ = bytes.Equal
		g.Emit("C10.viaargs!", list(atom(pkg.Src[:min(len(pkg.Src), 300)]), atom(strings.Join(problems, "; "))), boolS(len(problems) == 0), "verify-only-through-args", howCls)
		os.RemoveAll(outBase)
		os.RemoveAll(filepath.Join(src, "ex.test", fmt.Sprintf("vf%d", i)))
	}
}
