package main

import (
	"bytes"
	"fmt"
	"os"
	"os/exec"
	"path/filepath"
	"sort"
	"strings"

	"k8s.io/gengo/args"
	dcgen "k8s.io/gengo/examples/deepcopy-gen/generators"
)

func init() { register("C16", c16) }

const c16driver = `package main

import (
	"fmt"
	"math/rand"
	"reflect"
	"sort"
	"strconv"
	"strings"
IMPORTS
)

type testType struct {
	name      string
	ptr       interface{} // new(T)
	generated bool
	hand      *int // unused
}

var handCounters = []*int{HANDS}

func handTotal() int {
	n := 0
	for _, p := range handCounters {
		n += *p
	}
	return n
}

var tests = []testType{
TESTS
}

func fill(v reflect.Value, r *rand.Rand, depth int) {
	switch v.Kind() {
	case reflect.Ptr:
		if depth > 4 || r.Intn(4) == 0 {
			return
		}
		v.Set(reflect.New(v.Type().Elem()))
		fill(v.Elem(), r, depth+1)
	case reflect.Slice:
		switch k := r.Intn(5); {
		case depth > 4 || k == 0:
		case k == 1:
			v.Set(reflect.MakeSlice(v.Type(), 0, 0))
		default:
			n := 1 + r.Intn(3)
			v.Set(reflect.MakeSlice(v.Type(), n, n))
			for i := 0; i < n; i++ {
				fill(v.Index(i), r, depth+1)
			}
		}
	case reflect.Map:
		switch k := r.Intn(5); {
		case depth > 4 || k == 0:
		case k == 1:
			v.Set(reflect.MakeMap(v.Type()))
		default:
			v.Set(reflect.MakeMap(v.Type()))
			for i := 0; i < 1+r.Intn(3); i++ {
				key := reflect.New(v.Type().Key()).Elem()
				fill(key, r, depth+1)
				val := reflect.New(v.Type().Elem()).Elem()
				fill(val, r, depth+1)
				v.SetMapIndex(key, val)
			}
		}
	case reflect.Struct:
		for i := 0; i < v.NumField(); i++ {
			fill(v.Field(i), r, depth+1)
		}
	case reflect.Array:
		for i := 0; i < v.Len(); i++ {
			fill(v.Index(i), r, depth+1)
		}
	case reflect.Interface:
		if r.Intn(3) != 0 {
			if impl := newImpl(v.Type(), r); impl.IsValid() {
				v.Set(impl)
			}
		}
	case reflect.String:
		v.SetString(fmt.Sprintf("s%d", r.Intn(100)))
	case reflect.Bool:
		v.SetBool(r.Intn(2) == 0)
	case reflect.Int, reflect.Int8, reflect.Int16, reflect.Int32, reflect.Int64:
		v.SetInt(int64(r.Intn(100)))
	case reflect.Uint, reflect.Uint8, reflect.Uint16, reflect.Uint32, reflect.Uint64, reflect.Uintptr:
		v.SetUint(uint64(r.Intn(100)))
	case reflect.Float32, reflect.Float64:
		v.SetFloat(float64(r.Intn(100)))
	}
}

// addresses of all mutable storage reachable from v
func storage(v reflect.Value, out map[uintptr]string, path string) {
	switch v.Kind() {
	case reflect.Ptr:
		if !v.IsNil() {
			out[v.Pointer()] = path
			storage(v.Elem(), out, path+".*")
		}
	case reflect.Slice:
		if v.Len() > 0 {
			out[v.Pointer()] = path
		}
		for i := 0; i < v.Len(); i++ {
			storage(v.Index(i), out, fmt.Sprintf("%s[%d]", path, i))
		}
	case reflect.Map:
		if !v.IsNil() {
			out[v.Pointer()] = path
			for _, k := range v.MapKeys() {
				storage(v.MapIndex(k), out, fmt.Sprintf("%s[%v]", path, k))
			}
		}
	case reflect.Struct:
		for i := 0; i < v.NumField(); i++ {
			storage(v.Field(i), out, path+"."+v.Type().Field(i).Name)
		}
	case reflect.Array:
		for i := 0; i < v.Len(); i++ {
			storage(v.Index(i), out, fmt.Sprintf("%s[%d]", path, i))
		}
	case reflect.Interface:
		if !v.IsNil() {
			storage(v.Elem(), out, path+".(dyn)")
		}
	}
}

// an independent reflective deep copy, to detect that mutating the copy changes the original
func clone(v reflect.Value) reflect.Value {
	out := reflect.New(v.Type()).Elem()
	switch v.Kind() {
	case reflect.Ptr:
		if !v.IsNil() {
			p := reflect.New(v.Type().Elem())
			p.Elem().Set(clone(v.Elem()))
			out.Set(p)
		}
	case reflect.Slice:
		if !v.IsNil() {
			s := reflect.MakeSlice(v.Type(), v.Len(), v.Len())
			for i := 0; i < v.Len(); i++ {
				s.Index(i).Set(clone(v.Index(i)))
			}
			out.Set(s)
		}
	case reflect.Map:
		if !v.IsNil() {
			m := reflect.MakeMap(v.Type())
			for _, k := range v.MapKeys() {
				m.SetMapIndex(clone(k), clone(v.MapIndex(k)))
			}
			out.Set(m)
		}
	case reflect.Struct:
		for i := 0; i < v.NumField(); i++ {
			out.Field(i).Set(clone(v.Field(i)))
		}
	case reflect.Array:
		for i := 0; i < v.Len(); i++ {
			out.Index(i).Set(clone(v.Index(i)))
		}
	case reflect.Interface:
		if !v.IsNil() {
			out.Set(clone(v.Elem()))
		}
	default:
		out.Set(v)
	}
	return out
}

// change every scalar reachable from v (through pointers, slices, maps, arrays, interfaces)
func mutate(v reflect.Value) {
	switch v.Kind() {
	case reflect.Ptr, reflect.Interface:
		if !v.IsNil() {
			if v.Kind() == reflect.Interface {
				if v.Elem().Kind() == reflect.Ptr {
					mutate(v.Elem())
				}
				return
			}
			mutate(v.Elem())
		}
	case reflect.Slice, reflect.Array:
		for i := 0; i < v.Len(); i++ {
			mutate(v.Index(i))
		}
	case reflect.Map:
		for _, k := range v.MapKeys() {
			e := reflect.New(v.Type().Elem()).Elem()
			e.Set(v.MapIndex(k))
			mutate(e)
			v.SetMapIndex(k, e)
		}
	case reflect.Struct:
		for i := 0; i < v.NumField(); i++ {
			mutate(v.Field(i))
		}
	case reflect.String:
		if v.CanSet() {
			v.SetString(v.String() + "!")
		}
	case reflect.Bool:
		if v.CanSet() {
			v.SetBool(!v.Bool())
		}
	case reflect.Int, reflect.Int8, reflect.Int16, reflect.Int32, reflect.Int64:
		if v.CanSet() {
			v.SetInt(v.Int() + 1)
		}
	case reflect.Uint, reflect.Uint8, reflect.Uint16, reflect.Uint32, reflect.Uint64, reflect.Uintptr:
		if v.CanSet() {
			v.SetUint(v.Uint() + 1)
		}
	case reflect.Float32, reflect.Float64:
		if v.CanSet() {
			v.SetFloat(v.Float() + 1)
		}
	}
}

// isHand: a type of the generated inputs that has hand-written DeepCopy functions
func isHand(rt reflect.Type) bool { return rt.Kind() == reflect.Struct && (rt.Name() == "Hand" || rt.Name() == "HandA") }

// assignableRT mirrors types.Type.IsAssignable: scalars and structs of assignable members
func assignableRT(rt reflect.Type) bool {
	switch rt.Kind() {
	case reflect.Struct:
		for i := 0; i < rt.NumField(); i++ {
			if !assignableRT(rt.Field(i).Type) {
				return false
			}
		}
		return true
	case reflect.Ptr, reflect.Slice, reflect.Map, reflect.Array, reflect.Interface, reflect.Chan, reflect.Func:
		return false
	}
	return true
}

func holdsHandByValue(rt reflect.Type) bool {
	if isHand(rt) {
		return true
	}
	if rt.Kind() == reflect.Struct {
		for i := 0; i < rt.NumField(); i++ {
			if holdsHandByValue(rt.Field(i).Type) {
				return true
			}
		}
	}
	return false
}

// bypassesHand: somewhere below rt there is a slot (field, element, map value, pointee) whose type is
// a struct without hand-written functions that IsAssignable and holds a hand-written type by value:
// deepcopy-gen copies such a slot by assignment (the recorded known finding)
func bypassesHand(rt reflect.Type, top bool, seen map[reflect.Type]bool) bool {
	if seen[rt] {
		return false
	}
	seen[rt] = true
	switch rt.Kind() {
	case reflect.Ptr, reflect.Slice, reflect.Map, reflect.Array:
		return bypassesHand(rt.Elem(), false, seen)
	case reflect.Struct:
		if isHand(rt) {
			return false
		}
		if !top && assignableRT(rt) && holdsHandByValue(rt) {
			return true
		}
		for i := 0; i < rt.NumField(); i++ {
			if bypassesHand(rt.Field(i).Type, false, seen) {
				return true
			}
		}
	}
	return false
}

func countHands(v reflect.Value) int {
	n := 0
	switch v.Kind() {
	case reflect.Ptr, reflect.Interface:
		if !v.IsNil() {
			n += countHands(v.Elem())
		}
	case reflect.Slice, reflect.Array:
		for i := 0; i < v.Len(); i++ {
			n += countHands(v.Index(i))
		}
	case reflect.Map:
		for _, k := range v.MapKeys() {
			n += countHands(v.MapIndex(k))
		}
	case reflect.Struct:
		if v.Type().Name() == "Hand" || v.Type().Name() == "HandA" {
			return 1
		}
		for i := 0; i < v.NumField(); i++ {
			n += countHands(v.Field(i))
		}
	}
	return n
}


// ---- correspondence with the Coq model: values as trees whose reference nodes carry the
// identity of their storage; types as the generator sees them ----
func atomS(s string) string {
	var b strings.Builder
	b.WriteByte('<')
	for i, r := range []rune(s) {
		if i > 0 {
			b.WriteByte(' ')
		}
		b.WriteString(strconv.Itoa(int(r)))
	}
	b.WriteByte('>')
	return b.String()
}
func numS(n int) string { return "<" + strconv.Itoa(n) + ">" }

type tySer struct {
	ids   map[reflect.Type]int
	decls []string
}

func (t *tySer) ty(rt reflect.Type) string {
	named := func(mk func() string) string {
		if id, ok := t.ids[rt]; ok {
			return "(" + atomS("named") + " " + numS(id) + ")"
		}
		id := len(t.ids) + 1
		t.ids[rt] = id
		t.decls = append(t.decls, "") // reserve the slot: declaration order = id order
		t.decls[id-1] = "(" + numS(id) + " " + mk() + ")"
		return "(" + atomS("named") + " " + numS(id) + ")"
	}
	switch rt.Kind() {
	case reflect.Ptr:
		return "(" + atomS("ptr") + " " + t.ty(rt.Elem()) + ")"
	case reflect.Slice:
		if rt.Name() != "" {
			return named(func() string { return atomS("def") + " (" + atomS("slice") + " " + t.ty(rt.Elem()) + ")" })
		}
		return "(" + atomS("slice") + " " + t.ty(rt.Elem()) + ")"
	case reflect.Map:
		if rt.Name() != "" {
			return named(func() string { return atomS("def") + " (" + atomS("map") + " " + t.ty(rt.Elem()) + ")" })
		}
		return "(" + atomS("map") + " " + t.ty(rt.Elem()) + ")"
	case reflect.Array:
		return "(" + atomS("array") + " " + t.ty(rt.Elem()) + ")"
	case reflect.Struct:
		return named(func() string {
			var fs []string
			for i := 0; i < rt.NumField(); i++ {
				fs = append(fs, t.ty(rt.Field(i).Type))
			}
			hand := 0
			if rt.Name() == "Hand" || rt.Name() == "HandA" {
				hand = 1
			}
			return atomS("struct") + " " + numS(hand) + " (" + strings.Join(fs, " ") + ")"
		})
	case reflect.Interface:
		return "(" + atomS("iface") + ")"
	}
	return "(" + atomS("scalar") + ")"
}

type valSer struct {
	ids    map[uintptr]int
	intern map[string]int
	unmodelled bool // a value the model has no form for (an interface holding a non-pointer) was met
}

func sortedKeys(v reflect.Value) []reflect.Value {
	ks := v.MapKeys()
	sort.Slice(ks, func(i, j int) bool { return fmt.Sprint(ks[i].Interface()) < fmt.Sprint(ks[j].Interface()) })
	return ks
}

// assign=true: the original (every storage gets the next id); assign=false: the copy (ids erased
// to 0, and the paths of the nodes whose storage is also storage of the original are collected)
func (s *valSer) val(v reflect.Value, assign bool, path []int, shared *[][]int) string {
	ref := func(kind int, addr uintptr, storage bool, kvs []string) string {
		id := 0
		if assign {
			if storage {
				if _, ok := s.ids[addr]; !ok {
					s.ids[addr] = len(s.ids) + 1
				}
				id = s.ids[addr]
			}
		} else if _, ok := s.ids[addr]; ok && storage {
			*shared = append(*shared, append([]int(nil), path...))
		}
		return "(" + atomS("ref") + " " + numS(kind) + " " + numS(id) + " (" + strings.Join(kvs, " ") + "))"
	}
	kv := func(k int, x reflect.Value) string {
		return "(" + numS(k) + " " + s.val(x, assign, append(path, k), shared) + ")"
	}
	switch v.Kind() {
	case reflect.Ptr:
		if v.IsNil() {
			return "(" + atomS("nil") + ")"
		}
		return ref(0, v.Pointer(), true, []string{kv(0, v.Elem())})
	case reflect.Slice:
		if v.IsNil() {
			return "(" + atomS("nil") + ")"
		}
		var kvs []string
		for i := 0; i < v.Len(); i++ {
			kvs = append(kvs, kv(i, v.Index(i)))
		}
		return ref(1, v.Pointer(), v.Len() > 0, kvs)
	case reflect.Map:
		if v.IsNil() {
			return "(" + atomS("nil") + ")"
		}
		var kvs []string
		for i, k := range sortedKeys(v) {
			kvs = append(kvs, "("+numS(s.scalar(k))+" "+s.val(v.MapIndex(k), assign, append(path, s.scalar(k)), shared)+")")
			_ = i
		}
		return ref(2, v.Pointer(), true, kvs)
	case reflect.Interface:
		if v.IsNil() {
			return "(" + atomS("nil") + ")"
		}
		d := v.Elem() // *Impl
		if d.Kind() != reflect.Ptr {
			s.unmodelled = true // a value implementation (ValImpl): left to the reflection oracle
			return "(" + atomS("nil") + ")"
		}
		return ref(3, d.Pointer(), true, []string{kv(0, d.Elem())})
	case reflect.Struct, reflect.Array:
		var fs []string
		n := v.Len
		if v.Kind() == reflect.Struct {
			n = v.NumField
		}
		for i := 0; i < n(); i++ {
			var x reflect.Value
			if v.Kind() == reflect.Struct {
				x = v.Field(i)
			} else {
				x = v.Index(i)
			}
			fs = append(fs, s.val(x, assign, append(path, i), shared))
		}
		return "(" + atomS("rec") + " (" + strings.Join(fs, " ") + "))"
	}
	return "(" + atomS("s") + " " + numS(s.scalar(v)) + ")"
}

func (s *valSer) scalar(v reflect.Value) int {
	key := fmt.Sprintf("%v", v.Interface())
	if n, ok := s.intern[key]; ok {
		return n
	}
	s.intern[key] = len(s.intern)
	return s.intern[key]
}

func pathLess(a, b []int) bool {
	for i := 0; i < len(a) && i < len(b); i++ {
		if a[i] != b[i] {
			return a[i] < b[i]
		}
	}
	return len(a) < len(b)
}

func main() {
	r := rand.New(rand.NewSource(SEED))
	for _, t := range tests {
		pt := reflect.TypeOf(t.ptr)
		_, hasDC := pt.MethodByName("DeepCopy")
		_, hasDCI := pt.MethodByName("DeepCopyInto")
		if bypassesHand(pt.Elem(), true, map[reflect.Type]bool{}) {
			fmt.Printf("BYPASS %s\n", t.name)
		}
		if hasDC != t.generated || (t.generated && !hasDCI) {
			fmt.Printf("SELECT %s generated=%v expected=%v\n", t.name, hasDC, t.generated)
		} else {
			fmt.Printf("SELECT %s ok\n", t.name)
		}
		if !t.generated {
			continue
		}
		var problems []string
		for k := 0; k < NVALUES && len(problems) < 3; k++ {
			orig := reflect.New(pt.Elem())
			fill(orig.Elem(), r, 0)
			saved := clone(orig.Elem())
			before := handTotal()
			var cp reflect.Value
			if m := orig.MethodByName("DeepCopy"); m.Type().NumIn() == 0 {
				res := m.Call(nil)[0]
				if res.Kind() == reflect.Ptr && res.Type() == pt {
					cp = res
				} else { // reference types: DeepCopy() T
					cp = reflect.New(pt.Elem())
					cp.Elem().Set(res)
				}
			}
			if k < NMODEL {
				ts := &tySer{ids: map[reflect.Type]int{}}
				tyS := ts.ty(pt.Elem())
				vs := &valSer{ids: map[uintptr]int{}, intern: map[string]int{}}
				in := vs.val(orig.Elem(), true, nil, nil)
				var sh [][]int
				out := vs.val(cp.Elem(), false, nil, &sh)
				sort.Slice(sh, func(i, j int) bool { return pathLess(sh[i], sh[j]) })
				var shS []string
				for _, p := range sh {
					var e []string
					for _, i := range p {
						e = append(e, numS(i))
					}
					shS = append(shS, "("+strings.Join(e, " ")+")")
				}
				if !vs.unmodelled {
					fmt.Printf("CASE %s\t(%s %s %s)\t(%s (%s) %s)\n", t.name, "("+strings.Join(ts.decls, " ")+")", tyS, in, out, strings.Join(shS, " "), numS(handTotal()-before))
				}
			}
			desc := fmt.Sprintf("%#v", orig.Elem().Interface())
			if len(desc) > 300 {
				desc = desc[:300]
			}
			if !reflect.DeepEqual(orig.Elem().Interface(), cp.Elem().Interface()) {
				problems = append(problems, "copy is not deeply equal (or nil/empty differs) for "+desc)
				continue
			}
			if want := countHands(orig.Elem()); handTotal()-before < want {
				problems = append(problems, fmt.Sprintf("hand-written DeepCopyInto called %d times for %d values in %s", handTotal()-before, want, desc))
			}
			so, sc := map[uintptr]string{}, map[uintptr]string{}
			storage(orig.Elem(), so, "")
			storage(cp.Elem(), sc, "")
			var shared []string
			for a, p := range sc {
				if _, ok := so[a]; ok {
					shared = append(shared, p)
				}
			}
			sort.Strings(shared)
			if len(shared) > 0 {
				problems = append(problems, "copy shares storage with the original at "+strings.Join(shared, ",")+" for "+desc)
				continue
			}
			mutate(cp.Elem())
			if !reflect.DeepEqual(orig.Elem().Interface(), saved.Interface()) {
				problems = append(problems, "mutating the copy changed the original "+desc)
			}
		}
		if len(problems) == 0 {
			fmt.Printf("COPY %s ok\n", t.name)
		} else {
			fmt.Printf("COPY %s FAIL %s\n", t.name, strings.ReplaceAll(strings.Join(problems, " ;; "), "\n", " "))
		}
	}
}
`

func c16(g *Gen) {
	gopath := os.Getenv("GOPATH")
	repo := os.Getenv("VERIF_REPO")
	src := filepath.Join(gopath, "src")
	os.MkdirAll(filepath.Join(src, "k8s.io"), 0755)
	os.Symlink(repo, filepath.Join(src, "k8s.io", "gengo"))
	cwd, _ := os.Getwd()
	os.Chdir(src)
	defer os.Chdir(cwd)
	hdr := filepath.Join(os.Getenv("VERIF_WORK"), "c16hdr.txt")
	os.WriteFile(hdr, []byte("/*\nCopyright YEAR.\n*/\n"), 0644)
	n := g.N(8, 150)
	for i := 0; i < n; i++ {
		prefix := fmt.Sprintf("dc%d/", i)
		dcForce = map[int]string{1: "no-tag", 2: "detached"}[i]
		npk := 1 + g.R.Intn(3)
		dcCrossed = i%4 == 3
		if dcCrossed {
			npk = 2 + g.R.Intn(2)
		}
		dcEmbedded = i%8 == 4 // (not a program whose tag layout is forced: these types carry attached tags)
		dcSuffix = i%8 == 5
		if dcSuffix && npk < 2 {
			npk = 2
		}
		prog, cls := g.genDeepcopyProgram(prefix, npk, i%2 == 1)
		dcSuffix, dcEmbedded = false, false
		dcForce = ""
		if dcCrossed {
			cls = append(cls, "several-input-packages-paths-and-names-sort-differently")
		}
		dcCrossed = false
		if i == 0 {
			prog, cls = dcFixedProgram(prefix), []string{"dc-fixed-shapes"}
		}
		var dirs []string
		for _, gp := range prog {
			d := filepath.Join(src, gp.Path)
			os.MkdirAll(d, 0755)
			if gp.Doc != "" {
				os.WriteFile(filepath.Join(d, "doc.go"), []byte(gp.Doc), 0644)
			}
			os.WriteFile(filepath.Join(d, "file.go"), []byte(gp.Src), 0644)
			dirs = append(dirs, gp.Path)
		}
		if i%3 == 1 {
			// what an earlier, longer output left behind (excluded from loading by its build constraint)
			for _, gp := range prog {
				os.WriteFile(filepath.Join(src, gp.Path, "zz_generated.deepcopy.go"),
					[]byte("// +build !ignore_autogenerated\n\npackage "+gp.Name+"\n\n// ZZSTALE\n"+strings.Repeat("// stale filler, left over from an earlier, longer output\n", 3000)), 0644)
			}
			cls = append(cls, "regenerated-over-longer-output")
		}
		a := args.Default().WithoutDefaultFlagParsing()
		a.InputDirs = dirs
		a.OutputBase = src
		a.OutputFileBaseName = "zz_generated.deepcopy"
		a.GoHeaderFilePath = hdr
		a.CustomArgs = &dcgen.CustomArgs{}
		if err := a.Execute(dcgen.NameSystems(), dcgen.DefaultNameSystem(), dcgen.Packages); err != nil {
			g.Emit("C16.generates!", list(atom(prog[len(prog)-1].Src), atom(err.Error())), boolS(false), append(cls, "generate")...)
			continue
		}
		if i%3 == 1 {
			// a package the tool writes nothing for keeps its old file (not the tool's business); one it
			// wrote for must hold the new output only
			var leftovers []string
			for _, gp := range prog {
				f := filepath.Join(src, gp.Path, "zz_generated.deepcopy.go")
				b, err := os.ReadFile(f)
				switch {
				case err != nil:
				case strings.Contains(string(b), "// ZZSTALE"):
					os.Remove(f) // untouched: nothing was generated for this package
				case strings.Contains(string(b), "stale filler"):
					leftovers = append(leftovers, gp.Path)
				}
			}
			g.Emit("C16.regenerated!", list(atom(prog[len(prog)-1].Src[:min(len(prog[len(prog)-1].Src), 300)]), atoms(leftovers)), boolS(len(leftovers) == 0), append(cls, "regenerated-file-holds-only-the-new-output")...)
		}
		// the driver
		var imports, tests strings.Builder
		var hands []string
		arrayRefTypes := map[string]bool{}
		for _, gp := range prog {
			fmt.Fprintf(&imports, "\t%s %q\n", gp.Name, gp.Path)
			hand := "nil"
			if strings.Contains(gp.Src, "var HandCalls int") {
				hands = append(hands, "&"+gp.Name+".HandCalls")
			}
			for _, t := range gp.Types {
				if t.Kind == "iface" || t.Kind == "impl" {
					continue
				}
				fmt.Fprintf(&tests, "\t{%q, new(%s.%s), %v, %s},\n", gp.Name+"."+t.Name, gp.Name, t.Name, t.Generated || t.HandCopy, hand)
			}
			// which struct types have an array field with reference-typed elements (known finding)
			cur := ""
			for _, line := range strings.Split(gp.Src, "\n") {
				if strings.HasPrefix(line, "type ") {
					cur = gp.Name + "." + strings.Fields(line)[1]
				}
				f := strings.Fields(line)
				if len(f) == 2 && strings.HasPrefix(f[1], "[") && !strings.HasPrefix(f[1], "[]") && strings.ContainsAny(f[1][strings.Index(f[1], "]")+1:], "*[") || len(f) == 2 && strings.HasPrefix(f[1], "[") && !strings.HasPrefix(f[1], "[]") && strings.Contains(f[1], "]map[") {
					arrayRefTypes[cur] = true
				}
			}
		}
		// ... or contain such a struct (closure over mentions in the declarations)
		for changed := true; changed; {
			changed = false
			for _, gp := range prog {
				cur := ""
				for _, line := range strings.Split(gp.Src, "\n") {
					if strings.HasPrefix(line, "type ") {
						cur = gp.Name + "." + strings.Fields(line)[1]
					}
					for marked := range arrayRefTypes {
						short := marked[strings.Index(marked, ".")+1:]
						pk := marked[:strings.Index(marked, ".")]
						mention := pk + "." + short
						if pk == gp.Name {
							mention = short
						}
						if cur != "" && cur != marked && !arrayRefTypes[cur] && strings.HasPrefix(line, "\t") || strings.HasPrefix(line, "type ") {
							rest := line
							if strings.HasPrefix(line, "type ") {
								rest = strings.Join(strings.Fields(line)[2:], " ")
							}
							for _, tok := range strings.FieldsFunc(rest, func(r rune) bool {
								return !(r == '.' || r == '_' || r >= '0' && r <= '9' || r >= 'a' && r <= 'z' || r >= 'A' && r <= 'Z')
							}) {
								if tok == mention && cur != marked && !arrayRefTypes[cur] {
									arrayRefTypes[cur] = true
									changed = true
								}
							}
						}
					}
				}
			}
		}
		newImpl := "func newImpl(t reflect.Type, r *rand.Rand) reflect.Value {\n"
		for _, gp := range prog {
			if strings.Contains(gp.Src, "type Obj interface") {
				newImpl += fmt.Sprintf("\tif t == reflect.TypeOf((*%s.Obj)(nil)).Elem() {\n\t\tv := r.Intn(100)\n\t\tif r.Intn(3) == 0 {\n\t\t\treturn reflect.ValueOf(%s.ValImpl{N: v, P: &v})\n\t\t}\n\t\treturn reflect.ValueOf(&%s.Impl{V: &v})\n\t}\n", gp.Name, gp.Name, gp.Name)
			}
		}
		newImpl += "\treturn reflect.Value{}\n}\n"
		drvSrc := strings.NewReplacer("HANDS", strings.Join(hands, ", "), "IMPORTS", imports.String(), "TESTS", tests.String(), "SEED", fmt.Sprint(g.Seed+int64(i)), "NVALUES", fmt.Sprint(g.N(60, 300)), "NMODEL", fmt.Sprint(g.N(12, 60))).Replace(c16driver) + newImpl
		drv := filepath.Join(src, "ex.test", fmt.Sprintf("dc%d", i), "driver")
		os.MkdirAll(drv, 0755)
		os.WriteFile(filepath.Join(drv, "main.go"), []byte(drvSrc), 0644)
		cmd := exec.Command("go", "run", fmt.Sprintf("ex.test/dc%d/driver", i))
		cmd.Dir = src
		cmd.Env = append(os.Environ(), "GO111MODULE=off", "GOPATH="+gopath, "GOFLAGS=")
		var stderr bytes.Buffer
		cmd.Stderr = &stderr
		outb, err := cmd.Output()
		allSrc := ""
		for _, gp := range prog {
			allSrc += "// " + gp.Path + "\n" + gp.Doc + gp.Src + "\n"
		}
		if err != nil {
			g.Emit("C16.compiles!", list(atom(allSrc), atom(stderr.String())), boolS(false), append(cls, "compile")...)
			os.RemoveAll(filepath.Join(src, "ex.test", fmt.Sprintf("dc%d", i)))
			continue
		}
		g.Emit("C16.compiles!", list(atom(""), atom("")), boolS(true), append(cls, "compile")...)
		var selBad []string
		bypassTypes := map[string]bool{}
		lines := strings.Split(strings.TrimSpace(string(outb)), "\n")
		sort.Strings(lines) // (BYPASS sorts before CASE, COPY and SELECT)
		for _, l := range lines {
			f := strings.SplitN(l, " ", 4)
			switch f[0] {
			case "CASE":
				parts := strings.Split(strings.TrimPrefix(l, "CASE "), "\t")
				if len(parts) == 3 {
					c := append([]string{"model-copy"}, cls...)
					if i := strings.LastIndex(parts[2], " <"); i < 4 || parts[2][i-3:i] != " ()" {
						c = append(c, "model-shares")
					}
					if arrayRefTypes[parts[0]] {
						c = append(c, "sig:array-of-references-field")
					}
					g.Emit("C16.copy", parts[1], parts[2], c...)
				}
			case "SELECT":
				if f[2] != "ok" {
					selBad = append(selBad, l)
				}
			case "BYPASS":
				bypassTypes[f[1]] = true
			case "COPY":
				c := append([]string{"copies"}, cls...)
				if arrayRefTypes[f[1]] {
					c = append(c, "sig:array-of-references-field")
				}
				if bypassTypes[f[1]] {
					c = append(c, "sig:hand-written-inside-assignable")
				}
				detail := ""
				if len(f) > 3 {
					detail = f[3]
				}
				g.Emit("C16.copies!", list(atom(f[1]), atom(detail), atom(allSrc)), boolS(f[2] == "ok"), c...)
			}
		}
		genText := ""
		if len(selBad) > 0 {
			for _, gp := range prog {
				if bs, e := os.ReadFile(filepath.Join(src, gp.Path, "zz_generated.deepcopy.go")); e == nil {
					genText += "// " + gp.Path + "/zz_generated.deepcopy.go\n" + string(bs) + "\n"
				}
			}
		}
		g.Emit("C16.selection!", list(atom(strings.Join(selBad, "; ")), atom(allSrc), atom(genText)), boolS(len(selBad) == 0), append(cls, "selection")...)
		os.RemoveAll(filepath.Join(src, "ex.test", fmt.Sprintf("dc%d", i)))
	}
}
