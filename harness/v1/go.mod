module verif/h1

go 1.13

require k8s.io/gengo v0.0.0

replace (
	golang.org/x/sys => golang.org/x/sys v0.0.0-20190813064441-fde4db37ae7a
	golang.org/x/tools => golang.org/x/tools v0.0.0-20190821162956-65e3620a7ae7
	k8s.io/gengo => /repo
)
