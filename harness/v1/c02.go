// DUAL: harness/v1/c02.go is generated from this file by harness/sync.sh (import paths only).
package main

import (
	"fmt"
	"go/ast"
	"go/parser"
	"go/token"
	gotypes "go/types"
	"sort"
	"strings"
	"unicode/utf8"

	"k8s.io/gengo/generator"
	"k8s.io/gengo/namer"
	"k8s.io/gengo/types"
)

func init() { register("C02", c02) }

// typeToSexp renders a gengo type as the namers see it (named types are leaves).
func typeToSexp(t *types.Type) string {
	if t.Name.Package != "" {
		return tag("named", atom(t.Name.Package), atom(t.Name.Name))
	}
	switch t.Kind {
	case types.Builtin:
		return tag("builtin", atom(t.Name.Name))
	case types.Map:
		return tag("map", typeToSexp(t.Key), typeToSexp(t.Elem))
	case types.Slice:
		return tag("slice", typeToSexp(t.Elem))
	case types.Array:
		return tag("array", num(int(t.Len)), typeToSexp(t.Elem))
	case types.Pointer:
		return tag("pointer", typeToSexp(t.Elem))
	case types.Chan:
		return tag("chan", typeToSexp(t.Elem))
	case types.Struct:
		var ms []string
		for _, m := range t.Members {
			ms = append(ms, list(atom(m.Name), boolS(m.Embedded), atom(m.Tags), typeToSexp(m.Type)))
		}
		return tag("struct", ms...)
	case types.Interface:
		var ks []string
		for k := range t.Methods {
			ks = append(ks, k)
		}
		sort.Strings(ks)
		var ms []string
		for _, k := range ks {
			ms = append(ms, list(atom(t.Methods[k].Name.Name), tag("func", list(), list(), boolS(false))))
		}
		return tag("interface", ms...)
	case types.Func:
		var ps, rs []string
		for _, x := range c06sigTypes(t.Signature)[:len(c06sigTypes(t.Signature))-c02nresults(t.Signature)] {
			ps = append(ps, typeToSexp(x))
		}
		all := c06sigTypes(t.Signature)
		for _, x := range all[len(all)-c02nresults(t.Signature):] {
			rs = append(rs, typeToSexp(x))
		}
		return tag("func", list(ps...), list(rs...), boolS(t.Signature.Variadic))
	}
	return tag("other", atom(string(t.Kind)))
}

// inFragment: anonymous structs without embedded fields or tags, non-variadic anonymous
// function types, no interface literals with methods (named types are opaque leaves)
func inFragment(t gotypes.Type) bool {
	switch x := t.(type) {
	case *gotypes.Basic:
		return x.Info()&gotypes.IsUntyped == 0 && x.Kind() != gotypes.UnsafePointer && x.Kind() != gotypes.Invalid &&
			x.Info()&gotypes.IsComplex == 0
	case *gotypes.Named:
		return x.Obj().Pkg() != nil // not the predeclared error type
	case *gotypes.Pointer:
		return inFragment(x.Elem())
	case *gotypes.Slice:
		return inFragment(x.Elem())
	case *gotypes.Array:
		return inFragment(x.Elem())
	case *gotypes.Chan:
		return x.Dir() == gotypes.SendRecv && inFragment(x.Elem())
	case *gotypes.Map:
		return inFragment(x.Key()) && inFragment(x.Elem())
	case *gotypes.Struct:
		for i := 0; i < x.NumFields(); i++ {
			if x.Field(i).Anonymous() || x.Tag(i) != "" || !inFragment(x.Field(i).Type()) {
				return false
			}
		}
		return true
	case *gotypes.Interface:
		return x.NumMethods() == 0 && x.NumEmbeddeds() == 0
	case *gotypes.Signature:
		if x.Variadic() || x.Recv() != nil {
			return false
		}
		for i := 0; i < x.Params().Len(); i++ {
			if !inFragment(x.Params().At(i).Type()) {
				return false
			}
		}
		for i := 0; i < x.Results().Len(); i++ {
			if !inFragment(x.Results().At(i).Type()) {
				return false
			}
		}
		return true
	}
	return false
}

// ---- second stream: hand-built type trees (package paths whose last element is a keyword or
// starts with a digit, several packages with one leaf, zero-length arrays, ...) ----

var c02pkgs = []string{"ex.test/a/type", "ex.test/b/type", "ex.test/c/9p", "ex.test/d/9p", "ex.test/e/func", "ex.test/a/v1", "ex.test/b/v1",
	"ex.test/my-pkg/proto", "single", "local/out", "ex.test/x/go", "ex.test/x/util", "ex.test/~bob/util", "ex.test/lib+x/util", "ex.test/lib/_", "ex.test/w/-"}

func c02comparable(n *TNode) bool {
	switch n.Kind {
	case "slice", "map", "func":
		return false
	case "array", "struct":
		for _, k := range n.Kids {
			if !c02comparable(k) {
				return false
			}
		}
	}
	return true
}

// make the tree a valid Go type: map keys must be comparable
func c02fix(n *TNode) {
	for _, k := range n.Kids {
		c02fix(k)
	}
	for _, k := range n.Rs {
		c02fix(k)
	}
	if n.Kind == "named" { // a foreign type must be exported to be nameable at all
		n.Nm = strings.ToUpper(n.Nm[:1]) + n.Nm[1:]
	}
	if n.Kind == "map" && !c02comparable(n.Kids[0]) {
		n.Kids[0] = &TNode{Kind: "builtin", Nm: "string"}
	}
}

type c02world struct {
	pkgs  map[string]*gotypes.Package
	named map[string]*gotypes.Named
}

func (w *c02world) pkg(path string) *gotypes.Package {
	if p, ok := w.pkgs[path]; ok {
		return p
	}
	p := gotypes.NewPackage(path, fmt.Sprintf("declared%d", len(w.pkgs)))
	p.MarkComplete()
	w.pkgs[path] = p
	return p
}

func (w *c02world) goType(n *TNode) gotypes.Type {
	switch n.Kind {
	case "named":
		k := n.Pkg + "." + n.Nm
		if t, ok := w.named[k]; ok {
			return t
		}
		p := w.pkg(n.Pkg)
		tn := gotypes.NewTypeName(0, p, n.Nm, nil)
		t := gotypes.NewNamed(tn, gotypes.NewStruct(nil, nil), nil)
		p.Scope().Insert(tn)
		w.named[k] = t
		return t
	case "builtin":
		return gotypes.Universe.Lookup(n.Nm).Type()
	case "map":
		return gotypes.NewMap(w.goType(n.Kids[0]), w.goType(n.Kids[1]))
	case "slice":
		return gotypes.NewSlice(w.goType(n.Kids[0]))
	case "array":
		return gotypes.NewArray(w.goType(n.Kids[0]), int64(n.Len))
	case "pointer":
		return gotypes.NewPointer(w.goType(n.Kids[0]))
	case "chan":
		return gotypes.NewChan(gotypes.SendRecv, w.goType(n.Kids[0]))
	case "struct":
		var fs []*gotypes.Var
		for i, k := range n.Kids {
			fs = append(fs, gotypes.NewField(0, nil, n.MNames[i], w.goType(k), false))
		}
		return gotypes.NewStruct(fs, nil)
	case "func":
		var ps, rs []*gotypes.Var
		for _, k := range n.Kids {
			ps = append(ps, gotypes.NewParam(0, nil, "", w.goType(k)))
		}
		for _, k := range n.Rs {
			rs = append(rs, gotypes.NewParam(0, nil, "", w.goType(k)))
		}
		return gotypes.NewSignatureType(nil, nil, nil, gotypes.NewTuple(ps...), gotypes.NewTuple(rs...), false)
	}
	panic("c02: kind " + n.Kind)
}

func c02locals(n *TNode, out string, acc map[string]bool) {
	if n.Kind == "named" && n.Pkg == out {
		acc[n.Nm] = true
	}
	for _, k := range n.Kids {
		c02locals(k, out, acc)
	}
	for _, k := range n.Rs {
		c02locals(k, out, acc)
	}
}

func c02synthetic(g *Gen) {
	n := g.N(150, 3000)
	for i := 0; i < n; i++ {
		useTracker := g.Chance(0.7)
		out := g.Pick([]string{"ex.test/out", "local/out", "ex.test/z/type", "ex.test/a/v1"})
		unicodePaths := false
		if i%10 == 4 {
			// import paths with letters outside ASCII: decided by the re-type-check alone (the model's strings are bytes)
			useTracker, unicodePaths = true, true
		}
		if i%10 == 9 {
			// single-element import paths (the standard library's) next to an output package of the same leaf name
			useTracker, out = true, g.Pick([]string{"ex.test/util/time", "ex.test/util/errors"})
		}
		if i%10 == 2 {
			useTracker = true // the aliases of case 2's last three packages exist only with a tracker
		}
		var tr namer.ImportTracker
		if useTracker {
			tr = generator.NewImportTrackerForPackage(out)
		}
		rn := namer.NewRawNamer(out, tr)
		w := &c02world{pkgs: map[string]*gotypes.Package{}, named: map[string]*gotypes.Named{}}
		named := map[string]*types.Type{}
		var trees []*TNode
		var ins, names, rendered []string
		cls := []string{"raw", "synthetic"}
		if useTracker {
			cls = append(cls, "with-tracker")
			if i%2 == 0 {
				cls = append(cls, "import-lines-asked-midway")
			}
		} else {
			cls = append(cls, "without-tracker")
		}
		// fixed openings (one namer, so one memo and one scratch state, for the whole case):
		// a struct and then a struct with a not-yet-named struct as a later member; and four
		// packages of which two run out of directory names and get numbered aliases
		var forced []*TNode
		bi := func(n string) *TNode { return &TNode{Kind: "builtin", Nm: n} }
		switch i % 5 {
		case 0:
			forced = []*TNode{
				{Kind: "struct", MNames: []string{"F0", "F1", "F2"}, Kids: []*TNode{bi("int"), bi("string"), bi("bool")}},
				{Kind: "struct", MNames: []string{"F0", "F1", "F2"}, Kids: []*TNode{bi("int"),
					{Kind: "struct", MNames: []string{"F0", "F1"}, Kids: []*TNode{bi("string"), {Kind: "named", Pkg: g.Pick(c02pkgs), Nm: "T"}}},
					bi("bool")}},
			}
			cls = append(cls, "nested-struct-after-struct")
		case 4:
			if unicodePaths {
				for _, p := range []string{"ex.test/données", "ex.test/包", "ex.test/модель/v1", "ex.test/x/données"} {
					forced = append(forced, &TNode{Kind: "pointer", Kids: []*TNode{{Kind: "named", Pkg: p, Nm: "T"}}})
				}
				cls = append(cls, "import-path-with-non-ascii-letters")
			} else {
				for _, p := range []string{"time", "errors", "ex.test/other/time", "io"} {
					forced = append(forced, &TNode{Kind: "map", Kids: []*TNode{{Kind: "builtin", Nm: "string"}, {Kind: "slice", Kids: []*TNode{{Kind: "named", Pkg: p, Nm: "T"}}}}})
				}
				cls = append(cls, "single-element-path-equal-to-the-output-leaf")
			}
		case 3:
			for _, p := range []string{"ex.test/lib/_", "ex.test/w/-", "_"} {
				forced = append(forced, &TNode{Kind: "pointer", Kids: []*TNode{{Kind: "named", Pkg: p, Nm: "T"}}})
			}
			if useTracker {
				cls = append(cls, "directory-without-letter-or-digit")
			}
		case 2:
			for _, p := range []string{"ex.test/x/util", "ex.test/~bob/util", "ex.test/lib+x/util"} {
				forced = append(forced, &TNode{Kind: "slice", Kids: []*TNode{{Kind: "named", Pkg: p, Nm: "T"}}})
			}
			// a last directory that is a keyword or "init" only AFTER the characters an identifier
			// cannot hold are dropped: the alias must still be a legal, non-keyword identifier
			for _, p := range []string{"ex.test/x/go-to", "ex.test/api/type_", "ex.test/x/in_it"} {
				forced = append(forced, &TNode{Kind: "map", Kids: []*TNode{{Kind: "named", Pkg: p, Nm: "T"}, {Kind: "array", Len: 2, Kids: []*TNode{{Kind: "pointer", Kids: []*TNode{{Kind: "named", Pkg: p, Nm: "T"}}}}}}})
			}
			if useTracker {
				cls = append(cls, "leaf-becomes-keyword-after-stripping")
			}
		case 1:
			for _, p := range []string{"x/b", "ab", "a/b", "a-b"} {
				forced = append(forced, &TNode{Kind: "pointer", Kids: []*TNode{{Kind: "named", Pkg: p, Nm: "T"}}})
			}
			if useTracker {
				cls = append(cls, "numbered-alias-twice")
			}
		}
		for k, nk := 0, len(forced)+1+g.R.Intn(5); k < nk; k++ {
			var t *TNode
			if k < len(forced) {
				t = forced[k]
			} else {
				t = g.tyGen(TyOpts{Pkgs: c02pkgs, Depth: 1 + g.R.Intn(3), Funcs: true}, 0)
			}
			c02fix(t)
			trees = append(trees, t)
			obj := t.Build(named)
			ins = append(ins, typeToSexp(obj))
			nm := rn.Name(obj)
			names = append(names, atom(nm))
			rendered = append(rendered, nm)
			if useTracker && i%2 == 0 {
				tr.ImportLines() // asked midway (a generator may ask per type): the final answer must still be complete
			}
			for _, s := range tySubterms(t, nil) {
				if s.Kind == "named" && strings.ContainsAny(s.Pkg, "~+") {
					cls = append(cls, "path-with-tilde-or-plus")
				}
				if s.Kind == "array" && s.Len == 0 {
					cls = append(cls, "zero-length-array")
				}
				if s.Kind == "named" && s.Pkg == out {
					cls = append(cls, "local-type")
				}
			}
		}
		lines := list()
		var importLines []string
		if useTracker {
			importLines = tr.ImportLines()
			lines = atoms(importLines)
			leafs := map[string]int{}
			for _, l := range importLines {
				fl := strings.Fields(l)
				p := strings.Trim(fl[len(fl)-1], `"`)
				leafs[p[strings.LastIndex(p, "/")+1:]]++
			}
			for leaf, c := range leafs {
				if c > 1 {
					cls = append(cls, "same-leaf-twice")
					if leaf == "type" || leaf == "9p" {
						cls = append(cls, "same-illegal-leaf-twice")
					}
				}
			}
		}
		if !unicodePaths {
			g.Emit("C02.raw", list(num(c01ver), atom(out), boolS(useTracker), list(ins...)), list(list(names...), lines), cls...)
		}
		if !useTracker {
			continue // without a tracker the qualifier is the path's last element, which need not be an identifier
		}
		// the oracle: the text, in a file of the output package with the reported imports, re-read by go/types
		var problems []string
		var b strings.Builder
		b.WriteString("package outpkg\n\n")
		if len(importLines) > 0 {
			b.WriteString("import (\n")
			for _, l := range importLines {
				b.WriteString("\t" + l + "\n")
				if strings.Contains(l, `"`+out+`"`) {
					problems = append(problems, "the output package is imported")
				}
				if len(strings.Fields(l)) != 2 {
					problems = append(problems, "import line "+l+" does not bind a local name")
				} else if !strings.Contains(strings.Join(rendered, " "), strings.Fields(l)[0]+".") {
					problems = append(problems, "import "+l+" is not needed by the rendered text")
				}
			}
			b.WriteString(")\n\n")
		}
		locals := map[string]bool{}
		for _, t := range trees {
			c02locals(t, out, locals)
		}
		var ls []string
		for l := range locals {
			ls = append(ls, l)
		}
		sort.Strings(ls)
		for _, l := range ls {
			fmt.Fprintf(&b, "type %s struct{}\n", l)
		}
		for k, r := range rendered {
			fmt.Fprintf(&b, "var ZZv%d %s\n", k, r)
		}
		var want []gotypes.Type
		for _, t := range trees {
			want = append(want, w.goType(t))
		}
		fset := token.NewFileSet()
		f, perr := parser.ParseFile(fset, "zz.go", b.String(), 0)
		if perr != nil {
			problems = append(problems, "rendered text does not parse: "+perr.Error())
		} else {
			imp := mapImporter{}
			for path, p := range w.pkgs {
				imp[path] = p
			}
			conf := gotypes.Config{Importer: imp}
			pkg, cerr := conf.Check(out, fset, []*ast.File{f}, nil)
			if cerr != nil {
				problems = append(problems, "rendered text does not type-check: "+cerr.Error())
			} else {
				for k := range trees {
					got := pkg.Scope().Lookup(fmt.Sprintf("ZZv%d", k)).Type()
					if !c02same(got, want[k]) {
						problems = append(problems, fmt.Sprintf("%q denotes %s, not %s", rendered[k], got, want[k]))
					}
				}
			}
		}
		dcls := []string{"retypecheck", "synthetic"}
		if unicodePaths {
			dcls = append(dcls, "import-path-with-non-ascii-letters")
			for _, l := range importLines {
				if !utf8.ValidString(l) {
					problems = append(problems, fmt.Sprintf("import line %q is not valid UTF-8", l))
				}
			}
		}
		g.Emit("C02.denotes!", list(atom(out), boolS(useTracker), atom(b.String()), atom(strings.Join(problems, "; "))), boolS(len(problems) == 0), dcls...)
	}
}

func c02(g *Gen) {
	c02synthetic(g)
	n := g.N(60, 1500)
	for i := 0; i < n; i++ {
		npk := 2 + g.R.Intn(3)
		prog, cls := g.genProgram(false, npk, 1+g.R.Intn(3))
		chk, err := typeCheck(prog)
		if err != nil {
			panic(err)
		}
		_, ser := chk.serialise(c01ver, prog)
		u, err := c01load(g, i, prog)
		if err != nil {
			panic(err)
		}
		type cand struct {
			gt  gotypes.Type
			obj *types.Type
		}
		var cands []cand
		for _, gt := range ser.types {
			nm := c06nameOf(gt.String())
			if b, ok := gt.(*gotypes.Basic); ok {
				nm = types.Name{Name: b.Name()}
			}
			if !inFragment(gt) || c02unexported(gt, map[gotypes.Type]bool{}) {
				continue // (an unexported type cannot be named from another package at all)
			}
			if obj, ok := u.Package(nm.Package).Types[nm.Name]; ok && obj.Kind != types.Unknown && obj.Kind != types.Unsupported {
				cands = append(cands, cand{gt, obj})
			}
		}
		if len(cands) == 0 {
			continue
		}
		last := prog[len(prog)-1].Path
		for round := 0; round < 4; round++ {
			useTracker := g.Chance(0.6)
			out := g.Pick([]string{"ex.test/out", "ex.test/out", last, "ex.test/x/v1", "ex.test/go"})
			var tr namer.ImportTracker
			if useTracker {
				tr = generator.NewImportTrackerForPackage(out)
			}
			rn := namer.NewRawNamer(out, tr)
			var pick []cand
			for k := 0; k < 1+g.R.Intn(6); k++ {
				pick = append(pick, cands[g.R.Intn(len(cands))])
			}
			var ins, names []string
			rcls := append([]string{"raw"}, cls...)
			if useTracker {
				rcls = append(rcls, "with-tracker")
			} else {
				rcls = append(rcls, "without-tracker")
			}
			if out == last {
				rcls = append(rcls, "output-is-program-package")
			}
			var rendered []string
			for _, c := range pick {
				ins = append(ins, typeToSexp(c.obj))
				nmS := rn.Name(c.obj)
				names = append(names, atom(nmS))
				rendered = append(rendered, nmS)
				if c.obj.Name.Package == out {
					rcls = append(rcls, "local-type")
				}
			}
			lines := list()
			var importLines []string
			if useTracker {
				importLines = tr.ImportLines()
				lines = atoms(importLines)
			}
			g.Emit("C02.raw", list(num(c01ver), atom(out), boolS(useTracker), list(ins...)), list(list(names...), lines), rcls...)

			// the oracle: put the text into a file of the output package and let go/types read it
			var problems []string
			pkgName := out[strings.LastIndex(out, "/")+1:]
			if pkgName == "go" {
				pkgName = "gopkg"
			}
			var b strings.Builder
			fmt.Fprintf(&b, "package %s\n\n", pkgName)
			if useTracker {
				if len(importLines) > 0 {
					b.WriteString("import (\n")
					for _, l := range importLines {
						b.WriteString("\t" + l + "\n")
						if strings.Contains(l, `"`+out+`"`) {
							problems = append(problems, "the output package is imported")
						}
					}
					b.WriteString(")\n\n")
				}
			} else {
				need := map[string]bool{}
				for _, c := range pick {
					c02foreign(c.gt, out, need)
				}
				var ps []string
				for p := range need {
					ps = append(ps, p)
				}
				sort.Strings(ps)
				for _, p := range ps {
					fmt.Fprintf(&b, "import %q\n", p)
				}
			}
			for k, r := range rendered {
				fmt.Fprintf(&b, "var ZZv%d %s\n", k, r)
			}
			if useTracker {
				// every import must be used, or the file does not compile: mention each alias once
				for _, l := range importLines {
					alias := strings.Fields(l)[0]
					if !strings.Contains(strings.Join(rendered, " "), alias+".") {
						problems = append(problems, "import "+l+" is not needed by the rendered text")
					}
				}
			}
			files := []*ast.File{}
			if out == last {
				files = append(files, chk.files[last])
			}
			f, perr := parser.ParseFile(chk.fset, fmt.Sprintf("%s/zz_%d_%d.go", out, i, round), b.String(), 0)
			if perr != nil {
				problems = append(problems, "rendered text does not parse: "+perr.Error())
			} else {
				files = append(files, f)
				imp := mapImporter{}
				for _, p := range chk.pkgs {
					imp[p.Path()] = p
				}
				conf := gotypes.Config{Importer: imp}
				pkg, cerr := conf.Check(out, chk.fset, files, nil)
				if cerr != nil {
					problems = append(problems, "rendered text does not type-check: "+cerr.Error())
				} else {
					for k, c := range pick {
						got := pkg.Scope().Lookup(fmt.Sprintf("ZZv%d", k)).Type()
						if !gotypes.Identical(got, c.gt) && !c02same(got, c.gt) {
							problems = append(problems, fmt.Sprintf("%q denotes %s, not %s", rendered[k], got, c.gt))
						}
					}
				}
			}
			g.Emit("C02.denotes!", list(atom(out), boolS(useTracker), atom(b.String()), atom(strings.Join(problems, "; "))), boolS(len(problems) == 0), "retypecheck")
		}
	}
}

// c02unexported: does the type expression mention a named type that is not exported?
func c02unexported(t gotypes.Type, seen map[gotypes.Type]bool) bool {
	if seen[t] {
		return false
	}
	seen[t] = true
	switch x := t.(type) {
	case *gotypes.Named:
		return x.Obj().Pkg() != nil && !x.Obj().Exported()
	case *gotypes.Pointer:
		return c02unexported(x.Elem(), seen)
	case *gotypes.Slice:
		return c02unexported(x.Elem(), seen)
	case *gotypes.Array:
		return c02unexported(x.Elem(), seen)
	case *gotypes.Chan:
		return c02unexported(x.Elem(), seen)
	case *gotypes.Map:
		return c02unexported(x.Key(), seen) || c02unexported(x.Elem(), seen)
	case *gotypes.Struct:
		for i := 0; i < x.NumFields(); i++ {
			if c02unexported(x.Field(i).Type(), seen) {
				return true
			}
		}
	case *gotypes.Signature:
		for i := 0; i < x.Params().Len(); i++ {
			if c02unexported(x.Params().At(i).Type(), seen) {
				return true
			}
		}
		for i := 0; i < x.Results().Len(); i++ {
			if c02unexported(x.Results().At(i).Type(), seen) {
				return true
			}
		}
	}
	return false
}

// c02foreign collects the packages of named types occurring in t (outside pkg `out`).
func c02foreign(t gotypes.Type, out string, need map[string]bool) {
	switch x := t.(type) {
	case *gotypes.Named:
		if x.Obj().Pkg() != nil && x.Obj().Pkg().Path() != out {
			need[x.Obj().Pkg().Path()] = true
		}
	case *gotypes.Pointer:
		c02foreign(x.Elem(), out, need)
	case *gotypes.Slice:
		c02foreign(x.Elem(), out, need)
	case *gotypes.Array:
		c02foreign(x.Elem(), out, need)
	case *gotypes.Chan:
		c02foreign(x.Elem(), out, need)
	case *gotypes.Map:
		c02foreign(x.Key(), out, need)
		c02foreign(x.Elem(), out, need)
	case *gotypes.Struct:
		for i := 0; i < x.NumFields(); i++ {
			c02foreign(x.Field(i).Type(), out, need)
		}
	case *gotypes.Signature:
		for i := 0; i < x.Params().Len(); i++ {
			c02foreign(x.Params().At(i).Type(), out, need)
		}
		for i := 0; i < x.Results().Len(); i++ {
			c02foreign(x.Results().At(i).Type(), out, need)
		}
	}
}

// c02same: type identity as the Go specification defines it, with named types compared by
// (package path, name) so that it works across two type-checking runs of one package.
func c02same(a, b gotypes.Type) bool {
	a, b = gotypes.Unalias(a), gotypes.Unalias(b)
	switch x := a.(type) {
	case *gotypes.Basic:
		y, ok := b.(*gotypes.Basic)
		return ok && x.Kind() == y.Kind()
	case *gotypes.Named:
		y, ok := b.(*gotypes.Named)
		if !ok || x.Obj().Name() != y.Obj().Name() {
			return false
		}
		if x.Obj().Pkg() == nil || y.Obj().Pkg() == nil {
			return x.Obj().Pkg() == y.Obj().Pkg()
		}
		return x.Obj().Pkg().Path() == y.Obj().Pkg().Path()
	case *gotypes.Pointer:
		y, ok := b.(*gotypes.Pointer)
		return ok && c02same(x.Elem(), y.Elem())
	case *gotypes.Slice:
		y, ok := b.(*gotypes.Slice)
		return ok && c02same(x.Elem(), y.Elem())
	case *gotypes.Array:
		y, ok := b.(*gotypes.Array)
		return ok && x.Len() == y.Len() && c02same(x.Elem(), y.Elem())
	case *gotypes.Chan:
		y, ok := b.(*gotypes.Chan)
		return ok && x.Dir() == y.Dir() && c02same(x.Elem(), y.Elem())
	case *gotypes.Map:
		y, ok := b.(*gotypes.Map)
		return ok && c02same(x.Key(), y.Key()) && c02same(x.Elem(), y.Elem())
	case *gotypes.Struct:
		y, ok := b.(*gotypes.Struct)
		if !ok || x.NumFields() != y.NumFields() {
			return false
		}
		for i := 0; i < x.NumFields(); i++ {
			if x.Field(i).Name() != y.Field(i).Name() || x.Field(i).Anonymous() != y.Field(i).Anonymous() || x.Tag(i) != y.Tag(i) ||
				!c02same(x.Field(i).Type(), y.Field(i).Type()) {
				return false
			}
		}
		return true
	case *gotypes.Interface:
		y, ok := b.(*gotypes.Interface)
		return ok && x.NumMethods() == 0 && y.NumMethods() == 0
	case *gotypes.Signature:
		y, ok := b.(*gotypes.Signature)
		if !ok || x.Variadic() != y.Variadic() || x.Params().Len() != y.Params().Len() || x.Results().Len() != y.Results().Len() {
			return false
		}
		for i := 0; i < x.Params().Len(); i++ {
			if !c02same(x.Params().At(i).Type(), y.Params().At(i).Type()) {
				return false
			}
		}
		for i := 0; i < x.Results().Len(); i++ {
			if !c02same(x.Results().At(i).Type(), y.Results().At(i).Type()) {
				return false
			}
		}
		return true
	}
	return false
}
