// DUAL: harness/v1/c02.go is generated from this file by harness/sync.sh (import paths only).
package main

import (
	"fmt"
	"go/ast"
	"go/parser"
	gotypes "go/types"
	"sort"
	"strings"

	"k8s.io/gengo/generator"
	"k8s.io/gengo/namer"
	"k8s.io/gengo/types"
)

func init() { register("C02", c02) }

// typeToSexp renders a gengo type as the namers see it (named types are leaves).
func typeToSexp(t *types.Type) string {
	if t.Name.Package != "" {
		return tag("named", atom(t.Name.Package), atom(t.Name.Name))
	}
	switch t.Kind {
	case types.Builtin:
		return tag("builtin", atom(t.Name.Name))
	case types.Map:
		return tag("map", typeToSexp(t.Key), typeToSexp(t.Elem))
	case types.Slice:
		return tag("slice", typeToSexp(t.Elem))
	case types.Array:
		return tag("array", num(int(t.Len)), typeToSexp(t.Elem))
	case types.Pointer:
		return tag("pointer", typeToSexp(t.Elem))
	case types.Chan:
		return tag("chan", typeToSexp(t.Elem))
	case types.Struct:
		var ms []string
		for _, m := range t.Members {
			ms = append(ms, list(atom(m.Name), boolS(m.Embedded), atom(m.Tags), typeToSexp(m.Type)))
		}
		return tag("struct", ms...)
	case types.Interface:
		var ks []string
		for k := range t.Methods {
			ks = append(ks, k)
		}
		sort.Strings(ks)
		var ms []string
		for _, k := range ks {
			ms = append(ms, list(atom(t.Methods[k].Name.Name), tag("func", list(), list(), boolS(false))))
		}
		return tag("interface", ms...)
	case types.Func:
		var ps, rs []string
		for _, x := range c06sigTypes(t.Signature)[:len(c06sigTypes(t.Signature))-c02nresults(t.Signature)] {
			ps = append(ps, typeToSexp(x))
		}
		all := c06sigTypes(t.Signature)
		for _, x := range all[len(all)-c02nresults(t.Signature):] {
			rs = append(rs, typeToSexp(x))
		}
		return tag("func", list(ps...), list(rs...), boolS(t.Signature.Variadic))
	}
	return tag("other", atom(string(t.Kind)))
}

// inFragment: anonymous structs without embedded fields or tags, non-variadic anonymous
// function types, no interface literals with methods (named types are opaque leaves)
func inFragment(t gotypes.Type) bool {
	switch x := t.(type) {
	case *gotypes.Basic:
		return x.Info()&gotypes.IsUntyped == 0 && x.Kind() != gotypes.UnsafePointer && x.Kind() != gotypes.Invalid &&
			x.Info()&gotypes.IsComplex == 0
	case *gotypes.Named:
		return x.Obj().Pkg() != nil // not the predeclared error type
	case *gotypes.Pointer:
		return inFragment(x.Elem())
	case *gotypes.Slice:
		return inFragment(x.Elem())
	case *gotypes.Array:
		return inFragment(x.Elem())
	case *gotypes.Chan:
		return x.Dir() == gotypes.SendRecv && inFragment(x.Elem())
	case *gotypes.Map:
		return inFragment(x.Key()) && inFragment(x.Elem())
	case *gotypes.Struct:
		for i := 0; i < x.NumFields(); i++ {
			if x.Field(i).Anonymous() || x.Tag(i) != "" || !inFragment(x.Field(i).Type()) {
				return false
			}
		}
		return true
	case *gotypes.Interface:
		return x.NumMethods() == 0 && x.NumEmbeddeds() == 0
	case *gotypes.Signature:
		if x.Variadic() || x.Recv() != nil {
			return false
		}
		for i := 0; i < x.Params().Len(); i++ {
			if !inFragment(x.Params().At(i).Type()) {
				return false
			}
		}
		for i := 0; i < x.Results().Len(); i++ {
			if !inFragment(x.Results().At(i).Type()) {
				return false
			}
		}
		return true
	}
	return false
}

func c02(g *Gen) {
	n := g.N(60, 1500)
	for i := 0; i < n; i++ {
		npk := 2 + g.R.Intn(3)
		prog, cls := g.genProgram(false, npk, 1+g.R.Intn(3))
		chk, err := typeCheck(prog)
		if err != nil {
			panic(err)
		}
		_, ser := chk.serialise(c01ver, prog)
		u, err := c01load(g, i, prog)
		if err != nil {
			panic(err)
		}
		type cand struct {
			gt  gotypes.Type
			obj *types.Type
		}
		var cands []cand
		for _, gt := range ser.types {
			nm := c06nameOf(gt.String())
			if b, ok := gt.(*gotypes.Basic); ok {
				nm = types.Name{Name: b.Name()}
			}
			if !inFragment(gt) {
				continue
			}
			if obj, ok := u.Package(nm.Package).Types[nm.Name]; ok && obj.Kind != types.Unknown && obj.Kind != types.Unsupported {
				cands = append(cands, cand{gt, obj})
			}
		}
		if len(cands) == 0 {
			continue
		}
		last := prog[len(prog)-1].Path
		for round := 0; round < 4; round++ {
			useTracker := g.Chance(0.6)
			out := g.Pick([]string{"ex.test/out", "ex.test/out", last, "ex.test/x/v1", "ex.test/go"})
			var tr namer.ImportTracker
			if useTracker {
				tr = generator.NewImportTrackerForPackage(out)
			}
			rn := namer.NewRawNamer(out, tr)
			var pick []cand
			for k := 0; k < 1+g.R.Intn(6); k++ {
				pick = append(pick, cands[g.R.Intn(len(cands))])
			}
			var ins, names []string
			rcls := append([]string{"raw"}, cls...)
			if useTracker {
				rcls = append(rcls, "with-tracker")
			} else {
				rcls = append(rcls, "without-tracker")
			}
			if out == last {
				rcls = append(rcls, "output-is-program-package")
			}
			var rendered []string
			for _, c := range pick {
				ins = append(ins, typeToSexp(c.obj))
				nmS := rn.Name(c.obj)
				names = append(names, atom(nmS))
				rendered = append(rendered, nmS)
				if c.obj.Name.Package == out {
					rcls = append(rcls, "local-type")
				}
			}
			lines := list()
			var importLines []string
			if useTracker {
				importLines = tr.ImportLines()
				lines = atoms(importLines)
			}
			g.Emit("C02.raw", list(num(c01ver), atom(out), boolS(useTracker), list(ins...)), list(list(names...), lines), rcls...)

			// the oracle: put the text into a file of the output package and let go/types read it
			var problems []string
			pkgName := out[strings.LastIndex(out, "/")+1:]
			if pkgName == "go" {
				pkgName = "gopkg"
			}
			var b strings.Builder
			fmt.Fprintf(&b, "package %s\n\n", pkgName)
			if useTracker {
				if len(importLines) > 0 {
					b.WriteString("import (\n")
					for _, l := range importLines {
						b.WriteString("\t" + l + "\n")
						if strings.Contains(l, `"`+out+`"`) {
							problems = append(problems, "the output package is imported")
						}
					}
					b.WriteString(")\n\n")
				}
			} else {
				need := map[string]bool{}
				for _, c := range pick {
					c02foreign(c.gt, out, need)
				}
				var ps []string
				for p := range need {
					ps = append(ps, p)
				}
				sort.Strings(ps)
				for _, p := range ps {
					fmt.Fprintf(&b, "import %q\n", p)
				}
			}
			for k, r := range rendered {
				fmt.Fprintf(&b, "var ZZv%d %s\n", k, r)
			}
			if useTracker {
				// every import must be used, or the file does not compile: mention each alias once
				for _, l := range importLines {
					alias := strings.Fields(l)[0]
					if !strings.Contains(strings.Join(rendered, " "), alias+".") {
						problems = append(problems, "import "+l+" is not needed by the rendered text")
					}
				}
			}
			files := []*ast.File{}
			if out == last {
				files = append(files, chk.files[last])
			}
			f, perr := parser.ParseFile(chk.fset, fmt.Sprintf("%s/zz_%d_%d.go", out, i, round), b.String(), 0)
			if perr != nil {
				problems = append(problems, "rendered text does not parse: "+perr.Error())
			} else {
				files = append(files, f)
				imp := mapImporter{}
				for _, p := range chk.pkgs {
					imp[p.Path()] = p
				}
				conf := gotypes.Config{Importer: imp}
				pkg, cerr := conf.Check(out, chk.fset, files, nil)
				if cerr != nil {
					problems = append(problems, "rendered text does not type-check: "+cerr.Error())
				} else {
					for k, c := range pick {
						got := pkg.Scope().Lookup(fmt.Sprintf("ZZv%d", k)).Type()
						if !gotypes.Identical(got, c.gt) && !c02same(got, c.gt) {
							problems = append(problems, fmt.Sprintf("%q denotes %s, not %s", rendered[k], got, c.gt))
						}
					}
				}
			}
			g.Emit("C02.denotes!", list(atom(out), boolS(useTracker), atom(b.String()), atom(strings.Join(problems, "; "))), boolS(len(problems) == 0), "retypecheck")
		}
	}
}

// c02foreign collects the packages of named types occurring in t (outside pkg `out`).
func c02foreign(t gotypes.Type, out string, need map[string]bool) {
	switch x := t.(type) {
	case *gotypes.Named:
		if x.Obj().Pkg() != nil && x.Obj().Pkg().Path() != out {
			need[x.Obj().Pkg().Path()] = true
		}
	case *gotypes.Pointer:
		c02foreign(x.Elem(), out, need)
	case *gotypes.Slice:
		c02foreign(x.Elem(), out, need)
	case *gotypes.Array:
		c02foreign(x.Elem(), out, need)
	case *gotypes.Chan:
		c02foreign(x.Elem(), out, need)
	case *gotypes.Map:
		c02foreign(x.Key(), out, need)
		c02foreign(x.Elem(), out, need)
	case *gotypes.Struct:
		for i := 0; i < x.NumFields(); i++ {
			c02foreign(x.Field(i).Type(), out, need)
		}
	case *gotypes.Signature:
		for i := 0; i < x.Params().Len(); i++ {
			c02foreign(x.Params().At(i).Type(), out, need)
		}
		for i := 0; i < x.Results().Len(); i++ {
			c02foreign(x.Results().At(i).Type(), out, need)
		}
	}
}

// c02same: type identity as the Go specification defines it, with named types compared by
// (package path, name) so that it works across two type-checking runs of one package.
func c02same(a, b gotypes.Type) bool {
	a, b = gotypes.Unalias(a), gotypes.Unalias(b)
	switch x := a.(type) {
	case *gotypes.Basic:
		y, ok := b.(*gotypes.Basic)
		return ok && x.Kind() == y.Kind()
	case *gotypes.Named:
		y, ok := b.(*gotypes.Named)
		if !ok || x.Obj().Name() != y.Obj().Name() {
			return false
		}
		if x.Obj().Pkg() == nil || y.Obj().Pkg() == nil {
			return x.Obj().Pkg() == y.Obj().Pkg()
		}
		return x.Obj().Pkg().Path() == y.Obj().Pkg().Path()
	case *gotypes.Pointer:
		y, ok := b.(*gotypes.Pointer)
		return ok && c02same(x.Elem(), y.Elem())
	case *gotypes.Slice:
		y, ok := b.(*gotypes.Slice)
		return ok && c02same(x.Elem(), y.Elem())
	case *gotypes.Array:
		y, ok := b.(*gotypes.Array)
		return ok && x.Len() == y.Len() && c02same(x.Elem(), y.Elem())
	case *gotypes.Chan:
		y, ok := b.(*gotypes.Chan)
		return ok && x.Dir() == y.Dir() && c02same(x.Elem(), y.Elem())
	case *gotypes.Map:
		y, ok := b.(*gotypes.Map)
		return ok && c02same(x.Key(), y.Key()) && c02same(x.Elem(), y.Elem())
	case *gotypes.Struct:
		y, ok := b.(*gotypes.Struct)
		if !ok || x.NumFields() != y.NumFields() {
			return false
		}
		for i := 0; i < x.NumFields(); i++ {
			if x.Field(i).Name() != y.Field(i).Name() || x.Field(i).Anonymous() != y.Field(i).Anonymous() || x.Tag(i) != y.Tag(i) ||
				!c02same(x.Field(i).Type(), y.Field(i).Type()) {
				return false
			}
		}
		return true
	case *gotypes.Interface:
		y, ok := b.(*gotypes.Interface)
		return ok && x.NumMethods() == 0 && y.NumMethods() == 0
	case *gotypes.Signature:
		y, ok := b.(*gotypes.Signature)
		if !ok || x.Variadic() != y.Variadic() || x.Params().Len() != y.Params().Len() || x.Results().Len() != y.Results().Len() {
			return false
		}
		for i := 0; i < x.Params().Len(); i++ {
			if !c02same(x.Params().At(i).Type(), y.Params().At(i).Type()) {
				return false
			}
		}
		for i := 0; i < x.Results().Len(); i++ {
			if !c02same(x.Results().At(i).Type(), y.Results().At(i).Type()) {
				return false
			}
		}
		return true
	}
	return false
}
