package main

import (
	"fmt"
	"os"
	"path/filepath"
	"reflect"
	"sort"
	"strings"

	"k8s.io/gengo/parser"
	"k8s.io/gengo/types"
)

func init() { register("C11", c11) }

func c11reach(prog []GenPkg, req map[string]bool) map[string]bool {
	byPath := map[string]GenPkg{}
	for _, gp := range prog {
		byPath[gp.Path] = gp
	}
	seen := map[string]bool{}
	var visit func(p string)
	visit = func(p string) {
		if seen[p] {
			return
		}
		seen[p] = true
		for _, i := range byPath[p].Imports {
			visit(i)
		}
	}
	for p := range req {
		visit(p)
	}
	return seen
}

// v1 history: AddDir the first group, FindTypes, AddDirectoryTo the rest (or AddDir everything, then FindTypes)
// c11relative: every request after the first group is spelled as a RELATIVE directory ("./ex.test/c3/p1";
// the harness's working directory is GOPATH/src), which go/build canonicalises to the same package
var c11relative = false

func c11history(groups [][]string, early bool) (string, []string, []string, error) {
	var problems, soFar []string
	spell := func(gi int, d string) string {
		if c11relative && gi > 0 {
			return "./" + d
		}
		return d
	}
	b := parser.New()
	var u types.Universe
	var err error
	held := map[types.Name]*types.Type{}
	heldDump := map[types.Name]string{}
	for gi, grp := range groups {
		if gi == 0 || !early {
			for _, d := range grp {
				if err = b.AddDir(spell(gi, d)); err != nil {
					return "", nil, nil, err
				}
			}
			if gi == 0 && early {
				if u, err = b.FindTypes(); err != nil {
					return "", nil, nil, err
				}
			}
			soFar = append(soFar, grp...)
			if early {
				// asked between the loads as well: the list of inputs is what has been requested SO FAR
				if got, want := b.FindPackages(), sortedCopy(soFar); !reflect.DeepEqual(got, want) {
					problems = append(problems, fmt.Sprintf("FindPackages after %v: %v", want, got))
				}
			}
		} else {
			for _, pk := range u {
				for k, t := range pk.Types {
					nm := types.Name{Package: pk.Path, Name: k}
					held[nm] = t
					if t.Kind != types.Unknown {
						heldDump[nm] = dumpEntry(k, t)
					}
				}
			}
			for _, d := range grp {
				if _, err = b.AddDirectoryTo(spell(gi, d), &u); err != nil {
					return "", nil, nil, err
				}
			}
			soFar = append(soFar, grp...)
			if got, want := b.FindPackages(), sortedCopy(soFar); !reflect.DeepEqual(got, want) {
				problems = append(problems, fmt.Sprintf("FindPackages after %v: %v", want, got))
			}
			for nm, t := range held {
				if u.Type(nm) != t {
					problems = append(problems, "object for "+nm.String()+" was replaced by an incremental load")
				}
				if d, ok := heldDump[nm]; ok && dumpEntry(nm.Name, t) != d {
					problems = append(problems, "completed entry "+nm.String()+" changed by an incremental load")
				}
			}
		}
	}
	if !early {
		if u, err = b.FindTypes(); err != nil {
			return "", nil, nil, err
		}
	}
	reqSet := map[string]bool{}
	for _, r := range b.FindPackages() {
		reqSet[r] = true
	}
	c11lastDigest = commentDigest(u, reqSet)
	return dumpUniverse(u), b.FindPackages(), problems, nil
}

func sortedCopy(l []string) []string {
	out := append([]string{}, l...)
	sort.Strings(out)
	return out
}

func c11(g *Gen) {
	gopath := os.Getenv("GOPATH")
	if gopath == "" || os.Getenv("GO111MODULE") != "off" {
		panic("C11 v1 needs GOPATH and GO111MODULE=off in the environment")
	}
	src := filepath.Join(gopath, "src")
	cwd, _ := os.Getwd()
	os.Chdir(src)
	defer os.Chdir(cwd)
	n := g.N(40, 800)
	nh := g.N(5, 24)
	for i := 0; i < n; i++ {
		if i%4 == 1 {
			cwdPre, _ := os.Getwd()
			prelookupCase(g, i, 1+g.R.Intn(3), "C11")
			os.Chdir(cwdPre)
		}
		pgPrefix = fmt.Sprintf("c%d/", i)
		npk := 3 + g.R.Intn(4)
		prog, cls := g.genProgram(false, npk, 1+g.R.Intn(2))
		for _, gp := range prog {
			d := filepath.Join(src, gp.Path)
			os.MkdirAll(d, 0755)
			os.WriteFile(filepath.Join(d, "file.go"), []byte(pgWithComments(gp.Src)), 0644)
			os.WriteFile(filepath.Join(d, "doc.go"), []byte("// +k8s:deepcopy-gen=package\n// +groupName="+gp.Name+".example.io\n\n// Package "+gp.Name+" is documented in its doc.go.\npackage "+gp.Name+"\n"), 0644)
		}
		req := map[string]bool{}
		for _, gp := range prog {
			if g.Chance(0.5) {
				req[gp.Path] = true
			}
		}
		if len(req) == 0 {
			req[prog[len(prog)-1].Path] = true
		}
		reach := c11reach(prog, req)
		var sub []GenPkg
		for _, gp := range prog {
			if reach[gp.Path] {
				gp.Requested = req[gp.Path]
				sub = append(sub, gp)
			}
		}
		chk, err := typeCheck(prog)
		if err != nil {
			panic(err)
		}
		chkSub := &checked{fset: chk.fset, files: chk.files}
		for _, pk := range chk.pkgs {
			if reach[pk.Path()] {
				chkSub.pkgs = append(chkSub.pkgs, pk)
			}
		}
		in, _ := chkSub.serialise(1, sub)
		var reqL []string
		for p := range req {
			reqL = append(reqL, p)
		}
		sort.Strings(reqL)
		for _, gp := range sub {
			if !gp.Requested {
				cls = append(cls, "dependency-not-requested")
				break
			}
		}
		first := ""
		firstDigest := ""
		var problems []string
		for h := 0; h < nh; h++ {
			order := append([]string{}, reqL...)
			g.R.Shuffle(len(order), func(a, b int) { order[a], order[b] = order[b], order[a] })
			var groups [][]string
			for len(order) > 0 {
				k := 1 + g.R.Intn(len(order))
				groups = append(groups, order[:k])
				order = order[k:]
			}
			early := g.Chance(0.6)
			if len(groups) > 1 {
				cls = append(cls, "split-load")
				if early {
					cls = append(cls, "incremental-load")
				}
			}
			dump, inputs, probs, err := c11history(groups, early)
			if err != nil {
				problems = append(problems, fmt.Sprintf("history %v failed: %v", groups, err))
				continue
			}
			problems = append(problems, probs...)
			if !reflect.DeepEqual(inputs, reqL) {
				problems = append(problems, fmt.Sprintf("FindPackages %v, requested %v", inputs, reqL))
			}
			if h == 0 {
				firstDigest = c11lastDigest
				if !strings.Contains(firstDigest, "doc ") {
					problems = append(problems, "no comment at all was delivered for the requested packages")
				}
				if strings.Contains(firstDigest, "REQUESTED PACKAGE WITHOUT DIRECTORY") {
					problems = append(problems, "a requested package has no directory: "+firstDigest[strings.Index(firstDigest, "REQUESTED PACKAGE WITHOUT DIRECTORY"):][:80])
				}
			} else if c11lastDigest != firstDigest {
				problems = append(problems, fmt.Sprintf("history %v (early universe %v) delivers other comments for the requested packages than the first history", groups, early))
			}
			if h == 0 {
				first = dump
				g.Emit("C11.universe", in, dump, append(cls, "universe")...)
				g.Emit("C11.wellformed", in, boolS(true), "wellformed") // the shape hypothesis of the canonical-identity theorems
			} else if dump != first {
				problems = append(problems, fmt.Sprintf("history %v (early universe %v) gives a different universe", groups, early))
			}
		}
		if len(reqL) > 1 && first != "" {
			// two more histories, by construction: the requested packages one call each, importers BEFORE what
			// they import (the generator lets a package import earlier ones only), every request after the
			// first spelled as a relative directory -- once loading everything before FindTypes, once
			// adding to the universe of the first request
			var rev [][]string
			for k := len(prog) - 1; k >= 0; k-- {
				if req[prog[k].Path] {
					rev = append(rev, []string{prog[k].Path})
				}
			}
			c11relative = true
			for _, early := range []bool{false, true} {
				dump, inputs, probs, err := c11history(rev, early)
				if err != nil {
					problems = append(problems, fmt.Sprintf("history %v with relative directories failed: %v", rev, err))
					continue
				}
				problems = append(problems, probs...)
				if !reflect.DeepEqual(inputs, reqL) {
					problems = append(problems, fmt.Sprintf("FindPackages %v after requests by relative directory, requested %v", inputs, reqL))
				}
				if dump != first {
					problems = append(problems, fmt.Sprintf("history %v with relative directories (early universe %v) gives a different universe", rev, early))
				}
				if c11lastDigest != firstDigest {
					problems = append(problems, fmt.Sprintf("history %v with relative directories (early universe %v) delivers other comments", rev, early))
				}
			}
			c11relative = false
			cls = append(cls, "importer-first-then-requests-by-relative-directory")
		}
		g.Emit("C11.histories!", list(in, atom(strings.Join(problems, "; "))), boolS(len(problems) == 0), append(cls, "histories")...)
		if i%4 == 0 {
			var eprob []string
			base := filepath.Join(src, "ex.test", fmt.Sprintf("c%d", i))
			os.MkdirAll(filepath.Join(base, "broken"), 0755)
			os.WriteFile(filepath.Join(base, "broken", "file.go"), []byte("package broken\nTHIS DOES NOT PARSE\n"), 0644)
			os.MkdirAll(filepath.Join(base, "empty"), 0755)
			for _, bad := range []string{"missing", "broken", "empty"} {
				b := parser.New()
				err1 := b.AddDir(reqL[0])
				err2 := b.AddDir(fmt.Sprintf("ex.test/c%d/%s", i, bad))
				var err3 error
				if err1 == nil && err2 == nil {
					_, err3 = b.FindTypes()
				}
				if err1 == nil && err2 == nil && err3 == nil {
					eprob = append(eprob, "requesting "+bad+" gave no error")
				}
			}
			// a package whose FIRST file parses and whose second does not, requested again after the error:
			// every request reports the error, and what is loaded afterwards holds no half of the package
			os.MkdirAll(filepath.Join(base, "half"), 0755)
			os.WriteFile(filepath.Join(base, "half", "a.go"), []byte("package half\n\ntype A struct{ X int }\n"), 0644)
			os.WriteFile(filepath.Join(base, "half", "b.go"), []byte("package half\n\ntype B struct {\n"), 0644)
			{
				half := fmt.Sprintf("ex.test/c%d/half", i)
				b := parser.New()
				if err := b.AddDir(half); err == nil {
					eprob = append(eprob, "requesting a package whose second file does not parse gave no error")
				}
				if err := b.AddDir(half); err == nil {
					eprob = append(eprob, "requesting it a second time gave no error")
				}
				if err := b.AddDir(reqL[0]); err == nil {
					if u, err := b.FindTypes(); err == nil {
						if hp, ok := u[half]; ok && len(hp.Types) > 0 {
							eprob = append(eprob, fmt.Sprintf("after the failed requests the universe holds %d type(s) of the half-parsed package", len(hp.Types)))
						}
						if err := b.AddDirTo(half, &u); err == nil {
							eprob = append(eprob, "requesting it into the universe (AddDirTo) gave no error")
						}
					}
				}
			}
			// a package that parses but does not type-check (an undefined name): whatever the loader's policy is,
			// it is the same whether the package is requested first, requested twice, or first seen as a dependency
			os.MkdirAll(filepath.Join(base, "typeerr"), 0755)
			os.WriteFile(filepath.Join(base, "typeerr", "file.go"), []byte("package typeerr\n\ntype T struct{ A int }\n\nvar Default = NewT()\n"), 0644)
			os.MkdirAll(filepath.Join(base, "usestypeerr"), 0755)
			os.WriteFile(filepath.Join(base, "usestypeerr", "file.go"), []byte(fmt.Sprintf("package usestypeerr\n\nimport \"ex.test/c%d/typeerr\"\n\ntype H struct{ X typeerr.T }\n", i)), 0644)
			{
				te, ute := fmt.Sprintf("ex.test/c%d/typeerr", i), fmt.Sprintf("ex.test/c%d/usestypeerr", i)
				b1 := parser.New()
				first := b1.AddDir(te) != nil
				again := b1.AddDir(te) != nil
				b2 := parser.New()
				later := true
				if err := b2.AddDir(ute); err == nil {
					if u, err := b2.FindTypes(); err == nil {
						_, err := b2.AddDirectoryTo(te, &u)
						later = err != nil
					}
				}
				if first != again || first != later {
					eprob = append(eprob, fmt.Sprintf("a package that does not type-check: requested first error=%v, requested again error=%v, requested after having been a dependency error=%v", first, again, later))
				}
			}
			g.Emit("C11.errors!", list(atom(strings.Join(eprob, "; "))), boolS(len(eprob) == 0), "bad-requests", "half-parsable-package-requested-again", "ill-typed-package-in-three-histories")
		}
		os.RemoveAll(filepath.Join(src, "ex.test", fmt.Sprintf("c%d", i)))
	}
	pgPrefix = ""
}
