package main

import (
	"fmt"
	"strings"

	"k8s.io/gengo/types"
)

// c17flatten: types.FlattenMembers (what set-gen's lessBody orders struct keys by) on generated struct
// types: nested embedding, names shadowed by the outer struct, the same struct reached twice, members
// that conflict (panic); the result is compared with the model, and the call must not change its input.

type flTy struct {
	id      int
	leaf    bool
	members []flMem
	obj     *types.Type
}
type flMem struct {
	name string
	emb  bool
	ty   *flTy
}

func (t *flTy) build() *types.Type {
	if t.obj != nil {
		return t.obj
	}
	if t.leaf {
		t.obj = &types.Type{Name: types.Name{Name: fmt.Sprintf("leaf%d", t.id)}, Kind: types.Builtin}
		return t.obj
	}
	t.obj = &types.Type{Name: types.Name{Package: "ex.test/fl", Name: fmt.Sprintf("S%d", t.id)}, Kind: types.Struct}
	for _, m := range t.members {
		t.obj.Members = append(t.obj.Members, types.Member{Name: m.name, Embedded: m.emb, Type: m.ty.build()})
	}
	return t.obj
}

func (t *flTy) sexp() string {
	if t.leaf {
		return tag("leaf", num(t.id))
	}
	var ms []string
	for _, m := range t.members {
		ms = append(ms, list(atom(m.name), boolS(m.emb), m.ty.sexp()))
	}
	return tag("struct", num(t.id), list(ms...))
}

// snapshot of the Members of every struct reachable from t (names, flags, type names)
func flSnapshot(t *types.Type, seen map[*types.Type]bool, b *strings.Builder) {
	if t.Kind != types.Struct || seen[t] {
		return
	}
	seen[t] = true
	fmt.Fprintf(b, "%s{", t.Name.Name)
	for _, m := range t.Members {
		fmt.Fprintf(b, "%s:%v:%s;", m.Name, m.Embedded, m.Type.Name.Name)
	}
	b.WriteString("}")
	for _, m := range t.Members {
		flSnapshot(m.Type, seen, b)
	}
}

func flMembersSexp(ms []types.Member, ids map[*types.Type]int) string {
	var it []string
	for _, m := range ms {
		it = append(it, list(atom(m.Name), boolS(m.Embedded), num(ids[m.Type])))
	}
	return list(it...)
}

func c17flatten(g *Gen) {
	leafs := []*flTy{{id: 1, leaf: true}, {id: 2, leaf: true}, {id: 3, leaf: true}}
	next := 10
	var gen func(depth int, pool *[]*flTy) *flTy
	gen = func(depth int, pool *[]*flTy) *flTy {
		t := &flTy{id: next}
		next++
		names := []string{"A", "B", "X", "Y", "Meta", "Inner"}
		g.R.Shuffle(len(names), func(i, j int) { names[i], names[j] = names[j], names[i] })
		for k, n := 0, g.R.Intn(5); k < n; k++ {
			m := flMem{name: names[k], emb: g.Chance(0.45)}
			switch {
			case depth > 0 && g.Chance(0.55):
				if len(*pool) > 0 && g.Chance(0.25) {
					m.ty = (*pool)[g.R.Intn(len(*pool))] // the same struct object again
				} else {
					m.ty = gen(depth-1, pool)
				}
			default:
				m.ty = leafs[g.R.Intn(len(leafs))]
			}
			t.members = append(t.members, m)
		}
		*pool = append(*pool, t)
		return t
	}
	run := func(t *flTy, cls ...string) {
		root := t.build()
		ids := map[*types.Type]int{}
		var walk func(x *flTy)
		walk = func(x *flTy) {
			ids[x.obj] = x.id
			for _, m := range x.members {
				if _, ok := ids[m.ty.build()]; !ok {
					walk(m.ty)
				}
			}
		}
		walk(t)
		var before, after strings.Builder
		flSnapshot(root, map[*types.Type]bool{}, &before)
		var r1, r2 []types.Member
		p1, _ := catch(func() { r1 = types.FlattenMembers(root.Members) })
		flSnapshot(root, map[*types.Type]bool{}, &after)
		p2, _ := catch(func() { r2 = types.FlattenMembers(root.Members) })
		out := flMembersSexp(r1, ids)
		if p1 {
			out = tag("panic")
			cls = append(cls, "flatten-conflict-panic")
		}
		nestedEmb := false
		for _, m := range t.members {
			if m.emb && !m.ty.leaf {
				cls = append(cls, "flatten-embedded")
				for _, m2 := range m.ty.members {
					if m2.emb && !m2.ty.leaf {
						nestedEmb = true
					}
				}
			}
		}
		if nestedEmb {
			cls = append(cls, "flatten-nested-embedded")
		}
		g.Emit("C17.flatten", t.sexp(), out, append(cls, "flatten")...)
		var problems []string
		if before.String() != after.String() {
			problems = append(problems, "FlattenMembers changed the Members of its input: "+before.String()+" -> "+after.String())
		}
		if p1 != p2 || !p1 && flMembersSexp(r1, ids) != flMembersSexp(r2, ids) {
			problems = append(problems, "a second call on the same type gives another result: "+flMembersSexp(r1, ids)+" then "+flMembersSexp(r2, ids))
		}
		g.Emit("C17.flatten-pure!", list(t.sexp(), atom(strings.Join(problems, "; "))), boolS(len(problems) == 0), "flatten-pure")
	}
	// fixed shapes: a key embedding another key that embeds a two-field struct; a diamond; a conflict; shadowing
	meta := &flTy{id: 4, members: []flMem{{"P", false, leafs[0]}, {"Q", false, leafs[0]}}}
	ident := &flTy{id: 5, members: []flMem{{"Meta", true, meta}}}
	run(ident, "flatten-fixed")
	run(&flTy{id: 6, members: []flMem{{"Ident", true, ident}, {"Number", false, leafs[0]}}}, "flatten-fixed", "flatten-embedded-twice-in-one-run")
	left := &flTy{id: 7, members: []flMem{{"Meta", true, meta}, {"L", false, leafs[1]}}}
	right := &flTy{id: 8, members: []flMem{{"Meta", true, meta}, {"R", false, leafs[1]}}}
	run(&flTy{id: 9, members: []flMem{{"Left", true, left}, {"Right", true, right}}}, "flatten-fixed", "flatten-diamond")
	run(&flTy{id: 9, members: []flMem{{"Left", true, &flTy{id: 7, members: []flMem{{"X", false, leafs[0]}}}}, {"Right", true, &flTy{id: 8, members: []flMem{{"X", false, leafs[1]}}}}}}, "flatten-fixed")
	run(&flTy{id: 9, members: []flMem{{"Meta", true, meta}, {"Q", false, leafs[2]}}}, "flatten-fixed", "flatten-shadowed")
	n := g.N(300, 6000)
	for i := 0; i < n; i++ {
		var pool []*flTy
		run(gen(1+g.R.Intn(3), &pool), "flatten-random")
	}
}
