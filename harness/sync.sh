#!/bin/bash
# Regenerate harness/v1 copies of shared files from harness/v2.
#   common.go, *_gen.go : identical copies
#   files starting with "// DUAL" : same file with the v2 import paths replaced by the v1 ones
# usage: sync.sh [--check]   (--check: exit 1 if a copy is stale)
cd "$(dirname "$0")"
rc=0
for f in v2/common.go v2/*_gen.go $(grep -l '^// DUAL' v2/*.go); do
  b=$(basename "$f")
  tmp=$(mktemp)
  if head -1 "$f" | grep -q '^// DUAL'; then
    sed -e 's|k8s.io/gengo/v2/|k8s.io/gengo/|g' -e 's|gengo "k8s.io/gengo/v2"|gengo "k8s.io/gengo"|' -e 's|^const \(c[0-9]*\)ver = 2|const \1ver = 1|' "$f" > "$tmp"
  else
    cp "$f" "$tmp"
  fi
  if [ "$1" = "--check" ]; then
    cmp -s "$tmp" "v1/$b" || { echo "stale: harness/v1/$b"; rc=1; }
  else
    cp "$tmp" "v1/$b"
  fi
  rm -f "$tmp"
done
exit $rc
