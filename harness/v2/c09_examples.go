package main

import (
	"bytes"
	"os"
	"os/exec"
	"path/filepath"
	"strings"
)

// c09examples: the checked-in v2 example output (kilroy) is what the current tree generates, byte
// for byte.  The tool writes next to its input, so it runs on a scratch copy of the v2 module.
func c09examples(g *Gen) {
	repo := os.Getenv("VERIF_REPO")
	scratch := filepath.Join(os.Getenv("VERIF_WORK"), "c09v2copy")
	os.RemoveAll(scratch)
	defer os.RemoveAll(scratch)
	var problems []string
	if out, err := exec.Command("cp", "-r", filepath.Join(repo, "v2"), scratch).CombinedOutput(); err != nil {
		problems = append(problems, "copy failed: "+string(out))
	}
	rel := filepath.Join("examples", "kilroy", "testdata", "simple", "generated.kilroy.go")
	want, _ := os.ReadFile(filepath.Join(repo, "v2", rel))
	os.Remove(filepath.Join(scratch, rel))
	cmd := exec.Command("go", "run", "./examples/kilroy/", "./examples/kilroy/testdata/simple")
	cmd.Dir = scratch
	cmd.Env = append(os.Environ(), "GOFLAGS=-mod=mod", "GOWORK=off", "GO111MODULE=on")
	if out, err := cmd.CombinedOutput(); err != nil {
		problems = append(problems, "kilroy failed: "+strings.TrimSpace(string(out)))
	}
	got, rerr := os.ReadFile(filepath.Join(scratch, rel))
	if rerr != nil {
		problems = append(problems, "not regenerated: "+rel)
	} else if !bytes.Equal(got, want) {
		problems = append(problems, "regenerated "+rel+" differs from the checked-in file")
	}
	g.Emit("C09.examples!", list(atom("v2 kilroy"), num(1), atom(strings.Join(problems, "; "))), boolS(len(problems) == 0), "examples-regenerate")
}
