package main

import (
	"fmt"
	"os"
	"path/filepath"
	"sort"
	"strings"

	"golang.org/x/tools/go/packages"
	"k8s.io/gengo/v2/parser"
	"k8s.io/gengo/v2/types"
)

func c01sig(s *types.Signature) (string, string, bool, *types.Type) {
	var ps, rs []string
	for _, p := range s.Parameters {
		ps = append(ps, list(atom(p.Name), tref(p.Type)))
	}
	for _, r := range s.Results {
		rs = append(rs, list(atom(r.Name), tref(r.Type)))
	}
	return list(ps...), list(rs...), s.Variadic, s.Receiver
}

func c01tparams(t *types.Type) string {
	var ks []string
	for k := range t.TypeParams {
		ks = append(ks, k)
	}
	sort.Strings(ks)
	var it []string
	for _, k := range ks {
		it = append(it, list(atom(k), tref(t.TypeParams[k])))
	}
	return list(it...)
}

// writeModule writes the program as a Go module "ex.test" and returns its directory.
func writeModule(dir string, prog []GenPkg) {
	os.MkdirAll(dir, 0755)
	os.WriteFile(filepath.Join(dir, "go.mod"), []byte("module "+pgModule+"\n\ngo 1.20\n"), 0644)
	for _, gp := range prog {
		d := filepath.Join(dir, strings.TrimPrefix(gp.Path, pgModule+"/"))
		os.MkdirAll(d, 0755)
		os.WriteFile(filepath.Join(d, "file.go"), []byte(gp.Src), 0644)
	}
}

func c01load(g *Gen, i int, prog []GenPkg) (types.Universe, error) {
	dir := filepath.Join(os.Getenv("VERIF_WORK"), fmt.Sprintf("c01m%d", i))
	defer os.RemoveAll(dir)
	writeModule(dir, prog)
	var pats []string
	for _, gp := range prog {
		if gp.Requested {
			pats = append(pats, gp.Path)
		}
	}
	p := parser.New()
	cfg := &packages.Config{Dir: dir, Env: append(os.Environ(), "GOFLAGS=-mod=mod", "GOWORK=off")}
	if c01lastFirst && len(pats) > 1 {
		// the last package first (the earlier ones arrive as its dependencies), then the others, one call each
		for k := len(pats) - 1; k >= 0; k-- {
			if err := p.LoadPackagesWithConfigForTesting(cfg, pats[k]); err != nil {
				return nil, err
			}
		}
		return p.NewUniverse()
	}
	if err := p.LoadPackagesWithConfigForTesting(cfg, pats...); err != nil {
		return nil, err
	}
	return p.NewUniverse()
}

func c06sigTypes(s *types.Signature) []*types.Type {
	var out []*types.Type
	for _, p := range s.Parameters {
		out = append(out, p.Type)
	}
	for _, r := range s.Results {
		out = append(out, r.Type)
	}
	return out
}
func c06nameOf(s string) types.Name            { return parser.GoNameToName(s) }
func c20comparable(t *types.Type) (bool, bool) { return t.IsComparable(), true }

func c05load(g *Gen, i int, path string, files map[string]string, names []string) (types.Universe, error) {
	dir := filepath.Join(os.Getenv("VERIF_WORK"), fmt.Sprintf("c05m%d", i))
	defer os.RemoveAll(dir)
	d := filepath.Join(dir, strings.TrimPrefix(path, "ex.test/"))
	os.MkdirAll(d, 0755)
	os.WriteFile(filepath.Join(dir, "go.mod"), []byte("module ex.test\n\ngo 1.20\n"), 0644)
	for _, n := range names {
		os.WriteFile(filepath.Join(d, n), []byte(files[n]), 0644)
	}
	p := parser.New()
	cfg := &packages.Config{Dir: dir, Env: append(os.Environ(), "GOFLAGS=-mod=mod", "GOWORK=off")}
	if c05depFirst {
		ud := filepath.Join(dir, "c05user")
		os.MkdirAll(ud, 0755)
		os.WriteFile(filepath.Join(ud, names[0]), []byte(c05userSrc(path, files)), 0644) // the same file name as a file of the package under test
		if err := p.LoadPackagesWithConfigForTesting(cfg, "ex.test/c05user"); err != nil {
			return nil, err
		}
		if c05universeBetween {
			// the universe is made now (the dependency's types reachable from the user are walked now)
			// and the package itself is requested into it afterwards
			u, err := p.NewUniverse()
			if err != nil {
				return nil, err
			}
			cwd, _ := os.Getwd()
			os.Chdir(dir)
			os.Setenv("GOFLAGS", "-mod=mod")
			os.Setenv("GOWORK", "off")
			_, err = p.LoadPackagesTo(&u, path)
			os.Chdir(cwd)
			return u, err
		}
	}
	if err := p.LoadPackagesWithConfigForTesting(cfg, path); err != nil {
		return nil, err
	}
	u, err := p.NewUniverse()
	if err == nil && c05twice {
		// requested once more, into the universe that already holds it
		cwd, _ := os.Getwd()
		os.Chdir(dir)
		os.Setenv("GOFLAGS", "-mod=mod")
		os.Setenv("GOWORK", "off")
		_, err = p.LoadPackagesTo(&u, path)
		os.Chdir(cwd)
	}
	return u, err
}

func c02nresults(s *types.Signature) int { return len(s.Results) }

func c12load(g *Gen, i int, tags []string, path string, files map[string]string, names []string, deps map[string]string) (types.Universe, error) {
	dir := filepath.Join(os.Getenv("VERIF_WORK"), fmt.Sprintf("c12m%d", i))
	defer os.RemoveAll(dir)
	os.MkdirAll(dir, 0755)
	os.WriteFile(filepath.Join(dir, "go.mod"), []byte("module ex.test\n\ngo 1.20\n"), 0644)
	write := func(p, name, src string) {
		d := filepath.Join(dir, strings.TrimPrefix(p, "ex.test/"))
		os.MkdirAll(d, 0755)
		os.WriteFile(filepath.Join(d, name), []byte(src), 0644)
	}
	for _, n := range names {
		write(path, n, files[n])
	}
	for dp, src := range deps {
		write(dp, "dep.go", src)
	}
	p := parser.NewWithOptions(parser.Options{BuildTags: tags})
	pattern := path
	if c12root != "" {
		pattern = c12root + "/..."
	}
	if c12viaImporter {
		write(path+"user", "user.go", "package c12user\n\nimport _ \""+path+"\"\n")
		if err := p.LoadPackagesWithConfigForTesting(&packages.Config{Dir: dir, Env: append(os.Environ(), "GOFLAGS=-mod=mod", "GOWORK=off")}, path+"user"); err != nil {
			return nil, err
		}
	}
	if err := p.LoadPackagesWithConfigForTesting(&packages.Config{Dir: dir, Env: append(os.Environ(), "GOFLAGS=-mod=mod", "GOWORK=off")}, pattern); err != nil {
		return nil, err
	}
	return p.NewUniverse()
}

// c06loadInto loads the requested packages of prog into the given universe (LoadPackagesTo).
func c06loadInto(g *Gen, i int, prog []GenPkg, u *types.Universe) error {
	dir := filepath.Join(os.Getenv("VERIF_WORK"), fmt.Sprintf("c06m%d", i))
	defer os.RemoveAll(dir)
	writeModule(dir, prog)
	var pats []string
	for _, gp := range prog {
		if gp.Requested {
			pats = append(pats, gp.Path)
		}
	}
	cwd, _ := os.Getwd()
	os.Chdir(dir)
	defer os.Chdir(cwd)
	os.Setenv("GOFLAGS", "-mod=mod")
	os.Setenv("GOWORK", "off")
	p := parser.New()
	_, err := p.LoadPackagesTo(u, pats...)
	return err
}

// c11dirOf: where the loader says the package lives on disk
func c11dirOf(p *types.Package) string { return p.Dir }

// c06secondUniverse: one parser, two universes.  The first is made from package a (which imports d); the
// second, a fresh one, is then filled with d alone.  What d's declarations refer to must be registered in
// the SECOND universe (nothing may come from the first).  Returns the problems found.
func c06secondUniverse(g *Gen, i int, prog []GenPkg) ([]string, bool) {
	a, d := "", ""
	for _, gp := range prog {
		if len(gp.Imports) > 0 {
			a, d = gp.Path, gp.Imports[0]
		}
	}
	if a == "" {
		return nil, false
	}
	dir := filepath.Join(os.Getenv("VERIF_WORK"), fmt.Sprintf("c06u%d", i))
	defer os.RemoveAll(dir)
	writeModule(dir, prog)
	cwd, _ := os.Getwd()
	os.Chdir(dir)
	defer os.Chdir(cwd)
	os.Setenv("GOFLAGS", "-mod=mod")
	os.Setenv("GOWORK", "off")
	p := parser.New()
	if err := p.LoadPackages(a); err != nil {
		return []string{"loading " + a + ": " + err.Error()}, true
	}
	if _, err := p.NewUniverse(); err != nil {
		return []string{"first universe: " + err.Error()}, true
	}
	u2 := types.Universe{}
	if _, err := p.LoadPackagesTo(&u2, d); err != nil {
		return []string{"loading " + d + " into a second universe: " + err.Error()}, true
	}
	var problems []string
	for t := range reachable(u2) {
		if t.Kind == types.Unknown {
			problems = append(problems, "second universe: unresolved placeholder "+t.Name.String())
			continue
		}
		if t.Kind == types.DeclarationOf || t.Kind == "TypeParam" || t.Kind == types.Builtin {
			continue
		}
		if canon, ok := u2.Package(t.Name.Package).Types[t.Name.Name]; !ok || canon != t {
			problems = append(problems, "second universe: "+t.Name.String()+" is reachable from "+d+" but is not the object registered under its name")
		}
	}
	return problems, true
}

// c01vendored: a GOPATH layout in which the path written in an import declaration ("lib") is not the
// path of the package it resolves to ("<app>/vendor/lib"). What gengo reports as the direct imports of
// the requested package is compared with what the type checker imported (packages.Load run
// independently, Types.Imports()), and every reported import must lead to the package of that path.
// Four layouts by construction (k%4): one vendored dependency; a vendored dependency which imports a
// second vendored one; a vendored and a plain package of the same last element; two requested packages
// sharing one vendor directory.
func c01vendored(g *Gen) {
	for k := 0; k < 4; k++ {
		gopath := filepath.Join(os.Getenv("VERIF_WORK"), fmt.Sprintf("c01vend%d", k))
		os.RemoveAll(gopath)
		write := func(rel, content string) {
			full := filepath.Join(gopath, "src", filepath.FromSlash(rel))
			os.MkdirAll(filepath.Dir(full), 0755)
			os.WriteFile(full, []byte(content), 0644)
		}
		app := []string{"app", "vapp/cmd", "app", "vapp"}[k]
		root := []string{"app", "vapp", "app", "vapp"}[k] // the directory which holds vendor/
		pats := []string{app}
		write(root+"/vendor/lib/lib.go", "package lib\n\ntype Thing struct {\n\tN int8\n}\n")
		write("plain/plain.go", "package plain\n\ntype Other struct {\n\tS string\n}\n")
		src := "package app\n\nimport (\n\t\"lib\"\n\t\"plain\"\n)\n\ntype App struct {\n\tThing lib.Thing\n\tOther *plain.Other\n}\n"
		switch k {
		case 1:
			write(root+"/vendor/lib/lib.go", "package lib\n\nimport \"dep\"\n\ntype Thing struct {\n\tN int8\n\tD dep.D\n}\n")
			write(root+"/vendor/dep/dep.go", "package dep\n\ntype D struct {\n\tR rune\n}\n")
		case 2:
			write("other/lib/lib.go", "package lib\n\ntype Thing struct {\n\tU uint8\n}\n")
			src = "package app\n\nimport (\n\t\"lib\"\n\tolib \"other/lib\"\n\t\"plain\"\n)\n\ntype App struct {\n\tThing lib.Thing\n\tOther *plain.Other\n\tThird olib.Thing\n}\n"
		case 3:
			write("vapp/second/second.go", "package second\n\nimport \"lib\"\n\ntype S struct {\n\tT *lib.Thing\n}\n")
			pats = append(pats, "vapp/second")
		}
		write(app+"/app.go", src)
		cfg := &packages.Config{
			Dir: filepath.Join(gopath, "src", filepath.FromSlash(app)),
			Env: append(os.Environ(), "GO111MODULE=off", "GOPATH="+gopath, "GOFLAGS=", "GOWORK=off"),
		}
		// the type checker's answer
		ocfg := *cfg
		ocfg.Mode = packages.NeedName | packages.NeedFiles | packages.NeedImports | packages.NeedDeps | packages.NeedTypes | packages.NeedSyntax | packages.NeedTypesInfo
		loaded, err := packages.Load(&ocfg, pats...)
		if err != nil || len(loaded) != len(pats) {
			panic(fmt.Sprintf("c01vendored: packages.Load: %v (%d packages)", err, len(loaded)))
		}
		want := map[string][]string{}
		for _, lp := range loaded {
			if len(lp.Errors) > 0 || lp.Types == nil {
				panic(fmt.Sprintf("c01vendored: the layout does not type-check: %v", lp.Errors))
			}
			w := []string{}
			for _, imp := range lp.Types.Imports() {
				w = append(w, imp.Path())
			}
			sort.Strings(w)
			want[lp.PkgPath] = w
		}
		if w := want[app]; len(w) < 2 || !strings.Contains("\x00"+strings.Join(w, "\x00")+"\x00", "\x00"+root+"/vendor/lib\x00") {
			panic(fmt.Sprintf("c01vendored: unexpected imports from the type checker: %q", w))
		}
		// gengo's answer
		p := parser.New()
		var u types.Universe
		err = p.LoadPackagesWithConfigForTesting(cfg, pats...)
		if err == nil {
			u, err = p.NewUniverse()
		}
		if err != nil {
			g.Emit("C01.vendored!", list(num(k), atom(err.Error())), boolS(false), "vendored-package", "LOAD-ERROR")
			os.RemoveAll(gopath)
			continue
		}
		ok := true
		var report []string
		var reqs []string
		for r := range want {
			reqs = append(reqs, r)
		}
		sort.Strings(reqs)
		for _, r := range reqs {
			pk := u[r]
			got := []string{}
			if pk != nil {
				for path, imp := range pk.Imports {
					got = append(got, path)
					if imp == nil || imp.Path != path || u[path] != imp {
						ok = false
					}
				}
			}
			sort.Strings(got)
			report = append(report, list(atom(r), atoms(want[r]), atoms(got)))
			if pk == nil || strings.Join(got, "\x00") != strings.Join(want[r], "\x00") {
				ok = false
			}
			// every type mentioned by a field lives in a package reported as imported
			if pk != nil {
				for _, t := range pk.Types {
					for _, m := range t.Members {
						mt := m.Type
						for mt.Kind == types.Pointer {
							mt = mt.Elem
						}
						if mt.Name.Package != "" && mt.Name.Package != r && !pk.HasImport(mt.Name.Package) {
							ok = false
						}
					}
				}
			}
		}
		// the vendored package is in the universe under its resolved path and under no other
		vl := u[root+"/vendor/lib"]
		if vl == nil || vl.Types["Thing"] == nil || len(vl.Types["Thing"].Members) == 0 || vl.Types["Thing"].Members[0].Type != types.Int8 {
			ok = false
		}
		if pl, has := u["lib"]; has && len(pl.Types) > 0 {
			ok = false
		}
		g.Emit("C01.vendored!", list(append([]string{num(k)}, report...)...), boolS(ok), "vendored-package", fmt.Sprintf("vendored-layout-%d", k))
		os.RemoveAll(gopath)
	}
}
