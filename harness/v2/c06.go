// DUAL: harness/v1/c06.go is generated from this file by harness/sync.sh (import paths only).
// C06 (identity, closure) and C20 (predicates) on the programs of C01.
package main

import (
	"fmt"
	gotypes "go/types"
	"regexp"
	"sort"
	"strings"

	"k8s.io/gengo/v2/types"
)

func init() { register("C06", c06); register("C20", c20) }

// reachable collects every *types.Type reachable from the universe's tables.
func reachable(u types.Universe) map[*types.Type]bool {
	seen := map[*types.Type]bool{}
	var visit func(t *types.Type)
	visit = func(t *types.Type) {
		if t == nil || seen[t] {
			return
		}
		seen[t] = true
		visit(t.Elem)
		visit(t.Key)
		visit(t.Underlying)
		for _, m := range t.Members {
			visit(m.Type)
		}
		for _, m := range t.Methods {
			visit(m)
		}
		if t.Signature != nil {
			visit(t.Signature.Receiver)
			for _, x := range c06sigTypes(t.Signature) {
				visit(x)
			}
		}
	}
	for _, p := range u {
		for _, tab := range []map[string]*types.Type{p.Types, p.Functions, p.Variables, p.Constants} {
			for _, t := range tab {
				visit(t)
			}
		}
	}
	return seen
}

func c06(g *Gen) {
	n := g.N(100, 2500)
	for i := 0; i < n; i++ {
		npk := 1 + g.R.Intn(4)
		pgModule = "ex.test"
		if i%5 == 4 {
			// an import path that begins like the spelling of an anonymous type ("chan ...")
			pgModule = "chantest.example"
		}
		prog, cls := g.genProgram(false, npk, 1+g.R.Intn(3)) // C06's fragment: non-generic declarations
		if pgModule != "ex.test" {
			cls = append(cls, "path-starts-like-anonymous-type")
		}
		chk, err := typeCheck(prog)
		if err != nil {
			panic(err)
		}
		in, ser := chk.serialise(c01ver, prog)
		u, err := c01load(g, i, prog)
		if err != nil {
			panic(err)
		}
		g.Emit("C06.universe", in, dumpUniverse(u), append(cls, "universe")...)
		g.Emit("C06.wellformed", in, boolS(true), "wellformed") // the shape hypothesis of the canonical-identity theorems
		var problems []string
		// (A) every reachable object is the canonical entry of its own name; (B) none is a placeholder
		for t := range reachable(u) {
			if t.Kind == types.Unknown {
				problems = append(problems, "unresolved placeholder "+t.Name.String())
			}
			if t.Kind == types.DeclarationOf || t.Kind == "TypeParam" {
				continue
			}
			if canon, ok := u.Package(t.Name.Package).Types[t.Name.Name]; ok && canon == t {
				continue
			}
			// a shared builtin singleton may be present under another key only (uint8 -> byte)
			found := false
			for _, x := range u.Package(t.Name.Package).Types {
				if x == t {
					found = true
				}
			}
			if !found || t.Kind != types.Builtin {
				problems = append(problems, "non-canonical object for "+t.Name.String())
			}
		}
		// (C) one object per type, no merging: go types that resolve to one object are identical
		byObj := map[*types.Type][]gotypes.Type{}
		for _, gt := range ser.types {
			nm := c06nameOf(gt.String())
			if b, ok := gt.(*gotypes.Basic); ok {
				nm = types.Name{Name: b.Name()}
			}
			if sig, ok := gt.(*gotypes.Signature); ok && sig.Recv() != nil {
				continue // method signatures are stored under the method's own name
			}
			if obj, ok := u.Package(nm.Package).Types[nm.Name]; ok {
				byObj[obj] = append(byObj[obj], gt)
			}
		}
		for obj, gts := range byObj {
			for _, x := range gts[1:] {
				if !gotypes.Identical(gts[0], x) {
					problems = append(problems, fmt.Sprintf("%s and %s merged into %s", gts[0], x, obj.Name))
				}
			}
		}
		// (D) repeated lookups return the same object; builtins are shared singletons
		var keys []types.Name
		for _, p := range u {
			for k := range p.Types {
				keys = append(keys, types.Name{Package: p.Path, Name: k})
			}
		}
		sort.Slice(keys, func(a, b int) bool { return keys[a].String() < keys[b].String() })
		var lks, outs []string
		for k := 0; k < 12; k++ {
			var nm types.Name
			switch {
			case len(keys) > 0 && g.Chance(0.6):
				nm = keys[g.R.Intn(len(keys))]
			case g.Chance(0.5):
				nm = types.Name{Name: g.Pick([]string{"string", "int8", "uint8", "byte", "rune", "int32", "nosuch", "[]nosuch"})}
			default:
				nm = types.Name{Package: g.Pick([]string{"ex.test/p0", "ex.test/zz"}), Name: g.Pick([]string{"T0", "Nope", "B1"})}
			}
			a := u.Type(nm)
			b := u.Type(nm)
			if a != b {
				problems = append(problems, "two lookups of "+nm.String()+" differ")
			}
			lks = append(lks, list(atom(nm.Package), atom(nm.Name)))
			outs = append(outs, list(atom(a.Name.Package), atom(a.Name.Name), atom(string(a.Kind))))
		}
		if u.Type(types.Name{Name: "string"}) != types.String || u.Type(types.Name{Name: "uint8"}) != types.Byte || u.Type(types.Name{Name: "byte"}) != types.Byte {
			problems = append(problems, "builtin singletons not shared")
		}
		g.Emit("C06.lookups", list(in, list(lks...)), list(outs...), "lookup-sequences")
		// (E) lookups BEFORE loading into the same universe: the objects handed out then are the ones
		// the load completes, and nothing stays a placeholder
		if i%3 == 0 {
			prelookupCase(g, i, npk, "C06")
		}
		g.Emit("C06.identity!", list(in, atom(strings.Join(problems, "; "))), boolS(len(problems) == 0), "identity-closure")
		if i%3 == 2 {
			if p2, ok := c06secondUniverse(g, i, prog); ok {
				g.Emit("C06.identity!", list(in, atom(strings.Join(p2, "; "))), boolS(len(p2) == 0), "identity-closure", "second-universe-from-one-parser")
			}
		}
		pgModule = "ex.test"
	}
}

// ---- C20 ----

func containsRef(t gotypes.Type, seen map[gotypes.Type]bool) bool {
	if seen[t] {
		return false
	}
	seen[t] = true
	switch x := t.(type) {
	case *gotypes.Basic:
		return x.Kind() == gotypes.UnsafePointer
	case *gotypes.Named:
		return containsRef(x.Underlying(), seen)
	case *gotypes.Struct:
		for i := 0; i < x.NumFields(); i++ {
			if containsRef(x.Field(i).Type(), seen) {
				return true
			}
		}
		return false
	case *gotypes.Array:
		return containsRef(x.Elem(), seen)
	}
	return true // pointer, map, slice, chan, func, interface
}

func c20(g *Gen) {
	n := g.N(100, 2500)
	for i := 0; i < n; i++ {
		npk := 1 + g.R.Intn(4)
		pgAny = c01ver == 2
		prog, cls := g.genProgram(false, npk, 1+g.R.Intn(3))
		pgAny = false
		chk, err := typeCheck(prog)
		if err != nil {
			panic(err)
		}
		in, ser := chk.serialise(c01ver, prog)
		u, err := c01load(g, i, prog)
		if err != nil {
			panic(err)
		}
		// the predicate values on every Types entry, against the model
		var rows []string
		var paths []string
		for p := range u {
			paths = append(paths, p)
		}
		sort.Strings(paths)
		type row struct{ key, s string }
		var rs []row
		for _, p := range paths {
			for k, t := range u[p].Types {
				rs = append(rs, row{p + "\x00" + k, list(atom(p), atom(k), boolS(t.IsPrimitive()), boolS(t.IsAssignable()), boolS(t.IsAnonymousStruct()))})
			}
		}
		sort.Slice(rs, func(a, b int) bool { return rs[a].key < rs[b].key })
		for _, r := range rs {
			rows = append(rows, r.s)
		}
		g.Emit("C20.preds", in, list(rows...), append(cls, "predicates")...)
		// soundness against go/types
		var problems []string
		npos := map[string]int{}
		for _, gt := range ser.types {
			nm := c06nameOf(gt.String())
			if b, ok := gt.(*gotypes.Basic); ok {
				nm = types.Name{Name: b.Name()}
				if b.Info()&gotypes.IsUntyped != 0 || b.Kind() == gotypes.Invalid {
					continue
				}
			}
			if sig, ok := gt.(*gotypes.Signature); ok && sig.Recv() != nil {
				continue
			}
			obj, ok := u.Package(nm.Package).Types[nm.Name]
			if !ok {
				continue
			}
			if obj.IsAssignable() {
				npos["assignable"]++
				if containsRef(gt, map[gotypes.Type]bool{}) {
					problems = append(problems, gt.String()+" reported assignable but holds a reference")
				}
			}
			_, isBasic := gt.Underlying().(*gotypes.Basic)
			_, isNamed := gt.(*gotypes.Named)
			_, selfBasic := gt.(*gotypes.Basic)
			wantPrim := isBasic && (isNamed || selfBasic) && gt.Underlying().(*gotypes.Basic).Kind() != gotypes.UnsafePointer &&
				gt.Underlying().(*gotypes.Basic).Info()&gotypes.IsComplex == 0
			if obj.IsPrimitive() != wantPrim {
				problems = append(problems, fmt.Sprintf("%s primitive=%v, Go says %v", gt, obj.IsPrimitive(), wantPrim))
			}
			if wantPrim {
				npos["primitive"]++
			}
			wantAnon := gt.String() == "struct{}"
			if obj.IsAnonymousStruct() != wantAnon {
				problems = append(problems, fmt.Sprintf("%s anonymous-struct=%v", gt, obj.IsAnonymousStruct()))
			}
			if cmp, have := c20comparable(obj); have {
				if cmp != gotypes.Comparable(gt) {
					problems = append(problems, fmt.Sprintf("%s comparable=%v, Go says %v", gt, cmp, gotypes.Comparable(gt)))
				}
				if cmp {
					npos["comparable"]++
				}
			}
		}
		// the predicates are total: asked about the entry of a function, variable or constant, or about a
		// type that was only looked up, they answer (false) instead of dying
		for _, pk := range u {
			for _, tbl := range []map[string]*types.Type{pk.Functions, pk.Variables, pk.Constants} {
				for name, obj := range tbl {
					func() {
						defer func() {
							if r := recover(); r != nil {
								problems = append(problems, fmt.Sprintf("a predicate panics on the declaration %s.%s: %v", pk.Path, name, r))
							}
						}()
						// ... and the entry of a declaration is not a type: no predicate holds of it
						if obj.IsAssignable() || obj.IsPrimitive() || obj.IsAnonymousStruct() {
							problems = append(problems, fmt.Sprintf("the declaration %s.%s is reported assignable=%v primitive=%v anonymous-struct=%v", pk.Path, name, obj.IsAssignable(), obj.IsPrimitive(), obj.IsAnonymousStruct()))
						}
						c20comparable(obj)
					}()
				}
			}
		}
		func() {
			defer func() {
				if r := recover(); r != nil {
					problems = append(problems, fmt.Sprintf("a predicate panics on a type that was looked up and never loaded: %v", r))
				}
			}()
			ph := u.Type(types.Name{Package: "ex.test/never/loaded", Name: "T"})
			ph.IsAssignable()
			ph.IsPrimitive()
			ph.IsAnonymousStruct()
			c20comparable(ph)
		}()
		oc := []string{"predicate-oracle", "predicates-on-declarations-and-placeholders"}
		for k := range npos {
			oc = append(oc, "positive-"+k)
		}
		g.Emit("C20.sound!", list(in, atom(strings.Join(problems, "; "))), boolS(len(problems) == 0), oc...)
	}
}

// prelookupCase: names are looked up in an empty universe (placeholders are handed out), then the
// program is loaded into that universe; the dump must be the model's, the objects handed out before
// must be the ones lookups return afterwards, and none of them may stay a placeholder.
func prelookupCase(g *Gen, i int, npk int, prop string) {
	pgPrefix = fmt.Sprintf("pre%s%d/", strings.ToLower(prop), i)
	prog2, cls2 := g.genProgram(false, npk, 1+g.R.Intn(2))
	pgPrefix = ""
	chk2, err := typeCheck(prog2)
	if err != nil {
		panic(err)
	}
	in2, _ := chk2.serialise(c01ver, prog2)
	u2 := types.Universe{}
	var pre []string
	held := map[types.Name]*types.Type{}
	for k := 0; k < 8; k++ {
		gp := prog2[g.R.Intn(len(prog2))]
		nm := types.Name{Package: gp.Path, Name: g.Pick([]string{"T0", "T1", "T2", "T3", "I0", "I1", "I2", "B0", "B1", "D2", "D3", "Nope"})}
		if g.Chance(0.2) {
			nm = types.Name{Name: g.Pick([]string{"string", "uint8", "[]string", "*int"})}
		}
		if _, dup := held[nm]; dup {
			continue
		}
		held[nm] = u2.Type(nm)
		pre = append(pre, list(atom(nm.Package), atom(nm.Name)))
	}
	// functions, variables and constants that the program declares, looked up before the load as well
	// (only declared ones: a name the load never reaches would stay in the universe as a marker)
	type heldDecl struct {
		nm   types.Name
		kind string
		obj  *types.Type
	}
	var heldDecls []heldDecl
	for _, gp := range prog2 {
		if !gp.Requested {
			continue
		}
		for _, cand := range []struct{ kind, name string }{{"var", "V0"}, {"var", "V1"}, {"func", "Fn0"}, {"const", "C0"}, {"const", "C1"}} {
			if !strings.Contains(gp.Src, "\n"+cand.kind+" "+cand.name+" ") && !strings.Contains(gp.Src, "\n"+cand.kind+" "+cand.name+"(") || g.Chance(0.5) {
				continue
			}
			nm := types.Name{Package: gp.Path, Name: cand.name}
			var obj *types.Type
			switch cand.kind {
			case "var":
				obj = u2.Variable(nm)
			case "func":
				obj = u2.Function(nm)
			default:
				obj = u2.Constant(nm)
			}
			heldDecls = append(heldDecls, heldDecl{nm, cand.kind, obj})
		}
	}
	if err := c06loadInto(g, i, prog2, &u2); err != nil {
		panic(err)
	}
	var p2 []string
	for _, h := range heldDecls {
		var now *types.Type
		switch h.kind {
		case "var":
			now = u2.Variable(h.nm)
		case "func":
			now = u2.Function(h.nm)
		default:
			now = u2.Constant(h.nm)
		}
		if now != h.obj {
			p2 = append(p2, "the "+h.kind+" object handed out for "+h.nm.String()+" before the load is not the one a lookup returns after it")
		}
		if h.obj.Underlying == nil {
			p2 = append(p2, "the "+h.kind+" object handed out for "+h.nm.String()+" before the load was never completed")
		}
	}
	for nm, obj := range held {
		if u2.Type(nm) != obj {
			p2 = append(p2, "the object handed out for "+nm.String()+" before the load is not the one a lookup returns after it")
		}
	}
	for t := range reachable(u2) {
		if t.Kind == types.Unknown {
			for _, cp := range chk2.pkgs {
				if cp.Path() == t.Name.Package && cp.Scope().Lookup(t.Name.Name) != nil {
					p2 = append(p2, "unresolved placeholder "+t.Name.String()+" after the load")
				}
			}
		}
	}
	sort.Strings(p2)
	g.Emit(prop+".prelookups", list(in2, list(pre...)), dumpUniverse(u2), append(cls2, "lookups-before-load")...)
	if prop == "C06" {
		g.Emit("C06.identity!", list(in2, atom(strings.Join(p2, "; "))), boolS(len(p2) == 0), "identity-closure", "lookups-before-load")
	} else {
		g.Emit(prop+".placeholders!", list(in2, atom(strings.Join(p2, "; "))), boolS(len(p2) == 0), "lookups-before-load")
	}
}

var rePgDeclLine = regexp.MustCompile(`^(type |func |var |const |\t[A-Z][A-Za-z0-9_]*[ (])`)

// pgWithComments puts a numbered doc comment above every declaration, struct field and interface
// method line of a generated source (types are unchanged; C11 compares what is delivered as comments
// across load histories).
func pgWithComments(src string) string {
	var out []string
	n := 0
	for _, line := range strings.Split(src, "\n") {
		if rePgDeclLine.MatchString(line) {
			n++
			indent := ""
			if strings.HasPrefix(line, "\t") {
				indent = "\t"
			}
			out = append(out, fmt.Sprintf("%s// doc %d +tag%d=v", indent, n, n))
		}
		out = append(out, line)
	}
	return strings.Join(out, "\n")
}

// commentDigest: the comment lines delivered for every type, member, method, function, variable and
// constant of the given packages, in a canonical order.
func commentDigest(u types.Universe, pkgs map[string]bool) string {
	var lines []string
	for path, p := range u {
		if !pkgs[path] {
			continue
		}
		for k, t := range p.Types {
			lines = append(lines, fmt.Sprintf("%s.%s: %q", path, k, t.CommentLines))
			for _, m := range t.Members {
				lines = append(lines, fmt.Sprintf("%s.%s.%s: %q", path, k, m.Name, m.CommentLines))
			}
			for mn, mt := range t.Methods {
				lines = append(lines, fmt.Sprintf("%s.%s.%s(): %q", path, k, mn, mt.CommentLines))
			}
		}
		for _, tbl := range []map[string]*types.Type{p.Functions, p.Variables, p.Constants} {
			for k, t := range tbl {
				lines = append(lines, fmt.Sprintf("%s.%s decl: %q", path, k, t.CommentLines))
			}
		}
	}
	for path, p := range u {
		if pkgs[path] {
			lines = append(lines, fmt.Sprintf("package %s: name %q, directory known: %v", path, p.Name, c11dirOf(p) != ""))
			lines = append(lines, fmt.Sprintf("package %s: doc.go comments %q, doc comment %q", path, p.Comments, p.DocComments))
			if c11dirOf(p) == "" {
				lines = append(lines, "REQUESTED PACKAGE WITHOUT DIRECTORY "+path)
			}
		}
	}
	sort.Strings(lines)
	return strings.Join(lines, "\n")
}

// c11lastDigest: the comment digest of the requested packages after the last c11history call
var c11lastDigest string
