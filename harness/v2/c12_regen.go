package main

import (
	"bytes"
	"fmt"
	"io"
	"os"
	"path/filepath"
	"strings"

	gengo "k8s.io/gengo/v2"
	"k8s.io/gengo/v2/generator"
	"k8s.io/gengo/v2/namer"
	"k8s.io/gengo/v2/types"
)

// a small in-place generator on gengo.Execute: one method per struct type of the package
type c12gen struct {
	generator.GoGenerator
	pkg      string
	separate bool
}

func (x *c12gen) Filter(c *generator.Context, t *types.Type) bool {
	if x.separate && strings.Contains(t.Name.Name, "[") {
		return false // a generic declaration: its name is no identifier
	}
	return t.Name.Package == x.pkg && t.Kind == types.Struct
}
func (x *c12gen) GenerateType(c *generator.Context, t *types.Type, w io.Writer) error {
	sw := generator.NewSnippetWriter(w, c, "$", "$")
	if x.separate {
		// written into a package of its own: no methods, a constant per type
		sw.Do("// Generated for $.Name.Name$\nconst ZZ$.Name.Name$ = $.Members|len$\n\n", t)
		return sw.Error()
	}
	sw.Do("// Generated for $.|raw$\nfunc (in *$.|raw$) ZZGenerated() int { return $.Members|len$ }\n\n", t)
	return sw.Error()
}

func c12regen(g *Gen) {
	work := os.Getenv("VERIF_WORK")
	cwd, _ := os.Getwd()
	defer os.Chdir(cwd)
	os.Setenv("GOFLAGS", "-mod=mod")
	os.Setenv("GOWORK", "off")
	hdr := filepath.Join(work, "c12hdr.txt")
	os.WriteFile(hdr, []byte("/*\nCopyright YEAR.\n*/\n"), 0644)
	n := g.N(6, 60)
	for i := 0; i < n; i++ {
		prog, _ := g.genProgram(true, 2, 2)
		dir := filepath.Join(work, fmt.Sprintf("c12r%d", i))
		writeModule(dir, prog)
		os.Chdir(dir)
		pkg := prog[len(prog)-1]
		outFile := filepath.Join(dir, strings.TrimPrefix(pkg.Path, "ex.test/"), "zz_generated.c12.go")
		// every other program: the output goes to a package of its own (a directory holding only
		// generated files) and the inputs are given by a wildcard
		separate := i%2 == 1
		patterns := []string{pkg.Path}
		if separate {
			outFile = filepath.Join(dir, "gen", "zz_generated.c12.go")
			patterns = []string{"./..."}
		}
		var problems []string
		var firstOut []byte
		firstDump := ""
		run := func(label string) {
			dump := ""
			header, err := gengo.GoBoilerplate(hdr, gengo.StdBuildTag, gengo.StdGeneratedBy)
			if err != nil {
				problems = append(problems, err.Error())
				return
			}
			getTargets := func(c *generator.Context) []generator.Target {
				dump = dumpUniverse(c.Universe)
				p := c.Universe[pkg.Path]
				tn, tp, td := p.Name, p.Path, p.Dir
				if separate {
					tn, tp, td = "gen", "ex.test/gen", filepath.Join(dir, "gen")
				}
				return []generator.Target{&generator.SimpleTarget{
					PkgName: tn, PkgPath: tp, PkgDir: td, HeaderComment: header,
					FilterFunc: func(c *generator.Context, t *types.Type) bool { return t.Name.Package == p.Path },
					GeneratorsFunc: func(c *generator.Context) []generator.Generator {
						return []generator.Generator{&c12gen{GoGenerator: generator.GoGenerator{OutputFilename: "zz_generated.c12.go"}, pkg: p.Path, separate: separate}}
					},
				}}
			}
			err = gengo.Execute(namer.NameSystems{"raw": namer.NewRawNamer(pkg.Path, nil)}, "raw", getTargets, gengo.StdBuildTag, patterns)
			if err != nil {
				problems = append(problems, label+": "+err.Error())
				return
			}
			out, _ := os.ReadFile(outFile)
			if firstOut == nil {
				firstOut, firstDump = out, dump
				if !bytes.Contains(out, []byte("//go:build !"+gengo.StdBuildTag)) {
					problems = append(problems, "generated file lacks the negative build constraint")
				}
				return
			}
			if dump != firstDump {
				problems = append(problems, label+": the tool saw a different universe than on the first run")
			}
			if !bytes.Equal(out, firstOut) {
				problems = append(problems, label+": output differs from the first run")
			}
		}
		run("first run (no previous output)")
		run("second run (previous output present)")
		if firstOut != nil {
			stale := string(firstOut)
			if k := strings.Index(stale, "package "); k > 0 {
				pn := pkg.Name
				if separate {
					pn = "gen"
				}
				stale = stale[:k] + "package " + pn + "\n\n// stale\ntype ZZStale struct{ X *int }\n"
			}
			stale += strings.Repeat("// stale filler, longer than anything the tool writes now\n", 400)
			os.WriteFile(outFile, []byte(stale), 0644)
		}
		run("third run (stale previous output)")
		g.Emit("C12.regen!", list(atom(pkg.Src[:min(len(pkg.Src), 400)]), atom(strings.Join(problems, "; "))), boolS(len(problems) == 0), "regen-execute", map[bool]string{true: "regen-separate-output-wildcard", false: "regen-in-place"}[separate])
		os.Chdir(cwd)
		os.RemoveAll(dir)
	}
}

func min(a, b int) int {
	if a < b {
		return a
	}
	return b
}
