// Program generator for the loader properties (C01, C06, C11, C20, C02): multi-package Go
// programs over the supported fragment that type-check by construction.
// (identical copy in harness/v1 and harness/v2)
package main

import (
	"fmt"
	"sort"
	"strings"
)

var pgConstRound int // counts generated packages: every third declares constants of a defined string type

type GenPkg struct {
	Path, Name string
	Imports    []string
	Src        string
	Requested  bool
}

type pgNamed struct {
	pkg   int
	name  string
	class string // struct, iface, basic (defined over basic/map/slice), other (pointer/array/chan/func), generic
	byVal bool   // may be used by value by later declarations (fully declared, finite size)
	cmp   bool   // comparable: usable as map key
}

type progGen struct {
	g       *Gen
	v2      bool
	npk     int
	named   []pgNamed
	used    map[int]map[int]bool // package -> imported package indices actually referenced
	classes map[string]bool
}

var pgBuiltins = []string{"string", "int", "int64", "int32", "int16", "int8", "uint", "uint64", "uint32", "uint16", "uint8", "uintptr",
	"byte", "rune", "bool", "float64", "float32"}
var pgKeyBuiltins = []string{"string", "int", "int8", "uint8", "byte", "rune", "int64", "bool"}

// pgPrefix is inserted into generated import paths (v1 histories share one GOPATH)
var pgPrefix = ""

// pgAny lets non-generic programs spell the empty interface as `any` (v2 runs of C20)
var pgAny = false

// pgModule is the module (v2) / GOPATH root element (v1) the generated packages live in
var pgModule = "ex.test"

func pgPath(i int) string { return fmt.Sprintf("%s/%sp%d", pgModule, pgPrefix, i) }
func pgName(i int) string { return fmt.Sprintf("p%d", i) }

func (pg *progGen) ref(from int, n pgNamed) string {
	if n.pkg == from {
		return n.name
	}
	if pg.used[from] == nil {
		pg.used[from] = map[int]bool{}
	}
	pg.used[from][n.pkg] = true
	return pgName(n.pkg) + "." + n.name
}

// visible: named types package `from` may mention (its own, and those of lower-numbered packages)
func (pg *progGen) visible(from int, pred func(pgNamed) bool) []pgNamed {
	var out []pgNamed
	for _, n := range pg.named {
		if (n.pkg == from || n.pkg < from && n.name != "float") && n.class != "generic" && pred(n) {
			out = append(out, n)
		}
	}
	return out
}

// ty returns a type expression usable in package `from`. underRef: we are below a pointer,
// slice, map, chan or func, so incompletely declared (later or recursive) types are fine.
func (pg *progGen) ty(from int, depth int, underRef bool, declIdx int) string {
	g := pg.g
	leaf := func() string {
		if g.Chance(0.5) {
			pg.classes["builtin-field"] = true
			return g.Pick(pgBuiltins)
		}
		cands := pg.visible(from, func(n pgNamed) bool { return underRef || n.byVal })
		if len(cands) == 0 {
			return g.Pick(pgBuiltins)
		}
		n := cands[g.R.Intn(len(cands))]
		if n.pkg != from {
			pg.classes["cross-package-ref"] = true
		}
		return pg.ref(from, n)
	}
	if depth <= 0 || g.Chance(0.35) {
		return leaf()
	}
	switch g.R.Intn(9) {
	case 0:
		return "*" + pg.ty(from, depth-1, true, declIdx)
	case 1:
		return "[]" + pg.ty(from, depth-1, true, declIdx)
	case 2:
		return fmt.Sprintf("[%d]", []int{1, 2, 3, 16}[g.R.Intn(4)]) + pg.ty(from, depth-1, underRef, declIdx)
	case 3:
		key := g.Pick(pgKeyBuiltins)
		if ks := pg.visible(from, func(n pgNamed) bool { return n.cmp && n.byVal }); len(ks) > 0 && g.Chance(0.3) {
			key = pg.ref(from, ks[g.R.Intn(len(ks))])
		} else if g.Chance(0.2) {
			// an unnamed composite key that occurs nowhere else: a pointer, an array, a struct, a channel
			pg.classes["composite-map-key"] = true
			key = g.Pick([]string{"*int16", "[2]uint16", "struct{ K int16; L string }", "chan uint16", "*struct{ K uint16 }", "[3]*int16"})
		}
		return "map[" + key + "]" + pg.ty(from, depth-1, true, declIdx)
	case 4:
		return "chan " + pg.ty(from, depth-1, true, declIdx)
	case 5:
		// anonymous struct
		var fs []string
		for i, k := 0, g.R.Intn(3); i < k; i++ {
			f := fmt.Sprintf("F%d %s", i, pg.ty(from, depth-1, underRef, declIdx))
			if g.Chance(0.3) {
				f += fmt.Sprintf(" `json:\"f%d,omitempty\"`", i)
			}
			fs = append(fs, f)
		}
		pg.classes["anonymous-struct"] = true
		return "struct{ " + strings.Join(fs, "; ") + " }"
	case 6:
		var ps, rs []string
		for i, k := 0, g.R.Intn(3); i < k; i++ {
			ps = append(ps, pg.ty(from, depth-1, true, declIdx))
		}
		for i, k := 0, g.R.Intn(3); i < k; i++ {
			rs = append(rs, pg.ty(from, depth-1, true, declIdx))
		}
		pg.classes["func-type"] = true
		return "func(" + strings.Join(ps, ", ") + ") (" + strings.Join(rs, ", ") + ")"
	case 7:
		if (pg.v2 || pgAny) && g.Chance(0.5) {
			pg.classes["any-spelling"] = true
			return "any"
		}
		pg.classes["empty-interface"] = true
		return "interface{}"
	default:
		return leaf()
	}
}

// genProgram builds npk packages; package i may import packages < i.
func (g *Gen) genProgram(v2 bool, npk int, depth int) ([]GenPkg, []string) {
	pg := &progGen{g: g, v2: v2, npk: npk, used: map[int]map[int]bool{}, classes: map[string]bool{}}
	// first decide all names so that declarations can refer to later ones (under references)
	type decl struct {
		n    pgNamed
		kind string
	}
	var decls [][]decl
	for p := 0; p < npk; p++ {
		var ds []decl
		nt := 2 + g.R.Intn(4)
		for k := 0; k < nt; k++ {
			kind := g.Pick([]string{"struct", "struct", "struct", "iface", "basic", "other"})
			name := fmt.Sprintf("%s%d", map[string]string{"struct": "T", "iface": "I", "basic": "B", "other": "D"}[kind], k)
			ds = append(ds, decl{pgNamed{pkg: p, name: name, class: kind}, kind})
		}
		if g.Chance(0.3) {
			// "float" is a key of gengo's builtin table but no predeclared Go identifier: a package may declare it
			ds = append(ds, decl{pgNamed{pkg: p, name: "float", class: "floatdecl"}, "floatdecl"})
			pg.classes["decl-named-like-builtin"] = true
		}
		if v2 && g.Chance(0.7) {
			// "ZG0" sorts after its users: an instantiation is then walked before the declaration
			ds = append(ds, decl{pgNamed{pkg: p, name: g.Pick([]string{"G0", "ZG0"}), class: "generic"}, "generic"})
			pg.classes["generic"] = true
		}
		decls = append(decls, ds)
		for _, d := range ds {
			pg.named = append(pg.named, d.n)
		}
	}
	setByVal := func(p int, name string, cmp bool) {
		for i := range pg.named {
			if pg.named[i].pkg == p && pg.named[i].name == name {
				pg.named[i].byVal = true
				pg.named[i].cmp = cmp
			}
		}
	}
	var out []GenPkg
	for p := 0; p < npk; p++ {
		var b strings.Builder
		var methods strings.Builder
		for di, d := range decls[p] {
			switch d.kind {
			case "struct":
				fmt.Fprintf(&b, "type %s struct {\n", d.n.name)
				used := map[string]bool{}
				// embedded fields: earlier complete structs / interfaces, by value or pointer
				if g.Chance(0.35) {
					cands := pg.visible(p, func(n pgNamed) bool { return n.byVal && (n.class == "struct" || n.class == "iface") })
					if len(cands) > 0 {
						n := cands[g.R.Intn(len(cands))]
						if !used[n.name] {
							used[n.name] = true
							star := ""
							if n.class == "struct" && g.Chance(0.4) {
								star = "*"
							}
							fmt.Fprintf(&b, "\t%s%s\n", star, pg.ref(p, n))
							pg.classes["embedded"] = true
						}
					}
				}
				for i, k := 0, g.R.Intn(5); i < k; i++ {
					fn := fmt.Sprintf("F%d", i)
					if used[fn] {
						continue
					}
					tag := ""
					if g.Chance(0.4) {
						tag = fmt.Sprintf(" `json:\"%s,omitempty\" x:\"a b\"`", strings.ToLower(fn))
						pg.classes["tags"] = true
					}
					fmt.Fprintf(&b, "\t%s %s%s\n", fn, pg.ty(p, depth, false, di), tag)
				}
				if g.Chance(0.12) {
					// blank fields: padding or markers; their storage is part of the struct all the same
					fmt.Fprintf(&b, "\t_ %s\n", g.Pick([]string{"*int", "int32", "[0]int", "*int"}))
					pg.classes["blank-field"] = true
				}
				if v2 {
					for _, dd := range decls[p] {
						if dd.kind == "generic" && g.Chance(0.5) {
							fmt.Fprintf(&b, "\tGen %s[%s]\n", dd.n.name, g.Pick([]string{"int", "string", "*" + d.n.name}))
							pg.classes["generic-instance"] = true
						}
					}
				}
				b.WriteString("}\n\n")
				setByVal(p, d.n.name, false)
				for m, k := 0, g.R.Intn(3); m < k; m++ {
					recv := "r " + d.n.name
					if g.Chance(0.6) {
						recv = "r *" + d.n.name
					}
					var ps []string
					np := g.R.Intn(3)
					for i := 0; i < np; i++ {
						t := pg.ty(p, 1, true, di)
						if i == np-1 && g.Chance(0.3) {
							t = "..." + t
							pg.classes["variadic"] = true
						}
						ps = append(ps, fmt.Sprintf("a%d %s", i, t))
					}
					res := ""
					switch g.R.Intn(3) {
					case 0:
						res = " " + pg.ty(p, 1, true, di)
					case 1:
						res = fmt.Sprintf(" (x %s, err error)", pg.ty(p, 1, true, di))
						pg.classes["error-type"] = true
					}
					fmt.Fprintf(&methods, "func (%s) M%d(%s)%s { panic(\"x\") }\n\n", recv, m, strings.Join(ps, ", "), res)
					pg.classes["methods"] = true
				}
			case "iface":
				fmt.Fprintf(&b, "type %s interface {\n", d.n.name)
				if g.Chance(0.3) {
					cands := pg.visible(p, func(n pgNamed) bool { return n.byVal && n.class == "iface" })
					if len(cands) > 0 {
						fmt.Fprintf(&b, "\t%s\n", pg.ref(p, cands[g.R.Intn(len(cands))]))
						pg.classes["embedded-interface"] = true
					}
				}
				for m, k := 0, g.R.Intn(3); m < k; m++ {
					fmt.Fprintf(&b, "\tN%d%s%d(x %s) %s\n", p, d.n.name, m, pg.ty(p, 1, true, di), pg.ty(p, 1, true, di))
				}
				b.WriteString("}\n\n")
				setByVal(p, d.n.name, false)
			case "basic":
				switch g.R.Intn(3) {
				case 0:
					fmt.Fprintf(&b, "type %s %s\n\n", d.n.name, g.Pick(pgKeyBuiltins))
					setByVal(p, d.n.name, true)
				case 1:
					fmt.Fprintf(&b, "type %s map[string]%s\n\n", d.n.name, pg.ty(p, 1, true, di))
					setByVal(p, d.n.name, false)
				default:
					fmt.Fprintf(&b, "type %s []%s\n\n", d.n.name, pg.ty(p, 1, true, di))
					setByVal(p, d.n.name, false)
				}
				pg.classes["defined-basic-map-slice"] = true
				if g.Chance(0.4) {
					fmt.Fprintf(&methods, "func (r %s) String() string { panic(\"x\") }\n\n", d.n.name)
				}
			case "other":
				otherKind := g.R.Intn(4)
				switch otherKind {
				case 0:
					fmt.Fprintf(&b, "type %s *%s\n\n", d.n.name, pg.ty(p, 1, true, di))
				case 1:
					el := g.Pick(pgBuiltins)
					if g.Chance(0.5) {
						el = g.Pick([]string{"[4]float64", "*int", "[]string", "map[string]int", "[2]*int8", "chan int", "struct{ A int }", "func()"})
						pg.classes["defined-array-of-composite"] = true
					}
					fmt.Fprintf(&b, "type %s [4]%s\n\n", d.n.name, el)
				case 2:
					fmt.Fprintf(&b, "type %s chan %s\n\n", d.n.name, pg.ty(p, 1, true, di))
				default:
					fmt.Fprintf(&b, "type %s func(a %s) %s\n\n", d.n.name, pg.ty(p, 1, true, di), pg.ty(p, 1, true, di))
				}
				setByVal(p, d.n.name, false)
				pg.classes["defined-pointer-array-chan-func"] = true
				if otherKind != 0 && g.Chance(0.5) {
					// methods on a defined array / channel / function type (a defined pointer type can have none)
					fmt.Fprintf(&methods, "func (r %s) Describe() string { return \"\" }\n\nfunc (r *%s) Reset(n int) {}\n\n", d.n.name, d.n.name)
					pg.classes["methods-on-defined-array-chan-func"] = true
				}
			case "floatdecl":
				if g.Chance(0.5) {
					fmt.Fprintf(&b, "type float float64\n\n")
					setByVal(p, "float", true)
				} else {
					fmt.Fprintf(&b, "type float struct {\n\tMantissa *int\n\tExp int\n}\n\n")
					setByVal(p, "float", false)
				}
			case "generic":
				fmt.Fprintf(&b, "type %s[T any] struct {\n\tV T\n\tP *T\n\tS []T\n}\n\n", d.n.name)
				if g.Chance(0.6) {
					fmt.Fprintf(&methods, "func (r %s[T]) Get() T { return r.V }\n\nfunc (r *%s[T]) Set(v T, n int) { r.V = v }\n\n", d.n.name, d.n.name)
					pg.classes["generic-methods"] = true
				}
			}
		}
		// functions, variables, constants
		for i, k := 0, g.R.Intn(3); i < k; i++ {
			fmt.Fprintf(&b, "func Fn%d(a %s, b %s) (r %s) { panic(\"x\") }\n\n", i, pg.ty(p, 1, true, 99), pg.ty(p, 1, true, 99), pg.ty(p, 1, true, 99))
			pg.classes["functions"] = true
		}
		for i, k := 0, g.R.Intn(3); i < k; i++ {
			fmt.Fprintf(&b, "var V%d %s\n\n", i, pg.ty(p, 1, true, 99))
			pg.classes["variables"] = true
		}
		consts := []string{"const C0 = 42", "const C1 string = \"a\\tb\"", "const C2 = \"long string value with spaces\"", "const C3 = 1.5", "const C4 = true", "const C5 int8 = -3", "const C6 = 'x'", "const C7 uint8 = 200",
			"const C8 = \"0123456789012345678901234567890123456789012345678901234567890123456789X\"",
			"const C9 string = \"a string constant that is much longer than seventy-two characters, so that constant.Value.String() would abbreviate it ... and more\""}
		pgConstRound++
		if pgConstRound%4 == 1 {
			// an alias declaration for an unnamed composite type, next to other uses of that type: one Go type
			b.WriteString("type ZTags = []string\n\nvar ZTagsUse []string\n\ntype ZTagsHolder struct {\n\tA ZTags\n\tB []string\n}\n\n")
			pg.classes["alias-of-unnamed-composite"] = true
		}
		if pgConstRound%3 == 0 {
			// string constants of a DEFINED string type (and an expression derived from one): their value is the
			// string, not its quoted form
			b.WriteString("type ZColor string\n\nconst C10 ZColor = \"red\"\n\nconst C11 = C10 + \"dish with a tail that makes the constant much longer than seventy-two characters in all\"\n\n")
			// integer constants outside the int64 range: the value is the exact one
			b.WriteString("const C12 uint64 = 1<<64 - 1\n\nconst C13 = 1 << 70\n\nconst C14 = -(1 << 64) - 5\n\n")
			pg.classes["integer-constant-beyond-int64"] = true
			pg.classes["string-constant-of-defined-type"] = true
			pg.classes["constants"] = true
		}
		for _, c := range consts {
			if g.Chance(0.35) {
				b.WriteString(c + "\n\n")
				pg.classes["constants"] = true
				if strings.HasPrefix(c, "const C8") || strings.HasPrefix(c, "const C9") {
					pg.classes["long-string-constant"] = true
				}
			}
		}
		var imps []int
		for q := range pg.used[p] {
			imps = append(imps, q)
		}
		sort.Ints(imps)
		var src strings.Builder
		fmt.Fprintf(&src, "package %s\n\n", pgName(p))
		var impPaths []string
		if len(imps) > 0 {
			src.WriteString("import (\n")
			for k, q := range imps {
				if k == 0 && pgConstRound%2 == 0 {
					// an import path written as a raw string literal (legal, and kept by gofmt)
					fmt.Fprintf(&src, "\t`%s`\n", pgPath(q))
					pg.classes["import-written-as-raw-string"] = true
				} else {
					fmt.Fprintf(&src, "\t%q\n", pgPath(q))
				}
				impPaths = append(impPaths, pgPath(q))
			}
			src.WriteString(")\n\n")
		}
		src.WriteString(b.String())
		src.WriteString(methods.String())
		out = append(out, GenPkg{Path: pgPath(p), Name: pgName(p), Imports: impPaths, Src: src.String(), Requested: true})
	}
	var cls []string
	for c := range pg.classes {
		cls = append(cls, c)
	}
	sort.Strings(cls)
	return out, cls
}
