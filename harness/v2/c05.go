// DUAL: harness/v1/c05.go is generated from this file by harness/sync.sh (import paths only).
package main

import (
	"regexp"
	"fmt"
	"go/ast"
	"go/format"
	"go/parser"
	"go/token"
	"sort"
	"strings"

	"k8s.io/gengo/v2/types"
)

func init() { register("C05", c05) }

type c05gen struct {
	g   *Gen
	b   strings.Builder
	n   int
	cls map[string]bool
}

func (c *c05gen) comment(indent string, what string) {
	g := c.g
	c.n++
	if what == "doc" && indent == "" && g.Chance(0.12) {
		// a block of directives only: go/ast's Text() of it is empty, but it is the doc block all the same
		fmt.Fprintf(&c.b, "%s", g.Pick([]string{"//go:generate echo x\n", "//nolint:gochecknoglobals\n", "//go:generate echo a\n//go:generate echo b\n"}))
		c.cls["doc-of-directives-only"] = true
		return
	}
	switch g.R.Intn(4) {
	case 0:
		fmt.Fprintf(&c.b, "%s// %s %d\n", indent, what, c.n)
	case 1:
		fmt.Fprintf(&c.b, "%s// %s %d line one\n%s// +tag%d=value\n", indent, what, c.n, indent, c.n)
	case 2:
		fmt.Fprintf(&c.b, "%s/* %s %d block */\n", indent, what, c.n)
		c.cls["block-comment"] = true
	default:
		fmt.Fprintf(&c.b, "%s/*\n%s%s %d multi\n%sline block\n%s*/\n", indent, indent, what, c.n, indent, indent)
		c.cls["block-comment"] = true
	}
}

// lead writes the optional detached and doc comments before a declaration.
func (c *c05gen) lead(indent string) {
	g := c.g
	if g.Chance(0.35) {
		c.comment(indent, "detached")
		c.b.WriteString("\n")
		c.cls["detached"] = true
	}
	if g.Chance(0.55) {
		c.comment(indent, "doc")
		c.cls["doc"] = true
	}
}

func (c *c05gen) trail() string {
	if c.g.Chance(0.4) {
		c.n++
		c.cls["trailing"] = true
		if c.g.Chance(0.25) {
			return fmt.Sprintf(" /* trailing %d */", c.n)
		}
		if c.g.Chance(0.2) {
			// a trailing block comment that ends on the next line, directly above whatever follows
			c.cls["trailing-block-ends-on-next-line"] = true
			return fmt.Sprintf(" /* trailing %d\n+tag%d=trailing */", c.n, c.n)
		}
		return fmt.Sprintf(" // trailing %d", c.n)
	}
	return ""
}

func (c *c05gen) file(pkg string, idx int) string {
	g := c.g
	c.b.Reset()
	if g.Chance(0.5) {
		c.comment("", "package doc")
	}
	fmt.Fprintf(&c.b, "package %s%s\n\n", pkg, c.trail())
	nd := 2 + g.R.Intn(5)
	for d := 0; d < nd; d++ {
		name := fmt.Sprintf("X%d_%d", idx, d)
		switch g.R.Intn(7) {
		case 0: // struct with fields
			c.lead("")
			fmt.Fprintf(&c.b, "type %s struct {%s\n", name, c.trail())
			for f, k := 0, g.R.Intn(4); f < k; f++ {
				if g.Chance(0.3) {
					c.b.WriteString("\n")
				}
				c.lead("\t")
				fmt.Fprintf(&c.b, "\tF%d %s%s\n", f, g.Pick([]string{"int", "string", "[]byte", "*int"}), c.trail())
			}
			fmt.Fprintf(&c.b, "}%s\n\n", c.trail())
			c.cls["struct-fields"] = true
			if g.Chance(0.5) {
				c.lead("")
				fmt.Fprintf(&c.b, "func (r *%s) M%d() {}%s\n\n", name, d, c.trail())
				c.cls["method"] = true
			}
		case 1: // grouped types
			c.lead("")
			c.b.WriteString("type (\n")
			for k := 0; k < 1+g.R.Intn(3); k++ {
				c.lead("\t")
				fmt.Fprintf(&c.b, "\t%sg%d %s%s\n", name, k, g.Pick([]string{"int", "string", "map[string]int"}), c.trail())
			}
			fmt.Fprintf(&c.b, ")%s\n\n", c.trail())
			c.cls["grouped"] = true
		case 2: // function
			c.lead("")
			fmt.Fprintf(&c.b, "func %s() {}%s\n\n", name, c.trail())
		case 3: // single var / const
			c.lead("")
			fmt.Fprintf(&c.b, "%s %s = %d%s\n\n", g.Pick([]string{"var", "const"}), name, d, c.trail())
		case 4: // grouped consts / vars
			c.lead("")
			kw := g.Pick([]string{"var", "const"})
			fmt.Fprintf(&c.b, "%s (\n", kw)
			for k := 0; k < 1+g.R.Intn(3); k++ {
				c.lead("\t")
				fmt.Fprintf(&c.b, "\t%sv%d = %d%s\n", name, k, k, c.trail())
			}
			fmt.Fprintf(&c.b, ")%s\n\n", c.trail())
			c.cls["grouped"] = true
		case 5: // interface
			c.lead("")
			fmt.Fprintf(&c.b, "type %s interface {%s\n", name, c.trail())
			for m, k := 0, g.R.Intn(3); m < k; m++ {
				c.lead("\t")
				fmt.Fprintf(&c.b, "\tIM%d()%s\n", m, c.trail())
			}
			fmt.Fprintf(&c.b, "}%s\n\n", c.trail())
			c.cls["interface-methods"] = true
		default: // plain defined type right after the previous declaration (no blank line)
			c.lead("")
			fmt.Fprintf(&c.b, "type %s int%s\n", name, c.trail())
			if c.g.Chance(0.35) {
				// an alias declaration with a doc comment of its own: the comment documents the alias, it
				// must not reach the type the alias stands for (gengo has no entry for the alias itself)
				c.n++
				fmt.Fprintf(&c.b, "\n// alias doc %d +aliastag%d=x\ntype %szalias = %s\n", c.n, c.n, name, c.g.Pick([]string{name, name, "int", "string"}))
				c.cls["alias-declaration-with-doc"] = true
			}
			if g.Chance(0.5) {
				fmt.Fprintf(&c.b, "type %sb string%s\n", name, c.trail())
				c.cls["adjacent-declarations"] = true
			}
			c.b.WriteString("\n")
		}
	}
	src, err := format.Source([]byte(c.b.String()))
	if err != nil {
		panic(fmt.Sprintf("generated layout does not format: %v\n%s", err, c.b.String()))
	}
	return string(src)
}

func splitLinesLikeGengo(s string) []string {
	return strings.Split(strings.TrimRight(s, "\n"), "\n")
}

// c05oracle: comment groups (with a trailing flag taken from the source text) and declaration
// lines, from an independent go/parser pass.
func c05oracle(filename, src string) (groups string, decls string, pkgLine int, allText []string) {
	fset := token.NewFileSet()
	f, err := parser.ParseFile(fset, filename, src, parser.ParseComments)
	if err != nil {
		panic(err)
	}
	lines := strings.Split(src, "\n")
	var gs []string
	for _, cg := range f.Comments {
		sp, ep := fset.Position(cg.Pos()), fset.Position(cg.End())
		before := lines[sp.Line-1][:sp.Column-1]
		trailing := strings.TrimSpace(before) != ""
		txt := splitLinesLikeGengo(cg.Text())
		gs = append(gs, list(num(sp.Line), num(ep.Line), boolS(trailing), atoms(txt)))
		allText = append(allText, txt...)
	}
	var ds []string
	add := func(key string, pos token.Pos, second bool) {
		ds = append(ds, list(atom(key), num(fset.Position(pos).Line), boolS(second)))
	}
	for _, d := range f.Decls {
		switch x := d.(type) {
		case *ast.GenDecl:
			for _, sp := range x.Specs {
				switch s := sp.(type) {
				case *ast.TypeSpec:
					if s.Assign.IsValid() {
						continue // an alias declaration: gengo has no entry of its own for it
					}
					add("type:"+s.Name.Name, s.Name.Pos(), true)
					switch t := s.Type.(type) {
					case *ast.StructType:
						for _, fl := range t.Fields.List {
							for _, n := range fl.Names {
								add("field:"+s.Name.Name+"."+n.Name, n.Pos(), false)
							}
						}
					case *ast.InterfaceType:
						for _, fl := range t.Methods.List {
							for _, n := range fl.Names {
								add("imethod:"+s.Name.Name+"."+n.Name, n.Pos(), false)
							}
						}
					}
				case *ast.ValueSpec:
					kind := "var:"
					if x.Tok == token.CONST {
						kind = "const:"
					}
					for _, n := range s.Names {
						add(kind+n.Name, n.Pos(), true)
					}
				}
			}
		case *ast.FuncDecl:
			if x.Recv == nil {
				add("func:"+x.Name.Name, x.Name.Pos(), true)
			} else {
				recv := ""
				switch r := x.Recv.List[0].Type.(type) {
				case *ast.StarExpr:
					recv = r.X.(*ast.Ident).Name
				case *ast.Ident:
					recv = r.Name
				}
				add("method:"+recv+"."+x.Name.Name, x.Name.Pos(), false)
			}
		}
	}
	return list(gs...), list(ds...), fset.Position(f.Name.Pos()).Line, allText
}

func normLines(l []string) string {
	if len(l) == 1 && l[0] == "" {
		return list()
	}
	return atoms(l)
}

// c05depFirst: the package is first loaded as a dependency of another requested package and only
// then requested itself (its comments must still be delivered)
var c05depFirst = false

// c05universeBetween: (with c05depFirst) the universe is made after the user package was loaded and the
// package under test is requested into it afterwards
var c05universeBetween = false

var reC05Struct = regexp.MustCompile(`(?m)^type (X[0-9_]+) struct`)

// c05userSrc: a package that uses a struct type of the package under test when it declares one
// (so that the type, its fields and methods are reached through the user), else only imports it
func c05userSrc(path string, files map[string]string) string {
	var names []string
	for n := range files {
		names = append(names, n)
	}
	sort.Strings(names)
	for _, n := range names {
		if m := reC05Struct.FindStringSubmatch(files[n]); m != nil {
			return "package c05user\n\nimport dep \"" + path + "\"\n\nvar V dep." + m[1] + "\n"
		}
	}
	return "package c05user\n\nimport _ \"" + path + "\"\n"
}

// c05twice: the package is requested a second time into the universe that already holds it
var c05twice = false

func c05(g *Gen) {
	n := g.N(150, 4000)
	for i := 0; i < n; i++ {
		c05depFirst = i%4 == 3
		c05universeBetween = i%8 == 7
		c05twice = i%4 == 1
		c := &c05gen{g: g, cls: map[string]bool{}}
		pkg := "cm"
		path := fmt.Sprintf("ex.test/cm%d", i)
		nf := 1 + g.R.Intn(2)
		files := map[string]string{}
		var names []string
		for k := 0; k < nf; k++ {
			fn := fmt.Sprintf("f%d.go", k)
			if k == nf-1 && g.Chance(0.35) {
				// a file whose name merely ends in "doc.go" is not the package's doc.go
				fn = g.Pick([]string{"types_swagger_doc.go", "apidoc.go", "zdoc.go"})
				c.cls["file-named-like-doc.go"] = true
			}
			files[fn] = c.file(pkg, k)
			names = append(names, fn)
		}
		hasDoc := g.Chance(0.4)
		if hasDoc {
			files["doc.go"] = c.file(pkg, 9)
			names = append(names, "doc.go")
			c.cls["doc.go"] = true
		}
		u, err := c05load(g, i, path, files, names)
		if err != nil {
			panic(fmt.Sprintf("loader rejected a generated layout: %v", err))
		}
		p := u.Package(path)
		cls := []string{"layout"}
		if c05depFirst {
			cls = append(cls, "dependency-first-then-requested")
		}
		if c05twice {
			cls = append(cls, "requested-twice-into-one-universe")
		}
		if c05depFirst && c05universeBetween {
			cls = append(cls, "dependency-in-universe-before-it-is-requested")
		}
		for k := range c.cls {
			cls = append(cls, k)
		}
		sort.Strings(cls)
		if !hasDoc {
			g.Emit("C05.pkgcomments", list(), atoms(p.Comments), "no-doc.go")
		}
		for _, fn := range names {
			gs, ds, pkgLine, allText := c05oracle(path+"/"+fn, files[fn])
			// implementation observable, in the oracle's declaration order
			fset := token.NewFileSet()
			f, _ := parser.ParseFile(fset, fn, files[fn], 0)
			_ = f
			var out []string
			for _, d := range strings.Split(ds[1:len(ds)-1], ") (") {
				_ = d
			}
			out = c05observe(p, ds)
			g.Emit("C05.comments", list(gs, ds), list(out...), cls...)
			if fn == "doc.go" {
				g.Emit("C05.pkgcomments", gs, atoms(p.Comments), cls...)
				g.Emit("C05.comments", list(gs, list(list(atom("package"), num(pkgLine), boolS(false)))), list(list(atom("package"), normLines(p.DocComments), list())), "doc.go")
				_ = allText
			}
		}
	}
}

// c05observe reads the delivered comments for every declaration key of the (sexp) declaration list.
func c05observe(p *types.Package, ds string) []string {
	var out []string
	for _, key := range c05keys(ds) {
		kind, rest := key[:strings.Index(key, ":")], key[strings.Index(key, ":")+1:]
		var c1, c2 []string
		second := false
		switch kind {
		case "type":
			if t, ok := p.Types[rest]; ok {
				c1, c2, second = t.CommentLines, t.SecondClosestCommentLines, true
			}
		case "func":
			if t, ok := p.Functions[rest]; ok {
				c1, c2, second = t.CommentLines, t.SecondClosestCommentLines, true
			}
		case "var":
			if t, ok := p.Variables[rest]; ok {
				c1, c2, second = t.CommentLines, t.SecondClosestCommentLines, true
			}
		case "const":
			if t, ok := p.Constants[rest]; ok {
				c1, c2, second = t.CommentLines, t.SecondClosestCommentLines, true
			}
		case "field":
			tn, fn := rest[:strings.Index(rest, ".")], rest[strings.Index(rest, ".")+1:]
			if t, ok := p.Types[tn]; ok {
				for _, m := range t.Members {
					if m.Name == fn {
						c1 = m.CommentLines
					}
				}
			}
		case "method", "imethod":
			tn, mn := rest[:strings.Index(rest, ".")], rest[strings.Index(rest, ".")+1:]
			if t, ok := p.Types[tn]; ok {
				if m, ok := t.Methods[mn]; ok {
					c1 = m.CommentLines
				}
			}
		}
		s2 := list()
		if second {
			s2 = normLines(c2)
		}
		out = append(out, list(atom(key), normLines(c1), s2))
	}
	return out
}

// c05keys extracts the declaration keys from the sexp list built by c05oracle.
func c05keys(ds string) []string {
	var keys []string
	for _, part := range strings.Split(ds, "(<") {
		if i := strings.Index(part, ">"); i > 0 {
			var b strings.Builder
			for _, f := range strings.Fields(part[:i]) {
				var r int
				fmt.Sscanf(f, "%d", &r)
				b.WriteRune(rune(r))
			}
			if strings.Contains(b.String(), ":") {
				keys = append(keys, b.String())
			}
		}
	}
	return keys
}
