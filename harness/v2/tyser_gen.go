// Independent type check (go/parser + go/types, in memory) of a generated program and its
// serialisation as the model's input: a table of type nodes and the package scopes.
// (identical copy in harness/v1 and harness/v2)
package main

import (
	"fmt"
	"go/ast"
	"go/constant"
	"go/parser"
	"go/token"
	gotypes "go/types"
	"sort"
	"strings"
)

type mapImporter map[string]*gotypes.Package

func (m mapImporter) Import(path string) (*gotypes.Package, error) {
	if p, ok := m[path]; ok {
		return p, nil
	}
	return nil, fmt.Errorf("harness importer: no package %q", path)
}

type checked struct {
	pkgs  []*gotypes.Package
	fset  *token.FileSet
	files map[string]*ast.File
}

// typeCheck checks the packages in order (dependencies first).
func typeCheck(prog []GenPkg) (*checked, error) {
	c := &checked{fset: token.NewFileSet(), files: map[string]*ast.File{}}
	imp := mapImporter{}
	for _, gp := range prog {
		f, err := parser.ParseFile(c.fset, gp.Path+"/file.go", gp.Src, parser.ParseComments)
		if err != nil {
			return nil, fmt.Errorf("generated program does not parse: %v\n%s", err, gp.Src)
		}
		conf := gotypes.Config{Importer: imp}
		pkg, err := conf.Check(gp.Path, c.fset, []*ast.File{f}, nil)
		if err != nil {
			return nil, fmt.Errorf("generated program does not type-check: %v\n%s", err, gp.Src)
		}
		imp[gp.Path] = pkg
		c.pkgs = append(c.pkgs, pkg)
		c.files[gp.Path] = f
	}
	return c, nil
}

type tySer struct {
	ids   map[gotypes.Type]int
	nodes []string
	types []gotypes.Type
}

func (s *tySer) id(t gotypes.Type) int {
	t = gotypes.Unalias(t)
	if i, ok := s.ids[t]; ok {
		return i
	}
	i := len(s.nodes)
	s.ids[t] = i
	s.nodes = append(s.nodes, "") // reserve
	s.types = append(s.types, t)
	s.nodes[i] = list(num(i), list(atom(t.String()), s.shape(t)))
	return i
}

func (s *tySer) methods(n int, at func(int) *gotypes.Func) string {
	var it []string
	for i := 0; i < n; i++ {
		m := at(i)
		it = append(it, list(atom(m.Name()), atom(m.String()), num(s.id(m.Type()))))
	}
	return list(it...)
}

func (s *tySer) tuple(t *gotypes.Tuple) string {
	var it []string
	for i := 0; i < t.Len(); i++ {
		it = append(it, list(atom(t.At(i).Name()), num(s.id(t.At(i).Type()))))
	}
	return list(it...)
}

func (s *tySer) shape(in gotypes.Type) string {
	switch t := in.(type) {
	case *gotypes.Basic:
		return tag("basic", atom(t.Name()))
	case *gotypes.Pointer:
		return tag("ptr", num(s.id(t.Elem())))
	case *gotypes.Slice:
		return tag("slice", num(s.id(t.Elem())))
	case *gotypes.Array:
		return tag("array", num(int(t.Len())), num(s.id(t.Elem())))
	case *gotypes.Map:
		return tag("map", num(s.id(t.Key())), num(s.id(t.Elem())))
	case *gotypes.Chan:
		if t.Dir() != gotypes.SendRecv {
			return tag("other")
		}
		return tag("chan", num(s.id(t.Elem())))
	case *gotypes.Struct:
		var fs []string
		for i := 0; i < t.NumFields(); i++ {
			f := t.Field(i)
			fs = append(fs, list(atom(f.Name()), boolS(f.Anonymous()), atom(t.Tag(i)), num(s.id(f.Type()))))
		}
		return tag("struct", fs...)
	case *gotypes.Interface:
		t.Complete()
		ms := s.methods(t.NumMethods(), t.Method)
		return "(" + atom("iface") + " " + ms[1:]
	case *gotypes.Signature:
		rc := list()
		if r := t.Recv(); r != nil {
			rc = list(num(s.id(r.Type())))
		}
		return tag("func", s.tuple(t.Params()), s.tuple(t.Results()), boolS(t.Variadic()), rc)
	case *gotypes.Named:
		cls := 2
		switch t.Underlying().(type) {
		case *gotypes.Basic, *gotypes.Map, *gotypes.Slice:
			cls = 0
		case *gotypes.Struct, *gotypes.Interface:
			cls = 1
		}
		var tps []string
		for i := 0; i < t.TypeParams().Len(); i++ {
			tp := t.TypeParams().At(i)
			tps = append(tps, list(atom(tp.Obj().Name()), num(s.id(tp.Constraint()))))
		}
		og := list()
		if t.TypeArgs().Len() > 0 {
			og = list(num(s.id(t.Origin())))
		}
		return tag("named", num(cls), num(s.id(t.Underlying())), s.methods(t.NumMethods(), t.Method), list(tps...), og)
	case *gotypes.TypeParam:
		return tag("typeparam")
	}
	return tag("other")
}

// serialise returns the model input (version nodes packages).
func (c *checked) serialise(ver int, prog []GenPkg) (string, *tySer) {
	s := &tySer{ids: map[gotypes.Type]int{}}
	var pk []string
	for i, pkg := range c.pkgs {
		var objs []string
		sc := pkg.Scope()
		for _, n := range sc.Names() {
			switch o := sc.Lookup(n).(type) {
			case *gotypes.TypeName:
				if _, isAlias := o.Type().(*gotypes.Alias); isAlias {
					continue
				}
				objs = append(objs, tag("type", num(s.id(o.Type()))))
			case *gotypes.Func:
				objs = append(objs, tag("func", atom(o.String()), num(s.id(o.Type()))))
			case *gotypes.Var:
				objs = append(objs, tag("var", atom(o.String()), num(s.id(o.Type()))))
			case *gotypes.Const:
				val := o.Val().String()
				if o.Val().Kind() == constant.String {
					val = constant.StringVal(o.Val())
				}
				objs = append(objs, tag("const", atom(o.String()), num(s.id(o.Type())), atom(val)))
			}
		}
		imps := append([]string{}, prog[i].Imports...)
		sort.Strings(imps)
		pk = append(pk, list(atom(pkg.Path()), atom(pkg.Name()), boolS(prog[i].Requested), atoms(imps), list(objs...)))
	}
	return list(num(ver), list(s.nodes...), list(pk...)), s
}

func refS(pkg, name string) string { return list(atom(pkg), atom(name)) }

func joinNL(xs []string) string { return strings.Join(xs, "\n") }
