// DUAL: harness/v1/c12.go is generated from this file by harness/sync.sh (import paths only).
package main

import (
	"fmt"
	"sort"
	"strings"

	"k8s.io/gengo/v2/types"
)

func init() { register("C12", c12) }

// c12root != "": load the package through a recursive request for this root
var c12root = ""

// c12viaImporter: another requested package that imports the package is loaded first, so that the
// package is first seen as a dependency (its tag-excluded files must stay invisible all the same)
var c12viaImporter = false

type c12expr struct {
	goBuild string   // text after //go:build
	legacy  []string // equivalent // +build lines (nil: none written)
	sx      string   // model expression
}

func c12tag(t string) string      { return tag("tag", atom(t)) }
func c12not(e string) string      { return tag("not", e) }
func c12and(a, b string) string   { return tag("and", a, b) }
func c12or(a, b string) string    { return tag("or", a, b) }

var c12Exprs = []c12expr{
	{"a", []string{"a"}, c12tag("a")},
	{"!a", []string{"!a"}, c12not(c12tag("a"))},
	{"a && b", []string{"a,b"}, c12and(c12tag("a"), c12tag("b"))},
	{"a || !b", []string{"a !b"}, c12or(c12tag("a"), c12not(c12tag("b")))},
	{"!(a && b)", nil, c12not(c12and(c12tag("a"), c12tag("b")))},
	{"g", []string{"g"}, c12tag("g")},
	{"!g", []string{"!g"}, c12not(c12tag("g"))},
	{"!g && !a", []string{"!g,!a"}, c12and(c12not(c12tag("g")), c12not(c12tag("a")))},
}

func c12(g *Gen) {
	n := g.N(40, 800)
	for i := 0; i < n; i++ {
		path := fmt.Sprintf("ex.test/bt%d", i)
		c12root = ""
		c12viaImporter = i%3 == 1
		if i%3 == 2 {
			// the input is given as root/... and the package sits two levels below the root
			c12root = fmt.Sprintf("ex.test/btr%d", i)
			path = c12root + "/sub/deep"
		}
		files := map[string]string{}
		var names []string
		files["base.go"] = "package bt\n\n// Base doc\ntype Base struct{}\n"
		names = append(names, "base.go")
		var fsx []string
		fsx = append(fsx, list(atom("base.go"), list(), atoms([]string{"type:Base"})))
		deps := map[string]string{}
		nf := 1 + g.R.Intn(4)
		for k := 0; k < nf; k++ {
			e := c12Exprs[g.R.Intn(len(c12Exprs))]
			var b strings.Builder
			style := g.R.Intn(3)
			cls := ""
			switch {
			case style == 0 || e.legacy == nil:
				fmt.Fprintf(&b, "//go:build %s\n\n", e.goBuild)
				cls = "go-build-line"
			case style == 1:
				for _, l := range e.legacy {
					fmt.Fprintf(&b, "// +build %s\n", l)
				}
				b.WriteString("\n")
				cls = "legacy-build-line"
			default:
				fmt.Fprintf(&b, "//go:build %s\n", e.goBuild)
				for _, l := range e.legacy {
					fmt.Fprintf(&b, "// +build %s\n", l)
				}
				b.WriteString("\n")
				cls = "both-build-lines"
			}
			_ = cls
			dep := fmt.Sprintf("%s/dep%d", path, k)
			deps[dep] = fmt.Sprintf("package dep%d\n\ntype D struct{}\n", k)
			fmt.Fprintf(&b, "package bt\n\nimport dep \"%s\"\n\n// T%d doc +tag%d\ntype T%d struct{ D dep.D }\n\n// M%d doc\nfunc (b Base) M%d() {}\n", dep, k, k, k, k, k)
			fn := fmt.Sprintf("f%d.go", k)
			files[fn] = b.String()
			names = append(names, fn)
			fsx = append(fsx, list(atom(fn), list(e.sx), atoms([]string{fmt.Sprintf("type:T%d", k), fmt.Sprintf("method:M%d", k), "import:" + dep, fmt.Sprintf("comment:T%d doc +tag%d", k, k)})))
		}
		for _, tags := range [][]string{nil, {"a"}, {"b"}, {"g"}, {"a", "b"}, {"a", "g"}, {"a", "b", "g"}} {
			u, err := c12load(g, i, tags, path, files, names, deps)
			if err != nil {
				panic(fmt.Sprintf("load with tags %v failed: %v", tags, err))
			}
			p := u.Package(path)
			var vis []string
			for k, t := range p.Types {
				vis = append(vis, "type:"+k)
				if k != "Base" && len(t.CommentLines) > 0 && t.CommentLines[0] != "" {
					vis = append(vis, "comment:"+strings.Join(t.CommentLines, "\n"))
				}
			}
			if base, ok := p.Types["Base"]; ok {
				for m := range base.Methods {
					vis = append(vis, "method:"+m)
				}
			}
			for im := range p.Imports {
				vis = append(vis, "import:"+im)
			}
			sort.Strings(vis)
			cls := []string{"visibility", fmt.Sprintf("tags-%d", len(tags))}
			if c12root != "" {
				cls = append(cls, "recursive-input")
			}
			if c12viaImporter {
				cls = append(cls, "dependency-first-then-requested")
			}
			if len(vis) > 1 {
				cls = append(cls, "some-file-visible")
			}
			if len(vis) < 1+4*nf {
				cls = append(cls, "some-file-excluded")
			}
			g.Emit("C12.visible", list(atoms(tags), list(fsx...)), atoms(vis), cls...)
		}
	}
	c12root = ""
	c12viaImporter = false
	c12regen(g)
}

var _ = types.Builtin
