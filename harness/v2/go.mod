module verif/h2

go 1.20

require (
	golang.org/x/tools v0.16.1
	k8s.io/gengo/v2 v2.0.0
)

require (
	github.com/go-logr/logr v0.2.0 // indirect
	golang.org/x/mod v0.14.0 // indirect
	k8s.io/klog/v2 v2.2.0 // indirect
)

replace k8s.io/gengo/v2 => /repo/v2
