package main

import (
	"encoding/json"
	"reflect"
	"strings"

	"k8s.io/gengo/v2/parser/tags"
	"k8s.io/gengo/v2/types"
)

func init() { register("C19", c19) }

var c19Names = []string{"", "", "name", "-", "n-1", "a.b", "éπn", "a b", "<x>", "a!b", "x\ty", "é", "٣", "a\"b", "a\\b", "F", "n:m", "中", "a;b", "a'b", "a`b", "~"}
var c19Opts = []string{"omitempty", "inline", "omitemptyx", "xinline", "inline ", " inline", "", "string", "OMITEMPTY", "omitempty", "inline", "omit", "in,line"}
var c19Fields = []string{"F", "Field", "X1", "Name"}

func c19quote(v string) string {
	// Go source-level struct tag value quoting: escape backslash and quote
	v = strings.ReplaceAll(v, "\\", "\\\\")
	return strings.ReplaceAll(v, "\"", "\\\"")
}

func (g *Gen) c19value() (string, []string) {
	var cls []string
	name := g.Pick(c19Names)
	v := name
	n := 0
	if g.Chance(0.7) {
		n = 1 + g.R.Intn(3)
	}
	for i := 0; i < n; i++ {
		v += "," + g.Pick(c19Opts)
	}
	if name == "-" && n == 0 {
		cls = append(cls, "omit")
	}
	if name == "-" && n > 0 {
		cls = append(cls, "dash-name")
	}
	if n > 0 {
		cls = append(cls, "options")
	}
	if strings.ContainsAny(name, "\"\\") {
		cls = append(cls, "escapes")
	}
	if strings.ContainsAny(name, "\t'`") {
		cls = append(cls, "json-invalid-name")
	}
	return v, cls
}

func (g *Gen) c19tags() (string, []string) {
	v, cls := g.c19value()
	others := []string{`protobuf:"bytes,1,opt,name=x"`, `yaml:"a b"`, `x:"a\"b"`, `k:""`, `json2:"no"`, `js:"on"`}
	var parts []string
	for g.Chance(0.3) {
		parts = append(parts, g.Pick(others))
	}
	j := `json:"` + c19quote(v) + `"`
	switch {
	case g.Chance(0.06):
		j = `json: "` + v + `"`
		cls = append(cls, "malformed")
	case g.Chance(0.04):
		j = `json:"` + v
		cls = append(cls, "malformed")
	case g.Chance(0.04):
		j = `json"` + v + `"`
		cls = append(cls, "malformed")
	case g.Chance(0.05):
		j = ""
		cls = append(cls, "no-json-key")
	}
	parts = append(parts, j)
	for g.Chance(0.3) {
		parts = append(parts, g.Pick(others))
		cls = append(cls, "other-keys")
	}
	if g.Chance(0.1) {
		parts = append(parts, `json:"second,omitempty"`)
		cls = append(cls, "duplicate-key")
	}
	sep := " "
	if g.Chance(0.1) {
		sep = "  "
	}
	if g.Chance(0.05) {
		sep = ""
		cls = append(cls, "no-separator")
	}
	return strings.Join(parts, sep), cls
}

func c19out(r tags.JSON) string {
	return list(atom(r.Name), boolS(r.Omit), boolS(r.Inline), boolS(r.Omitempty))
}

func c19clean(s string) bool { return !strings.ContainsAny(s, "\"\\\n") }

// c19marshal observes what encoding/json does with a field fname tagged json:"v".
func c19marshal(fname, v string) (omit bool, key string, omitempty bool, ok bool) {
	defer func() {
		if recover() != nil {
			ok = false
		}
	}()
	st := reflect.StructOf([]reflect.StructField{{Name: fname, Type: reflect.TypeOf(""), Tag: reflect.StructTag(`json:"` + v + `"`)}})
	keys := func(val string) []string {
		x := reflect.New(st).Elem()
		x.Field(0).SetString(val)
		b, err := json.Marshal(x.Interface())
		if err != nil {
			panic(err)
		}
		m := map[string]interface{}{}
		if err := json.Unmarshal(b, &m); err != nil {
			panic(err)
		}
		var ks []string
		for k := range m {
			ks = append(ks, k)
		}
		return ks
	}
	empty, full := keys(""), keys("x")
	switch {
	case len(full) == 0 && len(empty) == 0:
		return true, "", false, true
	case len(full) == 1 && len(empty) == 0:
		return false, full[0], true, true
	case len(full) == 1 && len(empty) == 1 && full[0] == empty[0]:
		return false, full[0], false, true
	}
	return false, "", false, false
}

func c19(g *Gen) {
	validateUnicodeTables()
	// exhaustive: all option lists of length <= 3 over a 6-word alphabet, with and without a name
	words := []string{"omitempty", "inline", "omitemptyx", "xinline", "", "string"}
	var lists [][]string
	lists = append(lists, nil)
	for _, a := range words {
		lists = append(lists, []string{a})
		for _, b := range words {
			lists = append(lists, []string{a, b})
			for _, c := range words {
				lists = append(lists, []string{a, b, c})
			}
		}
	}
	emitLookup := func(fname, tg string, cls []string) tags.JSON {
		r, _ := tags.LookupJSON(types.Member{Name: fname, Tags: tg})
		g.Emit("C19.lookup", list(atom(fname), atom(tg)), c19out(r), cls...)
		return r
	}
	for _, l := range lists {
		for _, nm := range []string{"", "n", "-"} {
			v := nm
			for _, w := range l {
				v += "," + w
			}
			emitLookup("F", `json:"`+v+`"`, []string{"exhaustive-options"})
		}
	}
	n := g.N(3000, 120000)
	for i := 0; i < n; i++ {
		fname := g.Pick(c19Fields)
		tg, cls := g.c19tags()
		r := emitLookup(fname, tg, cls)
		// model of StructTag.Get against reflect (oracle model)
		key := "json"
		if g.Chance(0.3) {
			key = g.Pick([]string{"yaml", "x", "k", "protobuf", "json2", "nokey"})
		}
		val, found := reflect.StructTag(tg).Lookup(key)
		g.Emit("C19.get", list(atom(key), atom(tg)), opt(found, atom(val)), "get")
		// String() of the result, and the round trip
		g.Emit("C19.string", c19out(r), atom(r.String()), "string-of-lookup")
		if !(r.Inline && r.Name != "") && c19clean(r.Name) {
			r2, _ := tags.LookupJSON(types.Member{Name: fname, Tags: `json:"` + r.String() + `"`})
			rc := []string{"roundtrip"}
			if r.Omit {
				rc = append(rc, "roundtrip-omit")
			}
			if r.Name == "-" && !r.Omitempty && !r.Inline {
				rc = append(rc, "roundtrip-dash-name")
			}
			g.Emit("C19.roundtrip!", list(atom(fname), atom(tg), c19out(r), atom(r.String()), c19out(r2)), boolS(r2 == r), rc...)
		}
		// String() of arbitrary records
		if i%4 == 0 {
			rr := tags.JSON{Name: g.Pick(c19Names), Omit: g.Chance(0.15), Inline: g.Chance(0.3), Omitempty: g.Chance(0.4)}
			g.Emit("C19.string", c19out(rr), atom(rr.String()), "string-of-record")
		}
		// model of encoding/json's rule against real marshalling (oracle model)
		if i%2 == 0 {
			v, _ := g.c19value()
			if c19clean(v) {
				if om, k, oe, ok := c19marshal(fname, v); ok {
					g.Emit("C19.jsonrule", list(atom(fname), atom(v)), list(boolS(om), atom(k), boolS(oe)), "jsonrule")
				}
			}
		}
	}
}
