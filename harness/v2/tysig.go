package main

import "k8s.io/gengo/v2/types"

func tyMkSig(ps, rs []*types.Type, variadic bool) *types.Signature {
	sig := &types.Signature{Variadic: variadic}
	for _, p := range ps {
		sig.Parameters = append(sig.Parameters, &types.ParamResult{Type: p})
	}
	for _, r := range rs {
		sig.Results = append(sig.Results, &types.ParamResult{Type: r})
	}
	return sig
}
