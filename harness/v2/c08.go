package main

import (
	"sort"

	gengo "k8s.io/gengo/v2"
)

func init() { register("C08", c08v2) }

func c08fnOut(m map[string][]gengo.Tag) string {
	ks := make([]string, 0, len(m))
	for k := range m {
		ks = append(ks, k)
	}
	sort.Strings(ks)
	var items []string
	for _, k := range ks {
		var ts []string
		for _, t := range m[k] {
			if t.Name != k {
				ts = append(ts, atom("NAME-MISMATCH:"+t.Name))
				continue
			}
			switch len(t.Args) {
			case 0:
				ts = append(ts, list(list(), atom(t.Value)))
			case 1:
				ts = append(ts, list(list(atom(t.Args[0])), atom(t.Value)))
			default:
				ts = append(ts, atom("MULTI-ARGS"))
			}
		}
		items = append(items, list(atom(k), list(ts...)))
	}
	return list(items...)
}

func c08fnCase(g *Gen, marker string, names, lines, cls []string) {
	in := list(atom(marker), atoms(names), atoms(lines))
	var m map[string][]gengo.Tag
	var err error
	if p, _ := catch(func() { m, err = gengo.ExtractFunctionStyleCommentTags(marker, names, lines) }); p {
		g.Emit("C08.fn", in, tag("panic"), append(cls, "PANIC")...)
	} else if err != nil {
		g.Emit("C08.fn", in, tag("err", c08errS(err)), append(cls, "fn-error")...)
	} else {
		g.Emit("C08.fn", in, tag("ok", c08fnOut(m)), cls...)
	}
}

func c08v2(g *Gen) {
	defer c08boolRepeated(g)
	validateUnicodeTables()
	// exhaustive: every argument text of length <= 4 over a 7-symbol alphabet, through the public API
	for _, w := range allStrings([]rune("a1(), é"), 4) {
		c08fnCase(g, "+", nil, []string{"+k(" + w}, []string{"v2", "exhaustive-args"})
	}
	n := g.N(2500, 100000)
	for i := 0; i < n; i++ {
		marker := g.Pick(c08Markers)
		lines, cls := g.c08lines(marker)
		cls = append(cls, "v2")
		var m map[string][]string
		if p, _ := catch(func() { m = gengo.ExtractCommentTags(marker, lines) }); p {
			g.Emit("C08.old", list(atom(marker), atoms(lines)), tag("panic"), cls...)
		} else {
			g.Emit("C08.old", list(atom(marker), atoms(lines)), c08oldOut(m), cls...)
		}
		var names []string
		if g.Chance(0.4) {
			k := 1 + g.R.Intn(2)
			for j := 0; j < k; j++ {
				names = append(names, g.Pick(c08Keys))
			}
			cls = append(cls, "tagnames")
		} else if g.Chance(0.4) {
			// "nil or empty": an empty, non-nil list of names selects every tag too
			names = make([]string, 0, 2)
			cls = append(cls, "tagnames-empty-not-nil")
		}
		c08fnCase(g, marker, names, lines, cls)
		if i%3 == 0 {
			key := g.Pick(c08Keys)
			def := g.Chance(0.5)
			var b bool
			var err error
			in := list(atom(marker), atom(key), boolS(def), atoms(lines))
			if p, _ := catch(func() { b, err = gengo.ExtractSingleBoolCommentTag(marker, key, def, lines) }); p {
				g.Emit("C08.bool2", in, tag("panic"), append(cls, "PANIC")...)
			} else if err != nil {
				g.Emit("C08.bool2", in, tag("err", c08errS(err)), append(cls, "bool-error")...)
			} else {
				g.Emit("C08.bool2", in, tag("ok", boolS(b)), cls...)
			}
		}
		if i%5 == 0 {
			name := g.Pick(c08Keys)
			var args []string
			for j := g.R.Intn(3); j > 0; j-- {
				args = append(args, g.Pick(c08Args))
			}
			g.Emit("C08.tagstring", list(atom(name), atoms(args)), atom(gengo.Tag{Name: name, Args: args}.String()), "v2", "tagstring")
		}
	}
}

// c08boolRepeated: one key several times; the helper answers for the FIRST value, boolean or not
func c08boolRepeated(g *Gen) {
	for _, marker := range []string{"+", "+k8s:"} {
		for _, firstV := range []string{"=blue", "", "=", "=TRUE", "=1", "=true", "=false"} {
			for _, second := range []string{"=true", "=false", "=blue"} {
				for _, def := range []bool{false, true} {
					lines := []string{marker + "flag" + firstV, marker + "other=true", "plain text", marker + "flag" + second}
					var b bool
					var err error
					in := list(atom(marker), atom("flag"), boolS(def), atoms(lines))
					cls := []string{"tagline", "v2", "bool-one-key-several-times"}
					if p, _ := catch(func() { b, err = gengo.ExtractSingleBoolCommentTag(marker, "flag", def, lines) }); p {
						g.Emit("C08.bool2", in, tag("panic"), append(cls, "PANIC")...)
					} else if err != nil {
						g.Emit("C08.bool2", in, tag("err", c08errS(err)), append(cls, "bool-error")...)
					} else {
						g.Emit("C08.bool2", in, tag("ok", boolS(b)), cls...)
					}
				}
			}
		}
	}
}
