// DUAL: harness/v1/c03.go is generated from this file by harness/sync.sh (import paths only).
package main

import (
	"fmt"
	"sort"
	"strings"

	"k8s.io/gengo/v2/namer"
	"k8s.io/gengo/v2/types"
)

func init() { register("C03", c03) }

var c03Pkgs = []string{"a", "b", "x/a", "x/b", "k8s.io/api/core/v1", "k8s.io/api/apps/v1", "y/v1", ""}
var c03Names = []string{"T", "U", "Pod", "Spec", "t", "List", "A1"}

type c03ent struct {
	t     *types.Type
	table string
}

func c03entry(nm namer.Namer, e c03ent) string {
	return list(atom(nm.Name(e.t)), atom(e.t.Name.Package), atom(e.t.Name.Name), atom(string(e.t.Kind)))
}

func c03(g *Gen) {
	n := g.N(150, 3000)
	runs := g.N(20, 60)
	for i := 0; i < n; i++ {
		u := types.Universe{}
		npk := 1 + g.R.Intn(5)
		pkgs := map[string]bool{}
		for len(pkgs) < npk {
			pkgs[g.Pick(c03Pkgs)] = true
		}
		var ents []c03ent
		used := map[string]bool{}
		sameNameInTables := false
		var pkgList []string
		for p := range pkgs {
			pkgList = append(pkgList, p)
		}
		sort.Strings(pkgList) // (ranging over the map would make the random stream depend on Go's map order)
		for _, p := range pkgList {
			k := g.R.Intn(5)
			if p == "" {
				// anonymous / builtin entries live in the "" package
				for _, b := range []string{"string", "int", "[]string", "map[string]int"}[:g.R.Intn(5)] {
					t := u.Type(types.Name{Name: b})
					t.Kind = types.Builtin
					ents = append(ents, c03ent{t, "types"})
				}
				continue
			}
			for j := 0; j < k; j++ {
				nm := g.Pick(c03Names)
				// a hand-built universe may hold one name in several of a package's tables
				kind := g.R.Intn(6)
				if kind > 3 {
					kind = 3
				}
				if used[fmt.Sprintf("%s.%s#%d", p, nm, kind)] {
					continue
				}
				used[fmt.Sprintf("%s.%s#%d", p, nm, kind)] = true
				if used[p+"."+nm] {
					sameNameInTables = true
				}
				used[p+"."+nm] = true
				name := types.Name{Package: p, Name: nm}
				switch kind {
				case 0:
					t := u.Function(name)
					t.Kind = types.DeclarationOf
					ents = append(ents, c03ent{t, "funcs"})
				case 1:
					t := u.Variable(name)
					t.Kind = types.DeclarationOf
					ents = append(ents, c03ent{t, "vars"})
				case 2:
					t := u.Constant(name)
					t.Kind = types.DeclarationOf
					ents = append(ents, c03ent{t, "consts"})
				default:
					t := u.Type(name)
					t.Kind = []types.Kind{types.Struct, types.Alias, types.Interface}[g.R.Intn(3)]
					ents = append(ents, c03ent{t, "types"})
				}
			}
		}
		pathDiffers := false
		if i%3 == 1 {
			// as for vendored packages: the universe's key is not the package's own Path
			for _, p := range pkgList {
				if pk, ok := u[p]; ok && p != "" {
					pk.Path = "ex.test/app/vendor/" + p
					pathDiffers = true
				}
			}
		}
		var mk func() namer.Namer
		var nmName string
		switch g.R.Intn(5) {
		case 0:
			mk, nmName = func() namer.Namer { return namer.NewRawNamer("", nil) }, "raw"
		case 1:
			mk, nmName = func() namer.Namer { return namer.NewPublicNamer(0) }, "public0"
		case 2:
			mk, nmName = func() namer.Namer { return namer.NewPublicNamer(1) }, "public1"
		case 3:
			mk, nmName = func() namer.Namer { return namer.NewPrivateNamer(0) }, "private0"
		default:
			mk, nmName = func() namer.Namer { return namer.NewPublicNamer(5, "k8s.io") }, "public5"
		}
		nm := mk()
		// input: packages sorted, each table sorted (canonical arrangement)
		byPkg := map[string]map[string][]string{}
		names := map[string]int{}
		for _, e := range ents {
			p := e.t.Name.Package
			if byPkg[p] == nil {
				byPkg[p] = map[string][]string{}
			}
			byPkg[p][e.table] = append(byPkg[p][e.table], c03entry(nm, e))
			names[nm.Name(e.t)]++
		}
		cls := []string{"universe", "namer-" + nmName}
		if sameNameInTables {
			cls = append(cls, "one-name-in-several-tables")
		}
		if pathDiffers {
			cls = append(cls, "package-path-differs-from-its-key")
		}
		for _, c := range names {
			if c > 1 {
				cls = append(cls, "name-ties")
				break
			}
		}
		var ps []string
		for p := range byPkg {
			ps = append(ps, p)
		}
		sort.Strings(ps)
		var pk []string
		for _, p := range ps {
			tb := func(k string) string { x := byPkg[p][k]; sort.Strings(x); return list(x...) }
			pk = append(pk, list(atom(p), tb("types"), tb("funcs"), tb("vars"), tb("consts")))
		}
		in := list(pk...)
		render := func(out []*types.Type, nm namer.Namer) string {
			var it []string
			for _, t := range out {
				it = append(it, list(atom(nm.Name(t)), atom(t.Name.Package), atom(t.Name.Name), atom(string(t.Kind))))
			}
			return list(it...)
		}
		first := ""
		same := true
		var diffs []string
		var firstResult []*types.Type
		for r := 0; r < runs; r++ {
			o := namer.Orderer{Namer: mk()}
			res := o.OrderUniverse(u)
			got := render(res, nm)
			if r == 0 {
				first, firstResult = got, res
			} else if got != first {
				same = false
				if len(diffs) < 2 {
					diffs = append(diffs, got)
				}
			}
		}
		g.Emit("C03.order", in, first, cls...)
		// the slice handed out first is the caller's (Context.Order keeps it): later orderings, of this or
		// of another universe, must not reach into it
		{
			other := types.Universe{}
			for _, n := range []string{"Zz", "Aa", "Mm"} {
				other.Type(types.Name{Package: "ex.test/other", Name: n}).Kind = types.Struct
			}
			for r := 0; r < 6; r++ {
				o1, o2 := namer.Orderer{Namer: mk()}, namer.Orderer{Namer: mk()}
				o1.OrderUniverse(other)
				o2.OrderTypes([]*types.Type{other.Type(types.Name{Package: "ex.test/other", Name: "Zz"}), other.Type(types.Name{Package: "ex.test/other", Name: "Aa"})})
			}
			kept := render(firstResult, nm)
			g.Emit("C03.kept!", list(in, atom(first), atom(kept)), boolS(kept == first), "earlier-result-kept")
		}
		g.Emit("C03.stable!", list(in, atom(fmt.Sprintf("%d runs of OrderUniverse", runs)), atom(strings.Join(diffs, " | "))), boolS(same), append(cls, "repeat-runs")...)
		// OrderTypes on a shuffled slice of the same entries
		if len(ents) > 0 {
			var tl []*types.Type
			var til []string
			for _, j := range g.R.Perm(len(ents)) {
				tl = append(tl, ents[j].t)
			}
			sorted := append([]c03ent{}, ents...)
			for _, e := range sorted {
				til = append(til, c03entry(nm, e))
			}
			sort.Strings(til)
			o := namer.Orderer{Namer: mk()}
			g.Emit("C03.ordertypes", list(til...), render(o.OrderTypes(tl), nm), append(cls, "order-types")...)
		}
	}
	// generator.NewContext on universes parsed from generated programs: Context.Order is the
	// canonical order under the naming system selected BY NAME; no order when the name is unknown
	for i := 0; i < g.N(12, 200); i++ {
		prog, _ := g.genProgram(false, 1+g.R.Intn(3), 1+g.R.Intn(2))
		mkSystems := func() namer.NameSystems {
			return namer.NameSystems{"public": namer.NewPublicNamer(1), "private": namer.NewPrivateNamer(0), "raw": namer.NewRawNamer("", nil)}
		}
		order := []string{"public", "private", "raw", "raw", "nosuch"}[i%5] // every fifth context: an order name that no naming system has
		ctx, err := c03context(g, i, prog, mkSystems(), order)
		if err != nil {
			panic(err)
		}
		if order == "nosuch" {
			g.Emit("C03.newcontext!", list(atom(order), num(len(ctx.Order))), boolS(len(ctx.Order) == 0), "newcontext", "newcontext-unknown-order-name")
			continue
		}
		nm := mkSystems()[order]
		byPkg := map[string]map[string][]string{}
		listed := map[*types.Type]bool{}
		add := func(table string, t *types.Type) {
			if listed[t] {
				return // one entry filed under two names (uint8 and byte, int32 and rune) is one entry
			}
			listed[t] = true
			p := t.Name.Package
			if byPkg[p] == nil {
				byPkg[p] = map[string][]string{}
			}
			byPkg[p][table] = append(byPkg[p][table], list(atom(nm.Name(t)), atom(t.Name.Package), atom(t.Name.Name), atom(string(t.Kind))))
		}
		total := 0
		_ = total
		for _, p := range ctx.Universe {
			for _, t := range p.Types {
				add("types", t)
				total++
			}
			for _, t := range p.Functions {
				add("funcs", t)
				total++
			}
			for _, t := range p.Variables {
				add("vars", t)
				total++
			}
			for _, t := range p.Constants {
				add("consts", t)
				total++
			}
		}
		var ps []string
		for p := range byPkg {
			ps = append(ps, p)
		}
		sort.Strings(ps)
		var pk []string
		for _, p := range ps {
			tb := func(k string) string { x := byPkg[p][k]; sort.Strings(x); return list(x...) }
			pk = append(pk, list(atom(p), tb("types"), tb("funcs"), tb("vars"), tb("consts")))
		}
		var it []string
		for _, t := range ctx.Order {
			it = append(it, list(atom(nm.Name(t)), atom(t.Name.Package), atom(t.Name.Name), atom(string(t.Kind))))
		}
		g.Emit("C03.order", list(pk...), list(it...), "universe", "namer-"+order, "newcontext", "parsed-universe")
		g.Emit("C03.newcontext!", list(atom(order), num(len(ctx.Order))), boolS(len(ctx.Order) == len(listed)), "newcontext")
		// every entry exactly once, also when the universe files it under two names
		ub := types.Universe{}
		for _, n := range []string{"uint8", "byte", "rune", "int32", "string"} {
			ub.Type(types.Name{Name: n})
		}
		ub.Type(types.Name{Package: "ex.test/p", Name: "T"}).Kind = types.Struct
		times := map[*types.Type]int{}
		for _, t := range (&namer.Orderer{Namer: namer.NewPublicNamer(0)}).OrderUniverse(ub) {
			times[t]++
		}
		var dup []string
		for t, k := range times {
			if k != 1 {
				dup = append(dup, fmt.Sprintf("%s listed %d times", t.Name, k))
			}
		}
		sort.Strings(dup)
		g.Emit("C03.once!", list(atom(strings.Join(dup, "; ")), num(len(times))), boolS(len(dup) == 0 && len(times) == 4), "entry-filed-under-two-names")
	}
}
