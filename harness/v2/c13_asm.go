// DUAL: harness/v1/c13_asm.go is generated from this file by harness/sync.sh (import paths only).
package main

import (
	"bytes"
	"os"
	"path/filepath"
	"strings"

	"k8s.io/gengo/v2/generator"
)

// c13assembleCases drives the real Go file type on disk: good files, unformattable content and
// uncreatable paths, several files per round so that "the other files are still processed" shows.
func c13assembleCases(g *Gen, dir string, assemble func(*generator.File, string) error, format func([]byte) ([]byte, error)) {
	bodies := []struct {
		body string
		cls  string
	}{
		{"func F() {}\n", "formattable"},
		{"func   G( ) { }\n\n\n\nvar x=1\n", "formattable"},
		{"func {\n", "unformattable"},
		{"type T struct {\n", "unformattable"},
		{"", "formattable"},
	}
	n := g.N(40, 400)
	for i := 0; i < n; i++ {
		b := bodies[g.R.Intn(len(bodies))]
		pkgName, header := g.Pick([]string{"p", "pkg1"}), g.Pick([]string{"", "// hdr\n\n", "//go:build !x\n\n// hdr\n\n"})
		withFmt, withVar := g.Chance(0.5), g.Chance(0.3)
		// a fresh File value per use (a file type is free to drain the buffers it is handed)
		mk := func() *generator.File {
			f := &generator.File{Name: "f.go", FileType: "go", PackageName: pkgName, Header: []byte(header), Imports: map[string]struct{}{}}
			if withFmt {
				f.Imports["fmt"] = struct{}{}
			}
			if withVar {
				f.Vars.WriteString("v = 1\n")
			}
			f.Body.WriteString(b.body)
			return f
		}
		var buf bytes.Buffer
		c13assembleText(&buf, mk())
		text := buf.String()
		formatted, ferr := format([]byte(text))
		path := filepath.Join(dir, "f.go")
		os.RemoveAll(path)
		createOK := true
		cls := []string{"assemble", b.cls}
		if g.Chance(0.25) {
			os.MkdirAll(path, 0755) // the path is a directory: os.Create fails
			createOK = false
			cls = append(cls, "uncreatable")
		}
		fo := list()
		if ferr == nil {
			fo = list(atom(string(formatted)))
		}
		// the same file is assembled again over what the first run left on disk: same report
		for round := 0; round < 3; round++ {
			err := assemble(mk(), path)
			ec := list()
			if err != nil {
				switch {
				case strings.Contains(err.Error(), "unable to format file"):
					ec = list(atom("format"))
				case strings.Contains(err.Error(), "is a directory"):
					ec = list(atom("create"))
				default:
					ec = list(tag("?unclassified?", atom(err.Error())))
				}
			}
			disk := list()
			if st, e := os.Stat(path); e == nil && !st.IsDir() {
				bs, _ := os.ReadFile(path)
				disk = list(atom(string(bs)))
			}
			g.Emit("C13.assemble", list(boolS(createOK), atom(text), fo), list(ec, disk), cls...)
			if round == 0 {
				cls = append(cls, "assembled-again-over-its-own-output")
			}
		}
		os.RemoveAll(path)
	}
}
