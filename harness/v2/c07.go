// DUAL: harness/v1/c07.go is generated from this file by harness/sync.sh (import paths only).
package main

import (
	"k8s.io/gengo/v2/generator"
	"k8s.io/gengo/v2/types"
)

func init() { register("C07", c07) }

const c07ver = 2

var c07Paths = []string{"a/go", "b/go", "go", "x/b", "ab", "a/b", "a/b/c", "a.b/c", "a-b/c", "ab/c",
	"k8s.io/api/core/v1", "k8s.io/apimachinery/pkg/apis/meta/v1", "v1", "x/v1", "c/2fa", "2fa", "x/y~z", "x/yz",
	"m/pkg", "p/_", "q/struct", "r/struct", "local/out", "other/out", "out", "t/a_b", "t/ab", "u/type", "net/http", "x/http",
	"w/b2", "b/2", "x/b+", "z/-"}
var c07Small = []string{"a/go", "b/go", "x/b", "ab", "a/b", "a.b", "x/v1", "v1", "c/2fa", "local/out", "q/out", "p/_"}
var c07Locals = []string{"", "local/out", "x/v1", "a/b", "go", "o/ab2", "q/ab3", "r/b2"}
var c07Cluster = []string{"x/b", "ab", "a/b", "a.b", "a-b", "a_b", "b", "y/b", "w/b2"}

func c07classes(local string, ops []string) []string {
	cls := []string{}
	seen := map[string]bool{}
	add := func(c string) {
		if !seen[c] {
			seen[c] = true
			cls = append(cls, c)
		}
	}
	leaf := func(p string) string {
		for i := len(p) - 1; i >= 0; i-- {
			if p[i] == '/' {
				return p[i+1:]
			}
		}
		return p
	}
	kw := map[string]bool{"go": true, "struct": true, "type": true}
	leaves := map[string]int{}
	for _, p := range ops {
		l := leaf(p)
		if kw[l] {
			add("keyword-leaf")
		}
		if l != "" && l[0] >= '0' && l[0] <= '9' {
			add("digit-leaf")
		}
		if l == "_" || l == "-" {
			add("punct-only-leaf")
		}
		for _, c := range l {
			if c == '~' || c == '+' {
				add("nonident-char")
			}
		}
		if p == local {
			add("local-added")
		}
		if local != "" && l == leaf(local) && p != local {
			add("local-leaf-shared")
		}
		leaves[l]++
	}
	for _, n := range leaves {
		if n > 1 {
			add("shared-leaf")
		}
	}
	return cls
}

func c07case(g *Gen, local string, ops []string, cls []string) {
	universe := []string{}
	seen := map[string]bool{}
	for _, p := range append(append([]string{}, ops...), local) {
		if !seen[p] {
			seen[p] = true
			universe = append(universe, p)
		}
	}
	in := list(num(c07ver), atom(local), atoms(ops))
	tr := generator.NewImportTrackerForPackage(local)
	var dumps []string
	for _, p := range ops {
		if pn, _ := catch(func() { tr.AddSymbol(types.Name{Package: p, Name: "T"}) }); pn {
			dumps = append(dumps, tag("panic"))
			cls = append(cls, "PANIC")
			break
		}
		var names, pathof []string
		for _, u := range universe {
			n := tr.LocalNameOf(u)
			names = append(names, atom(n))
			if n != "" {
				pth, ok := tr.PathOf(n)
				pathof = append(pathof, list(atom(n), opt(ok, atom(pth))))
			}
		}
		dumps = append(dumps, list(list(names...), list(pathof...), atoms(tr.ImportLines())))
	}
	g.Emit("C07.run", in, list(dumps...), append(cls, c07classes(local, ops)...)...)
}

func c07(g *Gen) {
	validateUnicodeTables()
	// exhaustive: all sequences of length <= 3 over a 12-path alphabet, two output packages
	for _, local := range []string{"", "local/out"} {
		for _, a := range c07Small {
			c07case(g, local, []string{a}, []string{"exhaustive"})
			for _, b := range c07Small {
				c07case(g, local, []string{a, b}, []string{"exhaustive"})
				for _, c := range c07Small {
					c07case(g, local, []string{a, b, c}, []string{"exhaustive"})
				}
			}
		}
	}
	n := g.N(1500, 40000)
	for i := 0; i < n; i++ {
		local := g.Pick(c07Locals)
		k := 2 + g.R.Intn(10)
		ops := make([]string, k)
		for j := range ops {
			ops[j] = g.Pick(c07Paths)
		}
		c07case(g, local, ops, []string{"random"})
	}
	// the numbered fallback against output packages whose leaf looks like a numbered name
	for i := 0; i < n/3; i++ {
		local := g.Pick([]string{"o/ab2", "q/ab3", "r/b2", "o/ab2"})
		k := 3 + g.R.Intn(5)
		ops := make([]string, k)
		for j := range ops {
			ops[j] = g.Pick(c07Cluster)
		}
		c07case(g, local, ops, []string{"numbered-vs-local-leaf"})
	}
}
