// DUAL: harness/v1/tygen.go is generated from this file by harness/sync.sh (import paths only).
// Hand-built types.Type graphs for the namer properties (C14, C02): a tree description, its
// *types.Type and its s-expression.
package main

import (
	"sort"

	"k8s.io/gengo/v2/types"
)

type TNode struct {
	Kind     string // named builtin map slice array pointer chan struct interface func
	Pkg, Nm  string
	Len      int
	Kids     []*TNode // map: key, elem; others: elem / members / params
	Rs       []*TNode // func results
	MNames   []string // struct member names / interface method names
	Variadic bool
}

var tyBuiltins = []string{"string", "int", "int64", "int32", "bool", "byte", "float64", "uint16", "uintptr"}

func tyBuiltin(n string) *types.Type {
	for _, b := range []*types.Type{types.String, types.Int64, types.Int32, types.Int16, types.Int, types.Uint64, types.Uint32,
		types.Uint16, types.Uint, types.Uintptr, types.Float64, types.Float32, types.Float, types.Bool, types.Byte} {
		if b.Name.Name == n {
			return b
		}
	}
	return &types.Type{Name: types.Name{Name: n}, Kind: types.Builtin}
}

// Build converts a description to a *types.Type; named types are memoised so that one named
// type is one object.
var tyIfaceRound int // counts built interface types

func (n *TNode) Build(named map[string]*types.Type) *types.Type {
	kid := func(i int) *types.Type { return n.Kids[i].Build(named) }
	switch n.Kind {
	case "named":
		k := n.Pkg + "." + n.Nm
		if t, ok := named[k]; ok {
			return t
		}
		t := &types.Type{Name: types.Name{Package: n.Pkg, Name: n.Nm}, Kind: types.Struct}
		named[k] = t
		return t
	case "builtin":
		return tyBuiltin(n.Nm)
	case "map":
		return &types.Type{Name: types.Name{Name: "map"}, Kind: types.Map, Key: kid(0), Elem: kid(1)}
	case "slice":
		return &types.Type{Name: types.Name{Name: "slice"}, Kind: types.Slice, Elem: kid(0)}
	case "array":
		return &types.Type{Name: types.Name{Name: "array"}, Kind: types.Array, Elem: kid(0), Len: int64(n.Len)}
	case "pointer":
		return &types.Type{Name: types.Name{Name: "ptr"}, Kind: types.Pointer, Elem: kid(0)}
	case "chan":
		return &types.Type{Name: types.Name{Name: "chan"}, Kind: types.Chan, Elem: kid(0)}
	case "struct":
		t := &types.Type{Name: types.Name{Name: "struct"}, Kind: types.Struct}
		for i := range n.Kids {
			t.Members = append(t.Members, types.Member{Name: n.MNames[i], Type: kid(i)})
		}
		return t
	case "interface":
		t := &types.Type{Name: types.Name{Name: "interface"}, Kind: types.Interface, Methods: map[string]*types.Type{}}
		tyIfaceRound++
		for i := range n.Kids {
			t.Methods[n.MNames[i]] = kid(i)
			// the method's name is the map key; its function TYPE is named as hand-written fixtures name it (like
			// the method) or as the parsers name it (the function type's spelling), alternately
			t.Methods[n.MNames[i]].Name.Name = n.MNames[i]
			if tyIfaceRound%2 == 0 {
				t.Methods[n.MNames[i]].Name.Name = "func (interface)." + n.MNames[i] + "(int) string"
			}
		}
		return t
	case "func":
		var ps, rs []*types.Type
		for i := range n.Kids {
			ps = append(ps, kid(i))
		}
		for _, r := range n.Rs {
			rs = append(rs, r.Build(named))
		}
		return &types.Type{Name: types.Name{Name: "func"}, Kind: types.Func, Signature: tyMkSig(ps, rs, n.Variadic)}
	}
	return &types.Type{Name: types.Name{Name: n.Nm}, Kind: types.Kind(n.Nm)}
}

// Sexp: interface methods are listed sorted by name (Go keeps them in a map).
func (n *TNode) Sexp() string {
	switch n.Kind {
	case "named":
		return tag("named", atom(n.Pkg), atom(n.Nm))
	case "builtin":
		return tag("builtin", atom(n.Nm))
	case "map":
		return tag("map", n.Kids[0].Sexp(), n.Kids[1].Sexp())
	case "slice", "pointer", "chan":
		return tag(n.Kind, n.Kids[0].Sexp())
	case "array":
		return tag("array", num(n.Len), n.Kids[0].Sexp())
	case "struct":
		var ms []string
		for i, k := range n.Kids {
			ms = append(ms, list(atom(n.MNames[i]), boolS(false), atom(""), k.Sexp()))
		}
		return tag("struct", ms...)
	case "interface":
		idx := make([]int, len(n.Kids))
		for i := range idx {
			idx[i] = i
		}
		sort.Slice(idx, func(a, b int) bool { return n.MNames[idx[a]] < n.MNames[idx[b]] })
		var ms []string
		for _, i := range idx {
			ms = append(ms, list(atom(n.MNames[i]), n.Kids[i].Sexp()))
		}
		return tag("interface", ms...)
	case "func":
		var ps, rs []string
		for _, k := range n.Kids {
			ps = append(ps, k.Sexp())
		}
		for _, k := range n.Rs {
			rs = append(rs, k.Sexp())
		}
		return tag("func", list(ps...), list(rs...), boolS(n.Variadic))
	}
	return tag("other", atom(n.Nm))
}

var tyPkgs = []string{"k8s.io/api/core/v1", "k8s.io/apimachinery/pkg/apis/meta/v1", "a/b", "x/b", "ex.test/my-pkg/proto", "ex.test/a.b/c_d", "single", "a/go", "pkg/server/frobbing/proto", "local/out", "other/out",
	"k8s.io/api/core-v1", "ex.test/pro.to", "ex.test/pro.to/sub"}
var tyNames = []string{"Foo", "Bar", "foo", "T", "Pod", "ObjectMeta", "x1", "Type_A", "S"}

type TyOpts struct {
	Pkgs       []string // nil: tyPkgs
	Depth      int
	Interfaces bool // interface literals with methods
	Funcs      bool
	Others     bool // leaves of a kind the namers have no rule for ("unnameable_<Kind>")
}

func (g *Gen) tyGen(o TyOpts, depth int) *TNode {
	if depth >= o.Depth || g.Chance(0.3) {
		if o.Others && g.Chance(0.12) {
			return &TNode{Kind: "other", Nm: g.Pick([]string{"Unsupported", "DeclarationOf", "Unknown", "TypeParam"})}
		}
		if g.Chance(0.45) {
			return &TNode{Kind: "builtin", Nm: g.Pick(tyBuiltins)}
		}
		pk := tyPkgs
		if o.Pkgs != nil {
			pk = o.Pkgs
		}
		return &TNode{Kind: "named", Pkg: g.Pick(pk), Nm: g.Pick(tyNames)}
	}
	sub := func() *TNode { return g.tyGen(o, depth+1) }
	for {
		switch g.R.Intn(8) {
		case 0:
			return &TNode{Kind: "map", Kids: []*TNode{sub(), sub()}}
		case 1:
			return &TNode{Kind: "slice", Kids: []*TNode{sub()}}
		case 2:
			return &TNode{Kind: "array", Len: []int{0, 1, 2, 12, 16, 21, 100, 121}[g.R.Intn(8)], Kids: []*TNode{sub()}}
		case 3:
			return &TNode{Kind: "pointer", Kids: []*TNode{sub()}}
		case 4:
			return &TNode{Kind: "chan", Kids: []*TNode{sub()}}
		case 5:
			n := &TNode{Kind: "struct"}
			// field names in declaration order, which is not alphabetical order
			names := []string{"Zeta", "Alpha", "mid", "F10", "F2", "Beta"}
			off := g.R.Intn(len(names))
			for i, k := 0, g.R.Intn(4); i < k; i++ {
				n.Kids = append(n.Kids, sub())
				n.MNames = append(n.MNames, names[(off+i)%len(names)])
			}
			return n
		case 6:
			if !o.Interfaces {
				continue
			}
			n := &TNode{Kind: "interface"}
			perm := g.R.Perm(4)
			for i, k := 0, g.R.Intn(4); i < k; i++ {
				n.Kids = append(n.Kids, &TNode{Kind: "func"})
				n.MNames = append(n.MNames, []string{"Alpha", "Beta", "Gamma", "Delta"}[perm[i]])
			}
			return n
		case 7:
			if !o.Funcs {
				continue
			}
			n := &TNode{Kind: "func"}
			for i, k := 0, g.R.Intn(3); i < k; i++ {
				n.Kids = append(n.Kids, sub())
			}
			for i, k := 0, g.R.Intn(3); i < k; i++ {
				n.Rs = append(n.Rs, sub())
			}
			return n
		}
	}
}

// tySubterms lists n and all its descendants.
func tySubterms(n *TNode, acc []*TNode) []*TNode {
	acc = append(acc, n)
	for _, k := range n.Kids {
		acc = tySubterms(k, acc)
	}
	for _, k := range n.Rs {
		acc = tySubterms(k, acc)
	}
	return acc
}
