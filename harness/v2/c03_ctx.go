package main

import (
	"fmt"
	"os"
	"path/filepath"

	"golang.org/x/tools/go/packages"
	"k8s.io/gengo/v2/generator"
	"k8s.io/gengo/v2/namer"
	"k8s.io/gengo/v2/parser"
)

// c03context loads prog with the real loader and builds a generator.Context through NewContext.
func c03context(g *Gen, i int, prog []GenPkg, systems namer.NameSystems, order string) (*generator.Context, error) {
	dir := filepath.Join(os.Getenv("VERIF_WORK"), fmt.Sprintf("c03m%d", i))
	defer os.RemoveAll(dir)
	writeModule(dir, prog)
	var pats []string
	for _, gp := range prog {
		if gp.Requested {
			pats = append(pats, gp.Path)
		}
	}
	p := parser.New()
	if err := p.LoadPackagesWithConfigForTesting(&packages.Config{Dir: dir, Env: append(os.Environ(), "GOFLAGS=-mod=mod", "GOWORK=off")}, pats...); err != nil {
		return nil, err
	}
	return generator.NewContext(p, systems, order)
}
