package main

import (
	"bytes"
	"io"
	"os"
	"path/filepath"

	gengo "k8s.io/gengo/v2"
	"k8s.io/gengo/v2/generator"
)

func c04RunTarget(ctx *generator.Context, t *recTarget, base, realDir string) error {
	saved := t.dir
	t.dir = realDir
	defer func() { t.dir = saved }()
	return ctx.ExecuteTarget(t)
}

func c04RunTargets(ctx *generator.Context, ts []*recTarget, base string) error {
	var tl []generator.Target
	var saved []string
	for _, t := range ts {
		saved = append(saved, t.dir)
		if t.dir != "" {
			t.dir = filepath.Join(base, t.dir)
		}
		tl = append(tl, t)
	}
	defer func() {
		for i, t := range ts {
			t.dir = saved[i]
		}
	}()
	return ctx.ExecuteTargets(tl)
}

func c13assemble(g *Gen) {
	work := os.Getenv("VERIF_WORK")
	dir := filepath.Join(work, "c13asm")
	os.MkdirAll(dir, 0755)
	defer os.RemoveAll(dir)
	ft := generator.NewGoFile()
	c13assembleCases(g, dir, func(f *generator.File, p string) error { return ft.AssembleFile(f, p) }, func(src []byte) ([]byte, error) { return generator.ImportsWrapper(src) })
}

func c13assembleText(w *bytes.Buffer, f *generator.File) { generator.AssembleGoFile(w, f) }

func c15Dup(s *generator.SnippetWriter, w io.Writer) *generator.SnippetWriter { return s.Dup(w) }
func c15Append(s *generator.SnippetWriter, r io.Reader) error                 { return s.Append(r) }
func c15Merge(s *generator.SnippetWriter, r io.Reader, o *generator.SnippetWriter) error {
	return s.Merge(r, o)
}

func c09boilerplate(path, buildTag, genBy string) ([]byte, error) {
	return gengo.GoBoilerplate(path, buildTag, genBy)
}

func c09fileType() *generator.DefaultFileType { return generator.NewGoFile() }

// c13mergedInit writes text through a snippet writer after merging a side writer (Dup) whose template
// failed; returns what the writer reports at the end.
func c13mergedInit(c *generator.Context, w io.Writer, text string) error {
	sw := generator.NewSnippetWriter(w, c, "$", "$")
	var side bytes.Buffer
	sub := sw.Dup(&side)
	sub.Do("// kind: $.NoSuchField$", struct{}{})
	sw.Merge(&side, sub)
	sw.Do(text, nil)
	return sw.Error()
}

// c09RunReal: one run of the library's own target type (SimpleTarget) with the given header slice
// (which may have spare capacity), package documentation and generators
func c09RunReal(ctx *generator.Context, name, path, base string, header, doc []byte, gens []generator.Generator) error {
	return ctx.ExecuteTarget(&generator.SimpleTarget{PkgName: name, PkgPath: path, PkgDir: filepath.Join(base, name), HeaderComment: header, PkgDocComment: doc,
		GeneratorsFunc: func(*generator.Context) []generator.Generator { return gens }})
}
