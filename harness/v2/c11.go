package main

import (
	"fmt"
	"os"
	"path/filepath"
	"reflect"
	"sort"
	"strings"

	"golang.org/x/tools/go/packages"
	"k8s.io/gengo/v2/parser"
	"k8s.io/gengo/v2/types"
)

func init() { register("C11", c11) }

// closure of the request set under imports
func c11reach(prog []GenPkg, req map[string]bool) map[string]bool {
	byPath := map[string]GenPkg{}
	for _, gp := range prog {
		byPath[gp.Path] = gp
	}
	seen := map[string]bool{}
	var visit func(p string)
	visit = func(p string) {
		if seen[p] {
			return
		}
		seen[p] = true
		for _, i := range byPath[p].Imports {
			visit(i)
		}
	}
	for p := range req {
		visit(p)
	}
	return seen
}

// c11history loads the request groups one after the other and returns the universe dump.
func c11history(dir string, groups [][]string, earlyUniverse bool) (string, []string, []string, error) {
	var problems []string
	cfg := &packages.Config{Dir: dir, Env: append(os.Environ(), "GOFLAGS=-mod=mod", "GOWORK=off")}
	p := parser.New()
	var u types.Universe
	var err error
	held := map[types.Name]*types.Type{}
	heldDump := map[types.Name]string{}
	for gi, grp := range groups {
		if gi == 0 || !earlyUniverse {
			if err = p.LoadPackagesWithConfigForTesting(cfg, grp...); err != nil {
				return "", nil, nil, err
			}
			if gi == 0 && earlyUniverse {
				if u, err = p.NewUniverse(); err != nil {
					return "", nil, nil, err
				}
			}
		} else {
			// remember every object handed out so far
			for _, pk := range u {
				for k, t := range pk.Types {
					nm := types.Name{Package: pk.Path, Name: k}
					held[nm] = t
					if t.Kind != types.Unknown {
						heldDump[nm] = dumpEntry(k, t)
					}
				}
			}
			if _, err = p.LoadPackagesTo(&u, grp...); err != nil {
				return "", nil, nil, err
			}
			for nm, t := range held {
				if u.Type(nm) != t {
					problems = append(problems, "object for "+nm.String()+" was replaced by an incremental load")
				}
				if d, ok := heldDump[nm]; ok && dumpEntry(nm.Name, t) != d {
					problems = append(problems, "completed entry "+nm.String()+" changed by an incremental load")
				}
			}
		}
	}
	if !earlyUniverse {
		if u, err = p.NewUniverse(); err != nil {
			return "", nil, nil, err
		}
	}
	reqSet := map[string]bool{}
	for _, r := range p.UserRequestedPackages() {
		reqSet[r] = true
	}
	c11lastDigest = commentDigest(u, reqSet)
	return dumpUniverse(u), p.UserRequestedPackages(), problems, nil
}

func c11(g *Gen) {
	work := os.Getenv("VERIF_WORK")
	cwd, _ := os.Getwd()
	defer os.Chdir(cwd)
	os.Setenv("GOFLAGS", "-mod=mod")
	os.Setenv("GOWORK", "off")
	n := g.N(40, 800)
	nh := g.N(5, 24)
	for i := 0; i < n; i++ {
		if i%4 == 1 {
			cwdPre, _ := os.Getwd()
			prelookupCase(g, i, 1+g.R.Intn(3), "C11")
			os.Chdir(cwdPre)
		}
		npk := 3 + g.R.Intn(4)
		prog, cls := g.genProgram(true, npk, 1+g.R.Intn(2))
		req := map[string]bool{}
		for _, gp := range prog {
			if g.Chance(0.5) {
				req[gp.Path] = true
			}
		}
		if len(req) == 0 {
			req[prog[len(prog)-1].Path] = true
		}
		reach := c11reach(prog, req)
		var sub []GenPkg
		for _, gp := range prog {
			if reach[gp.Path] {
				gp.Requested = req[gp.Path]
				sub = append(sub, gp)
			}
		}
		chk, err := typeCheck(prog)
		if err != nil {
			panic(err)
		}
		// serialise only what the loader is handed: requested packages and their dependencies
		chkSub := &checked{fset: chk.fset, files: chk.files}
		for _, pk := range chk.pkgs {
			if reach[pk.Path()] {
				chkSub.pkgs = append(chkSub.pkgs, pk)
			}
		}
		in, _ := chkSub.serialise(2, sub)
		dir := filepath.Join(work, fmt.Sprintf("c11m%d", i))
		progC := append([]GenPkg{}, prog...)
		for k := range progC {
			progC[k].Src = pgWithComments(progC[k].Src) // a doc comment above every declaration, field and method
		}
		writeModule(dir, progC)
		for _, gp := range progC {
			// a doc.go with package-wide tags: they are the package's comments whatever the history
			d := filepath.Join(dir, strings.TrimPrefix(gp.Path, pgModule+"/"))
			os.WriteFile(filepath.Join(d, "doc.go"), []byte("// +k8s:deepcopy-gen=package\n// +groupName="+gp.Name+".example.io\n\n// Package "+gp.Name+" is documented in its doc.go.\npackage "+gp.Name+"\n"), 0644)
		}
		os.Chdir(dir) // LoadPackagesTo has no config: it loads relative to the working directory
		var reqL []string
		for p := range req {
			reqL = append(reqL, p)
		}
		sort.Strings(reqL)
		depFirst := false
		for _, gp := range sub {
			if !gp.Requested {
				depFirst = true
			}
		}
		if depFirst {
			cls = append(cls, "dependency-not-requested")
		}
		first := ""
		firstDigest := ""
		var problems []string
		for h := 0; h < nh; h++ {
			order := append([]string{}, reqL...)
			g.R.Shuffle(len(order), func(a, b int) { order[a], order[b] = order[b], order[a] })
			var groups [][]string
			for len(order) > 0 {
				k := 1 + g.R.Intn(len(order))
				groups = append(groups, order[:k])
				order = order[k:]
			}
			early := g.Chance(0.6)
			hc := []string{}
			if len(groups) > 1 {
				hc = append(hc, "split-load")
				if early {
					hc = append(hc, "incremental-load")
				}
			}
			dump, inputs, probs, err := c11history(dir, groups, early)
			if err != nil {
				problems = append(problems, fmt.Sprintf("history %v failed: %v", groups, err))
				continue
			}
			problems = append(problems, probs...)
			if !reflect.DeepEqual(inputs, reqL) {
				problems = append(problems, fmt.Sprintf("UserRequestedPackages %v, requested %v", inputs, reqL))
			}
			if h == 0 {
				firstDigest = c11lastDigest
				if !strings.Contains(firstDigest, "doc ") {
					problems = append(problems, "no comment at all was delivered for the requested packages")
				}
				if strings.Contains(firstDigest, "REQUESTED PACKAGE WITHOUT DIRECTORY") {
					problems = append(problems, "a requested package has no directory: "+firstDigest[strings.Index(firstDigest, "REQUESTED PACKAGE WITHOUT DIRECTORY"):][:80])
				}
			} else if c11lastDigest != firstDigest {
				problems = append(problems, fmt.Sprintf("history %v (early universe %v) delivers other comments for the requested packages than the first history", groups, early))
			}
			if h == 0 {
				first = dump
				g.Emit("C11.universe", in, dump, append(append(cls, hc...), "universe")...)
				g.Emit("C11.wellformed", in, boolS(true), "wellformed") // the shape hypothesis of the canonical-identity theorems
			} else {
				if dump != first {
					problems = append(problems, fmt.Sprintf("history %v (early universe %v) gives a different universe", groups, early))
				}
				cls = append(cls, hc...)
			}
		}
		g.Emit("C11.histories!", list(in, atom(strings.Join(problems, "; "))), boolS(len(problems) == 0), append(cls, "histories")...)
		// a requested package that is missing / does not parse / has no Go files is an error
		if i%4 == 0 {
			var eprob []string
			os.MkdirAll(filepath.Join(dir, "broken"), 0755)
			os.WriteFile(filepath.Join(dir, "broken", "file.go"), []byte("package broken\nTHIS DOES NOT PARSE\n"), 0644)
			os.MkdirAll(filepath.Join(dir, "empty"), 0755)
			for _, bad := range []string{"ex.test/missing", "ex.test/broken", "ex.test/empty"} {
				p := parser.New()
				err := p.LoadPackagesWithConfigForTesting(&packages.Config{Dir: dir, Env: append(os.Environ(), "GOFLAGS=-mod=mod", "GOWORK=off")}, reqL[0], bad)
				if err == nil {
					if _, err2 := p.NewUniverse(); err2 == nil {
						eprob = append(eprob, "requesting "+bad+" gave no error")
					}
				}
			}
			// a package that does not parse, first seen as a dependency, requested later: some load must fail
			os.MkdirAll(filepath.Join(dir, "brokendep"), 0755)
			os.WriteFile(filepath.Join(dir, "brokendep", "file.go"), []byte("package brokendep\n\ntype T struct{ A int }\n\ntype U struct {\n\tB int\n\ntype W struct{ C int }\n"), 0644)
			os.MkdirAll(filepath.Join(dir, "usesbroken"), 0755)
			os.WriteFile(filepath.Join(dir, "usesbroken", "file.go"), []byte("package usesbroken\n\nimport \"ex.test/brokendep\"\n\ntype H struct{ X brokendep.T }\n"), 0644)
			{
				// requested twice: the second, identical request reports the error again, and nothing of
				// the two packages is handed out
				p := parser.New()
				cfg := &packages.Config{Dir: dir, Env: append(os.Environ(), "GOFLAGS=-mod=mod", "GOWORK=off")}
				err1 := p.LoadPackagesWithConfigForTesting(cfg, reqL[0])
				err2 := p.LoadPackagesWithConfigForTesting(cfg, "ex.test/usesbroken")
				err3 := p.LoadPackagesWithConfigForTesting(cfg, "ex.test/usesbroken")
				if err1 == nil && err2 != nil && err3 == nil {
					eprob = append(eprob, "ex.test/usesbroken imports a package that does not parse: the first request reports the error, the second identical request reports none")
					if u, err := p.NewUniverse(); err == nil {
						for _, bad := range []string{"ex.test/usesbroken", "ex.test/brokendep"} {
							if pk, ok := u[bad]; ok && len(pk.Types) > 0 {
								eprob = append(eprob, fmt.Sprintf("... and the universe holds %d type(s) of %s", len(pk.Types), bad))
							}
						}
					}
				}
			}
			{
				p := parser.New()
				err := p.LoadPackagesWithConfigForTesting(&packages.Config{Dir: dir, Env: append(os.Environ(), "GOFLAGS=-mod=mod", "GOWORK=off")}, "ex.test/usesbroken")
				if err == nil {
					if u, err2 := p.NewUniverse(); err2 == nil {
						if _, err3 := p.LoadPackagesTo(&u, "ex.test/brokendep"); err3 == nil {
							eprob = append(eprob, "ex.test/brokendep does not parse; loaded as a dependency and requested afterwards, no load reported an error")
						}
					}
				}
			}
			// a package whose first file parses and whose second does not: every request reports the error
			os.MkdirAll(filepath.Join(dir, "half"), 0755)
			os.WriteFile(filepath.Join(dir, "half", "a.go"), []byte("package half\n\ntype A struct{ X int }\n"), 0644)
			os.WriteFile(filepath.Join(dir, "half", "b.go"), []byte("package half\n\ntype B struct {\n"), 0644)
			{
				p := parser.New()
				cfg := &packages.Config{Dir: dir, Env: append(os.Environ(), "GOFLAGS=-mod=mod", "GOWORK=off")}
				if err := p.LoadPackagesWithConfigForTesting(cfg, "ex.test/half"); err == nil {
					eprob = append(eprob, "requesting a package whose second file does not parse gave no error")
				}
				if err := p.LoadPackagesWithConfigForTesting(cfg, "ex.test/half"); err == nil {
					eprob = append(eprob, "requesting it a second time gave no error")
				}
			}
			g.Emit("C11.errors!", list(atom(strings.Join(eprob, "; "))), boolS(len(eprob) == 0), "bad-requests", "broken-dependency-requested-later", "half-parsable-package-requested-again", "importer-of-broken-package-requested-twice")
		}
		os.Chdir(cwd)
		os.RemoveAll(dir)
	}
}
