(* Text as lists of code points, and the Go `strings` operations the models use,
   each with a characterising lemma so that statements using them do not merely
   restate the model. *)
From Coq Require Export String Ascii.
From Coq Require Export List Bool Arith NArith ZArith Lia.
Export ListNotations.
Close Scope string_scope.

Definition str := list N.

Definition s (x : string) : str := map N_of_ascii (list_ascii_of_string x).

Definition str_eqb (a b : str) : bool := if list_eq_dec N.eq_dec a b then true else false.
Lemma str_eqb_spec a b : reflect (a = b) (str_eqb a b).
Proof. unfold str_eqb. destruct (list_eq_dec N.eq_dec a b); constructor; auto. Qed.
Lemma str_eqb_refl a : str_eqb a a = true.
Proof. destruct (str_eqb_spec a a); congruence. Qed.
Lemma str_eqb_eq a b : str_eqb a b = true <-> a = b.
Proof. destruct (str_eqb_spec a b); split; congruence. Qed.
Lemma str_eqb_neq a b : str_eqb a b = false <-> a <> b.
Proof. destruct (str_eqb_spec a b); split; congruence. Qed.

Lemma str_eqb_sym a b : str_eqb a b = str_eqb b a.
Proof. destruct (str_eqb_spec a b), (str_eqb_spec b a); congruence. Qed.

Definition mem_str (x : str) (l : list str) : bool := existsb (str_eqb x) l.
Lemma mem_str_In x l : mem_str x l = true <-> In x l.
Proof.
  unfold mem_str. rewrite existsb_exists. split.
  - intros [y [H1 H2]]. apply str_eqb_eq in H2. subst; auto.
  - intros H. exists x. split; auto. apply str_eqb_refl.
Qed.

(* strings.HasPrefix *)
Fixpoint has_prefix (p l : str) : bool :=
  match p, l with
  | [], _ => true
  | a :: p', b :: l' => N.eqb a b && has_prefix p' l'
  | _, _ => false
  end.

Lemma has_prefix_spec p l : has_prefix p l = true <-> exists r, l = p ++ r.
Proof.
  revert l. induction p as [|a p IH]; intros l; simpl.
  - split; eauto.
  - destruct l as [|b l].
    + split; [discriminate|]. intros [r H]. discriminate.
    + rewrite andb_true_iff, N.eqb_eq, IH. split.
      * intros [-> [r ->]]. eauto.
      * intros [r H]. inversion H; subst. eauto.
Qed.

Lemma has_prefix_skipn p l : has_prefix p l = true -> l = p ++ skipn (length p) l.
Proof.
  intros H. apply has_prefix_spec in H. destruct H as [r ->].
  rewrite skipn_app, skipn_all, Nat.sub_diag. reflexivity.
Qed.

Lemma has_prefix_length p l : has_prefix p l = true -> length p <= length l.
Proof. intros H. apply has_prefix_spec in H. destruct H as [r ->]. rewrite app_length. lia. Qed.

Definition has_suffix (p l : str) : bool := has_prefix (rev p) (rev l).
Lemma has_suffix_spec p l : has_suffix p l = true <-> exists r, l = r ++ p.
Proof.
  unfold has_suffix. rewrite has_prefix_spec. split; intros [r H].
  - exists (rev r). rewrite <- (rev_involutive l), H, rev_app_distr, rev_involutive. reflexivity.
  - exists (rev r). rewrite H, rev_app_distr. reflexivity.
Qed.

(* strings.SplitN(s, sep, 2) for a one-rune separator: (before, Some after) or (s, None) *)
Fixpoint split_first (c : N) (l : str) : str * option str :=
  match l with
  | [] => ([], None)
  | x :: l' => if N.eqb x c then ([], Some l')
               else let (a, b) := split_first c l' in (x :: a, b)
  end.

Lemma split_first_some c l a b :
  split_first c l = (a, Some b) <-> l = a ++ c :: b /\ ~ In c a.
Proof.
  revert a. induction l as [|x l IH]; intros a; simpl.
  - split; [discriminate|]. intros [H _]. destruct a; discriminate.
  - destruct (N.eqb_spec x c) as [->|Hne].
    + split.
      * intros H; inversion H; subst. simpl; auto.
      * intros [H Hn]. destruct a as [|y a]; simpl in *.
        -- inversion H; subst; auto.
        -- inversion H; subst. exfalso; auto.
    + destruct (split_first c l) as [a' b'] eqn:Hs. split.
      * intros H; inversion H; subst. destruct (proj1 (IH a') eq_refl) as [-> Hn].
        split; auto. simpl. intros [?|?]; auto.
      * intros [H Hn]. destruct a as [|y a]; simpl in *.
        -- inversion H; congruence.
        -- inversion H; subst. assert (Hx : (a', b') = (a, Some b)).
           { apply IH. split; auto. }
           inversion Hx; subst; auto.
Qed.

Lemma split_first_none c l a :
  split_first c l = (a, None) <-> a = l /\ ~ In c l.
Proof.
  revert a. induction l as [|x l IH]; intros a; simpl.
  - split; [intros H; inversion H; auto|intros [-> _]; auto].
  - destruct (N.eqb_spec x c) as [->|Hne].
    + split; [discriminate|]. intros [_ H]. exfalso; auto.
    + destruct (split_first c l) as [a' b'] eqn:Hs. split.
      * intros H; inversion H; subst. destruct (proj1 (IH a') eq_refl) as [-> Hn].
        split; auto. intros [?|?]; auto.
      * intros [-> Hn]. destruct b' as [b'|].
        -- exfalso. apply Hn. right.
           destruct (proj1 (split_first_some c l a' b') Hs) as [-> _].
           apply in_or_app; right; left; auto.
        -- destruct (proj1 (IH a') eq_refl) as [-> _]. reflexivity.
Qed.

(* strings.Split(s, sep) for a one-rune separator (never empty result) *)
Fixpoint split_acc (c : N) (acc : str) (l : str) : list str :=
  match l with
  | [] => [rev acc]
  | x :: l' => if N.eqb x c then rev acc :: split_acc c [] l' else split_acc c (x :: acc) l'
  end.
Definition split_on (c : N) (l : str) : list str := split_acc c [] l.

Fixpoint join (sep : str) (l : list str) : str :=
  match l with
  | [] => []
  | [x] => x
  | x :: l' => x ++ sep ++ join sep l'
  end.

Lemma split_acc_join c : forall l acc, join [c] (split_acc c acc l) = rev acc ++ l.
Proof.
  induction l as [|x l IH]; intros acc; simpl.
  - rewrite app_nil_r; auto.
  - destruct (N.eqb_spec x c) as [->|Hne].
    + specialize (IH []). simpl in IH.
      destruct (split_acc c [] l) eqn:Hs.
      * destruct l; simpl in Hs; [discriminate|]. destruct (N.eqb n c); discriminate.
      * simpl. simpl in IH. rewrite IH. reflexivity.
    + rewrite IH. simpl. rewrite <- app_assoc. reflexivity.
Qed.
Lemma split_on_join c l : join [c] (split_on c l) = l.
Proof. unfold split_on. rewrite split_acc_join. reflexivity. Qed.

Lemma split_acc_no_sep c : forall l acc, ~ In c acc -> Forall (fun p => ~ In c p) (split_acc c acc l).
Proof.
  induction l as [|x l IH]; intros acc Hacc; simpl.
  - constructor; auto. rewrite <- in_rev; auto.
  - destruct (N.eqb_spec x c) as [->|Hne].
    + constructor; [rewrite <- in_rev; auto|]. apply IH. simpl; tauto.
    + apply IH. simpl. intros [?|?]; auto.
Qed.
Lemma split_on_no_sep c l : Forall (fun p => ~ In c p) (split_on c l).
Proof. apply split_acc_no_sep. simpl; tauto. Qed.
Lemma split_acc_nonempty c l acc : split_acc c acc l <> [].
Proof. revert acc; induction l; intros acc; simpl; [discriminate|]. destruct (N.eqb a c); [discriminate|auto]. Qed.

(* strings.TrimLeft / TrimRight / Trim by a rune predicate *)
Fixpoint trim_left (f : N -> bool) (l : str) : str :=
  match l with x :: l' => if f x then trim_left f l' else l | [] => [] end.
Definition trim_right (f : N -> bool) (l : str) : str := rev (trim_left f (rev l)).
Definition trim (f : N -> bool) (l : str) : str := trim_right f (trim_left f l).

Lemma trim_left_spec f l :
  exists a, l = a ++ trim_left f l /\ forallb f a = true /\
            match trim_left f l with x :: _ => f x = false | [] => True end.
Proof.
  induction l as [|x l IH]; simpl.
  - exists []. auto.
  - destruct (f x) eqn:Hf.
    + destruct IH as [a [H1 [H2 H3]]]. exists (x :: a). simpl. rewrite Hf, H2.
      split; [f_equal; auto|auto].
    + exists []. simpl. auto.
Qed.

Lemma trim_right_spec f l :
  exists a, l = trim_right f l ++ a /\ forallb f a = true /\
            match rev (trim_right f l) with x :: _ => f x = false | [] => True end.
Proof.
  unfold trim_right. destruct (trim_left_spec f (rev l)) as [a [H1 [H2 H3]]].
  exists (rev a). rewrite rev_involutive. split; [|split; auto].
  - rewrite <- rev_app_distr, <- H1, rev_involutive. reflexivity.
  - rewrite forallb_forall in *. intros x Hx. apply H2. apply in_rev; auto.
Qed.

(* index of the first occurrence of a two-rune separator: strings.SplitN(s, "ab", 2) *)
Fixpoint split_first2 (c1 c2 : N) (l : str) : str * option str :=
  match l with
  | [] => ([], None)
  | x :: l' =>
      if N.eqb x c1 && match l' with y :: _ => N.eqb y c2 | [] => false end
      then ([], Some (tl l'))
      else let (a, b) := split_first2 c1 c2 l' in (x :: a, b)
  end.

Lemma split_first2_some c1 c2 : forall l a b,
  split_first2 c1 c2 l = (a, Some b) -> l = a ++ c1 :: c2 :: b.
Proof.
  induction l as [|x l' IH]; intros a b; simpl; [discriminate|].
  destruct (N.eqb x c1 && match l' with y :: _ => N.eqb y c2 | [] => false end) eqn:Hc.
  - intros H; inversion H; subst. apply andb_true_iff in Hc. destruct Hc as [H1 H2].
    apply N.eqb_eq in H1. subst. destruct l' as [|y l'']; [discriminate|].
    apply N.eqb_eq in H2. subst. reflexivity.
  - destruct (split_first2 c1 c2 l') as [a' b'] eqn:Hs.
    intros H; inversion H; subst. simpl. f_equal. apply IH. reflexivity.
Qed.

Lemma split_first2_none c1 c2 : forall l a,
  split_first2 c1 c2 l = (a, None) -> a = l.
Proof.
  induction l as [|x l' IH]; intros a; simpl; [intros H; inversion H; auto|].
  destruct (N.eqb x c1 && match l' with y :: _ => N.eqb y c2 | [] => false end); [discriminate|].
  destruct (split_first2 c1 c2 l') as [a' b'] eqn:Hs.
  intros H; inversion H; subst. f_equal. apply IH. reflexivity.
Qed.

(* ASCII classes *)
Definition is_upper (c : N) : bool := (65 <=? c)%N && (c <=? 90)%N.
Definition is_lower (c : N) : bool := (97 <=? c)%N && (c <=? 122)%N.
Definition is_ascii_digit (c : N) : bool := (48 <=? c)%N && (c <=? 57)%N.
Definition is_ascii_letter (c : N) : bool := is_upper c || is_lower c.
Definition to_upper (c : N) : N := if is_lower c then (c - 32)%N else c.
Definition to_lower (c : N) : N := if is_upper c then (c + 32)%N else c.

(* unicode.IsSpace, complete: the White_Space property as Go's table has it *)
Definition is_space (c : N) : bool :=
  ((9 <=? c) && (c <=? 13) || N.eqb c 32 || N.eqb c 133 || N.eqb c 160 || N.eqb c 5760
   || (8192 <=? c) && (c <=? 8202) || N.eqb c 8232 || N.eqb c 8233 || N.eqb c 8239
   || N.eqb c 8287 || N.eqb c 12288)%N.

(* association maps keyed by strings, in insertion order (Go map + explicit order) *)
Section Amap.
Context {V : Type}.
Definition amap := list (str * V).
Fixpoint lookup (k : str) (m : amap) : option V :=
  match m with [] => None | (k', v) :: m' => if str_eqb k k' then Some v else lookup k m' end.
Fixpoint set (k : str) (v : V) (m : amap) : amap :=
  match m with
  | [] => [(k, v)]
  | (k', v') :: m' => if str_eqb k k' then (k, v) :: m' else (k', v') :: set k v m'
  end.
Lemma lookup_set_same k v m : lookup k (set k v m) = Some v.
Proof.
  induction m as [|[k' v'] m IH]; simpl.
  - rewrite str_eqb_refl; auto.
  - destruct (str_eqb_spec k k') as [Heq|H]; simpl.
    + rewrite str_eqb_refl; auto.
    + destruct (str_eqb_spec k k'); congruence.
Qed.
Lemma lookup_set_other k k' v m : k <> k' -> lookup k (set k' v m) = lookup k m.
Proof.
  intros Hne. induction m as [|[k2 v2] m IH]; simpl.
  - destruct (str_eqb_spec k k'); congruence.
  - destruct (str_eqb_spec k' k2) as [Heq|H2]; simpl.
    + subst k2. destruct (str_eqb_spec k k'); congruence.
    + destruct (str_eqb_spec k k2); auto.
Qed.
Lemma lookup_In k v m : lookup k m = Some v -> In (k, v) m.
Proof.
  induction m as [|[k' v'] m IH]; simpl; [discriminate|].
  destruct (str_eqb_spec k k') as [->|H]; [intros H; inversion H; auto|auto].
Qed.
Definition keys (m : amap) : list str := map fst m.
Lemma set_keys_NoDup k v m : NoDup (keys m) -> NoDup (keys (set k v m)).
Proof.
  unfold keys. induction m as [|[k' v'] m IH]; simpl; intros H.
  - constructor; [simpl; tauto|constructor].
  - inversion H as [|? ? Hn Hd]; subst. destruct (str_eqb_spec k k') as [->|Hne]; simpl.
    + constructor; auto.
    + constructor; auto. intros Hin. apply Hn.
      clear -Hin Hne. induction m as [|[k2 v2] m IH]; simpl in *.
      * destruct Hin; [congruence|tauto].
      * destruct (str_eqb_spec k k2) as [->|H2]; simpl in *; tauto.
Qed.
Lemma lookup_None_notin k m : lookup k m = None <-> ~ In k (keys m).
Proof.
  unfold keys. induction m as [|[k' v'] m IH]; simpl; [tauto|].
  destruct (str_eqb_spec k k') as [->|Hne].
  - split; [discriminate|tauto].
  - rewrite IH. split; [intros H [?|?]; auto|tauto].
Qed.
End Amap.
Arguments amap : clear implicits.
