(* sort.Sort modelled by its contract: the result is a permutation of the input without adjacent
   inversions.  For a strict total order that result is unique, whatever the input order and
   whatever (unstable) algorithm produced it; insertion sort computes it. *)
From Coq Require Import List Bool Arith Lia Permutation Sorting.Sorted.
Import ListNotations.

Section SortSpec.
Variable A : Type.
Variable ltb : A -> A -> bool.
Hypothesis ltb_irrefl : forall a, ltb a a = false.
Hypothesis ltb_trans : forall a b c, ltb a b = true -> ltb b c = true -> ltb a c = true.
Hypothesis ltb_total : forall a b, ltb a b = true \/ a = b \/ ltb b a = true.

(* what sort.Sort guarantees: no element is Less than its predecessor *)
Definition no_inversion (l : list A) := Sorted (fun a b => ltb b a = false) l.
Definition le (a b : A) : Prop := ltb b a = false.

Lemma le_trans a b c : le a b -> le b c -> le a c.
Proof.
  unfold le. intros H1 H2. destruct (ltb c a) eqn:E; auto.
  destruct (ltb_total b c) as [H|[H|H]].
  - pose proof (ltb_trans _ _ _ H E). congruence.
  - subst. congruence.
  - congruence.
Qed.
Lemma le_antisym a b : le a b -> le b a -> a = b.
Proof. unfold le. intros H1 H2. destruct (ltb_total a b) as [H|[H|H]]; congruence. Qed.
Lemma ltb_asym a b : ltb a b = true -> ltb b a = false.
Proof.
  intros H. destruct (ltb b a) eqn:E; auto.
  pose proof (ltb_trans _ _ _ H E) as F. rewrite ltb_irrefl in F. discriminate.
Qed.

Lemma no_inversion_strongly l : no_inversion l -> StronglySorted le l.
Proof.
  intros H. apply Sorted_StronglySorted; [intros a b c; apply le_trans|exact H].
Qed.

Lemma strongly_sorted_perm_unique : forall l1 l2,
  StronglySorted le l1 -> StronglySorted le l2 -> Permutation l1 l2 -> l1 = l2.
Proof.
  induction l1 as [|a l1 IH]; intros l2 H1 H2 Hp.
  - apply Permutation_nil in Hp. auto.
  - destruct l2 as [|b l2]; [apply Permutation_sym, Permutation_nil in Hp; discriminate|].
    inversion H1 as [|? ? Hs1 Hf1]; inversion H2 as [|? ? Hs2 Hf2]; subst.
    assert (a = b).
    { assert (Ha : In a (b :: l2)) by (eapply Permutation_in; [exact Hp|left; auto]).
      assert (Hb : In b (a :: l1)) by (eapply Permutation_in; [apply Permutation_sym; exact Hp|left; auto]).
      destruct Ha as [->|Ha]; auto. destruct Hb as [->|Hb]; auto.
      rewrite Forall_forall in Hf1, Hf2. apply le_antisym; auto. }
    subst b. f_equal. apply IH; auto. eapply Permutation_cons_inv; eauto.
Qed.

Theorem sort_contract_deterministic : forall input1 input2 out1 out2,
  Permutation input1 input2 ->
  Permutation input1 out1 -> no_inversion out1 ->
  Permutation input2 out2 -> no_inversion out2 ->
  out1 = out2.
Proof.
  intros input1 input2 out1 out2 Hp Hp1 Hs1 Hp2 Hs2.
  apply strongly_sorted_perm_unique; try (apply no_inversion_strongly; auto).
  eapply Permutation_trans; [apply Permutation_sym; exact Hp1|].
  eapply Permutation_trans; [exact Hp|exact Hp2].
Qed.

(* insertion sort meets the contract *)
Fixpoint insert (x : A) (l : list A) : list A :=
  match l with
  | [] => [x]
  | y :: l' => if ltb x y then x :: l else y :: insert x l'
  end.
Definition isort (l : list A) : list A := fold_right insert [] l.

Lemma insert_perm x l : Permutation (x :: l) (insert x l).
Proof.
  induction l as [|y l IH]; simpl; auto. destruct (ltb x y); auto.
  eapply perm_trans; [apply perm_swap|apply perm_skip; exact IH].
Qed.
Lemma isort_perm l : Permutation l (isort l).
Proof.
  induction l as [|x l IH]; simpl; auto.
  eapply perm_trans; [apply perm_skip; exact IH|apply insert_perm].
Qed.
Lemma insert_sorted x l : StronglySorted le l -> StronglySorted le (insert x l).
Proof.
  induction l as [|y l IH]; simpl; intros H.
  - constructor; constructor.
  - inversion H as [|? ? Hs Hf]; subst. destruct (ltb x y) eqn:E.
    + constructor; auto. constructor; [apply ltb_asym; exact E|].
      rewrite Forall_forall in *. intros z Hz. eapply le_trans; [apply ltb_asym; exact E|auto].
    + constructor; auto. apply Forall_forall. intros z Hz.
      apply (Permutation_in _ (Permutation_sym (insert_perm x l))) in Hz. destruct Hz as [<-|Hz].
      * exact E.
      * rewrite Forall_forall in Hf. auto.
Qed.
Lemma isort_strongly_sorted l : StronglySorted le (isort l).
Proof. induction l; simpl; [constructor|apply insert_sorted; auto]. Qed.
Lemma isort_no_inversion l : no_inversion (isort l).
Proof. apply StronglySorted_Sorted. apply isort_strongly_sorted. Qed.

(* hence: whatever sort.Sort returns on any arrangement of the input is isort of the input *)
Theorem sort_contract_is_isort input arranged out :
  Permutation input arranged -> Permutation arranged out -> no_inversion out -> out = isort input.
Proof.
  intros H1 H2 H3. apply (sort_contract_deterministic arranged input out (isort input)); auto.
  - apply Permutation_sym; auto.
  - apply isort_perm.
  - apply isort_no_inversion.
Qed.
End SortSpec.

(* lexicographic order on lists over a strict total order is a strict total order *)
Section Lex.
Variable A : Type.
Variable ltb : A -> A -> bool.
Variable eqb : A -> A -> bool.
Hypothesis eqb_spec : forall a b, reflect (a = b) (eqb a b).
Hypothesis ltb_irrefl : forall a, ltb a a = false.
Hypothesis ltb_trans : forall a b c, ltb a b = true -> ltb b c = true -> ltb a c = true.
Hypothesis ltb_total : forall a b, ltb a b = true \/ a = b \/ ltb b a = true.

Fixpoint lex_ltb (a b : list A) : bool :=
  match a, b with
  | [], [] => false
  | [], _ :: _ => true
  | _ :: _, [] => false
  | x :: a', y :: b' => if ltb x y then true else if eqb x y then lex_ltb a' b' else false
  end.

Lemma lex_irrefl a : lex_ltb a a = false.
Proof.
  induction a as [|x a IH]; simpl; auto. rewrite ltb_irrefl.
  destruct (eqb_spec x x); [exact IH|reflexivity].
Qed.
Lemma lex_trans : forall a b c, lex_ltb a b = true -> lex_ltb b c = true -> lex_ltb a c = true.
Proof.
  induction a as [|x a IH]; intros [|y b] [|z c]; simpl; try congruence; auto.
  destruct (ltb x y) eqn:Exy.
  - intros _. destruct (ltb y z) eqn:Eyz.
    + intros _. rewrite (ltb_trans _ _ _ Exy Eyz). reflexivity.
    + destruct (eqb_spec y z); [|discriminate]. subst. rewrite Exy. reflexivity.
  - destruct (eqb_spec x y); [|discriminate]. subst. intros H1.
    destruct (ltb y z) eqn:Eyz; [reflexivity|].
    destruct (eqb_spec y z); [|discriminate]. intros H2. eapply IH; eauto.
Qed.
Lemma lex_total : forall a b, lex_ltb a b = true \/ a = b \/ lex_ltb b a = true.
Proof.
  induction a as [|x a IH]; intros [|y b]; simpl; auto.
  destruct (ltb x y) eqn:Exy; auto. destruct (ltb y x) eqn:Eyx; auto.
  destruct (ltb_total x y) as [H|[H|H]]; try congruence. subst.
  destruct (eqb_spec y y); [|congruence].
  destruct (IH b) as [H1|[H1|H1]]; auto. subst; auto.
Qed.
End Lex.
