(* The lexicographic order on strings (Go's < on valid UTF-8) is a strict total order;
   insertion sort w.r.t. it yields the unique sorted permutation. *)
Require Import Gengo.Base.Str Gengo.Base.Sexp.
From Coq Require Import Permutation Sorting.Sorted.

Lemma str_ltb_irrefl a : str_ltb a a = false.
Proof. induction a as [|x a IH]; simpl; auto. rewrite N.ltb_irrefl, N.eqb_refl. exact IH. Qed.

Lemma str_ltb_trans : forall a b c, str_ltb a b = true -> str_ltb b c = true -> str_ltb a c = true.
Proof.
  induction a as [|x a IH]; intros [|y b] [|z c]; simpl; try congruence; auto.
  destruct (N.ltb_spec x y), (N.ltb_spec y z); intros H1 H2; destruct (N.ltb_spec x z); auto; try lia.
  - destruct (N.eqb_spec y z); [lia|discriminate].
  - destruct (N.eqb_spec x y); [lia|discriminate].
  - destruct (N.eqb_spec x y); [|discriminate]. destruct (N.eqb_spec y z); [|discriminate].
    subst. rewrite N.eqb_refl. eapply IH; eauto.
Qed.

Lemma str_ltb_total : forall a b, str_ltb a b = true \/ a = b \/ str_ltb b a = true.
Proof.
  induction a as [|x a IH]; intros [|y b]; simpl; auto.
  destruct (N.ltb_spec x y); auto. destruct (N.ltb_spec y x); auto.
  assert (x = y) by lia. subst. rewrite N.eqb_refl.
  destruct (IH b) as [H1|[H1|H1]]; auto. subst; auto.
Qed.

Lemma str_ltb_asym a b : str_ltb a b = true -> str_ltb b a = false.
Proof.
  intros H. destruct (str_ltb b a) eqn:E; auto.
  pose proof (str_ltb_trans _ _ _ H E) as F. rewrite str_ltb_irrefl in F. discriminate.
Qed.

Definition str_le (a b : str) : Prop := str_ltb b a = false.

Lemma str_le_trans a b c : str_le a b -> str_le b c -> str_le a c.
Proof.
  unfold str_le. intros H1 H2. destruct (str_ltb c a) eqn:E; auto.
  destruct (str_ltb_total b c) as [H|[H|H]].
  - pose proof (str_ltb_trans _ _ _ H E). congruence.
  - subst. congruence.
  - congruence.
Qed.
Lemma str_le_antisym a b : str_le a b -> str_le b a -> a = b.
Proof. unfold str_le. intros H1 H2. destruct (str_ltb_total a b) as [H|[H|H]]; congruence. Qed.
Lemma str_le_refl a : str_le a a.
Proof. apply str_ltb_irrefl. Qed.

(* insertion sort on strings *)
Fixpoint insert_str (x : str) (l : list str) : list str :=
  match l with
  | [] => [x]
  | y :: l' => if str_ltb y x then y :: insert_str x l' else x :: l
  end.
Definition sort_strs (l : list str) : list str := fold_right insert_str [] l.

Lemma insert_str_perm x l : Permutation (insert_str x l) (x :: l).
Proof.
  induction l as [|y l IH]; simpl; auto.
  destruct (str_ltb y x); auto.
  eapply perm_trans; [apply perm_skip; exact IH|apply perm_swap].
Qed.
Lemma sort_strs_perm l : Permutation (sort_strs l) l.
Proof.
  induction l as [|x l IH]; simpl; auto.
  eapply perm_trans; [apply insert_str_perm|]. apply perm_skip; auto.
Qed.

Lemma insert_str_sorted x l : StronglySorted str_le l -> StronglySorted str_le (insert_str x l).
Proof.
  induction l as [|y l IH]; simpl; intros H.
  - constructor; constructor.
  - inversion H as [|? ? Hs Hf]; subst. destruct (str_ltb y x) eqn:E.
    + constructor; auto. apply Forall_forall. intros z Hz.
      apply (Permutation_in _ (insert_str_perm x l)) in Hz. destruct Hz as [<-|Hz].
      * unfold str_le. apply str_ltb_asym; auto.
      * rewrite Forall_forall in Hf. auto.
    + constructor; auto. constructor; [exact E|].
      rewrite Forall_forall in *. intros z Hz. eapply str_le_trans; [exact E|auto].
Qed.
Lemma sort_strs_sorted l : StronglySorted str_le (sort_strs l).
Proof. induction l; simpl; [constructor|apply insert_str_sorted; auto]. Qed.

(* uniqueness: any sorted permutation is the one sort_strs computes *)
Lemma sorted_perm_unique : forall l1 l2,
  StronglySorted str_le l1 -> StronglySorted str_le l2 -> Permutation l1 l2 -> l1 = l2.
Proof.
  induction l1 as [|a l1 IH]; intros l2 H1 H2 Hp.
  - apply Permutation_nil in Hp. auto.
  - destruct l2 as [|b l2]; [apply Permutation_sym, Permutation_nil in Hp; discriminate|].
    inversion H1 as [|? ? Hs1 Hf1]; inversion H2 as [|? ? Hs2 Hf2]; subst.
    assert (a = b).
    { assert (Ha : In a (b :: l2)) by (eapply Permutation_in; [exact Hp|left; auto]).
      assert (Hb : In b (a :: l1)) by (eapply Permutation_in; [apply Permutation_sym; exact Hp|left; auto]).
      destruct Ha as [->|Ha]; auto. destruct Hb as [->|Hb]; auto.
      rewrite Forall_forall in Hf1, Hf2. apply str_le_antisym; auto. }
    subst b. f_equal. apply IH; auto. eapply Permutation_cons_inv; eauto.
Qed.

Theorem sort_strs_unique l out :
  Permutation out l -> StronglySorted str_le out -> out = sort_strs l.
Proof.
  intros Hp Hs. apply sorted_perm_unique; auto. apply sort_strs_sorted.
  eapply perm_trans; [exact Hp|]. apply Permutation_sym, sort_strs_perm.
Qed.
