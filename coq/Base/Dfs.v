(* Mark-then-recurse graph walk with fuel (the shape of walkType and dfsImports). *)
From Coq Require Import List Bool Arith Lia.
Import ListNotations.

Section Dfs.
Variable key : Type.
Variable eqb : key -> key -> bool.
Hypothesis eqb_spec : forall a b, reflect (a = b) (eqb a b).
Variable children : key -> list key.

Definition mem (k : key) (s : list key) : bool := existsb (eqb k) s.
Lemma mem_In k s : mem k s = true <-> In k s.
Proof.
  unfold mem. rewrite existsb_exists. split.
  - intros [x [H1 H2]]. destruct (eqb_spec k x); [subst; auto|discriminate].
  - intros H. exists k. split; auto. destruct (eqb_spec k k); congruence.
Qed.

(* mark-then-recurse traversal with fuel, as walkType does it *)
Fixpoint visit (fuel : nat) (seen : list key) (k : key) : option (list key) :=
  if mem k seen then Some seen else
  match fuel with
  | 0 => None
  | S f =>
      fold_left (fun acc c => match acc with Some s => visit f s c | None => None end)
                (children k) (Some (k :: seen))
  end.

Definition visit_list (f : nat) (ks : list key) (acc : option (list key)) :=
  fold_left (fun acc c => match acc with Some s => visit f s c | None => None end) ks acc.

Lemma visit_list_none f ks : visit_list f ks None = None.
Proof. induction ks; simpl; auto. Qed.

Definition ok (s s' : list key) :=
  incl s s' /\ forall x, In x s' -> In x s \/ incl (children x) s'.

Lemma ok_refl s : ok s s. Proof. split; [apply incl_refl|auto]. Qed.
Lemma ok_trans a b c : ok a b -> ok b c -> ok a c.
Proof.
  intros [H1 H2] [H3 H4]. split; [eapply incl_tran; eauto|].
  intros x Hx. destruct (H4 x Hx) as [Hb|Hc]; auto.
  destruct (H2 x Hb) as [Ha|Hcb]; auto. right. eapply incl_tran; eauto.
Qed.

Lemma visit_ok : forall f s k s', visit f s k = Some s' -> ok s s' /\ In k s'.
Proof.
  induction f as [|f IH]; intros s k s'; simpl.
  - destruct (mem k s) eqn:Hm; [|discriminate]. intros H; inversion H; subst.
    split; [apply ok_refl|apply mem_In; auto].
  - destruct (mem k s) eqn:Hm.
    + intros H; inversion H; subst. split; [apply ok_refl|apply mem_In; auto].
    + fold (visit_list f (children k) (Some (k :: s))).
      assert (Hl : forall ks a a', visit_list f ks (Some a) = Some a' -> ok a a' /\ incl ks a').
      { induction ks as [|c ks IHks]; simpl; intros a a' H.
        - inversion H; subst. split; [apply ok_refl|intros x []].
        - destruct (visit f a c) as [a1|] eqn:Hv; [|rewrite visit_list_none in H; discriminate].
          destruct (IH _ _ _ Hv) as [Hok Hc]. destruct (IHks _ _ H) as [Hok2 Hi].
          split; [eapply ok_trans; eauto|].
          intros x [->|Hx]; auto. destruct Hok2 as [Hinc _]. apply Hinc; auto. }
      intros H. destruct (Hl _ _ _ H) as [[Hinc Hcl] Hch].
      split; [split|].
      * intros x Hx. apply Hinc. right; auto.
      * intros x Hx. destruct (Hcl x Hx) as [[->|Hs]|Hc]; auto.
      * apply Hinc. left; auto.
Qed.

Corollary visit_closed f k s' : visit f [] k = Some s' ->
  In k s' /\ forall x, In x s' -> incl (children x) s'.
Proof.
  intros H. destruct (visit_ok _ _ _ _ H) as [[_ Hc] Hk]. split; auto.
  intros x Hx. destruct (Hc x Hx) as [[]|]; auto.
Qed.

(* Fuel adequacy: a finite key universe U closed under children bounds the depth. *)
Variable U : list key.
Hypothesis U_closed : forall x, In x U -> incl (children x) U.

Fixpoint count_unseen (s u : list key) : nat :=
  match u with [] => 0 | x :: u' => (if mem x s then 0 else 1) + count_unseen s u' end.

Lemma count_unseen_mono s s' u : incl s s' -> count_unseen s' u <= count_unseen s u.
Proof.
  intros Hi. induction u as [|x u IH]; simpl; auto.
  destruct (mem x s) eqn:H1.
  - apply mem_In in H1. apply Hi in H1. apply mem_In in H1. rewrite H1. lia.
  - destruct (mem x s'); lia.
Qed.

Lemma count_unseen_add k s u : In k u -> mem k s = false ->
  count_unseen (k :: s) u < count_unseen s u.
Proof.
  induction u as [|x u IH]; simpl; [tauto|]. intros Hin Hm.
  assert (Hle : count_unseen (k :: s) u <= count_unseen s u)
    by (apply count_unseen_mono; intros y Hy; right; auto).
  destruct (eqb_spec k x) as [->|Hne].
  - rewrite Hm. simpl. destruct (eqb_spec x x); [|congruence]. simpl. lia.
  - destruct Hin as [->|Hin]; [congruence|].
    specialize (IH Hin Hm). simpl.
    destruct (eqb_spec x k); [congruence|]. simpl. destruct (mem x s); lia.
Qed.

Lemma visit_terminates : forall f s k, In k U -> count_unseen s U < f ->
  exists s', visit f s k = Some s'.
Proof.
  induction f as [|f IH]; intros s k Hk Hf; [lia|].
  simpl. destruct (mem k s) eqn:Hm; [eauto|].
  fold (visit_list f (children k) (Some (k :: s))).
  assert (Hlt : count_unseen (k :: s) U < count_unseen s U) by (apply count_unseen_add; auto).
  assert (Hl : forall ks a, incl ks U -> count_unseen a U < f -> exists a', visit_list f ks (Some a) = Some a').
  { induction ks as [|c ks IHks]; simpl; intros a Hi Ha; [eauto|].
    destruct (IH a c) as [a1 Hv]; [apply Hi; left; auto|auto|].
    rewrite Hv. apply IHks.
    - intros y Hy. apply Hi. right; auto.
    - destruct (visit_ok _ _ _ _ Hv) as [[Hinc _] _].
      pose proof (count_unseen_mono a a1 U Hinc). lia. }
  apply Hl; [apply U_closed; auto|lia].
Qed.
(* the same facts for a walk over a list of roots (dfsImports: the children of the package) *)
Lemma visit_list_ok f : forall ks a a', visit_list f ks (Some a) = Some a' -> ok a a' /\ incl ks a'.
Proof.
  induction ks as [|c ks IHks]; simpl; intros a a' H.
  - inversion H; subst. split; [apply ok_refl|intros x []].
  - destruct (visit f a c) as [a1|] eqn:Hv; [|rewrite visit_list_none in H; discriminate].
    destruct (visit_ok _ _ _ _ Hv) as [Hok Hc]. destruct (IHks _ _ H) as [Hok2 Hi].
    split; [eapply ok_trans; eauto|].
    intros x [->|Hx]; auto. destruct Hok2 as [Hinc _]. apply Hinc; auto.
Qed.

Lemma visit_list_terminates f : forall ks a, incl ks U -> count_unseen a U < f ->
  exists a', visit_list f ks (Some a) = Some a'.
Proof.
  induction ks as [|c ks IHks]; simpl; intros a Hi Ha; [eauto|].
  destruct (visit_terminates f a c) as [a1 Hv]; [apply Hi; left; auto|auto|].
  rewrite Hv. apply IHks.
  - intros y Hy. apply Hi. right; auto.
  - destruct (visit_ok _ _ _ _ Hv) as [[Hinc _] _].
    pose proof (count_unseen_mono a a1 U Hinc). lia.
Qed.

(* soundness: only reachable keys are added *)
Inductive reach : key -> key -> Prop :=
| reach_refl k : reach k k
| reach_step a b c : In b (children a) -> reach b c -> reach a c.

Lemma visit_sound : forall f s k s', visit f s k = Some s' -> forall x, In x s' -> In x s \/ reach k x.
Proof.
  induction f as [|f IH]; intros s k s'; simpl.
  - destruct (mem k s); [|discriminate]. intros H; inversion H; subst. auto.
  - destruct (mem k s) eqn:Hm; [intros H; inversion H; subst; auto|].
    fold (visit_list f (children k) (Some (k :: s))).
    assert (Hl : forall ks a a', incl ks (children k) -> visit_list f ks (Some a) = Some a' ->
                 forall x, In x a' -> In x a \/ reach k x).
    { induction ks as [|c ks IHks]; simpl; intros a a' Hi H x Hx.
      - inversion H; subst. auto.
      - destruct (visit f a c) as [a1|] eqn:Hv; [|rewrite visit_list_none in H; discriminate].
        destruct (IHks a1 a' (fun y Hy => Hi y (or_intror Hy)) H x Hx) as [H1|H1]; auto.
        destruct (IH _ _ _ Hv x H1) as [H2|H2]; auto.
        right. eapply reach_step; [apply Hi; left; reflexivity|exact H2]. }
    intros H x Hx. destruct (Hl _ _ _ (incl_refl _) H x Hx) as [[->|H1]|H1]; auto.
    right. apply reach_refl.
Qed.

Lemma visit_list_sound f : forall ks a a', visit_list f ks (Some a) = Some a' ->
  forall x, In x a' -> In x a \/ exists c, In c ks /\ reach c x.
Proof.
  induction ks as [|c ks IHks]; simpl; intros a a' H x Hx.
  - inversion H; subst. auto.
  - destruct (visit f a c) as [a1|] eqn:Hv; [|rewrite visit_list_none in H; discriminate].
    destruct (IHks _ _ H x Hx) as [H1|[c' [Hc1 Hc2]]]; [|right; eauto].
    destruct (visit_sound _ _ _ _ Hv x H1) as [H2|H2]; auto. right; eauto.
Qed.

(* a set closed under children contains everything reachable from its members *)
Lemma closed_reach s : (forall x, In x s -> incl (children x) s) -> forall a b, reach a b -> In a s -> In b s.
Proof. intros Hc a b H. induction H; intros Ha; auto. apply IHreach. eapply Hc; eauto. Qed.
End Dfs.
