(* The in-place Warshall triple loop over Go maps (generator/transitive_closure.go), with the three
   map iteration orders as arbitrary lists: it computes exactly reachability by paths of length >= 1. *)
From Coq Require Import List Bool Arith Lia Permutation.
Import ListNotations.

Section Closure.
Variable node : Type.
Variable eqb : node -> node -> bool.
Hypothesis eqb_spec : forall a b, reflect (a = b) (eqb a b).

Definition edge := (node * node)%type.
Definition edge_eqb (e f : edge) : bool := eqb (fst e) (fst f) && eqb (snd e) (snd f).

Lemma edge_eqb_spec e f : reflect (e = f) (edge_eqb e f).
Proof.
  destruct e as [a b], f as [c d]; unfold edge_eqb; simpl.
  destruct (eqb_spec a c), (eqb_spec b d); simpl; constructor; congruence.
Qed.

Definition has (adj : list edge) (e : edge) : bool := existsb (edge_eqb e) adj.

Lemma has_In adj e : has adj e = true <-> In e adj.
Proof.
  unfold has. rewrite existsb_exists. split.
  - intros [x [Hin Hx]]. destruct (edge_eqb_spec e x); [subst; auto | discriminate].
  - intros H. exists e. split; auto. destruct (edge_eqb_spec e e); congruence.
Qed.

(* The Go loops, with the three map iteration orders as parameters. *)
Definition step_j (k i : node) (adj : list edge) (j : node) : list edge :=
  if has adj (i, j) then adj
  else if has adj (k, j) then (i, j) :: adj else adj.

Definition step_i (js : list node) (k : node) (adj : list edge) (i : node) : list edge :=
  if has adj (i, k) then fold_left (step_j k i) js adj else adj.

Definition step_k (is_ js : list node) (adj : list edge) (k : node) : list edge :=
  fold_left (step_i js k) is_ adj.

Definition warshall (ks is_ js : list node) (adj : list edge) : list edge :=
  fold_left (step_k is_ js) ks adj.

(* Specification: paths of length >= 1. *)
Variable E : list edge.

Inductive walk : node -> list node -> node -> Prop :=
| walk_nil i j : In (i, j) E -> walk i [] j
| walk_cons i m l j : In (i, m) E -> walk m l j -> walk i (m :: l) j.

Definition path i j := exists l, walk i l j.
Definition pathK (S : list node) i j := exists l, walk i l j /\ incl l S.

Lemma walk_app i l1 m l2 j : walk i l1 m -> walk m l2 j -> walk i (l1 ++ m :: l2) j.
Proof. induction 1; simpl; intros; econstructor; eauto. Qed.

Lemma walk_split i l1 m l2 j : walk i (l1 ++ m :: l2) j -> walk i l1 m /\ walk m l2 j.
Proof.
  revert i. induction l1 as [|x l1 IH]; simpl; intros i H.
  - inversion H; subst. split; [constructor|]; auto.
  - inversion H; subst. destruct (IH _ H5). split; [econstructor|]; eauto.
Qed.

Lemma walk_first_out i l j : walk i l j -> exists m, In (i, m) E.
Proof. destruct 1; eauto. Qed.
Lemma walk_last_in i l j : walk i l j -> exists m, In (m, j) E.
Proof. induction 1; eauto. Qed.
Lemma walk_inner_out i l j : walk i l j -> forall m, In m l -> exists n, In (m, n) E.
Proof.
  induction 1; simpl; intros x Hx; [tauto|].
  destruct Hx as [->|Hx]; eauto. eapply walk_first_out; eauto.
Qed.

(* split a list at the first occurrence of k *)
Lemma in_split_first (k : node) l : In k l -> exists l1 l2, l = l1 ++ k :: l2 /\ ~ In k l1.
Proof.
  induction l as [|x l IH]; simpl; [tauto|]. intros H.
  destruct (eqb_spec x k) as [->|Hne].
  - exists [], l. simpl; auto.
  - destruct H as [H|H]; [congruence|]. destruct (IH H) as (l1 & l2 & -> & Hn).
    exists (x :: l1), l2. simpl. split; auto. intros [?|?]; auto.
Qed.

Lemma incl_remove_notin (k : node) l S : incl l (k :: S) -> ~ In k l -> incl l S.
Proof. intros H Hn x Hx. destruct (H x Hx); [subst; tauto|auto]. Qed.

Lemma decompose k S : forall n i l j, length l <= n -> walk i l j -> incl l (k :: S) ->
  pathK S i j \/ (pathK S i k /\ pathK S k j).
Proof.
  induction n as [|n IH]; intros i l j Hlen Hw Hincl.
  - destruct l; simpl in Hlen; [|lia]. left. exists []. split; auto. intros x [].
  - destruct (in_dec (fun a b => match eqb_spec a b with ReflectT _ e => left e | ReflectF _ ne => right ne end) k l) as [Hin|Hnin].
    + destruct (in_split_first k l Hin) as (l1 & l2 & -> & Hn1).
      apply walk_split in Hw. destruct Hw as [Hw1 Hw2].
      assert (Hi1 : incl l1 S).
      { apply incl_remove_notin with k; auto. intros x Hx. apply Hincl. apply in_or_app; auto. }
      assert (Hi2 : incl l2 (k :: S)).
      { intros x Hx. apply Hincl. apply in_or_app. right; right; auto. }
      assert (Hl2 : length l2 <= n). { rewrite app_length in Hlen; simpl in Hlen; lia. }
      right. split; [exists l1; auto|].
      destruct (IH k l2 j Hl2 Hw2 Hi2) as [H|[_ H]]; auto.
    + left. exists l. split; auto. apply incl_remove_notin with k; auto.
Qed.

(* Monotonicity and soundness of the loops *)
Lemma step_j_mono k i adj j e : In e adj -> In e (step_j k i adj j).
Proof. unfold step_j. destruct (has adj (i,j)); auto. destruct (has adj (k,j)); simpl; auto. Qed.
Lemma fold_step_j_mono k i js : forall adj e, In e adj -> In e (fold_left (step_j k i) js adj).
Proof. induction js; simpl; auto. intros. apply IHjs. apply step_j_mono; auto. Qed.
Lemma step_i_mono js k adj i e : In e adj -> In e (step_i js k adj i).
Proof. unfold step_i. destruct (has adj (i,k)); auto. apply fold_step_j_mono. Qed.
Lemma fold_step_i_mono js k is_ : forall adj e, In e adj -> In e (fold_left (step_i js k) is_ adj).
Proof. induction is_; simpl; auto. intros. apply IHis_. apply step_i_mono; auto. Qed.
Lemma step_k_mono is_ js adj k e : In e adj -> In e (step_k is_ js adj k).
Proof. apply fold_step_i_mono. Qed.

Definition sound (adj : list edge) := forall i j, In (i, j) adj -> path i j.

Lemma path_trans i k j : path i k -> path k j -> path i j.
Proof. intros [l1 H1] [l2 H2]. exists (l1 ++ k :: l2). apply walk_app; auto. Qed.

Lemma step_j_sound k i adj j : sound adj -> In (i,k) adj -> sound (step_j k i adj j).
Proof.
  intros Hs Hik. unfold step_j. destruct (has adj (i,j)); auto.
  destruct (has adj (k,j)) eqn:Hkj; auto.
  apply has_In in Hkj. intros a b [Heq|Hin]; auto. inversion Heq; subst.
  apply path_trans with k; auto.
Qed.
Lemma fold_step_j_sound k i js : forall adj, sound adj -> In (i,k) adj -> sound (fold_left (step_j k i) js adj).
Proof.
  induction js; simpl; auto. intros. apply IHjs. apply step_j_sound; auto. apply step_j_mono; auto.
Qed.
Lemma step_i_sound js k adj i : sound adj -> sound (step_i js k adj i).
Proof.
  intros. unfold step_i. destruct (has adj (i,k)) eqn:H1; auto.
  apply fold_step_j_sound; auto. apply has_In; auto.
Qed.
Lemma step_k_sound is_ js k : forall adj, sound adj -> sound (step_k is_ js adj k).
Proof. unfold step_k. induction is_; simpl; auto. intros. apply IHis_. apply step_i_sound; auto. Qed.
Lemma warshall_sound ks is_ js : forall adj, sound adj -> sound (warshall ks is_ js adj).
Proof. unfold warshall. induction ks; simpl; auto. intros. apply IHks. apply step_k_sound; auto. Qed.

(* Completeness of one pass *)
Lemma fold_step_j_adds k i js : forall adj j, In (i,k) adj -> In (k,j) adj -> In j js ->
  In (i,j) (fold_left (step_j k i) js adj).
Proof.
  induction js as [|x js IH]; simpl; intros adj j Hik Hkj Hj; [tauto|].
  destruct Hj as [->|Hj].
  - apply fold_step_j_mono. unfold step_j.
    destruct (has adj (i,j)) eqn:H1; [apply has_In; auto|].
    destruct (has adj (k,j)) eqn:H2; [simpl; auto|].
    apply has_In in Hkj. congruence.
  - apply IH; auto; apply step_j_mono; auto.
Qed.

Lemma fold_step_i_adds js k is_ : forall adj i j, In (i,k) adj -> In (k,j) adj -> In i is_ -> In j js ->
  In (i,j) (fold_left (step_i js k) is_ adj).
Proof.
  induction is_ as [|x is_ IH]; simpl; intros adj i j Hik Hkj Hi Hj; [tauto|].
  destruct Hi as [->|Hi].
  - apply fold_step_i_mono. unfold step_i.
    destruct (has adj (i,k)) eqn:H1.
    + apply fold_step_j_adds; auto.
    + apply has_In in Hik. congruence.
  - apply IH; auto; apply step_i_mono; auto.
Qed.

Definition completeK S (adj : list edge) := forall i j, pathK S i j -> In (i,j) adj.

Lemma step_k_complete is_ js S adj k :
  (forall i m, In (i,m) E -> In i is_) -> (forall m j, In (m,j) E -> In j js) ->
  sound adj -> completeK S adj -> completeK (k :: S) (step_k is_ js adj k).
Proof.
  intros His Hjs Hs Hc i j [l [Hw Hincl]].
  destruct (decompose k S (length l) i l j (le_n _) Hw Hincl) as [H|[H1 H2]].
  - apply step_k_mono. auto.
  - apply fold_step_i_adds; auto.
    + destruct H1 as [l1 [Hw1 _]]. destruct (walk_first_out _ _ _ Hw1). eapply His; eauto.
    + destruct H2 as [l2 [Hw2 _]]. destruct (walk_last_in _ _ _ Hw2). eapply Hjs; eauto.
Qed.

Lemma warshall_complete is_ js :
  (forall i m, In (i,m) E -> In i is_) -> (forall m j, In (m,j) E -> In j js) ->
  forall ks S adj, sound adj -> completeK S adj -> completeK (rev ks ++ S) (warshall ks is_ js adj).
Proof.
  intros His Hjs. induction ks as [|k ks IH]; simpl; intros S adj Hs Hc; auto.
  rewrite <- app_assoc. simpl. apply IH.
  - apply step_k_sound; auto.
  - apply step_k_complete; auto.
Qed.

Theorem warshall_is_reachability ks is_ js :
  (forall i m, In (i,m) E -> In i ks) ->
  (forall i m, In (i,m) E -> In i is_) ->
  (forall m j, In (m,j) E -> In j js) ->
  forall i j, In (i,j) (warshall ks is_ js E) <-> path i j.
Proof.
  intros Hks His Hjs i j. split.
  - apply warshall_sound. intros a b H. exists []. constructor; auto.
  - intros [l Hw].
    pose proof (warshall_complete is_ js His Hjs ks [] E) as Hc.
    apply Hc.
    + intros a b H. exists []. constructor; auto.
    + intros a b [l' [Hw' Hi']]. destruct l'; [inversion Hw'; auto|]. destruct (Hi' n); simpl; auto.
    + exists l. split; auto. intros m Hm. rewrite app_nil_r. apply in_rev. rewrite rev_involutive.
      destruct (walk_inner_out _ _ _ Hw m Hm) as [n Hn]. eapply Hks; eauto.
Qed.
End Closure.
