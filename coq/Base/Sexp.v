(* Interchange format between the Go harness, the extracted model and the kernel
   cross-check: s-expressions whose atoms are code-point lists.  Decoders and encoders
   are Gallina, so the kernel path and the extracted path share them. *)
Require Import Gengo.Base.Str.

Inductive sexp := A (a : str) | L (l : list sexp).

Definition dec (T : Type) := sexp -> option T.
Definition dstr : dec str := fun x => match x with A a => Some a | _ => None end.
Definition dnum : dec N := fun x => match x with A [n] => Some n | _ => None end.
Definition dnat : dec nat := fun x => match x with A [n] => Some (N.to_nat n) | _ => None end.
Definition dbool : dec bool := fun x => match x with A [n] => Some (negb (N.eqb n 0)) | _ => None end.
Fixpoint dall {T} (d : dec T) (l : list sexp) : option (list T) :=
  match l with
  | [] => Some []
  | x :: l' => match d x, dall d l' with Some a, Some b => Some (a :: b) | _, _ => None end
  end.
Definition dlist {T} (d : dec T) : dec (list T) := fun x => match x with L l => dall d l | _ => None end.
Definition dpair {T U} (d1 : dec T) (d2 : dec U) : dec (T * U) :=
  fun x => match x with
           | L [a; b] => match d1 a, d2 b with Some p, Some q => Some (p, q) | _, _ => None end
           | _ => None end.
Definition dtriple {T U W} (d1 : dec T) (d2 : dec U) (d3 : dec W) : dec (T * U * W) :=
  fun x => match x with
           | L [a; b; c] => match d1 a, d2 b, d3 c with Some p, Some q, Some r => Some (p, q, r) | _, _, _ => None end
           | _ => None end.
Definition dopt {T} (d : dec T) : dec (option T) :=
  fun x => match x with
           | L [] => Some None
           | L [a] => match d a with Some p => Some (Some p) | None => None end
           | _ => None end.
Definition dsexp : dec sexp := fun x => Some x.

Definition estr (x : str) : sexp := A x.
Definition enum (n : N) : sexp := A [n].
Definition enat (n : nat) : sexp := A [N.of_nat n].
Definition ebool (b : bool) : sexp := A [if b then 1%N else 0%N].
Definition elist {T} (e : T -> sexp) (l : list T) : sexp := L (map e l).
Definition epair {T U} (e1 : T -> sexp) (e2 : U -> sexp) (p : T * U) : sexp := L [e1 (fst p); e2 (snd p)].
Definition eopt {T} (e : T -> sexp) (o : option T) : sexp :=
  match o with Some x => L [e x] | None => L [] end.
Definition etag (t : string) (l : list sexp) : sexp := L (A (s t) :: l).

Fixpoint sexp_eqb (a b : sexp) : bool :=
  match a, b with
  | A x, A y => str_eqb x y
  | L x, L y => (fix go (x y : list sexp) := match x, y with
                  | [], [] => true
                  | p :: x', q :: y' => sexp_eqb p q && go x' y'
                  | _, _ => false end) x y
  | _, _ => false
  end.

(* insertion sort of (key, value) pairs by key, used to canonicalise Go maps for output *)
Fixpoint str_ltb (a b : str) : bool :=
  match a, b with
  | [], [] => false
  | [], _ :: _ => true
  | _ :: _, [] => false
  | x :: a', y :: b' => if N.ltb x y then true else if N.eqb x y then str_ltb a' b' else false
  end.
Fixpoint insert_by {V} (kv : str * V) (l : list (str * V)) : list (str * V) :=
  match l with
  | [] => [kv]
  | kv' :: l' => if str_ltb (fst kv') (fst kv) then kv' :: insert_by kv l' else kv :: l
  end.
Definition sort_by_key {V} (l : list (str * V)) : list (str * V) := fold_right insert_by [] l.
