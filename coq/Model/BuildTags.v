(* C12: build constraints and in-place regeneration.
     v2/execute.go (Execute: buildTag -> parser build tags; GoBoilerplate's //go:build !tag header)
     args/args.go  (GeneratedBuildTag, NewBuilder -> AddBuildTags)
   File selection itself is go/build's / go list's (exercised, not modelled); what is modelled is
   constraint evaluation and the consequence for a tool that writes its output into the tree
   it reads. *)
Require Import Gengo.Base.Str Gengo.Base.Sexp Gengo.Base.StrOrder.

Inductive cexpr := CTag (t : str) | CNot (e : cexpr) | CAnd (a b : cexpr) | COr (a b : cexpr).
Fixpoint ceval (tags : list str) (e : cexpr) : bool :=
  match e with
  | CTag t => mem_str t tags
  | CNot e => negb (ceval tags e)
  | CAnd a b => ceval tags a && ceval tags b
  | COr a b => ceval tags a || ceval tags b
  end.

Section Tree.
Variable content : Type.                       (* what a file declares: types, methods, comments, imports *)
Record file := { f_name : str; f_constraint : option cexpr; f_content : content }.
Definition tree := list file.

Definition file_visible (tags : list str) (f : file) : bool :=
  match f_constraint f with None => true | Some e => ceval tags e end.
Definition visible (tags : list str) (t : tree) : list file := filter (file_visible tags) t.

(* what a tool sees: a function of the visible files only (the loaders, C01) *)
Variable universe_of : list file -> list content.
Hypothesis universe_of_def : forall fs, universe_of fs = map f_content fs.

(* an in-place tool: reads the tree under its tag, writes ONE output file carrying !tag *)
Variable gen : list content -> content.        (* any generator *)
Variable out_name : str.
Variable tag : str.

Definition remove_file (n : str) (t : tree) : tree := filter (fun f => negb (str_eqb (f_name f) n)) t.
Definition run_tool (t : tree) : tree :=
  remove_file out_name t ++
  [{| f_name := out_name; f_constraint := Some (CNot (CTag tag)); f_content := gen (universe_of (visible [tag] t)) |}].
End Tree.
Arguments f_name {content}. Arguments f_constraint {content}. Arguments f_content {content}.

(* ---------- entry: which declarations are visible under a tag set ---------- *)
Fixpoint d_cexpr (fuel : nat) (x : sexp) : option cexpr :=
  match fuel with 0 => None | S f =>
  match x with
  | L [A tg; A t] => if str_eqb tg (s "tag") then Some (CTag t) else None
  | L [A tg; a] => if str_eqb tg (s "not") then option_map CNot (d_cexpr f a) else None
  | L [A tg; a; b] =>
      match d_cexpr f a, d_cexpr f b with
      | Some a, Some b => if str_eqb tg (s "and") then Some (CAnd a b) else if str_eqb tg (s "or") then Some (COr a b) else None
      | _, _ => None end
  | _ => None end end.

(* input: ((tags...) ((name constraint? (decls...))...)) -> sorted visible declarations *)
Definition run_visible (inp : sexp) : option sexp :=
  match inp with
  | L [tg; L fs] =>
      match dlist dstr tg with
      | None => None
      | Some tags =>
          let dfile (x : sexp) : option (file (list str)) :=
              match x with
              | L [A n; c; ds] =>
                  match dopt (d_cexpr 50) c, dlist dstr ds with
                  | Some c, Some ds => Some {| f_name := n; f_constraint := c; f_content := ds |}
                  | _, _ => None end
              | _ => None end in
          match dall dfile fs with
          | Some fs => Some (elist estr (sort_strs (flat_map f_content (visible (list str) tags fs))))
          | None => None end
      end
  | _ => None end.
