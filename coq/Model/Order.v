(* C03: namer/order.go, v2/namer/order.go : Orderer.OrderUniverse / OrderTypes, tList.Less
   (with the tie-break of the fix: commit recorded in KNOWN_FINDINGS.txt). sort.Sort is modelled
   by its contract (Base/SortSpec.v); map iteration by arbitrary permutations. *)
Require Import Gengo.Base.Str Gengo.Base.Sexp Gengo.Base.StrOrder Gengo.Base.SortSpec.

(* an entry of the universe as the orderer sees it: the name the namer gives it and its identity *)
Record entry := { oname : str; epkg : str; ename : str; ekind : str }.
Definition key (e : entry) : list str := [oname e; epkg e; ename e; ekind e].

(* tList.Less: namer name first, then package, name, kind *)
Definition entry_ltb (a b : entry) : bool := lex_ltb str str_ltb str_eqb (key a) (key b).
(* the comparison before the fix: the namer's name only *)
Definition name_ltb (a b : entry) : bool := str_ltb (oname a) (oname b).

Record pkg := { ppath : str; ptypes : list entry; pfuncs : list entry; pvars : list entry; pconsts : list entry }.
Definition pkg_entries (p : pkg) : list entry := ptypes p ++ pfuncs p ++ pvars p ++ pconsts p.
Definition all_entries (u : list pkg) : list entry := flat_map pkg_entries u.

(* the unique list sort.Sort can return, whatever the gathering order *)
Definition order (u : list pkg) : list entry := isort entry entry_ltb (all_entries u).
Definition order_types (l : list entry) : list entry := isort entry entry_ltb l.

(* P_check on any output: complete (a permutation of the universe's entries, compared as
   sorted lists) and non-decreasing in the namer's names *)
Fixpoint names_sorted (l : list entry) : bool :=
  match l with
  | a :: ((b :: _) as l') => negb (str_ltb (oname b) (oname a)) && names_sorted l'
  | _ => true
  end.
Definition entry_eqb (a b : entry) : bool :=
  str_eqb (oname a) (oname b) && str_eqb (epkg a) (epkg b) && str_eqb (ename a) (ename b) && str_eqb (ekind a) (ekind b).
Fixpoint list_eqb {T} (eqb : T -> T -> bool) (a b : list T) : bool :=
  match a, b with [], [] => true | x :: a', y :: b' => eqb x y && list_eqb eqb a' b' | _, _ => false end.
Definition pcheck_order (input out : list entry) : bool :=
  names_sorted out && list_eqb entry_eqb (isort entry entry_ltb out) (isort entry entry_ltb input).

(* entry points *)
Definition d_entry : dec entry := fun x =>
  match x with
  | L [A a; A b; A c; A d] => Some {| oname := a; epkg := b; ename := c; ekind := d |}
  | _ => None end.
Definition e_entry (e : entry) : sexp := L [A (oname e); A (epkg e); A (ename e); A (ekind e)].
Definition d_pkg : dec pkg := fun x =>
  match x with
  | L [A p; ts; fs; vs; cs] =>
      match dlist d_entry ts, dlist d_entry fs, dlist d_entry vs, dlist d_entry cs with
      | Some ts, Some fs, Some vs, Some cs => Some {| ppath := p; ptypes := ts; pfuncs := fs; pvars := vs; pconsts := cs |}
      | _, _, _, _ => None end
  | _ => None end.
Definition run_order (inp : sexp) : option sexp :=
  match dlist d_pkg inp with Some u => Some (elist e_entry (order u)) | None => None end.
Definition run_order_types (inp : sexp) : option sexp :=
  match dlist d_entry inp with Some l => Some (elist e_entry (order_types l)) | None => None end.
Definition run_pcheck_order (inp : sexp) : option sexp :=
  match inp with
  | L [i; o] => match dlist d_pkg i, dlist d_entry o with
                | Some u, Some out => Some (ebool (pcheck_order (all_entries u) out))
                | _, _ => None end
  | _ => None end.
Definition run_pcheck_order_types (inp : sexp) : option sexp :=
  match inp with
  | L [i; o] => match dlist d_entry i, dlist d_entry o with
                | Some l, Some out => Some (ebool (pcheck_order l out))
                | _, _ => None end
  | _ => None end.
