(* C04 / C13: generator/execute.go (ExecutePackages, ExecutePackage, executeBody, filteredBy,
   addNameSystems), v2/generator/execute.go (ExecuteTargets, ExecuteTarget, executeBody),
   generator/error_tracker.go, v2/generator/error_tracker.go (ErrorTracker).
   Generators and targets are data: what each hook emits and whether it fails. *)
Require Import Gengo.Base.Str Gengo.Base.Sexp Gengo.Base.StrOrder.

(* ---------- ErrorTracker over an arbitrary writer ---------- *)
Section Tracker.
Variable W : Type.                         (* state of the underlying io.Writer *)
Variable E : Type.                         (* errors *)
Variable wwrite : W -> str -> W * (nat * option E).

Record et := { under : W; eterr : option E }.
Definition et_new (w : W) : et := {| under := w; eterr := None |}.
Definition et_write (t : et) (p : str) : et * (nat * option E) :=
  match eterr t with
  | Some e => (t, (0, Some e))
  | None => let '(w', (n, r)) := wwrite (under t) p in
            ({| under := w'; eterr := r |}, (n, r))
  end.
Definition et_error (t : et) : option E := eterr t.

Fixpoint et_writes (t : et) (ps : list str) : et * list (nat * option E) :=
  match ps with
  | [] => (t, [])
  | p :: ps' => let '(t1, r) := et_write t p in
                let '(t2, rs) := et_writes t1 ps' in (t2, r :: rs)
  end.
End Tracker.
Arguments under {W E}. Arguments eterr {W E}. Arguments et_new {W E}. Arguments et_write {W E}.
Arguments et_error {W E}. Arguments et_writes {W E}.

(* the faulty writer the harness uses: accepts writes until the k-th (0-based), which takes only
   [part] bytes and fails with error id [eid]; later writes fail with eid+1, eid+2, ... *)
Record fw := { fw_log : str; fw_count : nat; fw_failat : nat; fw_part : nat; fw_eid : N }.
Definition fw_write (w : fw) (p : str) : fw * (nat * option N) :=
  if Nat.ltb (fw_count w) (fw_failat w) then
    ({| fw_log := fw_log w ++ p; fw_count := S (fw_count w); fw_failat := fw_failat w; fw_part := fw_part w; fw_eid := fw_eid w |},
     (length p, None))
  else
    let n := Nat.min (fw_part w) (length p) in
    ({| fw_log := fw_log w ++ firstn n p; fw_count := S (fw_count w); fw_failat := fw_failat w; fw_part := fw_part w; fw_eid := fw_eid w |},
     (n, Some (fw_eid w + N.of_nat (fw_count w - fw_failat w))%N)).

(* ---------- generators, targets, context as data ---------- *)
Record gen := {
  gname : str;
  gfilter : list N;                 (* ids of the types its Filter accepts *)
  gnamers : option (list str);      (* names of the naming systems Namers() returns; None = nil *)
  gfiletype : str;
  gfilename : str;
  gvars : list str;
  gconsts : list str;
  ginit : str;       ginit_err : bool;
  gtype : str;       gtype_err : option N;   (* GenerateType writes gtype ++ decimal id; fails at this type id *)
  gfin : str;        gfin_err : bool;
  gimports : list str
}.
Record target := {
  tname : str; tpath : str; tdir : str;
  tfilter : list N;                 (* ids the target's Filter accepts *)
  theader : str;
  tgens : list gen
}.
Record ctx := { order : list N; namers : list str; filetypes : list str; assemble_fails : list str }.

(* events, as the recording generators log them *)
Inductive event :=
(* a Filter call: the context order the filter is shown, and the type asked about *)
| EvTFilter (seen : list N) (t : N)
| EvFilter (g : str) (seen : list N) (t : N)
| EvNamers (g : str) (order : list N)
| EvVars (g : str) (visible : list str)
| EvConsts (g : str) (visible : list str)
| EvInit (g : str) (visible : list str) (order : list N)
| EvType (g : str) (t : N)
| EvFinalize (g : str)
| EvImports (g : str).

Record file := {
  fname : str; ftype : str; fheader : str; fimports : list str;
  fvars : str; fconsts : str; fbody : str
}.

Inductive xerr :=
| XNoDir | XNoFileType (g : str) | XConflict (f g : str) | XHook (g : str) (which : N) | XUnknownType (f : str)
| XAssemble (fs : list str).

Definition memN_ (x : N) (l : list N) : bool := existsb (N.eqb x) l.
Definition nl : str := [10%N].

(* addIndentHeaderComment *)
Definition header_comment (buf : str) (text : str) : str :=
  match buf with [] => s "// " ++ text ++ nl | _ => buf ++ nl ++ s "// " ++ text ++ nl end.
Definition quoted (x : str) : str := [34%N] ++ x ++ [34%N].

(* namers visible to a generator: the context's, overridden by its own (set union, sorted) *)
Definition union_sorted (a b : list str) : list str :=
  sort_strs (fold_left (fun acc x => if mem_str x acc then acc else acc ++ [x]) (a ++ b) []).
(* each visible name is marked with whose naming system it is bound to: on a collision the
   generator's own wins ("=own"), every other name keeps the context's ("=ctx") *)
Definition own_mark (own : bool) (n : str) : str := n ++ s (if own then "=own" else "=ctx").
Definition visible_namers (c : ctx) (g : gen) : list str :=
  match gnamers g with
  | None => map (own_mark false) (sort_strs (namers c))
  | Some l => map (fun n => own_mark (mem_str n l) n) (union_sorted (namers c) l)
  end.

Section Itoa.
Variable itoa : N -> str.

(* executeBody on the file's body buffer (a bytes.Buffer: writes never fail) *)
Definition exec_body (g : gen) (vis : list str) (ord : list N) (body : str) : list event * str * option N :=
  let ev0 := [EvInit (gname g) vis ord] in
  let b0 := body ++ ginit g in
  if ginit_err g then (ev0, b0, Some 0%N) else
  let fix loop (ts : list N) (evs : list event) (b : str) : list event * str * option N :=
      match ts with
      | [] => let evs := evs ++ [EvFinalize (gname g)] in
              let b := b ++ gfin g in
              if gfin_err g then (evs, b, Some 2%N) else (evs, b, None)
      | t :: ts' =>
          let evs := evs ++ [EvType (gname g) t] in
          let b := b ++ gtype g ++ itoa t in
          if match gtype_err g with Some e => N.eqb e t | None => false end then (evs, b, Some 1%N)
          else loop ts' evs b
      end in
  loop ord ev0 b0.

Fixpoint find_file (n : str) (fs : list file) : option file :=
  match fs with [] => None | f :: fs' => if str_eqb (fname f) n then Some f else find_file n fs' end.
Fixpoint put_file (f : file) (fs : list file) : list file :=
  match fs with
  | [] => [f]
  | f' :: fs' => if str_eqb (fname f') (fname f) then f :: fs' else f' :: put_file f fs'
  end.

Definition lines (l : list str) : str := concat (map (fun v => v ++ nl) l).

(* one iteration of the generator loop of ExecutePackage / ExecuteTarget: the events it adds,
   and either the error it returns or the updated file table *)
Definition is_nil {T} (l : list T) : bool := match l with [] => true | _ => false end.

(* what earlier generators wrote into the file's body ends its last line before the next one
   writes (fix: commit recorded in KNOWN_FINDINGS.txt) *)
Definition ended (b : str) : str :=
  match rev b with
  | [] => b
  | c :: _ => if N.eqb c 10 then b else b ++ nl
  end.

Definition gen_step (c : ctx) (t : target) (pord : list N) (g : gen) (files : list file)
  : list event * (xerr + list file) :=
  let gord := filter (fun x => memN_ x (gfilter g)) pord in
  let vis := visible_namers c g in
  let ev0 := map (EvFilter (gname g) pord) pord ++ [EvNamers (gname g) gord] in
  if is_nil (gfiletype g) then (ev0, inl (XNoFileType (gname g))) else
  let existing := find_file (gfilename g) files in
  match match existing with
        | Some f => if negb (str_eqb (ftype f) (gfiletype g)) then Some (XConflict (fname f) (gname g)) else None
        | None => None
        end with
  | Some e => (ev0, inl e)
  | None =>
    let f := match existing with
             | Some f => f
             | None => {| fname := gfilename g; ftype := gfiletype g; fheader := theader t; fimports := [];
                          fvars := []; fconsts := []; fbody := [] |}
             end in
    let fv := if is_nil (gvars g) then fvars f
              else header_comment (fvars f) (s "Package-wide variables from generator " ++ quoted (gname g) ++ s ".") ++ lines (gvars g) in
    let fc := if is_nil (gconsts g) then fconsts f
              else header_comment (fconsts f) (s "Package-wide consts from generator " ++ quoted (gname g) ++ s ".") ++ lines (gconsts g) in
    let '(bevs, body, herr) := exec_body g vis gord (ended (fbody f)) in
    let ev1 := ev0 ++ [EvVars (gname g) vis; EvConsts (gname g) vis] ++ bevs in
    match herr with
    | Some which => (ev1, inl (XHook (gname g) which))
    | None =>
      (ev1 ++ [EvImports (gname g)],
       inr (put_file {| fname := fname f; ftype := ftype f; fheader := fheader f;
                        fimports := union_sorted (fimports f) (gimports g);
                        fvars := fv; fconsts := fc; fbody := body |} files))
    end
  end.

Fixpoint gen_loop (c : ctx) (t : target) (pord : list N) (gs : list gen) (evs : list event) (files : list file)
  : list event * list file * option xerr :=
  match gs with
  | [] => (evs, files, None)
  | g :: gs' =>
      match gen_step c t pord g files with
      | (ev, inl e) => (evs ++ ev, files, Some e)
      | (ev, inr files') => gen_loop c t pord gs' (evs ++ ev) files'
      end
  end.

Record tresult := { r_events : list event; r_files : option (list file); r_err : option xerr }.

(* one target: files are handed to the file type only if no generator failed and every file's type
   is registered: an unregistered file type is found before the first file is written (fix: commit
   recorded in KNOWN_FINDINGS.txt; before it, which files were written first depended on map order) *)
Definition exec_target (c : ctx) (t : target) : tresult :=
  match tdir t with
  | [] => {| r_events := []; r_files := Some []; r_err := Some XNoDir |}
  | _ =>
    let evs := map (EvTFilter (order c)) (order c) in
    let pord := filter (fun x => memN_ x (tfilter t)) (order c) in
    let '(evs, files, err) := gen_loop c t pord (tgens t) evs [] in
    match err with
    | Some e => {| r_events := evs; r_files := Some []; r_err := Some e |}
    | None =>
      match find (fun f => negb (mem_str (ftype f) (filetypes c))) files with
      | Some f => {| r_events := evs; r_files := Some []; r_err := Some (XUnknownType (fname f)) |}
      | None =>
        let bad := filter (fun n => mem_str n (assemble_fails c)) (map fname files) in
        {| r_events := evs; r_files := Some files;
           r_err := match bad with [] => None | _ => Some (XAssemble (sort_strs bad)) end |}
      end
    end
  end.

Definition exec_targets (c : ctx) (ts : list target) : list tresult * bool :=
  let rs := map (exec_target c) ts in
  (rs, existsb (fun r => match r_err r with Some _ => true | None => false end) rs).

(* executeBody over an ErrorTracker on the faulty writer (the ExecuteBody hook): every hook
   writes its chunk, ignoring the result, and returns its own error if told to *)
Definition exec_body_faulty (g : gen) (ord : list N) (w : fw) : fw * option (N + N) :=
  let t0 := et_new w in
  let '(t1, _) := et_write fw_write t0 (ginit g) in
  if ginit_err g then (under t1, Some (inl 0%N)) else
  let fix loop (ts : list N) (t : et fw N) : fw * option (N + N) :=
      match ts with
      | [] => let '(t', _) := et_write fw_write t (gfin g) in
              if gfin_err g then (under t', Some (inl 2%N))
              else (under t', match et_error t' with Some e => Some (inr e) | None => None end)
      | x :: ts' =>
          let '(t', _) := et_write fw_write t (gtype g ++ itoa x) in
          if match gtype_err g with Some e => N.eqb e x | None => false end then (under t', Some (inl 1%N))
          else loop ts' t'
      end in
  loop ord t1.
End Itoa.

(* ---------- sexp plumbing ---------- *)
Require Import Gengo.Model.Tracker.   (* itoa_dec *)

Definition dnums : dec (list N) := dlist dnum.
Definition d_gen : dec gen := fun x =>
  match x with
  | L [A n; fl; nm; A ft; A fn; vs; cs; A gi; ie; A gt; te; A gf; fe; im] =>
      match dnums fl, dopt (dlist dstr) nm, dlist dstr vs, dlist dstr cs, dbool ie, dopt dnum te, dbool fe, dlist dstr im with
      | Some fl, Some nm, Some vs, Some cs, Some ie, Some te, Some fe, Some im =>
          Some {| gname := n; gfilter := fl; gnamers := nm; gfiletype := ft; gfilename := fn; gvars := vs; gconsts := cs;
                  ginit := gi; ginit_err := ie; gtype := gt; gtype_err := te; gfin := gf; gfin_err := fe; gimports := im |}
      | _, _, _, _, _, _, _, _ => None end
  | _ => None end.
Definition d_target : dec target := fun x =>
  match x with
  | L [A n; A p; A d; fl; A h; gs] =>
      match dnums fl, dlist d_gen gs with
      | Some fl, Some gs => Some {| tname := n; tpath := p; tdir := d; tfilter := fl; theader := h; tgens := gs |}
      | _, _ => None end
  | _ => None end.
Definition d_ctx : dec ctx := fun x =>
  match x with
  | L [o; nm; ft; af] =>
      match dnums o, dlist dstr nm, dlist dstr ft, dlist dstr af with
      | Some o, Some nm, Some ft, Some af => Some {| order := o; namers := nm; filetypes := ft; assemble_fails := af |}
      | _, _, _, _ => None end
  | _ => None end.

Definition e_event (e : event) : sexp :=
  match e with
  | EvTFilter o t => etag "tfilter" [elist enum o; enum t]
  | EvFilter g o t => etag "filter" [estr g; elist enum o; enum t]
  | EvNamers g o => etag "namers" [estr g; elist enum o]
  | EvVars g v => etag "vars" [estr g; elist estr v]
  | EvConsts g v => etag "consts" [estr g; elist estr v]
  | EvInit g v o => etag "init" [estr g; elist estr v; elist enum o]
  | EvType g t => etag "type" [estr g; enum t]
  | EvFinalize g => etag "finalize" [estr g]
  | EvImports g => etag "imports" [estr g]
  end.
Definition e_file (f : file) : sexp :=
  L [estr (fname f); estr (ftype f); estr (fheader f); elist estr (fimports f); estr (fvars f); estr (fconsts f); estr (fbody f)].
Definition e_xerr (e : xerr) : sexp :=
  match e with
  | XNoDir => etag "no-dir" []
  | XNoFileType g => etag "no-filetype" [estr g]
  | XConflict f g => etag "conflict" [estr f; estr g]
  | XHook g w => etag "hook" [estr g; enum w]
  | XUnknownType f => etag "unknown-filetype" []
  | XAssemble fs => etag "assemble" [elist estr fs]
  end.
Definition sort_files (fs : list file) : list file :=
  map snd (sort_by_key (map (fun f => (fname f, f)) fs)).
Definition e_tresult (r : tresult) : sexp :=
  L [elist e_event (r_events r);
     match r_files r with Some fs => elist e_file (sort_files fs) | None => etag "unspecified" [] end;
     eopt e_xerr (r_err r)].

(* input: (ctx (targets...)); output: ((tresult...) failed?) *)
Definition run_exec (inp : sexp) : option sexp :=
  match inp with
  | L [c; ts] => match d_ctx c, dlist d_target ts with
                 | Some c, Some ts => let '(rs, bad) := exec_targets itoa_dec c ts in
                                      Some (L [elist e_tresult rs; ebool bad])
                 | _, _ => None end
  | _ => None end.

(* ErrorTracker on the faulty writer: input (failat part eid (writes...)) *)
Definition e_wres (r : nat * option N) : sexp := L [enat (fst r); eopt enum (snd r)].
Definition run_tracker (inp : sexp) : option sexp :=
  match inp with
  | L [fa; pt; ei; ws] =>
      match dnat fa, dnat pt, dnum ei, dlist dstr ws with
      | Some fa, Some pt, Some ei, Some ws =>
          let w0 := {| fw_log := []; fw_count := 0; fw_failat := fa; fw_part := pt; fw_eid := ei |} in
          let '(t, rs) := et_writes fw_write (et_new w0) ws in
          Some (L [elist e_wres rs; estr (fw_log (under t)); eopt enum (et_error t)])
      | _, _, _, _ => None end
  | _ => None end.

(* executeBody over the faulty writer: input (gen (order...) failat part eid) *)
Definition run_body (inp : sexp) : option sexp :=
  match inp with
  | L [g; o; fa; pt; ei] =>
      match d_gen g, dnums o, dnat fa, dnat pt, dnum ei with
      | Some g, Some o, Some fa, Some pt, Some ei =>
          let w0 := {| fw_log := []; fw_count := 0; fw_failat := fa; fw_part := pt; fw_eid := ei |} in
          let '(w, r) := exec_body_faulty itoa_dec g o w0 in
          Some (L [estr (fw_log w);
                   match r with
                   | None => L []
                   | Some (inl h) => etag "hook" [enum h]
                   | Some (inr e) => etag "writer" [enum e]
                   end])
      | _, _, _, _, _ => None end
  | _ => None end.

(* DefaultFileType.AssembleFile: create, assemble, format; on a format failure the unformatted
   text is written and an error returned; input (create-ok text formatted?) *)
Inductive aerr := ACreate | AFormat.
Definition assemble_file (create_ok : bool) (text : str) (formatted : option str) : option aerr * option str :=
  if negb create_ok then (Some ACreate, None)
  else match formatted with Some f => (None, Some f) | None => (Some AFormat, Some text) end.
Definition run_assemble (inp : sexp) : option sexp :=
  match inp with
  | L [c; A text; f] =>
      match dbool c, dopt dstr f with
      | Some c, Some f =>
          let '(e, d) := assemble_file c text f in
          Some (L [eopt (fun e => A (s match e with ACreate => "create" | AFormat => "format" end)) e; eopt estr d])
      | _, _ => None end
  | _ => None end.
