(* Dispatch table: entry name -> model entry point.  The harness names the entry on every
   case line; the same table is used by the extracted driver and by the kernel cross-check. *)
Require Import Gengo.Base.Str Gengo.Base.Sexp.
Require Gengo.Model.Tags Gengo.Model.JsonTag Gengo.Model.Tracker Gengo.Model.Namer Gengo.Model.Order Gengo.Model.ImportBoss Gengo.Model.Exec Gengo.Model.Snippet Gengo.Model.Files Gengo.Model.Universe Gengo.Model.Comments Gengo.Model.RawNamer Gengo.Model.BuildTags Gengo.Model.Sets Gengo.Model.DeepCopy Gengo.Model.Flatten.

Definition entries : list (string * (sexp -> option sexp)) := [
  ("C08.old", Tags.run_old);
  ("C08.bool1", Tags.run_bool1);
  ("C08.bool2", Tags.run_bool2);
  ("C08.fn", Tags.run_fn);
  ("C08.tagstring", Tags.run_tagstring);
  ("C19.lookup", JsonTag.run_lookup);
  ("C19.lookup#pcheck", JsonTag.run_pcheck_lookup);
  ("C19.get", JsonTag.run_get);
  ("C19.string", JsonTag.run_string);
  ("C19.jsonrule", JsonTag.run_jsonrule);
  ("C07.run", Tracker.run_trace);
  ("C07.ops", Tracker.run_trace_ops);
  ("C07.run#pcheck", Tracker.run_pcheck_trace);
  ("C14.names", Namer.run_names);
  ("C14.plural", Namer.run_plural);
  ("C14.private", Namer.run_private);
  ("C03.order", Order.run_order);
  ("C03.order#pcheck", Order.run_pcheck_order);
  ("C03.ordertypes", Order.run_order_types);
  ("C03.ordertypes#pcheck", Order.run_pcheck_order_types);
  ("C18.verify", ImportBoss.run_verify);
  ("C18.closure", ImportBoss.run_closure);
  ("C18.allimports", ImportBoss.run_allimports);
  ("C18.incoming", ImportBoss.run_incoming);
  ("C18.history", ImportBoss.run_history);
  ("C04.exec", Exec.run_exec);
  ("C13.exec", Exec.run_exec);
  ("C13.tracker", Exec.run_tracker);
  ("C13.body", Exec.run_body);
  ("C13.assemble", Exec.run_assemble);
  ("C15.chain", Snippet.run_chain);
  ("C15.args", Snippet.run_args);
  ("C09.assemble", Files.run_assemble_parts);
  ("C09.boilerplate", Files.run_boilerplate);
  ("C09.write", Files.run_write);
  ("C10.step", Files.run_genverify);
  ("C01.universe", Universe.run_universe);
  ("C06.universe", Universe.run_universe);
  ("C11.wellformed", Universe.run_wellformed);
  ("C06.wellformed", Universe.run_wellformed);
  ("C06.lookups", Universe.run_lookups);
  ("C06.prelookups", Universe.run_prelookups);
  ("C01.prelookups", Universe.run_prelookups);
  ("C11.prelookups", Universe.run_prelookups);
  ("C20.preds", Universe.run_preds);
  ("C11.universe", Universe.run_universe);
  ("C05.comments", Comments.run_comments);
  ("C05.pkgcomments", Comments.run_pkgcomments);
  ("C02.raw", RawNamer.run_raw);
  ("C12.visible", BuildTags.run_visible);
  ("C17.ops", Sets.run_sets);
  ("C17.flatten", Flatten.run_flatten);
  ("C16.copy", DeepCopy.run_copy)
]%string.

Fixpoint find_entry (name : str) (l : list (string * (sexp -> option sexp))) : option (sexp -> option sexp) :=
  match l with
  | [] => None
  | (n, f) :: l' => if str_eqb name (s n) then Some f else find_entry name l'
  end.

Definition dispatch (name : str) (inp : sexp) : option sexp :=
  match find_entry name entries with Some f => f inp | None => None end.

(* kernel cross-check: cases are (entry, input, expected output) *)
Definition mismatches (cases : list (str * sexp * sexp)) : list (str * sexp * sexp) :=
  filter (fun c => match c with (n, i, o) =>
            negb (match dispatch n i with Some r => sexp_eqb r o | None => false end) end) cases.
