(* C01 / C06 / C11 / C20: the parsed type universe.
     parser/parse.go, v2/parser/parse.go : walkType, convertSignature, addFunction/Variable/Constant,
        the scope walk of findTypesIn / addPkgToUniverse, tcNameToName / goNameToName
     types/types.go, v2/types/types.go   : Universe.Type/Package, Package.Type with the builtins
        table, IsPrimitive / IsAssignable / IsAnonymousStruct
   The Go type checker's view of the program is the model's INPUT: a table of type nodes keyed
   by go/types' TypeString, children referenced by TypeString (computed by the real go/types in
   the harness), plus per package its scope.  Repairs recorded in KNOWN_FINDINGS.txt are
   reflected: int8 / rune builtins, generic declarations walked from their origin. *)
Require Import Gengo.Base.Str Gengo.Base.Sexp Gengo.Base.StrOrder.

(* ---------- the type checker's view ---------- *)
(* a node is one go/types Type object (identified by a number: pointer identity); its children
   are node numbers; every node carries its TypeString *)
Inductive shape :=
| SBasic (n : str)
| SPtr (e : N) | SSlice (e : N) | SArray (n : N) (e : N) | SMap (k e : N) | SChan (e : N)
| SStruct (fs : list (str * bool * str * N))              (* name, embedded, tag, type *)
| SIface (ms : list (str * str * N))                      (* method name, Func.String(), signature *)
| SFunc (ps rs : list (str * N)) (variadic : bool) (recv : option N)
| SNamed (cls : N)                (* class of the underlying type: 0 basic/map/slice, 1 struct/interface, 2 other *)
         (under : N) (ms : list (str * str * N)) (tps : list (str * N)) (origin : option N)
| STypeParam
| SOther.

Definition prog := list (N * (str * shape)).
Fixpoint plookup (t : N) (p : prog) : option (str * shape) :=
  match p with [] => None | (k, v) :: p' => if N.eqb t k then Some v else plookup t p' end.

Definition name := (str * str)%type.                        (* types.Name: Package, Name *)
Definition name_eqb (a b : name) : bool := str_eqb (fst a) (fst b) && str_eqb (snd a) (snd b).

(* ---------- tcNameToName / goNameToName ---------- *)
Definition anon_prefixes : list str :=
  map s ["struct{"; "<-chan"; "chan<-"; "chan "; "func("; "func ("; "*"; "map["; "["]%string.
Definition DOT : N := 46. Definition LBR : N := 91.

Fixpoint index_of (c : N) (l : str) : option nat :=
  match l with [] => None | x :: l' => if N.eqb x c then Some 0 else option_map S (index_of c l') end.

Definition name_of_string (v2 : bool) (x : str) : name :=
  if existsb (fun p => has_prefix p x) anon_prefixes then ([], x) else
  let gi := if v2 then match index_of LBR x with Some i => i | None => length x end else length x in
  let parts := split_on DOT (firstn gi x) in
  match rev parts with
  | last :: (_ :: _) as before => (join [DOT] (rev before), last ++ skipn gi x)
  | _ => ([], x)
  end.

(* tcFuncNameToName: "func pkg.F(args) res";  tcVarNameToName: "var pkg.V type" / "const pkg.C ..." *)
Definition func_name_of_string (v2 : bool) (x : str) : name :=
  let x := if has_prefix (s "func ") x then skipn 5 x else x in
  name_of_string v2 (hd [] (split_on 40%N x)).
Definition var_name_of_string (v2 : bool) (x : str) : name :=
  name_of_string v2 (nth 1 (split_on 32%N x) []).

(* ---------- the universe ---------- *)
Record sig := { s_params : list (str * name); s_results : list (str * name); s_variadic : bool; s_recv : option name }.
Record entry := {
  e_name : name; e_kind : str;
  e_elem : option name; e_key : option name; e_under : option name; e_len : N;
  e_members : list (str * bool * str * name);
  e_methods : list (str * name);
  e_sig : option sig;
  e_tparams : list (str * name);
  e_const : option str
}.
Definition blank (n : name) (k : str) : entry :=
  {| e_name := n; e_kind := k; e_elem := None; e_key := None; e_under := None; e_len := 0; e_members := [];
     e_methods := []; e_sig := None; e_tparams := []; e_const := None |}.

(* the shared builtin singletons: lookup key -> the singleton's own name *)
Definition builtin_table : list (str * str) := map (fun p => (s (fst p), s (snd p)))
  [("bool","bool"); ("string","string"); ("int","int"); ("int64","int64"); ("int32","int32"); ("int16","int16");
   ("int8","int8"); ("uint","uint"); ("uint64","uint64"); ("uint32","uint32"); ("uint16","uint16"); ("uint8","byte");
   ("uintptr","uintptr"); ("byte","byte"); ("rune","int32"); ("float","float"); ("float64","float64"); ("float32","float32")]%string.
Definition builtin_of (v2 : bool) (key : str) : option (str * str) :=   (* singleton name, kind *)
  if v2 && str_eqb key (s "any") then Some (s "any", s "Interface") else
  match lookup key builtin_table with Some n => Some (n, s "Builtin") | None => None end.

(* heap: the objects by their own name; keys: Types map keys per package (key -> object) *)
Record univ := { objs : list (name * entry); tkeys : list (name * name) }.

Fixpoint nlookup {V} (k : name) (m : list (name * V)) : option V :=
  match m with [] => None | (k', v) :: m' => if name_eqb k k' then Some v else nlookup k m' end.
Fixpoint nset {V} (k : name) (v : V) (m : list (name * V)) : list (name * V) :=
  match m with
  | [] => [(k, v)]
  | (k', v') :: m' => if name_eqb k k' then (k, v) :: m' else (k', v') :: nset k v m'
  end.

(* Universe.Type(n): existing key, else builtin import (package ""), else a fresh Unknown entry *)
Definition get_or_create (v2 : bool) (u : univ) (n : name) : univ * name :=
  match nlookup n (tkeys u) with
  | Some o => (u, o)
  | None =>
      match (if str_eqb (fst n) [] then builtin_of v2 (snd n) else None) with
      | Some (bn, bk) =>
          let o := ([], bn) in
          ({| objs := match nlookup o (objs u) with Some _ => objs u | None => nset o (blank o bk) (objs u) end;
              tkeys := nset n o (tkeys u) |}, o)
      | None => ({| objs := match nlookup n (objs u) with Some _ => objs u | None => nset n (blank n []) (objs u) end;
                    tkeys := nset n n (tkeys u) |}, n)
      end
  end.
Definition kind_of (u : univ) (o : name) : str := match nlookup o (objs u) with Some e => e_kind e | None => [] end.
Definition complete (u : univ) (o : name) : bool := negb (str_eqb (kind_of u o) []).
Definition update (u : univ) (o : name) (f : entry -> entry) : univ :=
  match nlookup o (objs u) with
  | Some e => {| objs := nset o (f e) (objs u); tkeys := tkeys u |}
  | None => u
  end.
Definition set_kind (k : string) (e : entry) : entry :=
  {| e_name := e_name e; e_kind := s k; e_elem := e_elem e; e_key := e_key e; e_under := e_under e; e_len := e_len e;
     e_members := e_members e; e_methods := e_methods e; e_sig := e_sig e; e_tparams := e_tparams e; e_const := e_const e |}.

(* setters for the fields a walk fills in *)
Definition with_elem (n : name) (x : entry) : entry :=
  {| e_name := e_name x; e_kind := e_kind x; e_elem := Some n; e_key := e_key x; e_under := e_under x; e_len := e_len x;
     e_members := e_members x; e_methods := e_methods x; e_sig := e_sig x; e_tparams := e_tparams x; e_const := e_const x |}.
Definition with_key (n : name) (x : entry) : entry :=
  {| e_name := e_name x; e_kind := e_kind x; e_elem := e_elem x; e_key := Some n; e_under := e_under x; e_len := e_len x;
     e_members := e_members x; e_methods := e_methods x; e_sig := e_sig x; e_tparams := e_tparams x; e_const := e_const x |}.
Definition with_under (n : name) (x : entry) : entry :=
  {| e_name := e_name x; e_kind := e_kind x; e_elem := e_elem x; e_key := e_key x; e_under := Some n; e_len := e_len x;
     e_members := e_members x; e_methods := e_methods x; e_sig := e_sig x; e_tparams := e_tparams x; e_const := e_const x |}.
Definition with_len (l : N) (x : entry) : entry :=
  {| e_name := e_name x; e_kind := e_kind x; e_elem := e_elem x; e_key := e_key x; e_under := e_under x; e_len := l;
     e_members := e_members x; e_methods := e_methods x; e_sig := e_sig x; e_tparams := e_tparams x; e_const := e_const x |}.
Definition with_members (ms : list (str * bool * str * name)) (x : entry) : entry :=
  {| e_name := e_name x; e_kind := e_kind x; e_elem := e_elem x; e_key := e_key x; e_under := e_under x; e_len := e_len x;
     e_members := ms; e_methods := e_methods x; e_sig := e_sig x; e_tparams := e_tparams x; e_const := e_const x |}.
Definition with_methods (ms : list (str * name)) (x : entry) : entry :=
  {| e_name := e_name x; e_kind := e_kind x; e_elem := e_elem x; e_key := e_key x; e_under := e_under x; e_len := e_len x;
     e_members := e_members x; e_methods := ms; e_sig := e_sig x; e_tparams := e_tparams x; e_const := e_const x |}.
Definition with_sig (g : sig) (x : entry) : entry :=
  {| e_name := e_name x; e_kind := e_kind x; e_elem := e_elem x; e_key := e_key x; e_under := e_under x; e_len := e_len x;
     e_members := e_members x; e_methods := e_methods x; e_sig := Some g; e_tparams := e_tparams x; e_const := e_const x |}.
Definition with_tparams (tp : list (str * name)) (x : entry) : entry :=
  {| e_name := e_name x; e_kind := e_kind x; e_elem := e_elem x; e_key := e_key x; e_under := e_under x; e_len := e_len x;
     e_members := e_members x; e_methods := e_methods x; e_sig := e_sig x; e_tparams := tp; e_const := e_const x |}.

Section Walk.
Variable v2 : bool.
Variable p : prog.

Section Step.
(* [rec] is the recursive call (walkType on a smaller budget) *)
Variable rec : univ -> option name -> N -> option (univ * name).

Fixpoint walk_list (u : univ) (l : list N) : option (univ * list name) :=
  match l with
  | [] => Some (u, [])
  | x :: l' => match rec u None x with
               | Some (u1, n1) => match walk_list u1 l' with Some (u2, ns) => Some (u2, n1 :: ns) | None => None end
               | None => None end
  end.
Fixpoint walk_methods (u : univ) (ms : list (str * str * N)) : option (univ * list (str * name)) :=
  match ms with
  | [] => Some (u, [])
  | (mn, mstr, sg) :: ms' =>
      match rec u (Some (name_of_string v2 mstr)) sg with
      | Some (u1, n1) => match walk_methods u1 ms' with Some (u2, r) => Some (u2, (mn, n1) :: r) | None => None end
      | None => None end
  end.

(* create (get) the entry, stop if it is complete, mark it with its kind, then fill it *)
Definition simple (u : univ) (nm : name) (k : string) (fill : univ -> option (univ * (entry -> entry))) : option (univ * name) :=
  let '(u0, o) := get_or_create v2 u nm in
  if complete u0 o then Some (u0, o) else
  let u1 := update u0 o (set_kind k) in
  match fill u1 with
  | Some (u2, g) => Some (update u2 o g, o)
  | None => None
  end.

(* "If the underlying type didn't already add methods, add them." *)
Definition attach (r : option (univ * name)) (ms : list (str * str * N)) : option (univ * name) :=
  match r with
  | None => None
  | Some (u1, o) =>
      match nlookup o (objs u1) with
      | Some e => match e_methods e with
                  | [] => match walk_methods u1 ms with
                          | Some (u2, r) => Some (update u2 o (with_methods r), o)
                          | None => None end
                  | _ => Some (u1, o)
                  end
      | None => Some (u1, o)
      end
  end.

Definition walk_step (u : univ) (use : option name) (t : N) : option (univ * name) :=
  match plookup t p with
  | None => None
  | Some (tstr, sh) =>
    let nm := match use with Some n => n | None => name_of_string v2 tstr end in
    match sh with
    | SBasic n =>
        let '(u0, o) := get_or_create v2 u ([], n) in
        if complete u0 o then Some (u0, o) else Some (update u0 o (set_kind "Unsupported"%string), o)
    | SPtr e => simple u nm "Pointer"%string (fun u1 => match rec u1 None e with Some (u2, n) => Some (u2, with_elem n) | None => None end)
    | SSlice e => simple u nm "Slice"%string (fun u1 => match rec u1 None e with Some (u2, n) => Some (u2, with_elem n) | None => None end)
    | SChan e => simple u nm "Chan"%string (fun u1 => match rec u1 None e with Some (u2, n) => Some (u2, with_elem n) | None => None end)
    | SArray len e => simple u nm "Array"%string (fun u1 => match rec u1 None e with
                        | Some (u2, n) => Some (u2, fun x => with_len len (with_elem n x)) | None => None end)
    | SMap k e => simple u nm "Map"%string (fun u1 => match rec u1 None e with          (* Elem is walked before Key *)
                    | Some (u2, ne) => match rec u2 None k with
                                       | Some (u3, nk) => Some (u3, fun x => with_key nk (with_elem ne x))
                                       | None => None end
                    | None => None end)
    | SStruct fs => simple u nm "Struct"%string (fun u1 => match walk_list u1 (map snd fs) with
                    | Some (u2, ns) => Some (u2, with_members (map (fun fn => (fst (fst (fst (fst fn))), snd (fst (fst (fst fn))), snd (fst (fst fn)), snd fn)) (combine fs ns)))
                    | None => None end)
    | SIface ms => simple u nm "Interface"%string (fun u1 => match walk_methods u1 ms with
                    | Some (u2, r) => Some (u2, with_methods r)
                    | None => None end)
    | SFunc ps rs vr recv => simple u nm "Func"%string (fun u1 =>
                    match walk_list u1 (map snd ps) with
                    | Some (u2, pn) => match walk_list u2 (map snd rs) with
                        | Some (u3, rn) =>
                            match (match recv with
                                   | Some r => match rec u3 None r with Some (u4, n) => Some (u4, Some n) | None => None end
                                   | None => Some (u3, None) end) with
                            | Some (u4, rc) => Some (u4, with_sig {| s_params := combine (map fst ps) pn; s_results := combine (map fst rs) rn;
                                                                      s_variadic := vr; s_recv := rc |})
                            | None => None end
                        | None => None end
                    | None => None end)
    | STypeParam => Some (u, nm)        (* a fresh object that is NOT put into the universe *)
    | SOther => let '(u0, o) := get_or_create v2 u nm in
                if complete u0 o then Some (u0, o) else Some (update u0 o (set_kind "Unsupported"%string), o)
    | SNamed cls under ms tps origin =>
        let n0 := name_of_string v2 tstr in
        if N.eqb cls 0 then
          let '(u0, o) := get_or_create v2 u n0 in
          if complete u0 o then Some (u0, o) else
          let u1 := update u0 o (set_kind "Alias"%string) in
          match rec u1 None under with
          | Some (u2, nu) => attach (Some (update u2 o (with_under nu), o)) ms
          | None => None end
        else if N.eqb cls 1 && v2 then
          (* generic declarations are described from their origin, whichever use comes first *)
          let '(under', ms') := match origin with
                                | Some og => match plookup og p with
                                             | Some (_, SNamed _ u' m' _ _) => (u', m')
                                             | _ => (under, ms) end
                                | None => (under, ms) end in
          let nmg := match tps with
                     | [] => n0
                     | _ => (fst n0, hd [] (split_on LBR (snd n0)) ++ [LBR] ++ join [44%N] (map fst tps) ++ [93%N])
                     end in
          match walk_list u (map snd tps) with
          | None => None
          | Some (ut, tpn) =>
            let '(u0, o) := get_or_create v2 ut nmg in
            if complete u0 o then Some (u0, o) else
            match rec u0 (Some nmg) under' with
            | Some (u1, o1) => attach (Some (update u1 o1 (with_tparams (combine (map fst tps) tpn)), o1)) ms'
            | None => None end
          end
        else
          let '(u0, o) := get_or_create v2 u n0 in
          if complete u0 o then Some (u0, o) else
          attach (rec u0 (Some n0) under) ms
    end
  end.
End Step.

(* walkType.  None = out of fuel or a dangling node reference (excluded by the theorems) *)
Fixpoint walk (fuel : nat) (u : univ) (use : option name) (t : N) : option (univ * name) :=
  match fuel with
  | 0 => None
  | S f => walk_step (walk f) u use t
  end.
End Walk.

(* ---------- packages and the scope walk ---------- *)
Inductive obj :=
| OType (t : N)
| OFunc (ostr : str) (sg : N)                (* Func.String(), its signature type *)
| OVar (ostr : str) (ty : N)
| OConst (ostr : str) (ty : N) (value : str).
Definition obj_node (o : obj) : N := match o with OType t => t | OFunc _ sg => sg | OVar _ ty => ty | OConst _ ty _ => ty end.
Record gpkg := { g_path : str; g_name : str; g_requested : bool; g_imports : list str; g_scope : list obj }.

Record pkgrec := { pr_path : str; pr_name : str; pr_funcs : list (str * entry); pr_vars : list (str * entry); pr_consts : list (str * entry); pr_imports : list str }.
Record world := { w_u : univ; w_pkgs : list pkgrec }.

Definition get_pkg (w : world) (path : str) : world :=
  if existsb (fun r => str_eqb (pr_path r) path) (w_pkgs w) then w
  else {| w_u := w_u w; w_pkgs := w_pkgs w ++ [{| pr_path := path; pr_name := []; pr_funcs := []; pr_vars := []; pr_consts := []; pr_imports := [] |}] |}.
Definition upd_pkg (w : world) (path : str) (f : pkgrec -> pkgrec) : world :=
  {| w_u := w_u w; w_pkgs := map (fun r => if str_eqb (pr_path r) path then f r else r) (w_pkgs (get_pkg w path)) |}.

Definition decl_entry (n : name) (under : name) (c : option str) : entry :=
  {| e_name := n; e_kind := s "DeclarationOf"; e_elem := None; e_key := None; e_under := Some under; e_len := 0; e_members := [];
     e_methods := []; e_sig := None; e_tparams := []; e_const := c |}.

Section Build.
Variable v2 : bool.
Variable p : prog.
Variable fuel : nat.

Definition add_obj (w : option world) (o : obj) : option world :=
  match w with None => None | Some w =>
  match o with
  | OType t => match walk v2 p fuel (w_u w) None t with Some (u', _) => Some {| w_u := u'; w_pkgs := w_pkgs w |} | None => None end
  | OFunc ostr sg =>
      let n := func_name_of_string v2 ostr in
      match walk v2 p fuel (w_u w) None sg with
      | Some (u', un) => Some (upd_pkg {| w_u := u'; w_pkgs := w_pkgs w |} (fst n)
                                (fun r => {| pr_path := pr_path r; pr_name := pr_name r; pr_funcs := set (snd n) (decl_entry n un None) (pr_funcs r);
                                             pr_vars := pr_vars r; pr_consts := pr_consts r; pr_imports := pr_imports r |}))
      | None => None end
  | OVar ostr ty =>
      let n := var_name_of_string v2 ostr in
      match walk v2 p fuel (w_u w) None ty with
      | Some (u', un) => Some (upd_pkg {| w_u := u'; w_pkgs := w_pkgs w |} (fst n)
                                (fun r => {| pr_path := pr_path r; pr_name := pr_name r; pr_funcs := pr_funcs r;
                                             pr_vars := set (snd n) (decl_entry n un None) (pr_vars r); pr_consts := pr_consts r; pr_imports := pr_imports r |}))
      | None => None end
  | OConst ostr ty v =>
      let n := var_name_of_string v2 ostr in
      match walk v2 p fuel (w_u w) None ty with
      | Some (u', un) => Some (upd_pkg {| w_u := u'; w_pkgs := w_pkgs w |} (fst n)
                                (fun r => {| pr_path := pr_path r; pr_name := pr_name r; pr_funcs := pr_funcs r; pr_vars := pr_vars r;
                                             pr_consts := set (snd n) (decl_entry n un (Some v)) (pr_consts r); pr_imports := pr_imports r |}))
      | None => None end
  end end.

(* one requested package: name, scope in name order, imports *)
Definition add_package (w : option world) (g : gpkg) : option world :=
  match w with None => None | Some w0 =>
  let w1 := upd_pkg w0 (g_path g) (fun r => {| pr_path := pr_path r; pr_name := g_name g; pr_funcs := pr_funcs r; pr_vars := pr_vars r;
                                               pr_consts := pr_consts r; pr_imports := pr_imports r |}) in
  match fold_left add_obj (g_scope g) (Some w1) with
  | None => None
  | Some w2 =>
      let w3 := fold_left get_pkg (g_imports g) w2 in
      Some (upd_pkg w3 (g_path g) (fun r => {| pr_path := pr_path r; pr_name := pr_name r; pr_funcs := pr_funcs r; pr_vars := pr_vars r;
                                               pr_consts := pr_consts r; pr_imports := sort_strs (g_imports g) |}))
  end end.

(* the universe after loading: requested packages are scanned; v2 records every package it
   was handed (all transitive dependencies), v1 only those that a type or an import names *)
Definition build_from (u0 : univ) (pkgs : list gpkg) : option world :=
  let w0 := {| w_u := u0; w_pkgs := [] |} in
  let w0 := if v2 then fold_left (fun w g => get_pkg w (g_path g)) pkgs w0 else w0 in
  fold_left add_package (filter g_requested pkgs) (Some w0).
Definition build (pkgs : list gpkg) : option world := build_from {| objs := []; tkeys := [] |} pkgs.
End Build.

(* programs as go/types produces them: the underlying type of a defined type is an unnamed composite *)
Definition composite (sh : shape) : bool :=
  match sh with SBasic _ | SNamed _ _ _ _ _ | STypeParam => false | _ => true end.
Definition named_okb (v2 : bool) (p : prog) : bool :=
  forallb (fun nd : N * (str * shape) =>
    match snd (snd nd) with
    | SNamed cls under _ _ origin =>
        if N.eqb cls 0 then true else
        let under' := if N.eqb cls 1 && v2 then
                        match origin with
                        | Some og => match plookup og p with Some (_, SNamed _ u' _ _ _) => u' | _ => under end
                        | None => under end
                      else under in
        match plookup under' p with Some (_, sh) => composite sh | None => false end
    | _ => true
    end) p.

(* ---------- the keys a node table can give rise to; node tables that refer only to nodes they contain ---------- *)
Definition mkey (v2 : bool) (m : str * str * N) : name := name_of_string v2 (snd (fst m)).
Definition gen_name (tps : list (str * N)) (n0 : name) : name :=
  match tps with [] => n0 | _ => (fst n0, hd [] (split_on LBR (snd n0)) ++ [LBR] ++ join [44%N] (map fst tps) ++ [93%N]) end.
Definition node_keys (v2 : bool) (nd : N * (str * shape)) : list name :=
  let n0 := name_of_string v2 (fst (snd nd)) in
  match snd (snd nd) with
  | SBasic n => [([], n)]
  | SNamed _ _ ms tps _ => n0 :: gen_name tps n0 :: map (mkey v2) ms
  | SIface ms => n0 :: map (mkey v2) ms
  | _ => [n0]
  end.
Definition allkeys (v2 : bool) (p : prog) : list name := flat_map (node_keys v2) p.

Definition has (p : prog) (t : N) : bool := match plookup t p with Some _ => true | None => false end.
(* a node whose walk needs no recursion: a type parameter, a basic or unsupported type, an
   interface without methods (such as the constraint any), an empty struct *)
Definition is_tparam (p : prog) (t : N) : bool :=
  match plookup t p with
  | Some (_, STypeParam) | Some (_, SBasic _) | Some (_, SOther) | Some (_, SIface []) | Some (_, SStruct []) => true
  | _ => false end.
Definition is_func (p : prog) (t : N) : bool := match plookup t p with Some (_, SFunc _ _ _ _) => true | _ => false end.
Definition shape_ok (p : prog) (sh : shape) : bool :=
  match sh with
  | SPtr e | SSlice e | SChan e | SArray _ e => has p e
  | SMap k e => has p k && has p e
  | SStruct fs => forallb (fun f => has p (snd f)) fs
  | SIface ms => forallb (fun m => is_func p (snd m)) ms
  | SFunc ps rs _ recv => forallb (fun a => has p (snd a)) ps && forallb (fun a => has p (snd a)) rs && match recv with Some r => has p r | None => true end
  | SNamed cls under ms tps origin =>
      has p under && forallb (fun m => is_func p (snd m)) ms && forallb (fun a => is_tparam p (snd a)) tps &&
      match origin with
      | Some og => match plookup og p with
                   | Some (_, SNamed _ u' m' _ _) => has p u' && forallb (fun m => is_func p (snd m)) m'
                   | _ => true end
      | None => true end
  | _ => true
  end.
Definition prog_okb (p : prog) : bool := forallb (fun nd => shape_ok p (snd (snd nd))) p.
(* the budget walkType is run with: proved sufficient in Proofs/TerminationProofs.v *)
Definition budget (v2 : bool) (p : prog) : nat := 2 * length (allkeys v2 p) + 2.

(* every package that holds a type key also exists as a package *)
Definition all_packages (w : world) : list str :=
  sort_strs (fold_left (fun acc x => if mem_str x acc then acc else acc ++ [x])
                       (map pr_path (w_pkgs w) ++ map (fun kn => fst (fst kn)) (tkeys (w_u w))) []).

(* ---------- predicates (types.Type methods) ---------- *)
Definition is_primitive (u : univ) (o : name) : bool :=
  match nlookup o (objs u) with
  | Some e => str_eqb (e_kind e) (s "Builtin") ||
              (str_eqb (e_kind e) (s "Alias") && match e_under e with Some x => str_eqb (kind_of u x) (s "Builtin") | None => false end)
  | None => false end.
Fixpoint is_assignable (fuel : nat) (u : univ) (o : name) : option bool :=
  match fuel with
  | 0 => None
  | S f =>
    if is_primitive u o then Some true else
    match nlookup o (objs u) with
    | Some e => if str_eqb (e_kind e) (s "Struct")
                then fold_left (fun acc m => match acc with
                                             | Some true => is_assignable f u (snd m)
                                             | other => other end) (e_members e) (Some true)
                else Some false
    | None => Some false end
  end.
Fixpoint is_anonymous_struct (fuel : nat) (u : univ) (o : name) : option bool :=
  match fuel with
  | 0 => None
  | S f =>
    match nlookup o (objs u) with
    | Some e => if str_eqb (e_kind e) (s "Struct") && str_eqb (snd (e_name e)) (s "struct{}") then Some true
                else if str_eqb (e_kind e) (s "Alias") then match e_under e with Some x => is_anonymous_struct f u x | None => Some false end
                else Some false
    | None => Some false end
  end.

(* ---------- sexp plumbing ---------- *)
Definition d_str3 : dec (str * str * N) := fun x =>
  match x with L [A a; A b; A [c]] => Some (a, b, c) | _ => None end.
Definition d_field : dec (str * bool * str * N) := fun x =>
  match x with L [A n; A [e]; A tg; A [ty]] => Some (n, negb (N.eqb e 0), tg, ty) | _ => None end.
Definition d_shape : dec shape := fun x =>
  match x with
  | L (A tg :: args) =>
      if str_eqb tg (s "basic") then match args with [A n] => Some (SBasic n) | _ => None end
      else if str_eqb tg (s "ptr") then match args with [A [e]] => Some (SPtr e) | _ => None end
      else if str_eqb tg (s "slice") then match args with [A [e]] => Some (SSlice e) | _ => None end
      else if str_eqb tg (s "chan") then match args with [A [e]] => Some (SChan e) | _ => None end
      else if str_eqb tg (s "array") then match args with [A [n]; A [e]] => Some (SArray n e) | _ => None end
      else if str_eqb tg (s "map") then match args with [A [k]; A [e]] => Some (SMap k e) | _ => None end
      else if str_eqb tg (s "struct") then option_map SStruct (dall d_field args)
      else if str_eqb tg (s "iface") then option_map SIface (dall d_str3 args)
      else if str_eqb tg (s "func") then
        match args with
        | [ps; rs; v; rc] => match dlist (dpair dstr dnum) ps, dlist (dpair dstr dnum) rs, dbool v, dopt dnum rc with
                             | Some ps, Some rs, Some v, Some rc => Some (SFunc ps rs v rc)
                             | _, _, _, _ => None end
        | _ => None end
      else if str_eqb tg (s "named") then
        match args with
        | [A [c]; A [u]; ms; tps; og] => match dlist d_str3 ms, dlist (dpair dstr dnum) tps, dopt dnum og with
                                       | Some ms, Some tps, Some og => Some (SNamed c u ms tps og)
                                       | _, _, _ => None end
        | _ => None end
      else if str_eqb tg (s "typeparam") then Some STypeParam
      else if str_eqb tg (s "other") then Some SOther
      else None
  | _ => None end.
Definition d_obj : dec obj := fun x =>
  match x with
  | L [A tg; A [a]] => if str_eqb tg (s "type") then Some (OType a) else None
  | L [A tg; A a; A [b]] => if str_eqb tg (s "func") then Some (OFunc a b) else if str_eqb tg (s "var") then Some (OVar a b) else None
  | L [A tg; A a; A [b]; A c] => if str_eqb tg (s "const") then Some (OConst a b c) else None
  | _ => None end.
Definition d_gpkg : dec gpkg := fun x =>
  match x with
  | L [A p; A n; r; im; sc] =>
      match dbool r, dlist dstr im, dlist d_obj sc with
      | Some r, Some im, Some sc => Some {| g_path := p; g_name := n; g_requested := r; g_imports := im; g_scope := sc |}
      | _, _, _ => None end
  | _ => None end.

Definition e_ref (n : option name) : sexp := match n with Some (p, x) => L [A p; A x] | None => L [] end.
Definition enc_sig (sg : option sig) : sexp :=
  match sg with
  | None => L []
  | Some g => L [elist (fun pn => L [A (fst pn); e_ref (Some (snd pn))]) (s_params g);
                 elist (fun pn => L [A (fst pn); e_ref (Some (snd pn))]) (s_results g);
                 ebool (s_variadic g); e_ref (s_recv g)]
  end.
Definition e_entry_body (e : entry) : list sexp :=
  [e_ref (Some (e_name e)); A (e_kind e); e_ref (e_elem e); e_ref (e_key e); e_ref (e_under e); enum (e_len e);
   elist (fun m => L [A (fst (fst (fst m))); ebool (snd (fst (fst m))); A (snd (fst m)); e_ref (Some (snd m))]) (e_members e);
   elist (fun m => L [A (fst m); e_ref (Some (snd m))]) (sort_by_key (e_methods e));
   enc_sig (e_sig e);
   elist (fun m => L [A (fst m); e_ref (Some (snd m))]) (sort_by_key (e_tparams e));
   eopt estr (e_const e)].
Definition e_decls (l : list (str * entry)) : sexp :=
  elist (fun ke => L (A (fst ke) :: e_entry_body (snd ke))) (sort_by_key l).

Definition e_world (w : world) : sexp :=
  elist (fun path =>
    let r := match find (fun r => str_eqb (pr_path r) path) (w_pkgs w) with
             | Some r => r
             | None => {| pr_path := path; pr_name := []; pr_funcs := []; pr_vars := []; pr_consts := []; pr_imports := [] |} end in
    let types := sort_by_key (flat_map (fun kn => if str_eqb (fst (fst kn)) path
                                                   then match nlookup (snd kn) (objs (w_u w)) with
                                                        | Some e => [(snd (fst kn), e)] | None => [] end
                                                   else []) (tkeys (w_u w))) in
    L [A path; A (pr_name r); e_decls types; e_decls (pr_funcs r); e_decls (pr_vars r); e_decls (pr_consts r);
       elist estr (pr_imports r)]) (all_packages w).

(* input: (version nodes packages) *)
Definition run_universe (inp : sexp) : option sexp :=
  match inp with
  | L [A [v]; nodes; pkgs] =>
      match dlist (dpair dnum (dpair dstr d_shape)) nodes, dlist d_gpkg pkgs with
      | Some nodes, Some pkgs =>
          let fuel := budget (N.eqb v 2) nodes in
          Some (match build (N.eqb v 2) nodes fuel pkgs with
                | Some w => e_world w
                | None => etag "out-of-fuel" [] end)
      | _, _ => None end
  | _ => None end.

(* the shape hypothesis of the canonical-identity theorems, decided on the program at hand *)
Definition run_wellformed (inp : sexp) : option sexp :=
  match inp with
  | L [A [v]; nodes; pkgs] =>
      match dlist (dpair dnum (dpair dstr d_shape)) nodes, dlist d_gpkg pkgs with
      | Some nodes, Some pkgs =>
          Some (ebool (named_okb (N.eqb v 2) nodes && prog_okb nodes &&
                       forallb (fun g => forallb (fun o => has nodes (obj_node o)) (g_scope g)) pkgs))
      | _, _ => None end
  | _ => None end.

(* C20: the predicates on every Types entry of the built universe *)
Definition e_optbool (b : option bool) : sexp := match b with Some x => ebool x | None => etag "out-of-fuel" [] end.
Definition run_preds (inp : sexp) : option sexp :=
  match inp with
  | L [A [v]; nodes; pkgs] =>
      match dlist (dpair dnum (dpair dstr d_shape)) nodes, dlist d_gpkg pkgs with
      | Some nodes, Some pkgs =>
          let fuel := budget (N.eqb v 2) nodes in
          Some (match build (N.eqb v 2) nodes fuel pkgs with
                | Some w =>
                    let u := w_u w in
                    elist (fun kn => L [A (fst (fst kn)); A (snd (fst kn)); ebool (is_primitive u (snd kn));
                                        e_optbool (is_assignable fuel u (snd kn)); e_optbool (is_anonymous_struct fuel u (snd kn))])
                          (map snd (sort_by_key (map (fun kn => (fst (fst kn) ++ [0%N] ++ snd (fst kn), kn)) (tkeys u))))
                | None => etag "out-of-fuel" [] end)
      | _, _ => None end
  | _ => None end.

(* C06: Universe.Type lookups BEFORE loading into the same universe, then the load *)
Definition run_prelookups (inp : sexp) : option sexp :=
  match inp with
  | L [L [A [v]; nodes; pkgs]; pre] =>
      match dlist (dpair dnum (dpair dstr d_shape)) nodes, dlist d_gpkg pkgs, dlist (dpair dstr dstr) pre with
      | Some nodes, Some pkgs, Some pre =>
          let fuel := budget (N.eqb v 2) nodes in
          let u0 := fold_left (fun u k => fst (get_or_create (N.eqb v 2) u k)) pre {| objs := []; tkeys := [] |} in
          Some (match build_from (N.eqb v 2) nodes fuel u0 pkgs with
                | Some w => e_world w
                | None => etag "out-of-fuel" [] end)
      | _, _, _ => None end
  | _ => None end.

(* C06: a sequence of Universe.Type lookups after loading: the object each returns *)
Definition run_lookups (inp : sexp) : option sexp :=
  match inp with
  | L [L [A [v]; nodes; pkgs]; lks] =>
      match dlist (dpair dnum (dpair dstr d_shape)) nodes, dlist d_gpkg pkgs, dlist (dpair dstr dstr) lks with
      | Some nodes, Some pkgs, Some lks =>
          let fuel := budget (N.eqb v 2) nodes in
          Some (match build (N.eqb v 2) nodes fuel pkgs with
                | Some w =>
                    let '(_, out) := fold_left (fun acc k => let '(u, out) := acc in
                                                  let '(u', o) := get_or_create (N.eqb v 2) u k in
                                                  (u', out ++ [L [A (fst o); A (snd o); A (kind_of u' o)]]))
                                               lks (w_u w, []) in
                    L out
                | None => etag "out-of-fuel" [] end)
      | _, _, _ => None end
  | _ => None end.
