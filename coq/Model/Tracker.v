(* C07: the import tracker.
     namer/import_tracker.go, v2/namer/import_tracker.go : DefaultImportTracker
         (AddSymbol, AddType via AddSymbol, LocalNameOf, PathOf, ImportLines)
     generator/import_tracker.go : golangTrackerLocalName   (v1)
     v2/generator/import_tracker.go : goTrackerLocalName    (v2: also avoids the local leaf)
   as repaired by the three fix: commits recorded in KNOWN_FINDINGS.txt (keyword prefix before
   the collision check; aliases made legal identifiers; numbered fallback instead of panic). *)
Require Import Gengo.Base.Str Gengo.Base.Sexp Gengo.Base.StrOrder.

Definition keywords : list str := map s
  ["break"; "case"; "chan"; "const"; "continue"; "default"; "defer"; "else"; "fallthrough"; "for";
   "func"; "go"; "goto"; "if"; "import"; "interface"; "map"; "package"; "range"; "return";
   "select"; "struct"; "switch"; "type"; "var";
   (* no keyword, but no package can be imported under it ("init must be a func"); importName treats it
      like one (fix: commit recorded in KNOWN_FINDINGS.txt) *)
   "init"]%string.
Definition is_keyword (x : str) : bool := mem_str x keywords.

Definition USCORE : N := 95. Definition SLASH : N := 47. Definition DQUOTE : N := 34. Definition SPC : N := 32.

Section Tracker.
Variable is_letter is_digit : N -> bool.
Variable itoa : N -> str.           (* strconv.Itoa on the counter *)

Definition alnum (c : N) : bool := is_letter c || is_digit c.

(* importName: drop everything that is not a letter or digit, make the rest a legal,
   non-keyword identifier *)
Definition import_name (x : str) : str :=
  let n := filter alnum x in
  let n := match n with [] => s "pkg" | _ => n end in
  if match n with c :: _ => is_digit c | [] => false end || is_keyword n then USCORE :: n else n.

(* candidates for n = len-1 downto 0: importName (join dirs[n:]) *)
Definition candidates (path : str) : list str :=
  let dirs := split_on SLASH path in
  map (fun n => import_name (concat (skipn n dirs))) (rev (seq 0 (length dirs))).

Record tracker := { p2n : amap str; n2p : amap str; localpkg : str; ver2 : bool }.

(* filepath.Base of the local package (a valid import path, or empty) *)
Definition local_leaf (t : tracker) : str :=
  match localpkg t with [] => [46%N] | l => last (split_on SLASH l) [] end.

Definition taken (t : tracker) (name : str) : bool :=
  match lookup name (n2p t) with Some _ => true | None => false end
  || (ver2 t && str_eqb name (local_leaf t)).

Fixpoint first_free (t : tracker) (cs : list str) : option str :=
  match cs with
  | [] => None
  | c :: cs' => if taken t c then first_free t cs' else Some c
  end.

Fixpoint numbered (t : tracker) (base : str) (fuel : nat) (i : N) : option str :=
  match fuel with
  | 0 => None                                      (* unreachable: see never_panics *)
  | S f => let c := base ++ itoa i in
           if taken t c then numbered t base f (N.succ i) else Some c
  end.

Definition local_name (t : tracker) (path : str) : option str :=
  let cs := candidates path in
  match first_free t cs with
  | Some c => Some c
  | None => numbered t (last cs []) (length (n2p t) + 2) 2%N
  end.

(* AddSymbol(types.Name{Package: pkg}) *)
Definition add_symbol (t : tracker) (pkg : str) : option tracker :=
  if str_eqb (localpkg t) pkg then Some t else
  match pkg with [] => Some t | _ =>
  match lookup pkg (p2n t) with
  | Some _ => Some t
  | None => match local_name t pkg with
            | None => None
            | Some name => Some {| p2n := set pkg name (p2n t); n2p := set name pkg (n2p t);
                                   localpkg := localpkg t; ver2 := ver2 t |}
            end
  end end.

Fixpoint run (t : tracker) (ops : list str) : option tracker :=
  match ops with
  | [] => Some t
  | p :: ops' => match add_symbol t p with Some t' => run t' ops' | None => None end
  end.

Definition init (v2 : bool) (l : str) := {| p2n := []; n2p := []; localpkg := l; ver2 := v2 |}.

Definition local_name_of (t : tracker) (path : str) : str :=
  match lookup path (p2n t) with Some n => n | None => [] end.
Definition path_of (t : tracker) (name : str) : option str := lookup name (n2p t).

(* ImportLines: sort.Strings on the keys of pathToName, PrintImport each *)
Definition print_import (path name : str) : str := name ++ [SPC; DQUOTE] ++ path ++ [DQUOTE].
Definition import_lines (t : tracker) : list str :=
  map (fun p => print_import p (local_name_of t p)) (sort_strs (keys (p2n t))).

(* identifiers *)
Definition ident_start (c : N) : bool := is_letter c || N.eqb c USCORE.
Definition ident_char (c : N) : bool := alnum c || N.eqb c USCORE.
Definition is_ident (x : str) : bool :=
  match x with
  | [] => false
  | c :: r => ident_start c && forallb ident_char r && negb (str_eqb x [USCORE])
  end.
Definition valid_alias (t : tracker) (n : str) : bool :=
  is_ident n && negb (is_keyword n) && negb (ver2 t && str_eqb n (local_leaf t)).

(* ---------- observable trace and its decidable check ---------- *)
Definition dedup (l : list str) : list str :=
  fold_left (fun acc x => if mem_str x acc then acc else acc ++ [x]) l [].

Record dump := { d_names : list str; d_pathof : list (str * option str); d_lines : list str }.

Definition dump_of (t : tracker) (universe : list str) : dump :=
  let names := map (local_name_of t) universe in
  {| d_names := names;
     d_pathof := map (fun a => (a, path_of t a)) (filter (fun a => negb (str_eqb a [])) names);
     d_lines := import_lines t |}.

Fixpoint trace (t : tracker) (universe : list str) (ops : list str) : list (option dump) :=
  match ops with
  | [] => []
  | p :: ops' => match add_symbol t p with
                 | Some t' => Some (dump_of t' universe) :: trace t' universe ops'
                 | None => [None]
                 end
  end.

(* ---------- the tracker's other entry points and options ----------
   AddSymbol with a types.Name whose Path differs from its Package (the key is the Path, the alias is
   made from the Package), and AddType of a type that the tracker's IsInvalidType rejects (nothing
   is imported; unless the type is a builtin the package NAME is reserved so that no package is
   imported under it).  add_symbol is the case TSym pkg []. *)
Inductive top := TSym (pkg path : str) | TInvalid (pkg : str) (builtin : bool).
Definition top_key (pkg path : str) : str := match path with [] => pkg | _ => path end.
Definition add_op (t : tracker) (o : top) : option tracker :=
  match o with
  | TSym pkg path =>
      if str_eqb (localpkg t) pkg then Some t else
      match pkg with [] => Some t | _ =>
      match lookup (top_key pkg path) (p2n t) with
      | Some _ => Some t
      | None => match local_name t pkg with
                | None => None
                | Some name => Some {| p2n := set (top_key pkg path) name (p2n t); n2p := set name (top_key pkg path) (n2p t);
                                       localpkg := localpkg t; ver2 := ver2 t |}
                end
      end end
  | TInvalid pkg builtin =>
      if str_eqb (localpkg t) pkg then Some t else
      if builtin then Some t else
      match lookup pkg (n2p t) with
      | Some _ => Some t
      | None => Some {| p2n := p2n t; n2p := set pkg [] (n2p t); localpkg := localpkg t; ver2 := ver2 t |}
      end
  end.
Fixpoint run_ops (t : tracker) (ops : list top) : option tracker :=
  match ops with
  | [] => Some t
  | o :: ops' => match add_op t o with Some t' => run_ops t' ops' | None => None end
  end.
(* what is observed after each step: LocalNameOf of every key of the case, PathOf of every alias and
   of every extra name (the package names of the invalid types), ImportLines *)
Definition dump_ops (t : tracker) (universe extra : list str) : dump :=
  let names := map (local_name_of t) universe in
  {| d_names := names;
     d_pathof := map (fun a => (a, path_of t a)) (filter (fun a => negb (str_eqb a [])) names ++ extra);
     d_lines := import_lines t |}.
Fixpoint trace_ops (t : tracker) (universe extra : list str) (ops : list top) : list (option dump) :=
  match ops with
  | [] => []
  | o :: ops' => match add_op t o with
                 | Some t' => Some (dump_ops t' universe extra) :: trace_ops t' universe extra ops'
                 | None => [None]
                 end
  end.

(* P_check on any trace (the implementation's): the clauses of C07 *)
Definition tracked_expected (local : str) (added : list str) (p : str) : bool :=
  negb (str_eqb p local) && negb (str_eqb p []) && mem_str p added.

Fixpoint all_distinct (l : list str) : bool :=
  match l with [] => true | x :: l' => negb (mem_str x l') && all_distinct l' end.

Definition check_dump (v2 : bool) (local : str) (universe added : list str) (prev : option dump) (d : dump) : bool :=
  let t0 := init v2 local in
  let pairs := combine universe (d_names d) in
  let tracked := filter (fun pn => negb (str_eqb (snd pn) [])) pairs in
  Nat.eqb (length (d_names d)) (length universe) &&
  (* exactly the added foreign packages have a name *)
  forallb (fun pn => Bool.eqb (negb (str_eqb (snd pn) [])) (tracked_expected local added (fst pn))) pairs &&
  (* names are valid and pairwise distinct *)
  forallb (fun pn => valid_alias t0 (snd pn)) tracked &&
  all_distinct (map snd tracked) &&
  (* stable *)
  match prev with
  | None => true
  | Some pd => forallb (fun ab => str_eqb (fst ab) [] || str_eqb (fst ab) (snd ab)) (combine (d_names pd) (d_names d))
  end &&
  (* lookups mutually inverse *)
  forallb (fun pn => existsb (fun ap => str_eqb (fst ap) (snd pn) &&
                                         match snd ap with Some p => str_eqb p (fst pn) | None => false end) (d_pathof d)) tracked &&
  (* import lines: one per tracked package, sorted by path, alias "path" *)
  let sorted := sort_strs (map fst tracked) in
  let expect := map (fun p => print_import p (match find (fun pn => str_eqb (fst pn) p) tracked with
                                               | Some pn => snd pn | None => [] end)) sorted in
  (if list_eq_dec (list_eq_dec N.eq_dec) (d_lines d) expect then true else false).

Fixpoint check_trace (v2 : bool) (local : str) (universe : list str) (added ops : list str)
         (prev : option dump) (tr : list (option dump)) : bool :=
  match ops, tr with
  | [], [] => true
  | p :: ops', Some d :: tr' =>
      check_dump v2 local universe (p :: added) prev d &&
      check_trace v2 local universe (p :: added) ops' (Some d) tr'
  | _, _ => false          (* a panic, or a trace of the wrong length *)
  end.
End Tracker.

(* ---------- executable instance ---------- *)
Require Import Gengo.Model.Tags.   (* is_letter_x / is_digit_x *)

(* strconv.Itoa on naturals: the standard library's decimal conversion, rendered as code points *)
Fixpoint uint_to_str (u : Decimal.uint) : str :=
  match u with
  | Decimal.Nil => []
  | Decimal.D0 u => 48%N :: uint_to_str u | Decimal.D1 u => 49%N :: uint_to_str u
  | Decimal.D2 u => 50%N :: uint_to_str u | Decimal.D3 u => 51%N :: uint_to_str u
  | Decimal.D4 u => 52%N :: uint_to_str u | Decimal.D5 u => 53%N :: uint_to_str u
  | Decimal.D6 u => 54%N :: uint_to_str u | Decimal.D7 u => 55%N :: uint_to_str u
  | Decimal.D8 u => 56%N :: uint_to_str u | Decimal.D9 u => 57%N :: uint_to_str u
  end.
Definition itoa_dec (n : N) : str := uint_to_str (N.to_uint n).

Definition d_input : dec (bool * str * list str) :=
  fun x => match x with
           | L [v; l; ops] => match dnum v, dstr l, dlist dstr ops with
                              | Some v, Some l, Some ops => Some (N.eqb v 2, l, ops)
                              | _, _, _ => None end
           | _ => None end.

Definition e_dump (d : option dump) : sexp :=
  match d with
  | None => etag "panic" []
  | Some d => L [elist estr (d_names d);
                 elist (fun ap => L [estr (fst ap); eopt estr (snd ap)]) (d_pathof d);
                 elist estr (d_lines d)]
  end.
Definition d_dump : dec (option dump) :=
  fun x => match x with
           | L [A _] => Some None
           | L [ns; po; ls] =>
               match dlist dstr ns, dlist (dpair dstr (dopt dstr)) po, dlist dstr ls with
               | Some ns, Some po, Some ls => Some (Some {| d_names := ns; d_pathof := po; d_lines := ls |})
               | _, _, _ => None end
           | _ => None end.

Definition universe_of (local : str) (ops : list str) : list str := dedup (ops ++ [local]).

Definition run_trace (inp : sexp) : option sexp :=
  match d_input inp with
  | Some (v2, local, ops) =>
      Some (elist e_dump (trace is_letter_x is_digit_x itoa_dec (init v2 local) (universe_of local ops) ops))
  | None => None end.

Definition run_pcheck_trace (inp : sexp) : option sexp :=
  match inp with
  | L [i; o] => match d_input i, dlist d_dump o with
                | Some (v2, local, ops), Some tr =>
                    Some (ebool (check_trace is_letter_x is_digit_x v2 local (universe_of local ops) [] ops None tr))
                | _, _ => None end
  | _ => None end.

(* sequences of general operations: (v, local, ops) with op = (sym pkg path) | (invalid pkg builtin?) *)
Definition d_top : dec top := fun x =>
  match x with
  | L [A tg; A a; b] =>
      if str_eqb tg (s "sym") then match b with A bb => Some (TSym a bb) | _ => None end
      else if str_eqb tg (s "invalid") then option_map (TInvalid a) (dbool b) else None
  | _ => None end.
Definition keys_of_ops (local : str) (ops : list top) : list str :=
  dedup (flat_map (fun o => match o with TSym pkg path => [top_key pkg path] | TInvalid _ _ => [] end) ops ++ [local]).
Definition extra_of_ops (ops : list top) : list str :=
  dedup (flat_map (fun o => match o with TInvalid pkg _ => [pkg] | TSym _ _ => [] end) ops).
Definition run_trace_ops (inp : sexp) : option sexp :=
  match inp with
  | L [v; l; ops] =>
      match dnum v, dstr l, dlist d_top ops with
      | Some v, Some l, Some ops =>
          Some (elist e_dump (trace_ops is_letter_x is_digit_x itoa_dec (init (N.eqb v 2) l) (keys_of_ops l ops) (extra_of_ops ops) ops))
      | _, _, _ => None end
  | _ => None end.
