(* C17 (struct keys): types.FlattenMembers (types/flatten.go), which set-gen's lessBody uses to order
   struct keys field by field.  A type is a leaf (anything that is not a struct: its identity is a
   number) or a struct with an identity and members (name, embedded flag, type).  The Go function
   compares member types by pointer: here by identity. *)
Require Import Gengo.Base.Str Gengo.Base.Sexp.

Inductive ty := TLeaf (id : N) | TStruct (id : N) (ms : list (str * bool * ty)).
Definition mem := (str * bool * ty)%type.
Definition m_name (m : mem) : str := fst (fst m).
Definition m_emb (m : mem) : bool := snd (fst m).
Definition m_ty (m : mem) : ty := snd m.
Definition ty_id (t : ty) : N := match t with TLeaf i => i | TStruct i _ => i end.
Definition is_struct (t : ty) : bool := match t with TStruct _ _ => true | TLeaf _ => false end.
(* "m[i].Embedded && m[i].Type.Kind == Struct" *)
Definition promoted (m : mem) : bool := m_emb m && is_struct (m_ty m).

(* names: name -> (top-level?, index into normal) *)
Definition info := (bool * nat)%type.

(* the second loop, for the flattened members of ONE embedded struct: None = panic("conflicting members") *)
Fixpoint add_sub (sub : list mem) (normal : list mem) (names : amap info) : option (list mem * amap info) :=
  match sub with
  | [] => Some (normal, names)
  | e :: sub' =>
      match lookup (m_name e) names with
      | Some (top, i) =>
          if top then add_sub sub' normal names
          else match nth_error normal i with
               | Some n => if str_eqb (m_name n) (m_name e) && N.eqb (ty_id (m_ty n)) (ty_id (m_ty e))
                           then add_sub sub' normal names else None
               | None => None
               end
      | None => add_sub sub' (normal ++ [e]) (set (m_name e) (false, length normal) names)
      end
  end.

(* the first loop *)
Fixpoint split_members (ms : list mem) (normal : list mem) (names : amap info) : list mem * amap info :=
  match ms with
  | [] => (normal, names)
  | m :: ms' => if promoted m then split_members ms' normal names
                else split_members ms' (normal ++ [m]) (set (m_name m) (true, length normal) names)
  end.

Fixpoint add_subs (subs : list (option (list mem))) (normal : list mem) (names : amap info) : option (list mem) :=
  match subs with
  | [] => Some normal
  | None :: _ => None
  | Some sub :: subs' => match add_sub sub normal names with
                         | Some (normal', names') => add_subs subs' normal' names'
                         | None => None end
  end.

(* FlattenMembers of the members of a struct type; a leaf has no members *)
Fixpoint flat_ty (t : ty) : option (list mem) :=
  match t with
  | TLeaf _ => Some []
  | TStruct _ ms =>
      let subs := (fix go (l : list mem) : list (option (list mem)) :=
                     match l with
                     | [] => []
                     | m :: l' => if promoted m then flat_ty (snd m) :: go l' else go l'
                     end) ms in
      let '(normal, names) := split_members ms [] [] in
      add_subs subs normal names
  end.
Definition flatten (ms : list mem) : option (list mem) := flat_ty (TStruct 0 ms).

(* ---------- sexp plumbing ---------- *)
Fixpoint d_ty (fuel : nat) (x : sexp) : option ty :=
  match fuel with 0 => None | S f =>
  match x with
  | L [A t; A [i]] => if str_eqb t (s "leaf") then Some (TLeaf i) else None
  | L [A t; A [i]; L ms] =>
      if str_eqb t (s "struct") then
        option_map (TStruct i)
          ((fix go (l : list sexp) : option (list mem) :=
              match l with
              | [] => Some []
              | L [A n; e; tx] :: l' =>
                  match dbool e, d_ty f tx, go l' with
                  | Some e, Some t, Some r => Some ((n, e, t) :: r)
                  | _, _, _ => None end
              | _ => None
              end) ms)
      else None
  | _ => None
  end end.
Fixpoint sexp_depth (x : sexp) : nat :=
  match x with A _ => 1 | L l => S (fold_left (fun acc y => Nat.max acc (sexp_depth y)) l 0) end.

Definition e_mem (m : mem) : sexp := L [estr (m_name m); ebool (m_emb m); enum (ty_id (m_ty m))].
(* input: a struct type; output: its flattened members (name, embedded flag, type identity) or (panic) *)
Definition run_flatten (inp : sexp) : option sexp :=
  match d_ty (S (sexp_depth inp)) inp with
  | Some t => Some (match flat_ty t with Some r => elist e_mem r | None => etag "panic" [] end)
  | None => None
  end.

(* ---------- lessBody: the generated comparison of two struct keys, field by field over the flattened
   members ("if lhs.F < rhs.F { return true }; if lhs.F > rhs.F { return false }; ...; return false").
   A key is the tuple of its flattened field values. ---------- *)
Fixpoint less_body (a b : list N) : bool :=
  match a, b with
  | x :: a', y :: b' => if N.ltb x y then true else if N.ltb y x then false else less_body a' b'
  | _, _ => false
  end.
