(* C05: comment indexing and delivery.
     parser/parse.go   : addFile (endLineToCommentGroup), priorCommentLines, addCommentsToType,
                         member / method comments in walkType, the doc.go special case
     v2/parser/parse.go: absorbPkg (endLineToCommentGroup), priorCommentLines, docComment,
                         priorDetachedComment, addCommentsToType
   Comment grouping, positions and CommentGroup.Text() are go/parser's and enter as data.
   Comment groups that share a line with code ("x int // trailing", "/* leading */ x int") are not
   indexed (fix: commits recorded in KNOWN_FINDINGS.txt); g_trailing is that flag. *)
Require Import Gengo.Base.Str Gengo.Base.Sexp.

Record group := { g_start : N; g_end : N; g_trailing : bool; g_text : list str }.
Record decl := { d_key : str; d_line : N; d_second : bool }.   (* second: also gets SecondClosestCommentLines *)

(* endLineToCommentGroup, filled in file order (a later group ending on the same line wins) *)
Definition index (gs : list group) : list (N * group) :=
  fold_left (fun m g => if g_trailing g then m
                        else (g_end g, g) :: filter (fun kv => negb (N.eqb (fst kv) (g_end g))) m) gs [].
Fixpoint ilookup (l : N) (m : list (N * group)) : option group :=
  match m with [] => None | (k, g) :: m' => if N.eqb k l then Some g else ilookup l m' end.

(* priorCommentLines(pos, n): the group that ends n lines above *)
Definition prior (m : list (N * group)) (line n : N) : option group :=
  if (line <? n)%N then None else ilookup (line - n) m.

Definition text_of (g : option group) : list str := match g with Some g => g_text g | None => [] end.

(* code : the lines of the file that hold code (anything but blank lines and lines holding nothing
   but comments).  The second-closest block is separated from the doc block -- or, without one,
   from the declaration -- by one BLANK line (fix: commit recorded in KNOWN_FINDINGS.txt) *)
Definition has_code (code : list N) (l : N) : bool := existsb (N.eqb l) code.
Definition anchor (m : list (N * group)) (d : decl) : N :=
  match prior m (d_line d) 1 with None => d_line d | Some g => g_start g end.
Definition deliver (m : list (N * group)) (code : list N) (d : decl) : list str * list str :=
  let c1 := prior m (d_line d) 1 in
  let a := anchor m d in
  let c2 := if has_code code (a - 1) then None else prior m a 2 in
  (text_of c1, if d_second d then text_of c2 else []).

(* the specification, declaratively *)
Definition documents (g : group) (line : N) : Prop := g_trailing g = false /\ (g_end g + 1 = line)%N.

(* doc.go: every comment group of the file, in order, is the package's Comments *)
Definition package_comments (gs : list group) : list str := flat_map g_text gs.

(* entry: ((groups...) (decls...) (code lines...)) -> ((key lines second)...) *)
Definition d_group : dec group := fun x =>
  match x with
  | L [A [a]; A [b]; t; ls] => match dbool t, dlist dstr ls with
                               | Some t, Some ls => Some {| g_start := a; g_end := b; g_trailing := t; g_text := ls |}
                               | _, _ => None end
  | _ => None end.
Definition d_decl : dec decl := fun x =>
  match x with
  | L [A k; A [l]; sc] => match dbool sc with Some sc => Some {| d_key := k; d_line := l; d_second := sc |} | None => None end
  | _ => None end.
(* printing: gengo's splitLines gives [""] both for "no block" and for a block without text (only
   directives such as //go:generate); the harness prints the implementation's [""] as the empty
   list, and so does this side *)
Definition norm_lines (l : list str) : list str := match l with [[]] => [] | _ => l end.
Definition run_comments (inp : sexp) : option sexp :=
  match inp with
  | L [gs; ds; cl] => match dlist d_group gs, dlist d_decl ds, dlist dnum cl with
                  | Some gs, Some ds, Some cl =>
                      let m := index gs in
                      Some (elist (fun d => let '(c1, c2) := deliver m cl d in L [A (d_key d); elist estr (norm_lines c1); elist estr (norm_lines c2)]) ds)
                  | _, _, _ => None end
  | _ => None end.
Definition run_pkgcomments (inp : sexp) : option sexp :=
  match dlist d_group inp with Some gs => Some (elist estr (package_comments gs)) | None => None end.
