(* C15: generator/snippet_writer.go, v2/generator/snippet_writer.go : SnippetWriter.Do/Error/Out,
   v2 Dup/Append/Merge, Args.With/WithArgs.  text/template is an input: for every Do the
   harness records, from the REAL engine run directly with the same delimiters, functions and
   data, whether parsing fails, the sequence of Write calls execution makes, and whether
   execution then fails.  Append records its I/O error (fix: commit in KNOWN_FINDINGS.txt). *)
Require Import Gengo.Base.Str Gengo.Base.Sexp Gengo.Model.Exec.

(* what the real template engine does for one Do call *)
Record tmpl := { t_parse_err : bool; t_chunks : list str; t_exec_err : bool }.

Inductive serr := SWriter (id : N) | STmpl (op : N).     (* a writer's error / the template error of op #n *)

Record sw := { sw_w : nat; sw_err : option serr }.
Record world := { writers : list fw; sws : list sw }.

Definition get_w (wd : world) (i : nat) : option fw := nth_error (writers wd) i.
Fixpoint set_nth {T} (l : list T) (i : nat) (x : T) : list T :=
  match l, i with
  | [], _ => []
  | _ :: l', 0 => x :: l'
  | y :: l', S i' => y :: set_nth l' i' x
  end.

(* write chunks until one fails *)
Fixpoint write_chunks (w : fw) (cs : list str) : fw * option N :=
  match cs with
  | [] => (w, None)
  | c :: cs' => match fw_write w c with
                | (w', (_, Some e)) => (w', Some e)
                | (w', (_, None)) => write_chunks w' cs'
                end
  end.

Inductive op :=
| ODo (s : nat) (t : tmpl)
| OAppend (s : nat) (content : str)
| OMerge (s : nat) (content : str) (other : nat)
| ODup (s : nat) (w : nat).                (* the new writer is writers[w]; the new sw is appended *)

Definition upd_sw (wd : world) (i : nat) (x : sw) : world := {| writers := writers wd; sws := set_nth (sws wd) i x |}.
Definition upd_w (wd : world) (i : nat) (w : fw) : world := {| writers := set_nth (writers wd) i w; sws := sws wd |}.

(* io.Copy from a bytes.Buffer: one Write of everything, none if empty *)
Definition do_append (wd : world) (i : nat) (x : sw) (content : str) : world :=
  match content with
  | [] => wd
  | _ => match get_w wd (sw_w x) with
         | None => wd
         | Some w => let '(w', (_, r)) := fw_write w content in
                     let wd := upd_w wd (sw_w x) w' in
                     match r with
                     | Some e => upd_sw wd i {| sw_w := sw_w x; sw_err := Some (SWriter e) |}
                     | None => wd
                     end
         end
  end.

Definition step (n : N) (wd : world) (o : op) : world :=
  match o with
  | ODo i t =>
      match nth_error (sws wd) i with
      | None => wd
      | Some x =>
        match sw_err x with
        | Some _ => wd
        | None =>
          if t_parse_err t then upd_sw wd i {| sw_w := sw_w x; sw_err := Some (STmpl n) |} else
          match get_w wd (sw_w x) with
          | None => wd
          | Some w =>
              let '(w', r) := write_chunks w (t_chunks t) in
              let wd := upd_w wd (sw_w x) w' in
              match r with
              | Some e => upd_sw wd i {| sw_w := sw_w x; sw_err := Some (SWriter e) |}
              | None => if t_exec_err t then upd_sw wd i {| sw_w := sw_w x; sw_err := Some (STmpl n) |} else wd
              end
          end
        end
      end
  | OAppend i content =>
      match nth_error (sws wd) i with
      | None => wd
      | Some x => match sw_err x with Some _ => wd | None => do_append wd i x content end
      end
  | OMerge i content j =>
      match nth_error (sws wd) i, nth_error (sws wd) j with
      | Some x, Some y =>
          match sw_err x with
          | Some _ => wd
          | None => match sw_err y with
                    | Some e => upd_sw wd i {| sw_w := sw_w x; sw_err := Some e |}
                    | None => do_append wd i x content
                    end
          end
      | _, _ => wd
      end
  | ODup i w =>
      match nth_error (sws wd) i with
      | None => wd
      | Some x => {| writers := writers wd; sws := sws wd ++ [{| sw_w := w; sw_err := sw_err x |}] |}
      end
  end.

Fixpoint run_ops (n : N) (wd : world) (os : list op) : list world :=
  match os with
  | [] => []
  | o :: os' => let wd' := step n wd o in wd' :: run_ops (N.succ n) wd' os'
  end.

(* ---------- Args.With / WithArgs ---------- *)
Definition args := amap str.
Definition args_with_v2 (a : args) (k v : str) : args := set k v a.
Definition args_withargs_v2 (a rhs : args) : args := fold_left (fun m kv => set (fst kv) (snd kv) m) rhs a.
(* v1: the receiver's value wins on a clash *)
Definition args_with_v1 (a : args) (k v : str) : args := match lookup k a with Some _ => a | None => set k v a end.
Definition args_withargs_v1 (a rhs : args) : args :=
  fold_left (fun m kv => match lookup (fst kv) a with Some _ => m | None => set (fst kv) (snd kv) m end) rhs a.

(* ---------- entry points ---------- *)
Definition d_tmpl : dec tmpl := fun x =>
  match x with
  | L [p; cs; e] => match dbool p, dlist dstr cs, dbool e with
                    | Some p, Some cs, Some e => Some {| t_parse_err := p; t_chunks := cs; t_exec_err := e |}
                    | _, _, _ => None end
  | _ => None end.
Definition d_op : dec op := fun x =>
  match x with
  | L [A tg; a; b] =>
      if str_eqb tg (s "do") then match dnat a, d_tmpl b with Some i, Some t => Some (ODo i t) | _, _ => None end
      else if str_eqb tg (s "append") then match dnat a, dstr b with Some i, Some c => Some (OAppend i c) | _, _ => None end
      else if str_eqb tg (s "dup") then match dnat a, dnat b with Some i, Some w => Some (ODup i w) | _, _ => None end
      else None
  | L [A tg; a; b; c] =>
      if str_eqb tg (s "merge") then match dnat a, dstr b, dnat c with Some i, Some ct, Some j => Some (OMerge i ct j) | _, _, _ => None end
      else None
  | _ => None end.
(* writer: (failat part eid) *)
Definition d_fw : dec fw := fun x =>
  match x with
  | L [a; b; c] => match dnat a, dnat b, dnum c with
                   | Some a, Some b, Some c => Some {| fw_log := []; fw_count := 0; fw_failat := a; fw_part := b; fw_eid := c |}
                   | _, _, _ => None end
  | _ => None end.
Definition e_serr (e : option serr) : sexp :=
  match e with None => L [] | Some (SWriter i) => etag "writer" [enum i] | Some (STmpl n) => etag "tmpl" [enum n] end.
Definition e_world (wd : world) : sexp :=
  L [elist (fun w => estr (fw_log w)) (writers wd); elist (fun x => e_serr (sw_err x)) (sws wd)].

(* input: ((writers...) (ops...)); the first snippet writer is on writer 0 *)
Definition run_chain (inp : sexp) : option sexp :=
  match inp with
  | L [ws; os] => match dlist d_fw ws, dlist d_op os with
                  | Some ws, Some os =>
                      Some (elist e_world (run_ops 0 {| writers := ws; sws := [{| sw_w := 0; sw_err := None |}] |} os))
                  | _, _ => None end
  | _ => None end.

Definition d_args : dec args := dlist (dpair dstr dstr).
Definition e_args (a : args) : sexp := elist (epair estr estr) (sort_by_key a).
Definition run_args (inp : sexp) : option sexp :=
  match inp with
  | L [A [v]; A tg; a; b] =>
      match d_args a with
      | Some a =>
          if str_eqb tg (s "with") then
            match dpair dstr dstr b with
            | Some (k, x) => Some (e_args (if N.eqb v 2 then args_with_v2 a k x else args_with_v1 a k x))
            | None => None end
          else match d_args b with
               | Some r => Some (e_args (if N.eqb v 2 then args_withargs_v2 a r else args_withargs_v1 a r))
               | None => None end
      | None => None end
  | _ => None end.
