(* C02: namer/namer.go, v2/namer/namer.go : rawNamer.Name (with the import tracker of C07). *)
Require Import Gengo.Base.Str Gengo.Base.Sexp Gengo.Model.GType Gengo.Model.Tracker Gengo.Model.Tags.

Section Raw.
Variable v2 : bool.
Variable outpkg : str.                       (* rawNamer.pkg; also the tracker's local package *)

Notation add := (add_symbol is_letter_x is_digit_x itoa_dec).

Definition base_of (p : str) : str := last (split_on SLASH p) [].

(* a tracker threaded through the naming calls; None = no tracker given *)
Definition st := option tracker.

Definition named_name (t : st) (pkg name : str) : option (st * str) :=
  match t with
  | Some tr =>
      match add tr pkg with                  (* tracker.AddType(t) *)
      | None => None
      | Some tr' =>
          Some (Some tr', if str_eqb pkg outpkg then name else local_name_of tr' pkg ++ [46%N] ++ name)
      end
  | None => Some (None, if str_eqb pkg outpkg then name else base_of pkg ++ [46%N] ++ name)
  end.

Definition omap_st {T} (f : st -> T -> option (st * str)) : st -> list T -> option (st * list str) :=
  fix go t l := match l with
                | [] => Some (t, [])
                | x :: l' => match f t x with
                             | Some (t1, n) => match go t1 l' with Some (t2, ns) => Some (t2, n :: ns) | None => None end
                             | None => None end
                end.

Fixpoint raw_name (t : st) (ty : gt) : option (st * str) :=
  match ty with
  | GNamed pkg name => named_name t pkg name
  | GBuiltin name => Some (t, name)
  | GMap k e => match raw_name t k with
                | Some (t1, kn) => match raw_name t1 e with
                                   | Some (t2, en) => Some (t2, s "map[" ++ kn ++ s "]" ++ en) | None => None end
                | None => None end
  | GSlice e => match raw_name t e with Some (t1, n) => Some (t1, s "[]" ++ n) | None => None end
  | GArray len e => match raw_name t e with Some (t1, n) => Some (t1, s "[" ++ itoa_dec len ++ s "]" ++ n) | None => None end
  | GPointer e => match raw_name t e with Some (t1, n) => Some (t1, s "*" ++ n) | None => None end
  | GChan e => match raw_name t e with Some (t1, n) => Some (t1, s "chan " ++ n) | None => None end
  | GStruct ms =>
      match omap_st (fun t0 m => raw_name t0 (member_type m)) t ms with
      | Some (t1, ns) => Some (t1, s "struct{" ++ join (s "; ") (map (fun mn => fst (fst (fst (fst mn))) ++ s " " ++ snd mn) (combine ms ns)) ++ s "}")
      | None => None end
  | GInterface ms =>
      Some (t, match ms with
               | [] => if v2 then s "any" else s "interface{}"
               | _ => s "interface{" ++ join (s "; ") (map fst ms) ++ s "}"
               end)
  | GFunc ps rs _ =>
      match omap_st (fun t0 x => raw_name t0 x) t ps with
      | Some (t1, pn) => match omap_st (fun t0 x => raw_name t0 x) t1 rs with
          | Some (t2, rn) => Some (t2, s "func(" ++ join (s ",") pn ++ s ")" ++
                                       match rn with [] => [] | [r] => s " " ++ r | _ => s " (" ++ join (s ",") rn ++ s ")" end)
          | None => None end
      | None => None end
  | GOther k => Some (t, s "unnameable_" ++ k)
  end.
End Raw.

(* entry: (version outpkg use-tracker (types...)) -> ((names...) (import lines...)) *)
Definition run_raw (inp : sexp) : option sexp :=
  match inp with
  | L [A [v]; A outp; tr; L ts] =>
      match dbool tr, dall d_gt ts with
      | Some tr, Some ts =>
          let v2 := N.eqb v 2 in
          let t0 : st := if tr then Some (init v2 outp) else None in
          match omap_st (raw_name v2 outp) t0 ts with
          | Some (t1, ns) => Some (L [elist estr ns; match t1 with Some x => elist estr (import_lines x) | None => L [] end])
          | None => Some (etag "panic" [])
          end
      | _, _ => None end
  | _ => None end.
