(* gengo's types.Type as the namers see it: a tree whose leaves are named types and builtins.
   (A *types.Type graph is unfolded up to named types: namers never look inside a named type.) *)
Require Import Gengo.Base.Str Gengo.Base.Sexp.

Inductive gt :=
| GNamed (pkg name : str)                      (* Name.Package <> "" *)
| GBuiltin (name : str)                        (* package "", Kind Builtin *)
| GMap (k e : gt)
| GSlice (e : gt)
| GArray (n : N) (e : gt)
| GPointer (e : gt)
| GChan (e : gt)
| GStruct (ms : list (str * bool * str * gt))  (* member name, embedded, tags, type *)
| GInterface (ms : list (str * gt))            (* method name, its (anonymous) func type *)
| GFunc (ps rs : list gt) (variadic : bool)
| GOther (kind : str).                         (* anything else: "unnameable_<Kind>" *)

Definition member_type (m : str * bool * str * gt) : gt := snd m.

(* induction principle that reaches through the lists *)
Section GtInd.
Variable P : gt -> Prop.
Hypothesis Hnamed : forall p n, P (GNamed p n).
Hypothesis Hbuiltin : forall n, P (GBuiltin n).
Hypothesis Hmap : forall k e, P k -> P e -> P (GMap k e).
Hypothesis Hslice : forall e, P e -> P (GSlice e).
Hypothesis Harray : forall n e, P e -> P (GArray n e).
Hypothesis Hpointer : forall e, P e -> P (GPointer e).
Hypothesis Hchan : forall e, P e -> P (GChan e).
Hypothesis Hstruct : forall ms, Forall (fun m => P (member_type m)) ms -> P (GStruct ms).
Hypothesis Hiface : forall ms, Forall (fun m => P (snd m)) ms -> P (GInterface ms).
Hypothesis Hfunc : forall ps rs v, Forall P ps -> Forall P rs -> P (GFunc ps rs v).
Hypothesis Hother : forall k, P (GOther k).

Fixpoint gt_ind' (t : gt) : P t :=
  match t with
  | GNamed p n => Hnamed p n
  | GBuiltin n => Hbuiltin n
  | GMap k e => Hmap k e (gt_ind' k) (gt_ind' e)
  | GSlice e => Hslice e (gt_ind' e)
  | GArray n e => Harray n e (gt_ind' e)
  | GPointer e => Hpointer e (gt_ind' e)
  | GChan e => Hchan e (gt_ind' e)
  | GStruct ms => Hstruct ms ((fix go (l : list (str * bool * str * gt)) : Forall (fun m => P (member_type m)) l :=
                                match l with [] => Forall_nil _ | m :: l' => Forall_cons m (gt_ind' (snd m)) (go l') end) ms)
  | GInterface ms => Hiface ms ((fix go (l : list (str * gt)) : Forall (fun m => P (snd m)) l :=
                                match l with [] => Forall_nil _ | m :: l' => Forall_cons m (gt_ind' (snd m)) (go l') end) ms)
  | GFunc ps rs v => Hfunc ps rs v
        ((fix go (l : list gt) : Forall P l := match l with [] => Forall_nil _ | x :: l' => Forall_cons x (gt_ind' x) (go l') end) ps)
        ((fix go (l : list gt) : Forall P l := match l with [] => Forall_nil _ | x :: l' => Forall_cons x (gt_ind' x) (go l') end) rs)
  | GOther k => Hother k
  end.
End GtInd.

(* decoder: (named pkg name) (builtin name) (map k e) (slice e) (array n e) (pointer e) (chan e)
            (struct (name emb tags ty)...) (interface (name ty)...) (func (ps...) (rs...) variadic) (other kind) *)
Fixpoint d_gt (x : sexp) : option gt :=
  match x with
  | L (A tg :: args) =>
      let dl := (fix dl (l : list sexp) : option (list gt) :=
                   match l with [] => Some [] | y :: l' =>
                     match d_gt y, dl l' with Some a, Some b => Some (a :: b) | _, _ => None end end) in
      if str_eqb tg (s "named") then
        match args with [A p; A n] => Some (GNamed p n) | _ => None end
      else if str_eqb tg (s "builtin") then
        match args with [A n] => Some (GBuiltin n) | _ => None end
      else if str_eqb tg (s "map") then
        match args with [k; e] => match d_gt k, d_gt e with Some k, Some e => Some (GMap k e) | _, _ => None end | _ => None end
      else if str_eqb tg (s "slice") then
        match args with [e] => option_map GSlice (d_gt e) | _ => None end
      else if str_eqb tg (s "array") then
        match args with [A [n]; e] => option_map (GArray n) (d_gt e) | _ => None end
      else if str_eqb tg (s "pointer") then
        match args with [e] => option_map GPointer (d_gt e) | _ => None end
      else if str_eqb tg (s "chan") then
        match args with [e] => option_map GChan (d_gt e) | _ => None end
      else if str_eqb tg (s "struct") then
        option_map GStruct
          ((fix dm (l : list sexp) : option (list (str * bool * str * gt)) :=
              match l with
              | [] => Some []
              | L [A n; A [e]; A tags; ty] :: l' =>
                  match d_gt ty, dm l' with
                  | Some t, Some r => Some ((n, negb (N.eqb e 0), tags, t) :: r)
                  | _, _ => None end
              | _ => None end) args)
      else if str_eqb tg (s "interface") then
        option_map GInterface
          ((fix dm (l : list sexp) : option (list (str * gt)) :=
              match l with
              | [] => Some []
              | L [A n; ty] :: l' =>
                  match d_gt ty, dm l' with Some t, Some r => Some ((n, t) :: r) | _, _ => None end
              | _ => None end) args)
      else if str_eqb tg (s "func") then
        match args with
        | [L ps; L rs; A [v]] => match dl ps, dl rs with
                                 | Some ps, Some rs => Some (GFunc ps rs (negb (N.eqb v 0)))
                                 | _, _ => None end
        | _ => None end
      else if str_eqb tg (s "other") then
        match args with [A k] => Some (GOther k) | _ => None end
      else None
  | _ => None
  end.
