(* C09: assembleGolangFile (generator/execute.go), assembleGoFile (v2/generator/execute.go),
        GoBoilerplate (v2/execute.go), GeneratorArgs.LoadGoBoilerplate (args/args.go)
   C10: ExecutePackage with Context.Verify, DefaultFileType.VerifyFile / AssembleFile
        (generator/execute.go) over a filesystem modelled as a map (MkdirAll only when generating:
        fix: commit recorded in KNOWN_FINDINGS.txt) *)
Require Import Gengo.Base.Str Gengo.Base.Sexp Gengo.Base.StrOrder.

Definition QT : N := 34. Definition TAB : N := 9. Definition NL : N := 10.

(* ---------- C09: the assembled text ---------- *)
Record gofile := { a_header : str; a_pkg : str; a_imports : list str; a_vars : str; a_consts : str; a_body : str }.

Definition import_line (i : str) : str :=
  [TAB] ++ (if existsb (N.eqb QT) i then i else [QT] ++ i ++ [QT]) ++ [NL].
Definition import_block (imports : list str) : str :=
  match imports with
  | [] => []
  | _ => s "import (" ++ [NL] ++ concat (map import_line imports) ++ s ")" ++ [NL; NL]
  end.
Definition section (kw : string) (text : str) : str :=
  match text with [] => [] | _ => s kw ++ s " (" ++ [NL] ++ text ++ s ")" ++ [NL; NL] end.
Definition pre_imports (f : gofile) : str := a_header f ++ s "package " ++ a_pkg f ++ [NL; NL].
Definition post_imports (f : gofile) : str := section "var" (a_vars f) ++ section "const" (a_consts f) ++ a_body f.

(* [order]: the order in which Go happens to range over the Imports map *)
Definition assemble (f : gofile) : str := pre_imports f ++ import_block (a_imports f) ++ post_imports f.

(* boilerplate *)
Fixpoint replace_all (fuel : nat) (old new l : str) : str :=
  match fuel with
  | 0 => l
  | S f => match l with
           | [] => []
           | c :: l' => if has_prefix old l && negb (match old with [] => true | _ => false end)
                        then new ++ replace_all f old new (skipn (length old) l)
                        else c :: replace_all f old new l'
           end
  end.
Definition replace (old new l : str) : str := replace_all (S (length l)) old new l.

(* v2 GoBoilerplate(headerFile, buildTag, generatedBy): header = None when headerFile == "" *)
Definition go_boilerplate (header : option str) (build_tag gen_by year gen_name : str) : str :=
  (match build_tag with [] => [] | _ => s "//go:build !" ++ build_tag ++ [NL] ++ s "// +build !" ++ build_tag ++ [NL; NL] end) ++
  (match header with None => [] | Some b => replace (s "YEAR") year b ++ [NL] end) ++
  (match gen_by with [] => [] | _ => replace (s "GENERATOR_NAME") gen_name gen_by ++ [NL; NL] end).

(* v1 LoadGoBoilerplate *)
Definition load_go_boilerplate (header : str) (gen_by year gen_name : str) : str :=
  let b := replace (s "YEAR") year header in
  match gen_by with
  | [] => b
  | _ => b ++ (match b with [] => [] | _ => [NL] end) ++ replace (s "GENERATOR_NAME") gen_name gen_by ++ [NL; NL]
  end.

(* ---------- C10: generate / verify over a filesystem ---------- *)
Record fsys := { fs_dir : bool; fs_files : amap str }.      (* the target directory and the files in it *)
(* what a run wants to write: name -> (assembled text, formatted text if the formatter accepts it) *)
Definition wanted := list (str * (str * option str)).

Inductive ferr := FMissing (f : str) | FDiffers (f : str) | FUnformattable (f : str) | FNoDir (f : str).

Fixpoint remove_key {V} (k : str) (m : amap V) : amap V :=
  match m with [] => [] | (k', v) :: m' => if str_eqb k k' then remove_key k m' else (k', v) :: remove_key k m' end.

Definition gen_file (fs : fsys) (w : str * (str * option str)) : fsys * list ferr :=
  let '(name, (text, formatted)) := w in
  if negb (fs_dir fs) then (fs, [FNoDir name]) else
  match formatted with
  | Some f => ({| fs_dir := true; fs_files := set name f (fs_files fs) |}, [])
  | None => ({| fs_dir := true; fs_files := set name text (fs_files fs) |}, [FUnformattable name])
  end.

Definition verify_file (fs : fsys) (w : str * (str * option str)) : list ferr :=
  let '(name, (text, formatted)) := w in
  match formatted with
  | None => [FUnformattable name]
  | Some f => match (if fs_dir fs then lookup name (fs_files fs) else None) with
              | None => [FMissing name]
              | Some existing => if str_eqb f existing then [] else [FDiffers name]
              end
  end.

(* ExecutePackage: generating first makes the directory; verifying touches nothing *)
Definition run_generate (fs : fsys) (ws : wanted) : fsys * list ferr :=
  fold_left (fun acc w => let '(fs, errs) := acc in let '(fs', e) := gen_file fs w in (fs', errs ++ e))
            ws ({| fs_dir := true; fs_files := fs_files fs |}, []).
Definition run_verify (fs : fsys) (ws : wanted) : fsys * list ferr :=
  (fs, flat_map (verify_file fs) ws).

(* ---------- C09: DefaultFileType.AssembleFile: create (truncating), write the formatted text,
   or, when the formatter rejects it, the unformatted text and an error ---------- *)
Definition assemble_file (prev : option str) (text : str) (formatted : option str) : str * bool :=
  match formatted with
  | Some f => (f, false)
  | None => (text, true)
  end.

(* ---------- entry points ---------- *)
Definition d_gofile : dec gofile := fun x =>
  match x with
  | L [A h; A p; im; A v; A c; A b] =>
      match dlist dstr im with
      | Some im => Some {| a_header := h; a_pkg := p; a_imports := im; a_vars := v; a_consts := c; a_body := b |}
      | None => None end
  | _ => None end.
(* output: (text-before-the-import-block  sorted-import-lines  text-after) for the sorted order *)
Definition run_assemble_parts (inp : sexp) : option sexp :=
  match d_gofile inp with
  | Some f => Some (L [estr (pre_imports f); elist estr (sort_strs (map import_line (a_imports f))); estr (post_imports f)])
  | None => None end.

Definition run_boilerplate (inp : sexp) : option sexp :=
  match inp with
  | L [A [v]; h; A bt; A gb; A yr; A gn] =>
      match dopt dstr h with
      | Some h => Some (estr (if N.eqb v 2 then go_boilerplate h bt gb yr gn
                              else load_go_boilerplate (match h with Some b => b | None => [] end) gb yr gn))
      | None => None end
  | _ => None end.

(* input: (text formatted-option previous-content-option); output (content-after error?) *)
Definition run_write (inp : sexp) : option sexp :=
  match inp with
  | L [A text; fm; pv] =>
      match dopt dstr fm, dopt dstr pv with
      | Some fm, Some pv => let '(c, e) := assemble_file pv text fm in Some (L [estr c; ebool e])
      | _, _ => None end
  | _ => None end.

Definition d_wanted : dec wanted := dlist (dpair dstr (dpair dstr (dopt dstr))).
Definition d_fsys : dec fsys := fun x =>
  match x with
  | L [d; fl] => match dbool d, dlist (dpair dstr dstr) fl with
                 | Some d, Some fl => Some {| fs_dir := d; fs_files := fl |}
                 | _, _ => None end
  | _ => None end.
Definition e_ferr (e : ferr) : sexp :=
  match e with
  | FMissing f => etag "missing" [estr f] | FDiffers f => etag "differs" [estr f]
  | FUnformattable f => etag "unformattable" [estr f] | FNoDir f => etag "nodir" [estr f]
  end.
Definition e_fsys (fs : fsys) : sexp := L [ebool (fs_dir fs); elist (epair estr estr) (sort_by_key (fs_files fs))].
Definition ferr_key (e : ferr) : str :=
  match e with FMissing f => f ++ s ":m" | FDiffers f => f ++ s ":d" | FUnformattable f => f ++ s ":u" | FNoDir f => f ++ s ":n" end.
Definition sort_errs (l : list ferr) : list ferr := map snd (sort_by_key (map (fun e => (ferr_key e, e)) l)).

(* input: (mode fs wanted), mode 0 = generate, 1 = verify; output (fs' (errors sorted)) *)
Definition run_genverify (inp : sexp) : option sexp :=
  match inp with
  | L [A [m]; f; w] =>
      match d_fsys f, d_wanted w with
      | Some f, Some w =>
          let '(fs', errs) := if N.eqb m 0 then run_generate f w else run_verify f w in
          Some (L [e_fsys fs'; elist e_ferr (sort_errs errs)])
      | _, _ => None end
  | _ => None end.
