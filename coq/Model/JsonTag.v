(* C19: v2/parser/tags/json.go  (LookupJSON, parse, options.Contains, JSON.String),
   with small models of reflect.StructTag.Get and of encoding/json's field-naming rule. *)
Require Import Gengo.Base.Str Gengo.Base.Sexp.

Definition QUOTE : N := 34. Definition BACKSLASH : N := 92. Definition COLON : N := 58.
Definition COMMA : N := 44. Definition SPACE : N := 32. Definition DASH : N := 45.

(* ---------- reflect.StructTag.Get ---------- *)

Inductive getres := GFound (v : str) | GNone | GUnmodelled.

Definition name_char (c : N) : bool :=
  (SPACE <? c)%N && negb (N.eqb c COLON) && negb (N.eqb c QUOTE) && negb (N.eqb c 127).

(* scan the quoted value after the opening quote: returns (body, rest-after-closing-quote),
   a backslash escapes the next character (both are kept in body) *)
Fixpoint scan_quoted (l : str) : option (str * str) :=
  match l with
  | [] => None
  | c :: l' =>
      if N.eqb c QUOTE then Some ([], l')
      else if N.eqb c BACKSLASH then
        match l' with
        | [] => None
        | d :: l'' => match scan_quoted l'' with Some (b, r) => Some (c :: d :: b, r) | None => None end
        end
      else match scan_quoted l' with Some (b, r) => Some (c :: b, r) | None => None end
  end.

Fixpoint span_name (l : str) : str * str :=
  match l with
  | c :: l' => if name_char c then let (a, b) := span_name l' in (c :: a, b) else ([], l)
  | [] => ([], [])
  end.

(* strconv.Unquote of "body" when body has no backslash: fails on a newline *)
Definition unquote_plain (body : str) : getres :=
  if existsb (N.eqb BACKSLASH) body then GUnmodelled
  else if existsb (N.eqb 10) body then GNone
  else GFound body.

Fixpoint tag_get (fuel : nat) (key : str) (tag : str) : getres :=
  match fuel with
  | 0 => GNone
  | S f =>
    let tag := trim_left (N.eqb SPACE) tag in
    match tag with
    | [] => GNone
    | _ =>
      let (name, rest) := span_name tag in
      match name, rest with
      | _ :: _, c1 :: c2 :: rest' =>
          if N.eqb c1 COLON && N.eqb c2 QUOTE then
            match scan_quoted rest' with
            | None => GNone
            | Some (body, rest'') =>
                if str_eqb key name then unquote_plain body else tag_get f key rest''
            end
          else GNone
      | _, _ => GNone
      end
    end
  end.
Definition struct_tag_get (key tag : str) : getres := tag_get (S (length tag)) key tag.

(* ---------- gengo: parse, options.Contains, LookupJSON, JSON.String ---------- *)

Record json := { jname : str; jomit : bool; jinline : bool; jomitempty : bool }.

Definition parse_tag (tag : str) : str * str :=
  match split_first COMMA tag with
  | (a, Some b) => (a, b)
  | (a, None) => (a, [])
  end.

(* the loop of options.Contains, on the remaining text *)
Fixpoint contains_loop (fuel : nat) (o : str) (w : str) : bool :=
  match fuel with
  | 0 => false
  | S f =>
    match o with
    | [] => false
    | _ => match split_first COMMA o with
           | (a, Some next) => if str_eqb a w then true else contains_loop f next w
           | (a, None) => str_eqb a w
           end
    end
  end.
Definition opt_contains (o w : str) : bool := contains_loop (S (length o)) o w.

Definition str_inline := s "inline". Definition str_omitempty := s "omitempty". Definition str_json := s "json".

Definition lookup_json_value (fname : str) (tag : str) : json :=
  if str_eqb tag [DASH] then {| jname := []; jomit := true; jinline := false; jomitempty := false |}
  else
    let (name, opts) := parse_tag tag in
    let inline := opt_contains opts str_inline in
    let omitempty := opt_contains opts str_omitempty in
    let name := if negb inline && match name with [] => true | _ => false end then fname else name in
    {| jname := name; jomit := false; jinline := inline; jomitempty := omitempty |}.

Definition lookup_json (fname tags : str) : option json :=
  match struct_tag_get str_json tags with
  | GFound v => Some (lookup_json_value fname v)
  | GNone => Some (lookup_json_value fname [])
  | GUnmodelled => None
  end.

(* JSON.String as repaired (fix: commit recorded in KNOWN_FINDINGS.txt): the omitted tag renders
   as "-", and the literal name "-" without options as "-," *)
Definition json_string (t : json) : str :=
  if jomit t then [DASH] else
  let tag := (if jinline t then [] else jname t)
             ++ (if jomitempty t then COMMA :: str_omitempty else [])
             ++ (if jinline t then COMMA :: str_inline else []) in
  if str_eqb tag [DASH] then [DASH; COMMA] else tag.

(* ---------- encoding/json's rule ---------- *)
Section JsonRule.
Variable is_letter is_digit : N -> bool.
Definition punct_ok : str := s "!#$%&()*+-./:;<=>?@[]^_{|}~ ".
Definition valid_tag_char (c : N) : bool := existsb (N.eqb c) punct_ok || is_letter c || is_digit c.
Definition is_valid_tag (name : str) : bool :=
  match name with [] => false | _ => forallb valid_tag_char name end.

(* what encoding/json does with a field named fname carrying json tag value tag:
   (omitted, key, omitempty) *)
Definition json_rule (fname tag : str) : bool * str * bool :=
  if str_eqb tag [DASH] then (true, [], false)
  else
    let (name, opts) := parse_tag tag in
    let name := if is_valid_tag name then name else fname in
    (false, name, opt_contains opts str_omitempty).

(* the tags the property quantifies over for the encoding/json comparison *)
Definition json_accepts (tag : str) : bool :=
  str_eqb tag [DASH] || match fst (parse_tag tag) with [] => true | n => is_valid_tag n end.

(* P_check: what C19 demands of a LookupJSON result for (fname, tag value) *)
Definition words (o : str) : list str := match o with [] => [] | _ => split_on COMMA o end.
Definition pcheck_lookup (fname tag : str) (r : json) : bool :=
  let '(omit, key, oe) := json_rule fname tag in
  let inline_expected := if str_eqb tag [DASH] then false else mem_str str_inline (words (snd (parse_tag tag))) in
  Bool.eqb (jinline r) inline_expected &&
  (if json_accepts tag then
     Bool.eqb (jomit r) omit && (omit || Bool.eqb (jomitempty r) oe) &&
     (omit || jinline r || str_eqb (jname r) key)
   else true).
End JsonRule.

(* ---------- entry points ---------- *)
Require Import Gengo.Model.Tags.   (* is_letter_x / is_digit_x tables *)

Definition e_json (r : json) : sexp := L [estr (jname r); ebool (jomit r); ebool (jinline r); ebool (jomitempty r)].
Definition d_json : dec json := fun x =>
  match x with
  | L [a; b; c; d] => match dstr a, dbool b, dbool c, dbool d with
                      | Some n, Some o, Some i, Some e => Some {| jname := n; jomit := o; jinline := i; jomitempty := e |}
                      | _, _, _, _ => None end
  | _ => None end.
Definition unmodelled : sexp := A (s "UNMODELLED").

Definition run_lookup (inp : sexp) : option sexp :=
  match dpair dstr dstr inp with
  | Some (fname, tags) => Some (match lookup_json fname tags with Some r => e_json r | None => unmodelled end)
  | None => None end.
Definition run_get (inp : sexp) : option sexp :=
  match dpair dstr dstr inp with
  | Some (key, tags) => Some (match struct_tag_get key tags with
                              | GFound v => L [estr v] | GNone => L [] | GUnmodelled => unmodelled end)
  | None => None end.
Definition run_string (inp : sexp) : option sexp :=
  match d_json inp with Some r => Some (estr (json_string r)) | None => None end.
Definition run_jsonrule (inp : sexp) : option sexp :=
  match dpair dstr dstr inp with
  | Some (fname, tag) => let '(o, k, e) := json_rule is_letter_x is_digit_x fname tag in
                         Some (L [ebool o; estr k; ebool e])
  | None => None end.
Definition run_pcheck_lookup (inp : sexp) : option sexp :=
  match inp with
  | L [i; o] => match dpair dstr dstr i, d_json o with
                | Some (fname, tags), Some r =>
                    Some (match struct_tag_get str_json tags with
                          | GFound v => ebool (pcheck_lookup is_letter_x is_digit_x fname v r)
                          | GNone => ebool (pcheck_lookup is_letter_x is_digit_x fname [] r)
                          | GUnmodelled => ebool true end)
                | _, _ => None end
  | _ => None end.
