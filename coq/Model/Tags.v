(* C08: comment-tag extraction.  Executable transcriptions of
     v1 types/comments.go : ExtractCommentTags, ExtractSingleBoolCommentTag
     v2 comments.go       : ExtractCommentTags, ExtractFunctionStyleCommentTags, parseTagKey,
                            parseTagArgs, ExtractSingleBoolCommentTag, Tag.String
   Go panics (slice out of range, index out of range) are explicit [Panic] outcomes. *)
Require Import Gengo.Base.Str Gengo.Base.Sexp.

Definition SP : N := 32. Definition EQ : N := 61. Definition LP : N := 40. Definition RP : N := 41.
Definition COMMA : N := 44. Definition SLASH : N := 47.

Inductive errkind := EMultiple | EAfterParen | EUnsupported | ENoClose | ENotBool.
Inductive res (T : Type) := Ok (x : T) | Err (e : errkind) | Panic.
Arguments Ok {T}. Arguments Err {T}. Arguments Panic {T}.

(* ---------- the old form (v1 and v2 are textually the same function) ---------- *)

Definition is_sp (c : N) : bool := N.eqb c SP.

(* what one line contributes, if it is considered *)
Definition parse_line (marker line : str) : option (str * str) :=
  let line := trim is_sp line in
  match line with
  | [] => None
  | _ => if has_prefix marker line then
           let (k, v) := split_first EQ (skipn (length marker) line) in
           Some (k, match v with Some v => v | None => [] end)
         else None
  end.

Fixpoint append_val {V} (k : str) (v : V) (m : amap (list V)) : amap (list V) :=
  match m with
  | [] => [(k, [v])]
  | (k', vs) :: m' => if str_eqb k k' then (k', vs ++ [v]) :: m' else (k', vs) :: append_val k v m'
  end.

Definition extract_step (marker : str) (out : amap (list str)) (line : str) : amap (list str) :=
  match parse_line marker line with
  | Some (k, v) => append_val k v out
  | None => out
  end.
Definition extract (marker : str) (lines : list str) : amap (list str) :=
  fold_left (extract_step marker) lines [].

(* values[0] on a Go slice: panics when empty *)
Definition index0 {T} (l : list T) : res T := match l with x :: _ => Ok x | [] => Panic end.

Definition str_true := s "true". Definition str_false := s "false".

Definition bool_of_value (v : str) : res bool :=
  if str_eqb v str_true then Ok true else if str_eqb v str_false then Ok false else Err ENotBool.

Definition bool_tag_v1 (marker key : str) (default : bool) (lines : list str) : res bool :=
  match lookup key (extract marker lines) with
  | None => Ok default
  | Some values => match index0 values with
                   | Ok v => bool_of_value v
                   | Err e => Err e | Panic => Panic end
  end.

(* ---------- the function-style form (v2) ---------- *)

Section FnStyle.
(* unicode.IsLetter / unicode.IsDigit: parameters of the model (instantiated below for
   execution; theorems are proved for arbitrary classifiers) *)
Variable is_letter : N -> bool.
Variable is_digit : N -> bool.

(* parseTagArgs: loop over the runes of [input] with index i *)
Fixpoint parse_args_loop (input : str) (i : nat) (rs : str) : res (option str) :=
  match rs with
  | [] => Err ENoClose
  | r :: rs' =>
      if is_letter r || is_digit r then parse_args_loop input (S i) rs'
      else if N.eqb r COMMA then Err EMultiple
      else if N.eqb r RP then
        match rs' with
        | _ :: _ => Err EAfterParen
        | [] => match i with 0 => Ok None | _ => Ok (Some (firstn i input)) end
        end
      else Err EUnsupported
  end.
Definition parse_tag_args (input : str) : res (option str) := parse_args_loop input 0 input.

(* parseTagKey: (name, args); name = [] means "not one of the requested tags" *)
Definition parse_tag_key (input : str) (names : list str) : res (str * option str) :=
  let (key, rest) := split_first LP input in
  if match names with [] => false | _ => negb (mem_str key names) end then Ok ([], None)
  else match rest with
       | None => Ok (key, None)
       | Some r => match parse_tag_args r with
                   | Ok a => Ok (key, a)
                   | Err e => Err e
                   | Panic => Panic
                   end
       end.

(* stripTrailingComment, applied to the text after the marker (as repaired by the fix: commit
   recorded in KNOWN_FINDINGS.txt): cut at the first "//", trim trailing Unicode space *)
Definition strip_trailing_comment (l : str) : str := trim_right is_space (fst (split_first2 SLASH SLASH l)).

Record tag := { tname : str; targs : option str; tvalue : str }.

Inductive line_result := LSkip | LTag (t : tag) | LErr (e : errkind) | LPanic.

Definition wants_empty_name (key : str) (names : list str) : bool :=
  match fst (split_first LP key) with
  | [] => match names with [] => true | _ => mem_str [] names end
  | _ => false
  end.

Definition parse_fn_line (marker : str) (names : list str) (line : str) : line_result :=
  let line := trim is_space line in
  match line with
  | [] => LSkip
  | _ =>
    if negb (has_prefix marker line) then LSkip else
    let rest := strip_trailing_comment (skipn (length marker) line) in
    let (key, v) := split_first EQ rest in
    let val := match v with Some v => v | None => [] end in
    match parse_tag_key key names with
    | Panic => LPanic
    | Err e => LErr e
    | Ok (name, args) =>
        match name with
        | [] => (* parseTagKey's "" means "not asked for" -- unless the tag's own name is empty and
                   that was asked for (fix: commit recorded in KNOWN_FINDINGS.txt) *)
                if wants_empty_name key names then LTag {| tname := []; targs := args; tvalue := val |} else LSkip
        | _ => LTag {| tname := name; targs := args; tvalue := val |}
        end
    end
  end.

Fixpoint fn_loop (marker : str) (names : list str) (lines : list str) (out : amap (list tag))
  : res (amap (list tag)) :=
  match lines with
  | [] => Ok out
  | l :: ls =>
      match parse_fn_line marker names l with
      | LSkip => fn_loop marker names ls out
      | LTag t => fn_loop marker names ls (append_val (tname t) t out)
      | LErr e => Err e
      | LPanic => Panic
      end
  end.
Definition fn_extract (marker : str) (names : list str) (lines : list str) := fn_loop marker names lines [].

Definition bool_tag_v2 (marker key : str) (default : bool) (lines : list str) : res bool :=
  match fn_extract marker [key] lines with
  | Err e => Err e
  | Panic => Panic
  | Ok tags =>
      match lookup key tags with
      | None => Ok default
      | Some values => match index0 values with
                       | Ok t => bool_of_value (tvalue t)
                       | Err e => Err e | Panic => Panic end
      end
  end.

(* Tag.String *)
Definition tag_string (name : str) (args : list str) : str :=
  name ++ match args with [] => [] | _ => [LP] ++ join (s ", ") args ++ [RP] end.
End FnStyle.

(* ---------- executable instance of the Unicode classifiers ----------
   ASCII rule plus the short table of non-ASCII runes the harness generator uses; the harness
   re-validates this table against Go's unicode package on every run. *)
Definition letter_table : list N := [233; 960; 20013; 1046; 223]%N.      (* é π 中 Ж ß *)
Definition digit_table : list N := [1635; 2409; 65303]%N.                 (* ٣ ३ ７ *)
Definition memN (c : N) (l : list N) : bool := existsb (N.eqb c) l.
Definition is_letter_x (c : N) : bool := is_ascii_letter c || memN c letter_table.
Definition is_digit_x (c : N) : bool := is_ascii_digit c || memN c digit_table.

(* ---------- entry points (sexp -> sexp) ---------- *)

Definition e_errkind (e : errkind) : sexp :=
  A (s match e with EMultiple => "multiple" | EAfterParen => "after-paren" | EUnsupported => "unsupported-char"
               | ENoClose => "no-close" | ENotBool => "not-bool" end).
Definition e_res {T} (e : T -> sexp) (r : res T) : sexp :=
  match r with Ok x => etag "ok" [e x] | Err k => etag "err" [e_errkind k] | Panic => etag "panic" [] end.

Definition run_old (inp : sexp) : option sexp :=
  match dpair dstr (dlist dstr) inp with
  | Some (marker, lines) => Some (elist (epair estr (elist estr)) (sort_by_key (extract marker lines)))
  | None => None
  end.

Definition d4 {P Q R T} (d1 : dec P) (d2 : dec Q) (d3 : dec R) (d4 : dec T) : dec (P * Q * R * T) :=
  fun x => match x with
           | L [a; b; c; d] => match d1 a, d2 b, d3 c, d4 d with
                               | Some p, Some q, Some r, Some t => Some (p, q, r, t) | _, _, _, _ => None end
           | _ => None end.

Definition run_bool1 (inp : sexp) : option sexp :=
  match d4 dstr dstr dbool (dlist dstr) inp with
  | Some (marker, key, d, lines) => Some (e_res ebool (bool_tag_v1 marker key d lines))
  | None => None
  end.
Definition run_bool2 (inp : sexp) : option sexp :=
  match d4 dstr dstr dbool (dlist dstr) inp with
  | Some (marker, key, d, lines) => Some (e_res ebool (bool_tag_v2 is_letter_x is_digit_x marker key d lines))
  | None => None
  end.

Definition e_tag (t : tag) : sexp := L [eopt estr (targs t); estr (tvalue t)].
Definition run_fn (inp : sexp) : option sexp :=
  match dtriple dstr (dlist dstr) (dlist dstr) inp with
  | Some (marker, names, lines) =>
      Some (e_res (fun m => elist (epair estr (elist e_tag)) (sort_by_key m))
                  (fn_extract is_letter_x is_digit_x marker names lines))
  | None => None
  end.
Definition run_tagstring (inp : sexp) : option sexp :=
  match dpair dstr (dlist dstr) inp with
  | Some (name, args) => Some (estr (tag_string name args))
  | None => None
  end.
