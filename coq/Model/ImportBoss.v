(* C18: examples/import-boss/generators/import_restrict.go (verifyRules, verifyInverseRules,
   recursiveRead/removeLastDir, dfsImports), generator/transitive_closure.go,
   generator/generator.go (IncomingImports, TransitiveIncomingImports).
   Regular expressions are data: each rule carries the set of paths its selector matches,
   computed by the real regexp engine in the harness. *)
Require Import Gengo.Base.Str Gengo.Base.Sexp Gengo.Base.StrOrder Gengo.Base.Closure Gengo.Base.Dfs Gengo.Model.Tags.

(* ---------- transitive closure ---------- *)
Definition sedge := (str * str)%type.
Definition edges_of (inm : amap (list str)) : list sedge :=
  flat_map (fun kv => map (fun t => (fst kv, t)) (snd kv)) inm.
Definition dedup (l : list str) : list str :=
  fold_left (fun acc x => if mem_str x acc then acc else acc ++ [x]) l [].
Definition imports_of (inm : amap (list str)) : list str := dedup (flat_map snd inm).

(* with explicit iteration orders for the three map ranges *)
Definition tclosure_with (ks is_ js : list str) (inm : amap (list str)) : amap (list str) :=
  let adj := warshall str str_eqb ks is_ js (edges_of inm) in
  flat_map (fun i => match filter (fun j => has str str_eqb adj (i, j)) (imports_of inm) with
                     | [] => []
                     | l => [(i, sort_strs l)]
                     end) (dedup (keys inm)).
Definition tclosure (inm : amap (list str)) : amap (list str) :=
  tclosure_with (keys inm) (keys inm) (imports_of inm) inm.

(* Context.IncomingImports: for every package, for every import: incoming[imp] += pkg *)
Definition incoming (u : list (str * list str)) : amap (list str) :=
  fold_left (fun acc pi => fold_left (fun acc imp => append_val imp (fst pi) acc) (snd pi) acc) u [].

(* importRules.Imports: dfsImports, a mark-then-recurse walk from the package's own imports
   (Base/Dfs.v); None = out of fuel, which all_imports_terminates excludes *)
Definition children_of (u : list (str * list str)) (p : str) : list str :=
  match lookup p u with Some l => l | None => [] end.
Definition node_universe (u : list (str * list str)) : list str := keys u ++ flat_map snd u.
Definition all_imports (u : list (str * list str)) (p : str) : option (list str) :=
  visit_list str str_eqb (children_of u) (S (length (node_universe u))) (children_of u p) (Some []).

(* ---------- Context: the two caches over a universe that changes (generator/generator.go) ----------
   IncomingImports / TransitiveIncomingImports fill a cache when it is empty; AddDir / AddDirectory
   empty both caches and change the universe (here: to the universe observed afterwards). *)
Record ctxt := { cu : list (str * list str); cinc : option (amap (list str)); ctr : option (amap (list str)) }.
Inductive cop := OSet (u : list (str * list str)) | OInc | OTrans.
Definition ctx_new (u : list (str * list str)) : ctxt := {| cu := u; cinc := None; ctr := None |}.
Definition ctx_incoming (c : ctxt) : ctxt * amap (list str) :=
  match cinc c with
  | Some i => (c, i)
  | None => let i := incoming (cu c) in ({| cu := cu c; cinc := Some i; ctr := ctr c |}, i)
  end.
Definition ctx_step (c : ctxt) (o : cop) : ctxt * option (amap (list str)) :=
  match o with
  | OSet u => (ctx_new u, None)
  | OInc => let (c', i) := ctx_incoming c in (c', Some i)
  | OTrans => match ctr c with
              | Some t => (c, Some t)
              | None => let (c', i) := ctx_incoming c in
                        let t := tclosure i in
                        ({| cu := cu c'; cinc := cinc c'; ctr := Some t |}, Some t)
              end
  end.
Fixpoint ctx_run (c : ctxt) (ops : list cop) : list (option (amap (list str))) :=
  match ops with
  | [] => []
  | o :: ops' => let (c', a) := ctx_step c o in a :: ctx_run c' ops'
  end.
(* the specification: every answer is computed from the universe as it is when the question is asked *)
Fixpoint ctx_spec (u : list (str * list str)) (ops : list cop) : list (option (amap (list str))) :=
  match ops with
  | [] => []
  | OSet u' :: ops' => None :: ctx_spec u' ops'
  | OInc :: ops' => Some (incoming u) :: ctx_spec u ops'
  | OTrans :: ops' => Some (tclosure (incoming u)) :: ctx_spec u ops'
  end.

(* ---------- rules ---------- *)
Record rule := { sel : list str; allowed : list str; forbidden : list str; transitive : bool }.
Definition matches (r : rule) (v : str) : bool := mem_str v (sel r).
Definition allowed_by (r : rule) (v : str) : bool := existsb (fun p => has_prefix p v) (allowed r).
Definition forbidden_by (r : rule) (v : str) : bool := existsb (fun p => has_prefix p v) (forbidden r).

Record acc := { forb : amap str; mism : list str }.

Definition record_forbidden (r : rule) (v : str) (a : acc) : acc :=
  {| forb := fold_left (fun m p => if has_prefix p v then set v p m else m) (forbidden r) (forb a); mism := mism a |}.

(* the two nested loops over files and rules for one import v (the labelled break leaves both,
   so the stack of files is the concatenation of their rules) *)
Fixpoint rules_loop (considered : rule -> bool) (v : str) (rs : list rule) (a : acc) : acc :=
  match rs with
  | [] => a
  | r :: rs' =>
      if negb (considered r) || negb (matches r v) then rules_loop considered v rs' a
      else
        let a1 := record_forbidden r v a in
        if allowed_by r v then a1
        else rules_loop considered v rs' {| forb := forb a1; mism := mism a1 ++ [v] |}
  end.

Definition verify_loop (considered : str -> rule -> bool) (rs : list rule) (imports : list str) : acc :=
  fold_left (fun a v => rules_loop (considered v) v rs a) imports {| forb := []; mism := [] |}.

Definition verify_rules (rs : list rule) (imports : list str) : acc :=
  verify_loop (fun _ _ => true) rs imports.

Definition verify_inverse (rs : list rule) (direct trans : list str) : acc :=
  verify_loop (fun v r => transitive r || mem_str v direct) rs trans.

Definition failed (a : acc) : bool := match forb a, mism a with [], [] => false | _, _ => true end.

(* the declarative semantics: first considered rule whose selector matches decides *)
Definition first_match (considered : rule -> bool) (v : str) (rs : list rule) : option rule :=
  find (fun r => considered r && matches r v) rs.
Definition ok_import (considered : rule -> bool) (v : str) (rs : list rule) : bool :=
  match first_match considered v rs with
  | None => true
  | Some r => allowed_by r v && negb (forbidden_by r v)
  end.

(* ---------- which restriction files apply: the upward directory walk ---------- *)
(* a level of the directory tree, from the package directory upwards *)
Record level (T : Type) := { dname : str; lfile : option T; gomod : bool }.
Arguments dname {T}. Arguments lfile {T}. Arguments gomod {T}.

(* recursiveRead within a tree that has a stopping directory: read the file of this level if
   present; stop after a level that holds go.mod or is named "src" *)
Fixpoint restriction_files {T} (levels : list (level T)) : list T :=
  match levels with
  | [] => []
  | l :: up =>
      (match lfile l with Some f => [f] | None => [] end) ++
      (if gomod l || str_eqb (dname l) (s "src") then [] else restriction_files up)
  end.

(* ---------- entry points ---------- *)
Definition d_rule : dec rule := fun x =>
  match x with
  | L [se; al; fo; tr] =>
      match dlist dstr se, dlist dstr al, dlist dstr fo, dbool tr with
      | Some se, Some al, Some fo, Some tr => Some {| sel := se; allowed := al; forbidden := fo; transitive := tr |}
      | _, _, _, _ => None end
  | _ => None end.
(* file: (rules inverse-rules) *)
Definition d_file : dec (list rule * list rule) := dpair (dlist d_rule) (dlist d_rule).
Definition d_level : dec (level (list rule * list rule)) := fun x =>
  match x with
  | L [A n; f; g] => match dopt d_file f, dbool g with
                     | Some f, Some g => Some {| dname := n; lfile := f; gomod := g |}
                     | _, _ => None end
  | _ => None end.
Definition d_graph : dec (list (str * list str)) := dlist (dpair dstr (dlist dstr)).

Definition e_acc (a : acc) : sexp :=
  L [elist (epair estr estr) (sort_by_key (forb a)); elist estr (sort_strs (mism a))].

(* input: (levels universe-graph pkg)  output: (ok) | (rules acc) | (inverse acc).
   The file's imports are what importRules.Imports collects: everything reachable from pkg. *)
Definition run_verify (inp : sexp) : option sexp :=
  match inp with
  | L [lv; ug; A pkg] =>
      match dlist d_level lv, d_graph ug with
      | Some lv, Some ug =>
          let files := restriction_files lv in
          match all_imports ug pkg with None => Some (etag "out-of-fuel" []) | Some imports =>
          let a := verify_rules (flat_map fst files) imports in
          if failed a then Some (etag "rules" [e_acc a]) else
          let inc := incoming ug in
          let direct := match lookup pkg inc with Some l => l | None => [] end in
          let trans := match lookup pkg (tclosure inc) with Some l => l | None => [] end in
          let b := verify_inverse (flat_map snd files) direct trans in
          if failed b then Some (etag "inverse" [e_acc b]) else Some (etag "ok" []) end
      | _, _ => None end
  | _ => None end.

(* TransitiveIncomingImports of a hand-built universe: input graph, output sorted map *)
Definition run_closure (inp : sexp) : option sexp :=
  match d_graph inp with
  | Some ug => Some (elist (epair estr (elist estr)) (sort_by_key (tclosure (incoming ug))))
  | None => None end.

Definition run_allimports (inp : sexp) : option sexp :=
  match inp with
  | L [ug; A p] => match d_graph ug with
                   | Some ug => Some (match all_imports ug p with Some l => elist estr (sort_strs l) | None => etag "out-of-fuel" [] end)
                   | None => None end
  | _ => None end.

(* IncomingImports of a universe: values and keys sorted (the harness sorts what it observed) *)
Definition sorted_map (m : amap (list str)) : sexp :=
  elist (epair estr (elist estr)) (sort_by_key (map (fun kv => (fst kv, sort_strs (snd kv))) m)).
Definition run_incoming (inp : sexp) : option sexp :=
  match d_graph inp with
  | Some ug => Some (sorted_map (incoming ug))
  | None => None end.

(* a history of questions and universe changes on one Context *)
Definition d_cop : dec cop := fun x =>
  match x with
  | L [A t; g] => if str_eqb t (s "set") then option_map OSet (d_graph g) else None
  | L [A t] => if str_eqb t (s "inc") then Some OInc else if str_eqb t (s "trans") then Some OTrans else None
  | _ => None end.
Definition run_history (inp : sexp) : option sexp :=
  match inp with
  | L [g0; ops] =>
    match d_graph g0, dlist d_cop ops with
    | Some u0, Some ops => Some (elist (eopt sorted_map) (ctx_run (ctx_new u0) ops))
    | _, _ => None end
  | _ => None end.
