(* C16: what the code emitted by examples/deepcopy-gen/generators/deepcopy.go does to a value.
     generateFor / doBuiltin / doMap / doSlice / doStruct / doPointer decide, per kind of the
     (underlying) type of a slot -- a struct field, slice element, map value or pointee -- between
       * plain assignment (builtins, types.Type.IsAssignable structs, and ARRAY FIELDS),
       * allocate-and-recurse (pointers, slices, maps),
       * calling DeepCopyInto / DeepCopy of a struct type (generated: the same rules, field by
         field; hand-written: whatever that method does), DeepCopy<Iface>() of an interface value.
   Values are trees in which every pointer / slice / map node carries the identity of its storage
   (an id); a value built from fresh allocations has pairwise distinct ids.  Copying allocates
   fresh ids from a counter; plain assignment keeps the ids, i.e. shares the storage. *)
Require Import Gengo.Base.Str Gengo.Base.Sexp.

Inductive dty :=
| TScalar
| TPtr (e : dty) | TSlice (e : dty) | TMap (e : dty)      (* map keys are assignable scalars *)
| TArray (e : dty)
| TNamed (id : N)
| TIface.                                                  (* a named interface with DeepCopy<Name>() *)

Inductive decl :=
| DStruct (hand : bool) (fs : list dty)     (* hand: DeepCopy/DeepCopyInto written by hand *)
| DDef (under : dty).                       (* type L []T, type M map[K]T *)
Definition decls := list (N * decl).
Fixpoint dlookup (id : N) (D : decls) : option decl :=
  match D with [] => None | (k, d) :: D' => if N.eqb id k then Some d else dlookup id D' end.

(* the type with defined-type chains unfolded *)
Inductive rty := RScalar | RPtr (e : dty) | RSlice (e : dty) | RMap (e : dty) | RArray (e : dty)
               | RStruct (hand : bool) (fs : list dty) | RIface | RBad.
Fixpoint resolve (D : decls) (fuel : nat) (t : dty) : rty :=
  match t with
  | TScalar => RScalar | TPtr e => RPtr e | TSlice e => RSlice e | TMap e => RMap e | TArray e => RArray e
  | TIface => RIface
  | TNamed id =>
      match dlookup id D with
      | Some (DStruct h fs) => RStruct h fs
      | Some (DDef u) => match fuel with
                         | 0 => RBad
                         | S f => match u with
                                  | TSlice _ | TMap _ | TNamed _ => resolve D f u
                                  | _ => RBad end
                         end
      | None => RBad
      end
  end.

(* types.Type.IsAssignable on the parsed type: builtins, and structs of assignable members *)
Fixpoint assignable (D : decls) (fuel : nat) (t : dty) : bool :=
  match fuel with
  | 0 => false
  | S f => match resolve D (length D) t with
           | RScalar => true
           | RStruct _ fs => forallb (assignable D f) fs
           | _ => false
           end
  end.
Definition assignable_t (D : decls) (t : dty) : bool := assignable D (S (length D)) t.

(* ---------- values ---------- *)
(* kinds of reference node: 0 pointer, 1 slice, 2 map, 3 interface holding a pointer *)
Inductive val :=
| VS (n : N)
| VNil
| VRef (k : N) (id : N) (kvs : list (N * val))
| VRec (fs : list val).

(* a complete deep copy that gives every node a fresh id (what the hand-written methods of the
   harness and the DeepCopy<Iface> implementations do) *)
Fixpoint fresh (n : N) (v : val) : N * val :=
  match v with
  | VS _ | VNil => (n, v)
  | VRef k _ kvs =>
      let '(n1, kvs') := (fix go (n : N) (l : list (N * val)) : N * list (N * val) :=
                            match l with
                            | [] => (n, [])
                            | (key, x) :: l' => let '(n1, x') := fresh n x in
                                                let '(n2, r) := go n1 l' in (n2, (key, x') :: r)
                            end) (N.succ n) kvs in
      (n1, VRef k n kvs')
  | VRec fs =>
      let '(n1, fs') := (fix go (n : N) (l : list val) : N * list val :=
                           match l with
                           | [] => (n, [])
                           | x :: l' => let '(n1, x') := fresh n x in
                                        let '(n2, r) := go n1 l' in (n2, x' :: r)
                           end) n fs in
      (n1, VRec fs')
  end.

Section Copy.
Variable D : decls.
Notation res := (resolve D (length D)).

(* what ends up in a slot of static type t that held v: (next id, copy, calls of hand-written
   deep-copy methods) *)
Fixpoint cp (t : dty) (n : N) (v : val) {struct v} : N * val * N :=
  match res t, v with
  | RScalar, _ => (n, v, 0)
  | RArray _, _ => (n, v, 0)                                   (* out.F = in.F *)
  | RStruct true _, _ => let '(n1, v') := fresh n v in (n1, v', 1)
  | RStruct false fs, VRec vs =>
      if assignable_t D t then (n, v, 0) else
      let '(n1, vs', c) := (fix go (vs : list val) (fs : list dty) (n : N) {struct vs} : N * list val * N :=
                              match vs, fs with
                              | x :: vs', ft :: fs' => let '(n1, x', c1) := cp ft n x in
                                                       let '(n2, r, c2) := go vs' fs' n1 in (n2, x' :: r, c1 + c2)
                              | _, _ => (n, vs, 0)
                              end) vs fs n in
      (n1, VRec vs', c)
  | RPtr e, VRef k _ kvs | RSlice e, VRef k _ kvs | RMap e, VRef k _ kvs =>
      let '(n1, kvs', c) := (fix go (n : N) (l : list (N * val)) : N * list (N * val) * N :=
                               match l with
                               | [] => (n, [], 0)
                               | (key, x) :: l' => let '(n1, x', c1) := cp e n x in
                                                   let '(n2, r, c2) := go n1 l' in (n2, (key, x') :: r, c1 + c2)
                               end) (N.succ n) kvs in
      (n1, VRef k n kvs', c)
  | RIface, VRef _ _ _ => let '(n1, v') := fresh n v in (n1, v', 0)
  | _, _ => (n, v, 0)                                           (* nil stays nil *)
  end%N.
End Copy.

(* the members of a struct value, slot by slot *)
Fixpoint cp_members (D : decls) (vs : list val) (fs : list dty) (n : N) : N * list val * N :=
  match vs, fs with
  | x :: vs', ft :: fs' => let '(n1, x', c1) := cp D ft n x in
                           let '(n2, r, c2) := cp_members D vs' fs' n1 in (n2, x' :: r, (c1 + c2)%N)
  | _, _ => (n, vs, 0%N)
  end.

(* DeepCopyInto of a type itself (not of a slot of that type): for a struct without hand-written
   methods always "*out = *in" followed by the fix-up of every member -- the IsAssignable shortcut is
   taken for slots only, so members with hand-written methods are copied by those methods here *)
Definition cp_top (D : decls) (t : dty) (n : N) (v : val) : N * val * N :=
  match resolve D (length D) t, v with
  | RStruct false fs, VRec vs => let '(n1, vs', c) := cp_members D vs fs n in (n1, VRec vs', c)
  | _, _ => cp D t n v
  end.

(* ---------- observations ---------- *)
Fixpoint erase (v : val) : val :=
  match v with
  | VS _ | VNil => v
  | VRef k _ kvs => VRef k 0 (map (fun kv => (fst kv, erase (snd kv))) kvs)
  | VRec fs => VRec (map erase fs)
  end.

(* ids of the storage reachable from a value.  A zero-length slice has no storage of its own *)
Definition has_storage (k : N) (kvs : list (N * val)) : bool := negb (N.eqb k 1 && match kvs with [] => true | _ => false end).
Fixpoint ids (v : val) : list N :=
  match v with
  | VS _ | VNil => []
  | VRef k id kvs => (if has_storage k kvs then [id] else []) ++ flat_map (fun kv => ids (snd kv)) kvs
  | VRec fs => flat_map ids fs
  end.

(* paths (field index / key sequence) of the nodes of v whose id is below n *)
Fixpoint shared (n : N) (path : list N) (v : val) : list (list N) :=
  match v with
  | VS _ | VNil => []
  | VRef k id kvs => (if has_storage k kvs && N.ltb id n then [rev path] else []) ++
                     flat_map (fun kv => shared n (fst kv :: path) (snd kv)) kvs
  | VRec fs => (fix go (i : N) (l : list val) : list (list N) :=
                  match l with [] => [] | x :: l' => shared n (i :: path) x ++ go (N.succ i) l' end) 0%N fs
  end.

Fixpoint max_id (v : val) : N :=
  match v with
  | VS _ | VNil => 0
  | VRef _ id kvs => fold_left (fun m kv => N.max m (max_id (snd kv))) kvs id
  | VRec fs => fold_left (fun m x => N.max m (max_id x)) fs 0
  end%N.

(* ---------- sexp ---------- *)
Fixpoint d_dty (x : sexp) : option dty :=
  match x with
  | L [A tg] => if str_eqb tg (s "scalar") then Some TScalar else if str_eqb tg (s "iface") then Some TIface else None
  | L [A tg; A [n]] => if str_eqb tg (s "named") then Some (TNamed n) else None
  | L [A tg; e] =>
      match d_dty e with
      | Some e => if str_eqb tg (s "ptr") then Some (TPtr e) else if str_eqb tg (s "slice") then Some (TSlice e)
                  else if str_eqb tg (s "map") then Some (TMap e) else if str_eqb tg (s "array") then Some (TArray e) else None
      | None => None end
  | _ => None end.
Definition d_decl : dec (N * decl) := fun x =>
  match x with
  | L [A [id]; A tg; A [h]; L fs] =>
      if str_eqb tg (s "struct") then option_map (fun fs => (id, DStruct (negb (N.eqb h 0)) fs)) (dall d_dty fs) else None
  | L [A [id]; A tg; u] => if str_eqb tg (s "def") then option_map (fun u => (id, DDef u)) (d_dty u) else None
  | _ => None end.
Fixpoint d_val (x : sexp) : option val :=
  match x with
  | L [A tg; A [n]] => if str_eqb tg (s "s") then Some (VS n) else None
  | L [A tg] => if str_eqb tg (s "nil") then Some VNil else None
  | L [A tg; A [k]; A [id]; L kvs] =>
      if str_eqb tg (s "ref") then
        option_map (VRef k id)
          ((fix go (l : list sexp) : option (list (N * val)) :=
              match l with
              | [] => Some []
              | L [A [key]; y] :: l' => match d_val y, go l' with Some a, Some b => Some ((key, a) :: b) | _, _ => None end
              | _ => None end) kvs)
      else None
  | L [A tg; L fs] =>
      if str_eqb tg (s "rec") then
        option_map VRec ((fix go (l : list sexp) : option (list val) :=
                            match l with [] => Some [] | y :: l' => match d_val y, go l' with Some a, Some b => Some (a :: b) | _, _ => None end end) fs)
      else None
  | _ => None end.
Fixpoint e_val (v : val) : sexp :=
  match v with
  | VS n => L [A (s "s"); enum n]
  | VNil => L [A (s "nil")]
  | VRef k id kvs => L [A (s "ref"); enum k; enum id; L (map (fun kv => L [enum (fst kv); e_val (snd kv)]) kvs)]
  | VRec fs => L [A (s "rec"); L (map e_val fs)]
  end.

(* input: (decls type value); output: (erased copy, sorted paths of storage shared with the
   original, number of hand-written deep-copy calls) *)
Definition path_key (p : list N) : str := flat_map (fun i => i :: [0%N]) (map (fun i => i + 1)%N p).
Definition run_copy (inp : sexp) : option sexp :=
  match inp with
  | L [ds; t; v] =>
      match dlist d_decl ds, d_dty t, d_val v with
      | Some D, Some t, Some v =>
          let n := N.succ (max_id v) in
          let '(_, v', c) := cp_top D t n v in
          Some (L [e_val (erase v');
                   elist (elist enum) (map snd (sort_by_key (map (fun p => (path_key p, p)) (shared n [] v'))));
                   enum c])
      | _, _, _ => None end
  | _ => None end.
