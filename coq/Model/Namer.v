(* C14: namer/namer.go, v2/namer/namer.go : NameStrategy.Name, filterDirs, removePrefixAndSuffix,
   Joiner, IC, IL, IsPrivateGoName, NewPublicNamer/NewPrivateNamer;
   namer/plural_namer.go, v2/namer/plural_namer.go : pluralNamer.Name.
   Array lengths are no longer passed through removePrefixAndSuffix (fix: commit in KNOWN_FINDINGS.txt). *)
Require Import Gengo.Base.Str Gengo.Base.Sexp Gengo.Model.GType Gengo.Model.Tracker.

(* ---------- capitalisation (ASCII, byte-wise like the Go code) ---------- *)
Definition IC (x : str) : str := match x with [] => [] | c :: r => to_upper c :: r end.
Definition IL (x : str) : str := match x with [] => [] | c :: r => to_lower c :: r end.
Definition lower (x : str) : str := map to_lower x.

Inductive casing := CIC | CIL | CLower | CId.
Definition apply_case (c : casing) (x : str) : str :=
  match c with CIC => IC x | CIL => IL x | CLower => lower x | CId => x end.

Definition is_private_go_name (name : str) : bool :=
  match name with [] => true | c :: _ => N.eqb (to_lower c) c end.

(* ---------- NameStrategy ---------- *)
Record cfg := { prefix : str; suffix : str; first_f : casing; others_f : casing;
                ignore : option (list str); prepend : Z }.

Definition join_name (c : cfg) (parts : list str) : str :=
  apply_case (first_f c) (concat (map (apply_case (others_f c)) (prefix c :: parts ++ [suffix c]))).

(* importPathNameSanitizer = strings.NewReplacer("-", "_", ".", "") *)
Definition sanitize_dir (p : str) : str :=
  flat_map (fun ch => if N.eqb ch 45 then [95%N] else if N.eqb ch 46 then [] else [ch]) p.

Definition ignored (c : cfg) (p : str) : bool :=
  match ignore c with None => false | Some ws => mem_str p ws end.
Definition filter_dirs (c : cfg) (pkg : str) : list str :=
  map sanitize_dir (filter (fun p => negb (ignored c p)) (split_on SLASH pkg)).

(* s[b:e]: panics when b > e *)
Definition slice (b e : nat) (x : str) : option str :=
  if Nat.leb b e then Some (firstn (e - b) (skipn b x)) else None.

Definition remove_ps (c : cfg) (x : str) : option str :=
  let li := lower x in
  let b := if has_prefix (lower (prefix c)) li then length (prefix c) else 0 in
  let e := if has_suffix (lower (suffix c)) li then length x - length (suffix c) else length x in
  slice b e x.

Definition last_n {T} (n : nat) (l : list T) : list T := skipn (length l - n) l.

Definition named_parts (c : cfg) (pkg name : str) : list str :=
  let dirs := filter_dirs c pkg ++ [name] in
  let dn := length dirs in
  (* i := PrependPackageNames + 1; if i > dn { i = dn };  dirs[dn-i:]  (a negative count panics) *)
  let i := Z.to_nat (Z.min (prepend c + 1) (Z.of_nat dn)) in
  last_n i dirs.

Definition omap {T U} (f : T -> option U) : list T -> option (list U) :=
  fix go l := match l with [] => Some [] | x :: l' =>
                match f x, go l' with Some a, Some b => Some (a :: b) | _, _ => None end end.

(* Name, without the memo (Proofs/NamerProofs.v shows the memo is transparent).  None = Go panic. *)
Fixpoint name_of (c : cfg) (t : gt) : option str :=
  let strip t := match name_of c t with Some n => remove_ps c n | None => None end in
  match t with
  | GNamed pkg name =>
      if Z.ltb (prepend c + 1) 0 then None else Some (join_name c (named_parts c pkg name))
  | GBuiltin name => Some (join_name c [name])
  | GMap k e => match strip k, strip e with
                | Some a, Some b => Some (join_name c [s "Map"; a; s "To"; b]) | _, _ => None end
  | GSlice e => match strip e with Some a => Some (join_name c [s "Slice"; a]) | None => None end
  | GArray n e => match strip e with Some a => Some (join_name c [s "Array"; itoa_dec n; a]) | None => None end
  | GPointer e => match strip e with Some a => Some (join_name c [s "Pointer"; a]) | None => None end
  | GChan e => match strip e with Some a => Some (join_name c [s "Chan"; a]) | None => None end
  | GStruct ms => match omap (fun m => strip (member_type m)) ms with
                  | Some l => Some (join_name c (s "Struct" :: l)) | None => None end
  | GInterface ms => Some (join_name c (s "Interface" :: map fst ms))
  | GFunc ps rs _ => match omap strip ps, omap strip rs with
                     | Some a, Some b => Some (join_name c (s "Func" :: a ++ s "Returns" :: b))
                     | _, _ => None end
  | GOther k => Some (s "unnameable_" ++ k)
  end.

(* ---------- plural namer ---------- *)
Definition consonants : str := s "bcdfghjklmnpqrstvwxyz".
Definition is_consonant (c : N) : bool := existsb (N.eqb c) consonants.

Definition plural_rule (singular : str) : str :=
  match rev singular with
  | last :: sl :: _ =>
      let drop1 := removelast singular in
      if existsb (N.eqb last) (s "sxz") then singular ++ s "es"
      else if N.eqb last 121 (* y *) then
        if is_consonant sl then drop1 ++ s "ies" else singular ++ s "s"
      else if N.eqb last 104 (* h *) then
        if N.eqb sl 99 || N.eqb sl 115 then singular ++ s "es" else singular ++ s "s"
      else if N.eqb last 101 (* e *) then
        if N.eqb sl 102 then removelast drop1 ++ s "ves" else singular ++ s "s"
      else if N.eqb last 102 (* f *) then drop1 ++ s "ves"
      else singular ++ s "s"
  | _ => singular
  end.

Definition plural_name (exceptions : amap str) (finalize : casing) (singular : str) : str :=
  match lookup singular exceptions with
  | Some p => apply_case finalize p
  | None => apply_case finalize (plural_rule singular)
  end.

(* ---------- entry points ---------- *)
Definition d_casing : dec casing := fun x =>
  match x with A [0%N] => Some CIC | A [1%N] => Some CIL | A [2%N] => Some CLower | A [3%N] => Some CId | _ => None end.
Definition d_z : dec Z := fun x =>
  match x with L [A [sg]; A [m]] => Some (if N.eqb sg 0 then Z.of_N m else (- Z.of_N m)%Z) | _ => None end.
(* cfg: (prefix suffix first others (ignore...)|nil prepend) *)
Definition d_cfg : dec cfg := fun x =>
  match x with
  | L [p; sx; f; o; ig; pp] =>
      match dstr p, dstr sx, d_casing f, d_casing o, dopt (dlist dstr) ig, d_z pp with
      | Some p, Some sx, Some f, Some o, Some ig, Some pp =>
          Some {| prefix := p; suffix := sx; first_f := f; others_f := o; ignore := ig; prepend := pp |}
      | _, _, _, _, _, _ => None end
  | _ => None end.

Definition e_name (r : option str) : sexp := match r with Some n => L [estr n] | None => etag "panic" [] end.

(* input: (cfg (type...)) : the names of the types in call order (the memo is transparent) *)
Definition run_names (inp : sexp) : option sexp :=
  match inp with
  | L [c; L ts] => match d_cfg c, dall d_gt ts with
                   | Some c, Some ts => Some (elist (fun t => e_name (name_of c t)) ts)
                   | _, _ => None end
  | _ => None end.

Definition run_plural (inp : sexp) : option sexp :=
  match inp with
  | L [ex; f; w] => match dlist (dpair dstr dstr) ex, d_casing f, dstr w with
                    | Some ex, Some f, Some w => Some (estr (plural_name ex f w))
                    | _, _, _ => None end
  | _ => None end.

Definition run_private (inp : sexp) : option sexp :=
  match dstr inp with Some n => Some (ebool (is_private_go_name n)) | None => None end.
