(* C17: the set-gen template (examples/set-gen/generators/sets.go: setCode, lessBody), method by
   method.  Sets are Go maps: mutable and aliasable, so the model has a heap of key lists and
   variables pointing into it.  Elements are numbered so that the numbering is monotone in the
   element type's own order (ints by value, strings lexicographically, struct keys by their
   flattened fields); sort.Sort is insertion sort here and any contract-satisfying sort in the
   theorems. *)
Require Import Gengo.Base.Str Gengo.Base.Sexp Gengo.Base.SortSpec.

Definition elt := N.
Definition memE (x : elt) (l : list elt) : bool := existsb (N.eqb x) l.

Record store := { heap : list (list elt); vars : list nat }.     (* vars: variable -> heap location *)

Definition get (st : store) (v : nat) : list elt := nth (nth v (vars st) 0) (heap st) [].
Fixpoint upd {T} (l : list T) (i : nat) (x : T) : list T :=
  match l, i with
  | [], _ => []
  | _ :: l', 0 => x :: l'
  | y :: l', S i' => y :: upd l' i' x
  end.
Definition set_loc (st : store) (v : nat) (s : list elt) : store :=
  {| heap := upd (heap st) (nth v (vars st) 0) s; vars := vars st |}.
(* a fresh map bound to variable v *)
Definition bind_new (st : store) (v : nat) (s : list elt) : store :=
  {| heap := heap st ++ [s]; vars := upd (vars st) v (length (heap st)) |}.

(* the template's methods on key lists *)
Definition insert1 (s : list elt) (x : elt) : list elt := if memE x s then s else s ++ [x].
Definition insert_all (s : list elt) (items : list elt) : list elt := fold_left insert1 items s.
Definition delete_all (s : list elt) (items : list elt) : list elt := filter (fun x => negb (memE x items)) s.
Definition has (s : list elt) (x : elt) : bool := memE x s.
Definition has_all (s : list elt) (items : list elt) : bool := forallb (has s) items.
Definition has_any (s : list elt) (items : list elt) : bool := existsb (has s) items.
Definition clone (s : list elt) : list elt := insert_all [] s.
Definition difference (a b : list elt) : list elt := insert_all [] (filter (fun k => negb (has b k)) a).
Definition union (a b : list elt) : list elt := insert_all (clone a) b.
Definition sym_difference (a b : list elt) : list elt := union (difference a b) (difference b a).
Definition intersection (a b : list elt) : list elt :=
  let '(walk, other) := if Nat.ltb (length a) (length b) then (a, b) else (b, a) in
  insert_all [] (filter (fun k => has other k) walk).
Definition is_superset (a b : list elt) : bool := forallb (has a) b.
Definition equal (a b : list elt) : bool := Nat.eqb (length a) (length b) && is_superset a b.
Definition list_sorted (s : list elt) : list elt := isort elt N.ltb s.

Inductive op :=
| ONew (v : nat) (items : list elt)
| OKeySet (v : nat) (items : list elt)
| OInsert (v : nat) (items : list elt)
| ODelete (v : nat) (items : list elt)
| OHas (v : nat) (x : elt)
| OHasAll (v : nat) (items : list elt)
| OHasAny (v : nat) (items : list elt)
| OClone (dst src : nat)
| OAlias (dst src : nat)
| ODiff (dst a b : nat)
| OSymDiff (dst a b : nat)
| OUnion (dst a b : nat)
| OInter (dst a b : nat)
| OSuperset (a b : nat)
| OEqual (a b : nat)
| OList (v : nat)
| OLen (v : nat)
| OPopAny (v : nat) (chosen : option elt).      (* the key the implementation's map iteration produced *)

Inductive result := RNone | RBool (b : bool) | RList (l : list elt) | RLen (n : nat) | RPop (ok : bool) | RBad.

Definition step (st : store) (o : op) : store * result :=
  match o with
  | ONew v items => (bind_new st v (insert_all [] items), RNone)
  | OKeySet v items => (bind_new st v (insert_all [] items), RNone)
  | OInsert v items => (set_loc st v (insert_all (get st v) items), RNone)
  | ODelete v items => (set_loc st v (delete_all (get st v) items), RNone)
  | OHas v x => (st, RBool (has (get st v) x))
  | OHasAll v items => (st, RBool (has_all (get st v) items))
  | OHasAny v items => (st, RBool (has_any (get st v) items))
  | OClone d a => (bind_new st d (clone (get st a)), RNone)
  | OAlias d a => ({| heap := heap st; vars := upd (vars st) d (nth a (vars st) 0) |}, RNone)
  | ODiff d a b => (bind_new st d (difference (get st a) (get st b)), RNone)
  | OSymDiff d a b => (bind_new st d (sym_difference (get st a) (get st b)), RNone)
  | OUnion d a b => (bind_new st d (union (get st a) (get st b)), RNone)
  | OInter d a b => (bind_new st d (intersection (get st a) (get st b)), RNone)
  | OSuperset a b => (st, RBool (is_superset (get st a) (get st b)))
  | OEqual a b => (st, RBool (equal (get st a) (get st b)))
  | OList v => (st, RList (list_sorted (get st v)))
  | OLen v => (st, RLen (length (get st v)))
  | OPopAny v None => (st, match get st v with [] => RPop false | _ => RBad end)
  | OPopAny v (Some x) => if has (get st v) x then (set_loc st v (delete_all (get st v) [x]), RPop true) else (st, RBad)
  end.

Fixpoint run (st : store) (os : list op) : list (result * list (list elt)) :=
  match os with
  | [] => []
  | o :: os' => let '(st', r) := step st o in
                (r, map (fun v => list_sorted (get st' v)) (seq 0 (length (vars st')))) :: run st' os'
  end.

Definition init (nvars : nat) : store := {| heap := repeat [] nvars; vars := seq 0 nvars |}.

(* ---------- sexp ---------- *)
Definition d_op : dec op := fun x =>
  match x with
  | L (A tg :: args) =>
      let is (n : string) := str_eqb tg (s n) in
      match args with
      | [A [a]; L _ as l] =>
          match dlist dnum l with
          | Some items =>
              let v := N.to_nat a in
              if is "new"%string then Some (ONew v items) else if is "keyset"%string then Some (OKeySet v items)
              else if is "insert"%string then Some (OInsert v items) else if is "delete"%string then Some (ODelete v items)
              else if is "hasall"%string then Some (OHasAll v items) else if is "hasany"%string then Some (OHasAny v items)
              else if is "popany"%string then Some (OPopAny v (hd_error items)) else None
          | None => None end
      | [A [a]; A [b]] =>
          let a := N.to_nat a in
          if is "has"%string then Some (OHas a b)
          else let b := N.to_nat b in
               if is "clone"%string then Some (OClone a b) else if is "alias"%string then Some (OAlias a b)
               else if is "superset"%string then Some (OSuperset a b) else if is "equal"%string then Some (OEqual a b) else None
      | [A [d]; A [a]; A [b]] =>
          let '(d, a, b) := (N.to_nat d, N.to_nat a, N.to_nat b) in
          if is "diff"%string then Some (ODiff d a b) else if is "symdiff"%string then Some (OSymDiff d a b)
          else if is "union"%string then Some (OUnion d a b) else if is "inter"%string then Some (OInter d a b) else None
      | [A [a]] => let a := N.to_nat a in
                   if is "list"%string then Some (OList a) else if is "len"%string then Some (OLen a) else None
      | _ => None end
  | _ => None end.
Definition e_result (r : result) : sexp :=
  match r with
  | RNone => L [] | RBool b => etag "bool" [ebool b] | RList l => etag "list" [elist enum l]
  | RLen n => etag "len" [enat n] | RPop ok => etag "pop" [ebool ok] | RBad => etag "BAD" []
  end.
(* input: (nvars (ops...)); output: per op (result (var contents, each ascending)) *)
Definition run_sets (inp : sexp) : option sexp :=
  match inp with
  | L [A [n]; os] => match dlist d_op os with
                     | Some os => Some (elist (fun rd => L [e_result (fst rd); elist (elist enum) (snd rd)]) (run (init (N.to_nat n)) os))
                     | None => None end
  | _ => None end.
