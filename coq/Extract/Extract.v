From Coq Require Import extraction.Extraction extraction.ExtrOcamlBasic extraction.ExtrOcamlString.
Require Import Gengo.Base.Str Gengo.Base.Sexp Gengo.Model.Entry.
Extraction "model.ml" dispatch sexp_eqb.
