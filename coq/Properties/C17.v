(* C17 — set-gen output implements mathematical sets with sorted listing (partial: the step from
   the template text to this model is behavioural: every run compiles the code regenerated from
   the current template and replays operation sequences against the extracted model). *)
Require Import Gengo.Base.Str Gengo.Base.SortSpec Gengo.Model.Sets Gengo.Proofs.SetsProofs Gengo.Model.Flatten Gengo.Proofs.FlattenProofs.
From Coq Require Import Permutation Sorting.Sorted.

Theorem C17_membership_ops : forall a b items x,
  (has a x = true <-> In x a) /\
  (In x (insert_all a items) <-> In x a \/ In x items) /\
  (In x (delete_all a items) <-> In x a /\ ~ In x items) /\
  (In x (union a b) <-> In x a \/ In x b) /\
  (In x (intersection a b) <-> In x a /\ In x b) /\
  (In x (difference a b) <-> In x a /\ ~ In x b) /\
  (In x (sym_difference a b) <-> (In x a /\ ~ In x b) \/ (In x b /\ ~ In x a)) /\
  (In x (clone a) <-> In x a).
Proof.
  intros. split; [apply has_spec|]. split; [apply insert_all_In|]. split; [apply delete_all_In|]. split; [apply union_In|].
  split; [apply intersection_In|]. split; [apply difference_In|]. split; [apply sym_difference_In|apply clone_In].
Qed.
Print Assumptions C17_membership_ops.

Theorem C17_tests : forall a b items,
  (has_all a items = true <-> forall x, In x items -> In x a) /\
  (has_any a items = true <-> exists x, In x items /\ In x a) /\
  (is_superset a b = true <-> incl b a) /\
  (NoDup a -> NoDup b -> (equal a b = true <-> forall x, In x a <-> In x b)).
Proof. intros. split; [apply has_all_spec|]. split; [apply has_any_spec|]. split; [apply is_superset_spec|apply equal_spec]. Qed.
Print Assumptions C17_tests.

(* results are maps again (no key twice) *)
Theorem C17_results_are_sets : forall a b items,
  (NoDup a -> NoDup (insert_all a items)) /\ (NoDup a -> NoDup (delete_all a items)) /\ NoDup (clone a) /\
  NoDup (difference a b) /\ NoDup (union a b) /\ NoDup (sym_difference a b) /\ NoDup (intersection a b).
Proof.
  intros. split; [apply insert_all_NoDup|]. split; [apply delete_all_NoDup|]. split; [apply clone_NoDup|]. apply results_NoDup.
Qed.
Print Assumptions C17_results_are_sets.

(* binary operations and Clone leave every other variable's set unchanged; the result is fresh *)
Theorem C17_operands_unchanged : forall st d a b v, wf st -> v <> d -> v < length (vars st) ->
  get (fst (step st (OUnion d a b))) v = get st v /\
  get (fst (step st (OInter d a b))) v = get st v /\
  get (fst (step st (ODiff d a b))) v = get st v /\
  get (fst (step st (OSymDiff d a b))) v = get st v /\
  get (fst (step st (OClone d a))) v = get st v.
Proof. exact binary_ops_leave_operands. Qed.
Print Assumptions C17_operands_unchanged.

(* List: each member once, ascending, and the only list sort.Sort's contract admits for any map
   iteration order *)
Theorem C17_list : forall s,
  (forall x, In x (list_sorted s) <-> In x s) /\ (NoDup s -> NoDup (list_sorted s)) /\
  StronglySorted (fun a b => N.ltb b a = false) (list_sorted s) /\
  (forall arranged out, Permutation s arranged -> Permutation arranged out -> no_inversion elt N.ltb out -> out = list_sorted s).
Proof. intros s. split; [apply list_members|]. split; [apply list_once|]. split; [apply list_ascending|apply list_unique]. Qed.
Print Assumptions C17_list.

Theorem C17_pop : forall st v x st', step st (OPopAny v (Some x)) = (st', RPop true) ->
  In x (get st v) /\ forall y, In y (delete_all (get st v) [x]) <-> In y (get st v) /\ y <> x.
Proof. exact pop_spec. Qed.
Print Assumptions C17_pop.

Example C17_example :
  map fst (run (init 3) [OInsert 0 [3; 1; 3]%N; OInsert 1 [1; 2]%N; OUnion 2 0 1; OList 2; OInter 2 0 1; OList 2; OEqual 0 1])
  = [RNone; RNone; RNone; RList [1; 2; 3]%N; RNone; RList [1%N]; RBool false].
Proof. vm_compute. reflexivity. Qed.

(* ---------- struct keys: types.FlattenMembers, whose result lessBody compares field by field ---------- *)
(* the struct's own members first, in declaration order; then the promoted members, each a
   flattened member of an embedded struct under a name not seen before; every flattened member of
   every embedded struct is represented by name *)
Theorem C17_flatten_members : forall i ms r, flat_ty (TStruct i ms) = Some r ->
  (exists extra, r = own ms ++ extra /\
     (forall x, In x extra -> exists m sub, In m ms /\ promoted m = true /\ flat_ty (m_ty m) = Some sub /\ In x sub) /\
     (forall x, In x extra -> ~ In (m_name x) (names (own ms))) /\ NoDup (names extra)) /\
  (forall m sub x, In m ms -> promoted m = true -> flat_ty (m_ty m) = Some sub -> In x sub -> In (m_name x) (names r)).
Proof. exact flatten_spec. Qed.
Print Assumptions C17_flatten_members.
(* no field name twice: the generated less function compares every flattened field exactly once *)
Theorem C17_flatten_each_name_once : forall i ms r, flat_ty (TStruct i ms) = Some r -> NoDup (names (own ms)) -> NoDup (names r).
Proof. exact flatten_names_NoDup. Qed.
Print Assumptions C17_flatten_each_name_once.
Theorem C17_flatten_plain_struct : forall i ms, (forall m, In m ms -> promoted m = false) -> flat_ty (TStruct i ms) = Some ms.
Proof. exact flatten_plain. Qed.
Print Assumptions C17_flatten_plain_struct.
(* lessBody over the flattened fields: a strict total order on keys (tuples of field values of one
   length), so "ascending" is well defined for struct keys *)
Theorem C17_less_is_strict_total_order :
  (forall a, less_body a a = false) /\
  (forall a b, less_body a b = true -> less_body b a = false) /\
  (forall a b c, less_body a b = true -> less_body b c = true -> less_body a c = true) /\
  (forall a b, length a = length b -> a <> b -> less_body a b = true \/ less_body b a = true).
Proof. exact (conj less_irrefl (conj less_asym (conj less_trans less_total))). Qed.
Print Assumptions C17_less_is_strict_total_order.
Example C17_example_flatten :
  let meta := TStruct 10 [(s "P", false, TLeaf 1); (s "Q", false, TLeaf 1)] in
  let ident := TStruct 11 [(s "Meta", true, meta)] in
  option_map names (flat_ty (TStruct 12 [(s "Ident", true, ident); (s "Number", false, TLeaf 1); (s "Q", false, TLeaf 2)]))
  = Some [s "Number"; s "Q"; s "P"].
Proof. vm_compute. reflexivity. Qed.
