(* C17 — set-gen output implements mathematical sets with sorted listing (partial: the step from
   the template text to this model is behavioural: every run compiles the code regenerated from
   the current template and replays operation sequences against the extracted model). *)
Require Import Gengo.Base.Str Gengo.Base.SortSpec Gengo.Model.Sets Gengo.Proofs.SetsProofs.
From Coq Require Import Permutation Sorting.Sorted.

Theorem C17_membership_ops : forall a b items x,
  (has a x = true <-> In x a) /\
  (In x (insert_all a items) <-> In x a \/ In x items) /\
  (In x (delete_all a items) <-> In x a /\ ~ In x items) /\
  (In x (union a b) <-> In x a \/ In x b) /\
  (In x (intersection a b) <-> In x a /\ In x b) /\
  (In x (difference a b) <-> In x a /\ ~ In x b) /\
  (In x (sym_difference a b) <-> (In x a /\ ~ In x b) \/ (In x b /\ ~ In x a)) /\
  (In x (clone a) <-> In x a).
Proof.
  intros. split; [apply has_spec|]. split; [apply insert_all_In|]. split; [apply delete_all_In|]. split; [apply union_In|].
  split; [apply intersection_In|]. split; [apply difference_In|]. split; [apply sym_difference_In|apply clone_In].
Qed.
Print Assumptions C17_membership_ops.

Theorem C17_tests : forall a b items,
  (has_all a items = true <-> forall x, In x items -> In x a) /\
  (has_any a items = true <-> exists x, In x items /\ In x a) /\
  (is_superset a b = true <-> incl b a) /\
  (NoDup a -> NoDup b -> (equal a b = true <-> forall x, In x a <-> In x b)).
Proof. intros. split; [apply has_all_spec|]. split; [apply has_any_spec|]. split; [apply is_superset_spec|apply equal_spec]. Qed.
Print Assumptions C17_tests.

(* results are maps again (no key twice) *)
Theorem C17_results_are_sets : forall a b items,
  (NoDup a -> NoDup (insert_all a items)) /\ (NoDup a -> NoDup (delete_all a items)) /\ NoDup (clone a) /\
  NoDup (difference a b) /\ NoDup (union a b) /\ NoDup (sym_difference a b) /\ NoDup (intersection a b).
Proof.
  intros. split; [apply insert_all_NoDup|]. split; [apply delete_all_NoDup|]. split; [apply clone_NoDup|]. apply results_NoDup.
Qed.
Print Assumptions C17_results_are_sets.

(* binary operations and Clone leave every other variable's set unchanged; the result is fresh *)
Theorem C17_operands_unchanged : forall st d a b v, wf st -> v <> d -> v < length (vars st) ->
  get (fst (step st (OUnion d a b))) v = get st v /\
  get (fst (step st (OInter d a b))) v = get st v /\
  get (fst (step st (ODiff d a b))) v = get st v /\
  get (fst (step st (OSymDiff d a b))) v = get st v /\
  get (fst (step st (OClone d a))) v = get st v.
Proof. exact binary_ops_leave_operands. Qed.
Print Assumptions C17_operands_unchanged.

(* List: each member once, ascending, and the only list sort.Sort's contract admits for any map
   iteration order *)
Theorem C17_list : forall s,
  (forall x, In x (list_sorted s) <-> In x s) /\ (NoDup s -> NoDup (list_sorted s)) /\
  StronglySorted (fun a b => N.ltb b a = false) (list_sorted s) /\
  (forall arranged out, Permutation s arranged -> Permutation arranged out -> no_inversion elt N.ltb out -> out = list_sorted s).
Proof. intros s. split; [apply list_members|]. split; [apply list_once|]. split; [apply list_ascending|apply list_unique]. Qed.
Print Assumptions C17_list.

Theorem C17_pop : forall st v x st', step st (OPopAny v (Some x)) = (st', RPop true) ->
  In x (get st v) /\ forall y, In y (delete_all (get st v) [x]) <-> In y (get st v) /\ y <> x.
Proof. exact pop_spec. Qed.
Print Assumptions C17_pop.

Example C17_example :
  map fst (run (init 3) [OInsert 0 [3; 1; 3]%N; OInsert 1 [1; 2]%N; OUnion 2 0 1; OList 2; OInter 2 0 1; OList 2; OEqual 0 1])
  = [RNone; RNone; RNone; RList [1; 2; 3]%N; RNone; RList [1%N]; RBool false].
Proof. vm_compute. reflexivity. Qed.
