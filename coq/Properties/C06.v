(* C06 — one object per type: identity is canonical and references are closed.
   In the model an object IS its own name in the heap [objs]; keys of Package.Types resolve to
   objects through [tkeys].  "The same object" is therefore: the same key resolves to the same
   heap name for ever (ext), and references stored in entries are heap names. *)
Require Import Gengo.Base.Str Gengo.Model.Universe Gengo.Proofs.UniverseProofs Gengo.Proofs.ClosureProofs Gengo.Proofs.CanonProofs Gengo.Proofs.TerminationProofs.

(* Universe.Type twice: same object, nothing changes the second time *)
Theorem C06_lookup_idempotent : forall v2 u n u1 o,
  get_or_create v2 u n = (u1, o) -> get_or_create v2 u1 n = (u1, o).
Proof. exact get_or_create_idem. Qed.
Print Assumptions C06_lookup_idempotent.

(* ... and after any number of other lookups in between *)
Theorem C06_lookup_stable : forall v2 u k ks,
  let '(u1, o) := get_or_create v2 u k in snd (get_or_create v2 (lookups v2 u1 ks) k) = o.
Proof. exact lookup_stable. Qed.
Print Assumptions C06_lookup_stable.

(* ... and after any amount of further loading (lookups interleaved with loading) *)
Theorem C06_lookup_stable_across_loads : forall v2 p fuel u k gs pk w',
  let '(u1, o) := get_or_create v2 u k in
  fold_left (add_package v2 p fuel) gs (Some {| w_u := u1; w_pkgs := pk |}) = Some w' ->
  get_or_create v2 (w_u w') k = (w_u w', o).
Proof. exact lookup_stable_across_loads. Qed.
Print Assumptions C06_lookup_stable_across_loads.

(* a lookup never re-binds another key, never changes a decided kind, keeps well-formedness *)
Theorem C06_lookup_extends : forall v2 u n u1 o, get_or_create v2 u n = (u1, o) -> ext u u1.
Proof. exact get_or_create_ext. Qed.
Print Assumptions C06_lookup_extends.

(* walkType, on every program and universe: the same *)
Theorem C06_walk_extends : forall v2 p fuel u use t u' o, walk v2 p fuel u use t = Some (u', o) -> ext u u'.
Proof. exact walk_ext. Qed.
Print Assumptions C06_walk_extends.

(* what a walk hands back (and hence what is stored as a field, element, key, parameter, result,
   receiver or underlying type) is the object some key resolves to, and it is no placeholder *)
Theorem C06_references_closed : forall v2 p, (forall t ts, plookup t p <> Some (ts, STypeParam)) ->
  forall fuel u use t u' o, wf u -> walk v2 p fuel u use t = Some (u', o) -> good u' o.
Proof. exact walk_good. Qed.
Print Assumptions C06_references_closed.

(* nothing reachable is left as an unresolved placeholder: in the universe built by loading any
   packages of a program (without type parameters), EVERY name stored in ANY entry -- element,
   key, underlying type, member, method, parameter, result, receiver -- denotes an entry whose
   kind is decided; the same holds at every point of every walk (walk_closed) and after any
   further loads (load_closed) *)
Theorem C06_universe_closed : forall v2 p fuel pkgs w, (forall t ts, plookup t p <> Some (ts, STypeParam)) ->
  build v2 p fuel pkgs = Some w -> closed (w_u w) /\ wf (w_u w).
Proof. exact build_closed. Qed.
Print Assumptions C06_universe_closed.

Theorem C06_walk_keeps_closed : forall v2 p, (forall t ts, plookup t p <> Some (ts, STypeParam)) ->
  forall fuel u use t u' o, wf u -> closed u -> walk v2 p fuel u use t = Some (u', o) -> closed u'.
Proof. exact walk_closed. Qed.
Print Assumptions C06_walk_keeps_closed.

Theorem C06_loads_keep_closed : forall v2 p fuel, (forall t ts, plookup t p <> Some (ts, STypeParam)) ->
  forall gs w w', wfc (w_u w) -> fold_left (add_package v2 p fuel) gs (Some w) = Some w' -> wfc (w_u w').
Proof. exact load_closed. Qed.
Print Assumptions C06_loads_keep_closed.

(* the short-circuit on a decided kind is also what terminates the walk of recursive types: on a
   node table that refers only to nodes it contains (prog_okb, decidable, checked on every run) walkType
   never exhausts the budget 2 * (number of keys the table can give rise to) + 2 -- every second
   level of the recursion decides a key that was undecided -- and so neither does any load.  The
   model runs with exactly this budget (Universe.budget): "out of fuel" cannot occur *)
Theorem C06_walk_terminates : forall v2 p, prog_okb p = true -> named_ok v2 p ->
  forall f u t, 2 * length (allkeys v2 p) + 2 <= f -> wf u -> canonical v2 u -> has p t = true ->
  walk v2 p f u None t <> None.
Proof. exact walk_never_out_of_budget. Qed.
Print Assumptions C06_walk_terminates.

Theorem C06_loads_terminate : forall v2 p f, prog_okb p = true -> named_ok v2 p -> 2 * length (allkeys v2 p) + 2 <= f ->
  forall gs w, wf (w_u w) -> canonical v2 (w_u w) ->
  (forall g o, In g gs -> In o (g_scope g) -> has p (obj_node o) = true) ->
  fold_left (add_package v2 p f) gs (Some w) <> None.
Proof. exact load_total. Qed.
Print Assumptions C06_loads_terminate.

(* walking a type that is already there resolves to the existing object and changes nothing *)
Theorem C06_occurrence_reuses_object : forall v2 p f u use t tstr sh o,
  plookup t p = Some (tstr, sh) -> no_tparams sh = true ->
  nlookup (key_of v2 use tstr sh) (tkeys u) = Some o -> complete u o = true ->
  walk v2 p (S f) u use t = Some (u, o).
Proof. exact walk_noop. Qed.
Print Assumptions C06_occurrence_reuses_object.

(* builtins are shared singletons *)
Theorem C06_builtin_singleton : forall v2 u k bn bk,
  nlookup ([], k) (tkeys u) = None -> builtin_of v2 k = Some (bn, bk) -> snd (get_or_create v2 u ([], k)) = ([], bn).
Proof. exact builtin_lookup. Qed.
Print Assumptions C06_builtin_singleton.

(* the hypotheses are satisfiable: the empty universe is well-formed, so is all that loading builds *)
Theorem C06_wf_empty : wf {| objs := []; tkeys := [] |}.
Proof. exact wf_empty. Qed.
Print Assumptions C06_wf_empty.

Example C06_example :
  let u0 := {| objs := []; tkeys := [] |} in
  let '(u1, a) := get_or_create false u0 ([], s "uint8") in
  let '(u2, b) := get_or_create false u1 ([], s "byte") in
  let '(u3, c) := get_or_create false u2 (s "p", s "T") in
  a = b /\ a = ([], s "byte") /\ c = (s "p", s "T") /\ complete u3 a = true /\ complete u3 c = false.
Proof. vm_compute. repeat split; reflexivity. Qed.
