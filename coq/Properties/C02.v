Require Import Gengo.Base.Str Gengo.Model.RawNamer.
