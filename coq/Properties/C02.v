(* C02 — raw names plus tracked imports denote exactly the type they were made from (partial:
   [spell] is the reference Go spelling of a type expression under a qualifier function; that this
   text, parsed by Go in a file with the emitted import block, denotes the identical type is
   decided on every run by the harness' go/types re-type-check oracle, not by a theorem). *)
Require Import Gengo.Base.Str Gengo.Model.GType Gengo.Model.Tracker Gengo.Model.Tags Gengo.Model.RawNamer
               Gengo.Proofs.TrackerProofs Gengo.Proofs.RawNamerProofs.

(* with an import tracker: the rendering is the reference spelling in which every foreign named
   type -- at any depth -- is qualified by the alias that the FINAL tracker (the one ImportLines is
   taken from) binds to its package, local types are bare; and the tracker's evolution is
   AddType on the visited packages in order *)
Theorem C02_rendering_uses_reported_aliases : forall v2 outpkg t ty st' n,
  raw_name v2 outpkg (Some t) ty = Some (st', n) ->
  exists t', st' = Some t' /\ run is_letter_x is_digit_x itoa_dec t (pkgs ty) = Some t' /\
             (localpkg t = outpkg -> (forall p, In p (pkgs ty) -> p <> []) -> n = spell v2 (qual outpkg t') ty).
Proof. exact raw_with_tracker. Qed.
Print Assumptions C02_rendering_uses_reported_aliases.

(* rendering never needs an import the tracker did not report, never reports the output package,
   reports nothing that was not mentioned, and leaves the tracker within the C07 invariant
   (distinct, legal, non-keyword aliases; mutually inverse lookups) *)
Theorem C02_imports_exact : forall v2 outpkg t ty t' n,
  raw_name v2 outpkg (Some t) ty = Some (Some t', n) -> localpkg t = outpkg ->
  (forall p, In p (pkgs ty) -> p <> []) -> Inv is_letter_x is_digit_x t ->
  covered outpkg t' (pkgs ty) /\
  Inv is_letter_x is_digit_x t' /\
  ~ In outpkg (keys (p2n t')) /\
  (forall q, lookup q (p2n t') <> None -> In q (pkgs ty) \/ lookup q (p2n t) <> None).
Proof. exact raw_imports_exact. Qed.
Print Assumptions C02_imports_exact.

(* rendering never fails, whatever the type and tracker state *)
Theorem C02_total : forall v2 outpkg t ty, raw_name v2 outpkg (Some t) ty <> None.
Proof. exact raw_total. Qed.
Print Assumptions C02_total.

(* without a tracker: same spelling, qualifier = last element of the package path *)
Theorem C02_without_tracker : forall v2 outpkg ty,
  raw_name v2 outpkg None ty = Some (None, spell v2 (qual_base outpkg) ty).
Proof. exact raw_without_tracker. Qed.
Print Assumptions C02_without_tracker.

Theorem C02_local_unqualified : forall v2 outpkg t n, spell v2 (qual outpkg t) (GNamed outpkg n) = n.
Proof. exact spell_named_local. Qed.
Print Assumptions C02_local_unqualified.

Theorem C02_foreign_qualified : forall v2 outpkg t p n, p <> outpkg ->
  spell v2 (qual outpkg t) (GNamed p n) = local_name_of t p ++ [46%N] ++ n.
Proof. exact spell_named_foreign. Qed.
Print Assumptions C02_foreign_qualified.

(* the same alias for a package wherever it occurs in a type: two trackers that agree on the
   packages of a type spell it alike (so memoised names stay right while the tracker grows) *)
Theorem C02_spelling_stable : forall v2 outpkg t t', sub t t' -> forall ty,
  covered outpkg t (pkgs ty) -> spell v2 (qual outpkg t) ty = spell v2 (qual outpkg t') ty.
Proof. exact spell_stable. Qed.
Print Assumptions C02_spelling_stable.

Example C02_example :
  let ty := GMap (GNamed (s "a/x") (s "K")) (GSlice (GPointer (GNamed (s "b/x") (s "V")))) in
  match raw_name false (s "out/p") (Some (init false (s "out/p"))) ty with
  | Some (Some t', n) => n = s "map[x.K][]*bx.V" /\ import_lines t' = [s "x ""a/x"""; s "bx ""b/x"""]
  | _ => False end.
Proof. vm_compute. split; reflexivity. Qed.
