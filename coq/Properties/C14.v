(* C14 — name strategies are deterministic, well-formed and compositional.  Statements only. *)
Require Import Gengo.Base.Str Gengo.Model.GType Gengo.Model.Tracker Gengo.Model.Namer Gengo.Proofs.NamerProofs.

(* The memo (NameStrategy.Names, keyed by type identity [eqb]) is transparent: whatever the memo
   holds from earlier calls (any consistent memo), a call returns the memo-free name -- the same
   name on every call, independently of which other types were named before. *)
Theorem C14_memo_transparent : forall c eqb, (forall a b, eqb a b = true -> a = b) ->
  forall fuel m t m' n,
  consistent c m -> name_memo c eqb fuel m t = Some (m', n) -> name_of c t = Some n /\ consistent c m'.
Proof. exact memo_transparent. Qed.
Print Assumptions C14_memo_transparent.

Theorem C14_call_order_independent : forall c eqb, (forall a b, eqb a b = true -> a = b) ->
  forall fuel ts m ns, consistent c m ->
  call_seq c eqb fuel m ts = Some ns -> omap (name_of c) ts = Some ns.
Proof. exact call_order_independent. Qed.
Print Assumptions C14_call_order_independent.

(* named types: prefix, the last min(k, #dirs) non-ignored sanitised directory names, the type
   name, suffix; each part through the strategy's capitalisation, the whole through [first_f] *)
Theorem C14_named_formula : forall c pkg name k, prepend c = Z.of_nat k ->
  name_of c (GNamed pkg name) =
  Some (apply_case (first_f c)
         (concat (map (apply_case (others_f c))
            (prefix c :: (last_n (Nat.min k (length (filter_dirs c pkg))) (filter_dirs c pkg) ++ [name]) ++ [suffix c])))).
Proof. exact named_formula. Qed.
Print Assumptions C14_named_formula.

(* ... and is made of identifier characters only *)
Theorem C14_named_identifier_chars : forall c pkg name r,
  forallb idc (prefix c) = true -> forallb idc (suffix c) = true -> forallb idc name = true ->
  forallb path_char pkg || true = true ->
  Forall (fun d => forallb path_char d = true) (split_on SLASH pkg) ->
  name_of c (GNamed pkg name) = Some r -> forallb idc r = true.
Proof. exact named_identifier_chars. Qed.
Print Assumptions C14_named_identifier_chars.

(* public names start with to_upper of their first character, private with to_lower; on
   letters these are upper- resp. lower-case *)
Theorem C14_first_char_case : forall c parts ch r,
  join_name c parts = ch :: r ->
  (first_f c = CIC -> exists x, ch = to_upper x) /\ (first_f c = CIL -> exists x, ch = to_lower x).
Proof. exact first_char_case. Qed.
Print Assumptions C14_first_char_case.
Theorem C14_upper_lower_on_letters : forall x, is_ascii_letter x = true ->
  is_upper (to_upper x) = true /\ is_lower (to_lower x) = true.
Proof. intros x H. split; [apply to_upper_letter|apply to_lower_letter]; exact H. Qed.
Print Assumptions C14_upper_lower_on_letters.

(* anonymous types: Name t = first (IC prefix ++ body t ++ IC suffix), where [body] does not
   depend on prefix, suffix or the outer capitalisation: prefix and suffix are applied exactly
   once, at the outside (public/private namers: others = IC, first = IC or IL) *)
Theorem C14_anon_compositional : forall c, first_case (first_f c) -> others_f c = CIC -> (0 <= prepend c + 1)%Z ->
  forall t, no_other t = true ->
  name_of c t = Some (apply_case (first_f c) (IC (prefix c) ++ body c t ++ IC (suffix c))).
Proof. exact anon_compositional. Qed.
Print Assumptions C14_anon_compositional.
Theorem C14_body_independent_of_affixes : forall c c' t,
  ignore c = ignore c' -> prepend c = prepend c' -> body c t = body c' t.
Proof. exact body_independent. Qed.
Print Assumptions C14_body_independent_of_affixes.

(* plural names: exceptions first, otherwise the suffix rules as a decision table *)
Theorem C14_plural_exceptions_first : forall ex f w p, lookup w ex = Some p -> plural_name ex f w = apply_case f p.
Proof. exact plural_exceptions_first. Qed.
Print Assumptions C14_plural_exceptions_first.
Theorem C14_plural_rules : forall ex f w, lookup w ex = None -> plural_name ex f w = apply_case f (plural_rule w).
Proof. exact plural_no_exception. Qed.
Print Assumptions C14_plural_rules.
Theorem C14_plural_short : forall w, length w < 2 -> plural_rule w = w.
Proof. exact plural_short. Qed.
Print Assumptions C14_plural_short.
Theorem C14_plural_table : forall stem a b,
  plural_rule (stem ++ [a; b]) =
    if existsb (N.eqb b) (s "sxz") then stem ++ [a; b] ++ s "es"
    else if N.eqb b 121 then (if is_consonant a then stem ++ [a] ++ s "ies" else stem ++ [a; b] ++ s "s")
    else if N.eqb b 104 then (if N.eqb a 99 || N.eqb a 115 then stem ++ [a; b] ++ s "es" else stem ++ [a; b] ++ s "s")
    else if N.eqb b 101 then (if N.eqb a 102 then stem ++ s "ves" else stem ++ [a; b] ++ s "s")
    else if N.eqb b 102 then stem ++ [a] ++ s "ves"
    else stem ++ [a; b] ++ s "s".
Proof. exact plural_table. Qed.
Print Assumptions C14_plural_table.

(* non-vacuity *)
Definition ex_cfg := {| prefix := s "Foo"; suffix := s "2"; first_f := CIL; others_f := CIC; ignore := Some [s "proto"]; prepend := 1 |}.
Example C14_example_named :
  name_of ex_cfg (GNamed (s "pkg/server/frobbing/proto") (s "Bar")) = Some (s "fooFrobbingBar2").
Proof. vm_compute. reflexivity. Qed.
Example C14_example_anon :
  name_of ex_cfg (GMap (GBuiltin (s "string")) (GArray 12 (GPointer (GNamed (s "a.b/c-d") (s "T")))))
  = Some (s "fooMapStringToArray12PointerC_dT2").
Proof. vm_compute. reflexivity. Qed.
Example C14_example_plural : plural_name [] CIC (s "policy") = s "Policies" /\ plural_name [] CLower (s "Knife") = s "knives".
Proof. vm_compute. auto. Qed.
