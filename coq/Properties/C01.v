(* C01 — the parsed type universe is structurally faithful to the Go type checker (partial: the
   type checker's own view of the program -- node table, TypeStrings, scopes -- is the model's
   input, computed by the real go/types in the harness; the field-by-field agreement of the whole
   dump with go/types is decided by the correspondence run, the theorems below settle the parts
   that are gengo's own logic: name splitting, the builtin table, kinds, generic origins). *)
Require Import Gengo.Base.Str Gengo.Base.StrOrder Gengo.Model.Universe Gengo.Proofs.UniverseProofs Gengo.Proofs.CanonProofs Gengo.Proofs.FaithfulProofs Gengo.Proofs.AliasProofs Gengo.Proofs.IndepProofs Gengo.Proofs.MethodsProofs Gengo.Proofs.ExactProofs Gengo.Proofs.GenericProofs Gengo.Proofs.ImportsProofs.

(* tcNameToName / goNameToName: a spelling that is not an anonymous type's (and, for v2, carries no
   type arguments) is cut at its LAST dot: package path before it, a dot-free type name after it *)
Theorem C01_name_split : forall v2 x,
  existsb (fun p => has_prefix p x) anon_prefixes = false ->
  (v2 = true -> index_of LBR x = None) ->
  let '(pkg, nm) := name_of_string v2 x in
  (pkg = [] /\ nm = x /\ ~ In DOT x) \/ (x = pkg ++ [DOT] ++ nm /\ ~ In DOT nm).
Proof. exact name_of_string_named. Qed.
Print Assumptions C01_name_split.

(* anonymous types live in the package with the empty path under their Go spelling *)
Theorem C01_name_anonymous : forall v2 x,
  existsb (fun p => has_prefix p x) anon_prefixes = true -> name_of_string v2 x = ([], x).
Proof. exact name_of_string_anonymous. Qed.
Print Assumptions C01_name_anonymous.

(* a Go type is never reported as a different Go type: int8 has its own singleton, uint8 and byte
   share one (they are one Go type), rune is int32 *)
Theorem C01_builtin_table : forall v2,
  builtin_of v2 (s "uint8") = Some (s "byte", s "Builtin") /\ builtin_of v2 (s "byte") = Some (s "byte", s "Builtin") /\
  builtin_of v2 (s "int8") = Some (s "int8", s "Builtin") /\ builtin_of v2 (s "rune") = Some (s "int32", s "Builtin") /\
  builtin_of v2 (s "int32") = Some (s "int32", s "Builtin").
Proof. exact builtin_table_faithful. Qed.
Print Assumptions C01_builtin_table.

(* the kind reported for a pointer / slice / channel / array / map / struct / interface / function
   type is exactly that kind, whatever else the walk visits before it returns *)
Theorem C01_kind_faithful : forall v2 p fuel u use t tstr sh k u' o,
  wf u -> plookup t p = Some (tstr, sh) -> shape_kind sh = Some k ->
  walk v2 p fuel u use t = Some (u', o) ->
  let nm := match use with Some n => n | None => name_of_string v2 tstr end in
  complete (fst (get_or_create v2 u nm)) (snd (get_or_create v2 u nm)) = false ->
  o = snd (get_or_create v2 u nm) /\ kind_of u' o = s k.
Proof. exact walk_decides_kind. Qed.
Print Assumptions C01_kind_faithful.

(* once decided, a kind is never changed by any later walk *)
Theorem C01_kind_stable : forall v2 p fuel u use t u' o,
  walk v2 p fuel u use t = Some (u', o) -> forall x, complete u x = true -> kind_of u' x = kind_of u x.
Proof. intros v2 p fuel u use t u' o H. destruct (walk_ext _ _ _ _ _ _ _ _ H) as (_ & H2 & _). exact H2. Qed.
Print Assumptions C01_kind_stable.

(* the description of a generic declaration does not depend on which of its uses is seen *)
Theorem C01_generic_from_origin : forall p rec u use t1 t2 s1 s2 un1 ms1 un2 ms2 tps og so c uo mo tpo oo,
  plookup t1 p = Some (s1, SNamed 1 un1 ms1 tps (Some og)) ->
  plookup t2 p = Some (s2, SNamed 1 un2 ms2 tps (Some og)) ->
  plookup og p = Some (so, SNamed c uo mo tpo oo) ->
  name_of_string true s1 = name_of_string true s2 ->
  walk_step true p rec u use t1 = walk_step true p rec u use t2.
Proof. exact generic_described_from_origin. Qed.
Print Assumptions C01_generic_from_origin.

(* ---- structural faithfulness, shape by shape: the entry built for a composite type whose entry
   was still undecided records, position by position, the CANONICAL OBJECT of each child type of
   the type checker's node (child_is: canon of the child's key), with names, embedded flags, tags,
   lengths and the variadic flag verbatim and in declaration order.  named_ok is the decidable
   shape condition on node tables checked on every run (C11.wellformed). ---- *)
Theorem C01_pointer_slice_chan_faithful : forall v2 p, named_ok v2 p -> forall f u use t tstr c sh k u' o,
  wf u -> canonical v2 u -> plookup t p = Some (tstr, sh) ->
  (sh = SPtr c /\ k = "Pointer" \/ sh = SSlice c /\ k = "Slice" \/ sh = SChan c /\ k = "Chan")%string ->
  walk v2 p (S f) u use t = Some (u', o) ->
  let nm := match use with Some n => n | None => name_of_string v2 tstr end in
  complete (fst (get_or_create v2 u nm)) (snd (get_or_create v2 u nm)) = false ->
  exists e, nlookup o (objs u') = Some e /\ e_kind e = s k /\ exists n, e_elem e = Some n /\ child_is v2 p None c n.
Proof. exact elem_faithful. Qed.
Print Assumptions C01_pointer_slice_chan_faithful.

Theorem C01_array_faithful : forall v2 p, named_ok v2 p -> forall f u use t tstr len c u' o,
  wf u -> canonical v2 u -> plookup t p = Some (tstr, SArray len c) ->
  walk v2 p (S f) u use t = Some (u', o) ->
  let nm := match use with Some n => n | None => name_of_string v2 tstr end in
  complete (fst (get_or_create v2 u nm)) (snd (get_or_create v2 u nm)) = false ->
  exists e, nlookup o (objs u') = Some e /\ e_kind e = s "Array" /\ e_len e = len /\ exists n, e_elem e = Some n /\ child_is v2 p None c n.
Proof. exact array_faithful. Qed.
Print Assumptions C01_array_faithful.

(* key and element are each the right child: never swapped *)
Theorem C01_map_faithful : forall v2 p, named_ok v2 p -> forall f u use t tstr kt c u' o,
  wf u -> canonical v2 u -> plookup t p = Some (tstr, SMap kt c) ->
  walk v2 p (S f) u use t = Some (u', o) ->
  let nm := match use with Some n => n | None => name_of_string v2 tstr end in
  complete (fst (get_or_create v2 u nm)) (snd (get_or_create v2 u nm)) = false ->
  exists e, nlookup o (objs u') = Some e /\ e_kind e = s "Map" /\
            (exists nk, e_key e = Some nk /\ child_is v2 p None kt nk) /\ (exists ne, e_elem e = Some ne /\ child_is v2 p None c ne).
Proof. exact map_faithful. Qed.
Print Assumptions C01_map_faithful.

(* struct fields in declaration order with name, embedded flag, verbatim tag and type *)
Theorem C01_struct_faithful : forall v2 p, named_ok v2 p -> forall f u use t tstr fs u' o,
  wf u -> canonical v2 u -> plookup t p = Some (tstr, SStruct fs) ->
  walk v2 p (S f) u use t = Some (u', o) ->
  let nm := match use with Some n => n | None => name_of_string v2 tstr end in
  complete (fst (get_or_create v2 u nm)) (snd (get_or_create v2 u nm)) = false ->
  exists e, nlookup o (objs u') = Some e /\ e_kind e = s "Struct" /\
            Forall2 (fun (fd : str * bool * str * N) (m : str * bool * str * name) =>
                       fst m = fst fd /\ child_is v2 p None (snd fd) (snd m)) fs (e_members e).
Proof. exact struct_faithful. Qed.
Print Assumptions C01_struct_faithful.

(* parameter / result names and types in order, variadic flag, receiver *)
Theorem C01_func_faithful : forall v2 p, named_ok v2 p -> forall f u use t tstr ps rs vr recv u' o,
  wf u -> canonical v2 u -> plookup t p = Some (tstr, SFunc ps rs vr recv) ->
  walk v2 p (S f) u use t = Some (u', o) ->
  let nm := match use with Some n => n | None => name_of_string v2 tstr end in
  complete (fst (get_or_create v2 u nm)) (snd (get_or_create v2 u nm)) = false ->
  exists e g, nlookup o (objs u') = Some e /\ e_kind e = s "Func" /\ e_sig e = Some g /\ s_variadic g = vr /\
    Forall2 (fun (a : str * N) (b : str * name) => fst b = fst a /\ child_is v2 p None (snd a) (snd b)) ps (s_params g) /\
    Forall2 (fun (a : str * N) (b : str * name) => fst b = fst a /\ child_is v2 p None (snd a) (snd b)) rs (s_results g) /\
    match recv, s_recv g with
    | Some r, Some n => child_is v2 p None r n
    | None, None => True
    | _, _ => False end.
Proof. exact func_faithful. Qed.
Print Assumptions C01_func_faithful.

(* interface methods by name, each with the object of its signature *)
Theorem C01_interface_faithful : forall v2 p, named_ok v2 p -> forall f u use t tstr ms u' o,
  wf u -> canonical v2 u -> plookup t p = Some (tstr, SIface ms) ->
  walk v2 p (S f) u use t = Some (u', o) ->
  let nm := match use with Some n => n | None => name_of_string v2 tstr end in
  complete (fst (get_or_create v2 u nm)) (snd (get_or_create v2 u nm)) = false ->
  exists e, nlookup o (objs u') = Some e /\ e_kind e = s "Interface" /\
    Forall2 (fun m (x : str * name) => fst x = fst (fst m) /\ child_is v2 p (Some (name_of_string v2 (snd (fst m)))) (snd m) (snd x)) ms (e_methods e).
Proof. exact iface_faithful. Qed.
Print Assumptions C01_interface_faithful.

(* a defined type over a basic, map, slice, pointer, ... type: Kind Alias, the underlying type's
   canonical object, and one method per declared method, in order, each the canonical object of
   its signature -- provided the entry was a bare placeholder (undecided, no methods yet; the
   second part holds in every universe reached by lookups and loads, C11_loaded_universes_invariant) *)
Theorem C01_defined_type_faithful : forall v2 p, named_ok v2 p -> forall f u use t tstr under ms tps origin u' o,
  wf u -> canonical v2 u -> plookup t p = Some (tstr, SNamed 0 under ms tps origin) ->
  walk v2 p (S f) u use t = Some (u', o) ->
  let g := get_or_create v2 u (name_of_string v2 tstr) in
  complete (fst g) (snd g) = false ->
  (forall e0, nlookup (snd g) (objs (fst g)) = Some e0 -> e_methods e0 = []) ->
  exists e, nlookup o (objs u') = Some e /\ e_kind e = s "Alias" /\
            (exists nu, e_under e = Some nu /\ child_is v2 p None under nu) /\
            Forall2 (method_is v2 p) ms (e_methods e).
Proof. exact alias_faithful. Qed.
Print Assumptions C01_defined_type_faithful.

(* "the description of a generic declaration does not depend on which of its uses happens to be seen
   first" (v2): two nodes that denote one declaration -- the declaration itself or any instantiation:
   same origin, same type parameters, same "Name[P,Q]" -- each met first in its own universe, leave
   the SAME entry (kind, members, methods, type parameters) behind, taken from the origin *)
Theorem C01_generic_description_independent_of_first_use : forall v2 p, named_ok v2 p ->
  forall f1 f2 u1 u2 use1 use2 t1 t2 tstr1 tstr2 cls1 cls2 under1 under2 ms1 ms2 tps origin1 origin2 under' ms' ts sh u1' u2' o1 o2,
  (wf u1 /\ canonical v2 u1 /\ pristine u1) -> (wf u2 /\ canonical v2 u2 /\ pristine u2) ->
  plookup t1 p = Some (tstr1, SNamed cls1 under1 ms1 tps origin1) -> N.eqb cls1 0 = false -> (N.eqb cls1 1 && v2) = true ->
  plookup t2 p = Some (tstr2, SNamed cls2 under2 ms2 tps origin2) -> N.eqb cls2 0 = false -> (N.eqb cls2 1 && v2) = true ->
  generic_name v2 tstr2 tps = generic_name v2 tstr1 tps ->
  origin_of p origin1 under1 ms1 = (under', ms') -> origin_of p origin2 under2 ms2 = (under', ms') ->
  plookup under' p = Some (ts, sh) -> children_keyed v2 p sh ->
  Forall (fun m => keyed v2 p (Some (name_of_string v2 (snd (fst m)))) (snd m)) ms' ->
  forallb (fun a => is_tparam p (snd a)) tps = true ->
  Forall (fun a => forall k0, node_key v2 p None (snd a) = Some k0 ->
                     k0 <> generic_name v2 tstr1 tps /\ canon v2 k0 <> canon v2 (generic_name v2 tstr1 tps)) tps ->
  complete (fst (get_or_create v2 u1 (generic_name v2 tstr1 tps))) (snd (get_or_create v2 u1 (generic_name v2 tstr1 tps))) = false ->
  complete (fst (get_or_create v2 u2 (generic_name v2 tstr1 tps))) (snd (get_or_create v2 u2 (generic_name v2 tstr1 tps))) = false ->
  walk v2 p (S f1) u1 use1 t1 = Some (u1', o1) -> walk v2 p (S f2) u2 use2 t2 = Some (u2', o2) ->
  o1 = o2 /\ exists e, nlookup o1 (objs u1') = Some e /\ nlookup o2 (objs u2') = Some e.
Proof. exact generic_entry_independent. Qed.
Print Assumptions C01_generic_description_independent_of_first_use.

(* "package path and name, direct imports": after ANY load that succeeds, every requested package of a
   program whose requested packages have distinct paths is on record under its path -- there is such a
   record, and every record filed under that path agrees -- with exactly the type checker's direct
   imports (in sorted order) and the type checker's package name; declarations filed under it by other
   packages, records created because something imports it, and packages loaded later change neither *)
Theorem C01_direct_imports_and_package_name_faithful : forall v2 p fuel u0 pkgs w g,
  NoDup (map g_path (filter g_requested pkgs)) -> In g pkgs -> g_requested g = true ->
  build_from v2 p fuel u0 pkgs = Some w ->
  ((exists r, In r (w_pkgs w) /\ pr_path r = g_path g) /\
   forall r, In r (w_pkgs w) -> pr_path r = g_path g -> pr_imports r = sort_strs (g_imports g)) /\
  ((exists r, In r (w_pkgs w) /\ pr_path r = g_path g) /\
   forall r, In r (w_pkgs w) -> pr_path r = g_path g -> pr_name r = g_name g).
Proof. exact imports_and_name_faithful. Qed.
Print Assumptions C01_direct_imports_and_package_name_faithful.

(* "package path": a package is on record ONCE -- after any load, of any program, from any start
   universe, no two package records share a path; so "every record filed under that path" in the
   theorem above is "the record", and a dump of the universe keyed by path loses nothing *)
Theorem C01_one_record_per_package_path : forall v2 p fuel u0 pkgs w,
  build_from v2 p fuel u0 pkgs = Some w -> NoDup (map pr_path (w_pkgs w)).
Proof. exact one_record_per_path. Qed.
Print Assumptions C01_one_record_per_package_path.

(* non-vacuity: p.T = struct{ A int8; B *p.T } *)
Definition ex_prog : prog :=
  [(1, (s "p.T", SNamed 1 2 [] [] None));
   (2, (s "struct{A int8; B *p.T}", SStruct [(s "A", false, [], 3); (s "B", false, s "json:""b""", 4)]));
   (3, (s "int8", SBasic (s "int8")));
   (4, (s "*p.T", SPtr 1))]%N.
Example C01_example :
  match walk false ex_prog 10 {| objs := []; tkeys := [] |} None 1 with
  | Some (u, o) => o = (s "p", s "T") /\ kind_of u o = s "Struct" /\ kind_of u ([], s "int8") = s "Builtin" /\
                   kind_of u ([], s "*p.T") = s "Pointer" /\
                   option_map e_members (nlookup o (objs u)) =
                     Some [(s "A", false, [], ([], s "int8")); (s "B", false, s "json:""b""", ([], s "*p.T"))]
  | None => False end.
Proof. vm_compute. repeat split. Qed.

(* non-vacuity of the imports theorem: two requested packages, the second imports the first and a third *)
Example C01_imports_example :
  let pkgs := [ {| g_path := s "q"; g_name := s "q"; g_requested := true; g_imports := [s "p"; s "lib/z"; s "a"]; g_scope := [] |};
                {| g_path := s "p"; g_name := s "pp"; g_requested := true; g_imports := []; g_scope := [OType 1%N] |} ] in
  NoDup (map g_path (filter g_requested pkgs)) /\
  match build_from true ex_prog 10 {| objs := []; tkeys := [] |} pkgs with
  | Some w => map (fun r => (pr_path r, pr_name r, pr_imports r)) (w_pkgs w) =
              [(s "q", s "q", [s "a"; s "lib/z"; s "p"]); (s "p", s "pp", []); (s "lib/z", [], []); (s "a", [], [])]
  | None => False end.
Proof.
  split; [|vm_compute; reflexivity].
  cbn [filter g_requested map g_path]. repeat constructor; cbn; intuition discriminate.
Qed.
