(* C18 — import-boss verdicts equal the rule semantics over direct and transitive imports. *)
Require Import Gengo.Base.Str Gengo.Base.StrOrder Gengo.Base.Closure Gengo.Base.Dfs Gengo.Model.ImportBoss Gengo.Proofs.ImportBossProofs.
From Coq Require Import Permutation Sorting.Sorted.

(* rules: the run passes iff every import either matches no selector or is allowed and not
   forbidden by the FIRST rule (nearest file first, file order) whose selector matches it *)
Theorem C18_rules_verdict : forall rs imports,
  failed (verify_rules rs imports) = false <->
  forall v, In v imports ->
    match find (fun r => matches r v) rs with
    | None => True
    | Some r => allowed_by r v = true /\ forbidden_by r v = false
    end.
Proof. exact rules_verdict. Qed.
Print Assumptions C18_rules_verdict.

(* inverse rules: the same over the (transitive) importers, a rule being considered for an
   importer only if it is marked transitive or the importer is a direct one *)
Theorem C18_inverse_verdict : forall rs direct trans,
  failed (verify_inverse rs direct trans) = false <->
  forall v, In v trans ->
    match find (fun r => (transitive r || mem_str v direct) && matches r v) rs with
    | None => True
    | Some r => allowed_by r v = true /\ forbidden_by r v = false
    end.
Proof. exact inverse_verdict. Qed.
Print Assumptions C18_inverse_verdict.

Theorem C18_verdict_order_independent : forall considered rs imports imports',
  Permutation imports imports' ->
  failed (verify_loop considered rs imports) = failed (verify_loop considered rs imports').
Proof. exact verdict_order_independent. Qed.
Print Assumptions C18_verdict_order_independent.

(* the Warshall loop over three Go maps: for ALL iteration orders that visit every key, the
   relation computed is reachability by a chain of >= 1 edges *)
Theorem C18_closure_is_reachability : forall inm ks is_ js, covers inm ks is_ js ->
  forall i j, has str str_eqb (warshall str str_eqb ks is_ js (edges_of inm)) (i, j) = true
              <-> path str (edges_of inm) i j.
Proof. exact closure_is_reachability. Qed.
Print Assumptions C18_closure_is_reachability.

Theorem C18_closure_order_independent : forall inm ks is_ js, covers inm ks is_ js ->
  tclosure_with ks is_ js inm = tclosure inm.
Proof. exact tclosure_order_independent. Qed.
Print Assumptions C18_closure_order_independent.

Theorem C18_closure_output : forall inm i l, In (i, l) (tclosure inm) ->
  (forall j, In j l <-> path str (edges_of inm) i j) /\ StronglySorted str_le l /\ NoDup l /\ l <> [].
Proof. exact tclosure_spec. Qed.
Print Assumptions C18_closure_output.
Theorem C18_closure_complete : forall inm i j, In i (keys inm) -> path str (edges_of inm) i j ->
  exists l, In (i, l) (tclosure inm).
Proof. exact tclosure_complete. Qed.
Print Assumptions C18_closure_complete.

(* the imports checked are exactly the packages reachable through Package.Imports *)
Theorem C18_all_imports_is_reachability : forall u p l, all_imports u p = Some l ->
  forall x, In x l <-> exists c, In c (children_of u p) /\ reach str (children_of u) c x.
Proof. exact all_imports_spec. Qed.
Print Assumptions C18_all_imports_is_reachability.
Theorem C18_all_imports_terminates : forall u p, all_imports u p <> None.
Proof. exact all_imports_terminates. Qed.
Print Assumptions C18_all_imports_terminates.

(* the restriction files that apply: package directory and ancestors up to and including the
   first that holds go.mod or is named src, nearest first *)
Theorem C18_restriction_files : forall T (levels : list (level T)),
  restriction_files levels = flat_map file_list (firstn (S (stop_index levels)) levels).
Proof. exact @restriction_files_spec. Qed.
Print Assumptions C18_restriction_files.

Example C18_example_closure :
  tclosure [(s "a", [s "b"]); (s "b", [s "c"; s "a"])] = [(s "a", [s "a"; s "b"; s "c"]); (s "b", [s "a"; s "b"; s "c"])].
Proof. vm_compute. reflexivity. Qed.
Example C18_example_first_match :
  let r1 := {| sel := [s "k8s.io/api"]; allowed := [s "zzz"]; forbidden := []; transitive := false |} in
  let r2 := {| sel := [s "k8s.io/api"]; allowed := [s "k8s.io"]; forbidden := []; transitive := false |} in
  failed (verify_rules [r1; r2] [s "k8s.io/api"]) = true /\ failed (verify_rules [r2; r1] [s "k8s.io/api"]) = false.
Proof. vm_compute. auto. Qed.

(* Context.IncomingImports, exactly: the importers of q are the packages that list q among their
   imports, in universe order, once per listing *)
Theorem C18_incoming_exact : forall u q, vals q (incoming u) = flat_map (contrib q) u.
Proof. exact incoming_exact. Qed.
Print Assumptions C18_incoming_exact.
Theorem C18_incoming_is_direct_importers : forall u q p,
  In p (vals q (incoming u)) <-> exists imps, In (p, imps) u /\ In q imps.
Proof. exact incoming_spec. Qed.
Print Assumptions C18_incoming_is_direct_importers.

(* the two caches of a Context never outlive a change of the universe: over ANY history of
   questions (direct / transitive importers) and universe changes (AddDir, AddDirectory), every
   answer is the one computed from the universe as it is when the question is asked *)
Theorem C18_context_answers_fresh : forall u ops, ctx_run (ctx_new u) ops = ctx_spec u ops.
Proof. exact ctx_answers_fresh_new. Qed.
Print Assumptions C18_context_answers_fresh.
Example C18_example_history :
  ctx_run (ctx_new [(s "a", [s "b"])]) [OTrans; OSet [(s "a", [s "b"]); (s "c", [s "a"])]; OTrans]
  = [Some [(s "b", [s "a"])]; None; Some [(s "b", [s "a"; s "c"]); (s "a", [s "c"])]].
Proof. vm_compute. reflexivity. Qed.
