(* C15 — snippet templates mean what text/template means, with sticky errors. *)
Require Import Gengo.Base.Str Gengo.Model.Exec Gengo.Model.Snippet Gengo.Proofs.SnippetProofs.

(* Do on an error-free snippet writer performs exactly the template engine's writes (the engine
   is an input: its parse result, Write calls and execution result recorded from the real
   text/template run with the same delimiters, functions and data) and records its error *)
Theorem C15_do_is_template : forall n wd i x t w,
  nth_error (sws wd) i = Some x -> sw_err x = None -> get_w wd (sw_w x) = Some w ->
  let wd' := step n wd (ODo i t) in
  if t_parse_err t then
    writers wd' = writers wd /\ (exists x', nth_error (sws wd') i = Some x' /\ sw_err x' = Some (STmpl n))
  else
    forall w', write_chunks w (t_chunks t) = (w', None) ->
    (exists w2, get_w wd' (sw_w x) = Some w2 /\ fw_log w2 = fw_log w ++ concat (t_chunks t)) /\
    (exists x', nth_error (sws wd') i = Some x' /\ sw_err x' = if t_exec_err t then Some (STmpl n) else None).
Proof. exact do_is_template. Qed.
Print Assumptions C15_do_is_template.

(* after the first template or write error nothing further is written ... *)
Theorem C15_no_effect_after_error : forall n wd o i x e,
  nth_error (sws wd) i = Some x -> sw_err x = Some e -> targets o i -> step n wd o = wd.
Proof. exact no_effect_after_error. Qed.
Print Assumptions C15_no_effect_after_error.

(* ... and that first error is what is reported, through every later chain of calls on any
   snippet writer *)
Theorem C15_error_kept_forever : forall os n wd i x e,
  nth_error (sws wd) i = Some x -> sw_err x = Some e ->
  Forall (fun wd' => nth_error (sws wd') i = Some x) (run_ops n wd os).
Proof. exact error_kept_forever. Qed.
Print Assumptions C15_error_kept_forever.

Theorem C15_dup_carries_error : forall n wd i x w,
  nth_error (sws wd) i = Some x ->
  let wd' := step n wd (ODup i w) in
  writers wd' = writers wd /\ nth_error (sws wd') (length (sws wd)) = Some {| sw_w := w; sw_err := sw_err x |}.
Proof. exact dup_carries_error. Qed.
Print Assumptions C15_dup_carries_error.

Theorem C15_merge_adopts_error : forall n wd i j x y e content,
  nth_error (sws wd) i = Some x -> nth_error (sws wd) j = Some y -> sw_err x = None -> sw_err y = Some e ->
  let wd' := step n wd (OMerge i content j) in
  writers wd' = writers wd /\ nth_error (sws wd') i = Some {| sw_w := sw_w x; sw_err := Some e |}.
Proof. exact merge_adopts_error. Qed.
Print Assumptions C15_merge_adopts_error.

(* argument maps: v2 -- the added value wins on a clash; v1 -- the receiver's *)
Theorem C15_args_with_v2 : forall a k v k',
  lookup k' (args_with_v2 a k v) = if str_eqb k' k then Some v else lookup k' a.
Proof. exact args_with_v2_spec. Qed.
Print Assumptions C15_args_with_v2.
Theorem C15_args_withargs_v2 : forall rhs a k, NoDup (keys rhs) ->
  lookup k (args_withargs_v2 a rhs) = match lookup k rhs with Some v => Some v | None => lookup k a end.
Proof. exact args_withargs_v2_spec. Qed.
Print Assumptions C15_args_withargs_v2.
Theorem C15_args_with_v1 : forall a k v k',
  lookup k' (args_with_v1 a k v) = match lookup k' a with Some x => Some x | None => if str_eqb k' k then Some v else None end.
Proof. exact args_with_v1_spec. Qed.
Print Assumptions C15_args_with_v1.

Example C15_example :
  let w0 := {| fw_log := []; fw_count := 0; fw_failat := 1; fw_part := 1; fw_eid := 10 |} in
  let wd := {| writers := [w0]; sws := [{| sw_w := 0; sw_err := None |}] |} in
  let t := {| t_parse_err := false; t_chunks := [s "ab"; s "cd"; s "ef"]; t_exec_err := false |} in
  map (fun wd => (map fw_log (writers wd), map sw_err (sws wd))) (run_ops 0 wd [ODo 0 t; OAppend 0 (s "zz"); ODo 0 t])
  = [([s "abc"], [Some (SWriter 10)]); ([s "abc"], [Some (SWriter 10)]); ([s "abc"], [Some (SWriter 10)])].
Proof. vm_compute. reflexivity. Qed.
