(* C16 — deepcopy-gen output compiles and really deep-copies (partial: the theorems are about the
   copy semantics that the generator's decisions implement, on typed value trees whose reference
   nodes carry the identity of their storage; that the emitted Go text compiles and has this
   semantics is exercised by compiling and running it on every run -- correspondence entry
   C16.copy and the reflection oracle -- not proved.  The full statement "shares no mutable storage"
   is FALSE of the faithful model for struct fields of array type with reference elements:
   C16_array_of_references_refuted; this is the recorded known finding.) *)
Require Import Gengo.Base.Str Gengo.Model.DeepCopy Gengo.Proofs.DeepCopyProofs.

(* the copy is deeply equal to the original: same tree once storage identities are erased,
   including nil versus empty (a nil reference is VNil, an empty one a node without entries) *)
Theorem C16_copy_deeply_equal : forall D v t n, erase (snd (fst (cp D t n v))) = erase v.
Proof. exact cp_erase. Qed.
Print Assumptions C16_copy_deeply_equal.

(* all storage of the copy is freshly allocated -- for every declaration table in which array
   types have assignable elements, every type over it and every value of that type *)
Theorem C16_copy_storage_fresh_partial : forall D, decls_ok D = true -> forall v t n, ty_ok D t = true -> has_type D v t ->
  let '(n', v', _) := cp D t n v in (n <= n')%N /\ in_range n n' (ids v').
Proof. exact cp_range. Qed.
Print Assumptions C16_copy_storage_fresh_partial.

(* hence the copy shares no storage with the original ... *)
Theorem C16_copy_disjoint_partial : forall D v t, decls_ok D = true -> ty_ok D t = true -> has_type D v t ->
  let '(_, v', _) := cp D t (N.succ (max_id v)) v in forall i, In i (ids v) -> ~ In i (ids v').
Proof. exact cp_disjoint. Qed.
Print Assumptions C16_copy_disjoint_partial.

(* ... which is what the correspondence run observes as an empty list of shared paths ... *)
Theorem C16_observed_sharing_empty_partial : forall D v t, decls_ok D = true -> ty_ok D t = true -> has_type D v t ->
  let '(_, v', _) := cp D t (N.succ (max_id v)) v in shared (N.succ (max_id v)) [] v' = [].
Proof. exact cp_shares_nothing. Qed.
Print Assumptions C16_observed_sharing_empty_partial.

(* ... and mutating either through any of its storage leaves the other unchanged *)
Theorem C16_mutation_independent_partial : forall D v t, decls_ok D = true -> ty_ok D t = true -> has_type D v t ->
  let '(_, v', _) := cp D t (N.succ (max_id v)) v in
  (forall i f, In i (ids v') -> poke i f v = v) /\ (forall i f, In i (ids v) -> poke i f v' = v').
Proof. exact cp_mutation_independent. Qed.
Print Assumptions C16_mutation_independent_partial.

(* the same for DeepCopyInto of a type itself (cp_top: "*out = *in" and then every member, without
   the IsAssignable shortcut that slots take) -- this is what the correspondence run evaluates *)
Theorem C16_top_copy_deeply_equal : forall D v t n, erase (snd (fst (cp_top D t n v))) = erase v.
Proof. exact cp_top_erase. Qed.
Print Assumptions C16_top_copy_deeply_equal.

Theorem C16_top_copy_storage_fresh_partial : forall D, decls_ok D = true -> forall v t n, ty_ok D t = true -> has_type D v t ->
  let '(n', v', _) := cp_top D t n v in (n <= n')%N /\ in_range n n' (ids v').
Proof. exact cp_top_range. Qed.
Print Assumptions C16_top_copy_storage_fresh_partial.

Theorem C16_top_copy_disjoint_partial : forall D v t, decls_ok D = true -> ty_ok D t = true -> has_type D v t ->
  let '(_, v', _) := cp_top D t (N.succ (max_id v)) v in forall i, In i (ids v) -> ~ In i (ids v').
Proof. exact cp_top_disjoint. Qed.
Print Assumptions C16_top_copy_disjoint_partial.

(* a slot whose type has hand-written DeepCopy methods is copied by exactly one call of them *)
Theorem C16_hand_written_called : forall D t fs n v, resolve D (length D) t = RStruct true fs ->
  cp D t n v = (let '(n1, v') := fresh n v in (n1, v', 1%N)).
Proof. exact cp_hand. Qed.
Print Assumptions C16_hand_written_called.

(* values of an assignable type hold no storage, so copying them by assignment is a deep copy
   (the use deepcopy-gen makes of types.Type.IsAssignable, cf. C20) *)
Theorem C16_assignable_holds_no_storage : forall D fuel v t, has_type D v t -> assignable D fuel t = true -> ids v = [].
Proof. exact assignable_no_ids. Qed.
Print Assumptions C16_assignable_holds_no_storage.

(* ... but "hand-written methods are called" is FALSE of the faithful model when the type with the
   hand-written methods sits, by value, inside a struct that IsAssignable and that struct is copied as
   a slot: Nested{ W Wrap{ A HandA } } copies W by assignment.  Recorded known finding
   hand-written-inside-assignable; confirmed on the compiled generated code in every run. *)
Theorem C16_hand_written_bypassed_refuted :
  has_type bypass_decls bypass_val (TNamed 1) /\
  snd (cp_top bypass_decls (TNamed 1) 1 bypass_val) = 0%N /\
  snd (cp_top bypass_decls (TNamed 2) 1 (VRec [VRec [VS 1]; VS 2])) = 1%N.
Proof. exact cp_hand_written_bypassed_refuted. Qed.
Print Assumptions C16_hand_written_bypassed_refuted.

(* the array condition cannot be dropped: type S struct{ F [1]*int } *)
Theorem C16_array_of_references_refuted :
  has_type bad_decls bad_val (TNamed 1) /\ decls_ok bad_decls = false /\
  let '(_, v', _) := cp bad_decls (TNamed 1) (N.succ (max_id bad_val)) bad_val in
  In 1%N (ids bad_val) /\ In 1%N (ids v') /\ shared (N.succ (max_id bad_val)) [] v' = [[0; 0]]%N /\
  poke 1 (fun _ => [(0%N, VS 8)]) bad_val <> bad_val.
Proof. exact cp_array_of_references_refuted. Qed.
Print Assumptions C16_array_of_references_refuted.

Example C16_example : decls_ok ok_decls = true /\ ty_ok ok_decls (TNamed 1) = true /\ has_type ok_decls ok_val (TNamed 1) /\
  let '(_, v', c) := cp ok_decls (TNamed 1) (N.succ (max_id ok_val)) ok_val in
  erase v' = erase ok_val /\ ids v' = [6; 7; 8; 9; 10]%N /\ c = 0%N.
Proof. exact ok_example. Qed.
