Require Import Gengo.Base.Str.
