(* C07 — the import tracker yields a collision-free, valid, stable import block.
   Statements only; proofs in Proofs/TrackerProofs.v.  The model (Model/Tracker.v) is parametric
   in unicode.IsLetter / unicode.IsDigit / strconv.Itoa; [Contracts] states what is assumed of them. *)
Require Import Gengo.Base.Str Gengo.Base.StrOrder Gengo.Model.Tracker Gengo.Model.Tags Gengo.Proofs.TrackerProofs.
From Coq Require Import Permutation Sorting.Sorted.

Definition Contracts (is_letter is_digit : N -> bool) (itoa : N -> str) : Prop :=
  (forall c, is_lower c = true -> is_letter c = true) /\
  (forall c, is_digit c = true -> is_lower c = false) /\
  is_letter USCORE || is_digit USCORE = false /\
  (forall a b, itoa a = itoa b -> a = b) /\
  (forall n, itoa n <> [] /\ forallb is_digit (itoa n) = true).

(* For every add-sequence from a fresh tracker (v1 or v2, any output package) the invariant
   holds: path -> alias and alias -> path are mutually inverse maps (so no two packages share an
   alias), every alias is a legal Go identifier, not a keyword, in v2 not the output package's
   leaf; the output package and the empty package are not tracked. *)
Theorem C07_invariant_every_add_sequence : forall is_letter is_digit itoa,
  Contracts is_letter is_digit itoa ->
  forall ops v2 local t',
  run is_letter is_digit itoa (init v2 local) ops = Some t' ->
  (forall p n, lookup p (p2n t') = Some n <-> lookup n (n2p t') = Some p) /\
  (forall p n, lookup p (p2n t') = Some n -> valid_alias is_letter is_digit t' n = true) /\
  lookup (localpkg t') (p2n t') = None /\
  lookup [] (p2n t') = None /\
  NoDup (keys (p2n t')).
Proof.
  intros il id it [H1 [H2 [H3 [H4 H5]]]] ops v2 local t' H.
  exact (inv_reachable il id it H1 H2 H3 H5 ops _ _ (inv_init il id v2 local) H).
Qed.
Print Assumptions C07_invariant_every_add_sequence.

Theorem C07_never_panics : forall is_letter is_digit itoa,
  (forall a b, itoa a = itoa b -> a = b) ->
  forall ops t, run is_letter is_digit itoa t ops <> None.
Proof. intros il id it H ops t. exact (run_never_panics il id it H ops t). Qed.
Print Assumptions C07_never_panics.

(* once a package has an alias, no later add changes it *)
Theorem C07_alias_stable : forall is_letter is_digit itoa ops t t' p n,
  run is_letter is_digit itoa t ops = Some t' ->
  lookup p (p2n t) = Some n -> lookup p (p2n t') = Some n.
Proof. intros il id it. exact (alias_stable il id it). Qed.
Print Assumptions C07_alias_stable.

(* exactly the added foreign packages are tracked *)
Theorem C07_added_is_tracked : forall is_letter is_digit itoa t pkg t',
  add_symbol is_letter is_digit itoa t pkg = Some t' ->
  pkg <> localpkg t -> pkg <> [] -> lookup pkg (p2n t') <> None.
Proof. intros il id it. exact (tracked_after_add il id it). Qed.
Print Assumptions C07_added_is_tracked.

Theorem C07_only_added_is_tracked : forall is_letter is_digit itoa t pkg t' q,
  add_symbol is_letter is_digit itoa t pkg = Some t' ->
  lookup q (p2n t') <> None -> q = pkg \/ lookup q (p2n t) <> None.
Proof. intros il id it. exact (only_added_tracked il id it). Qed.
Print Assumptions C07_only_added_is_tracked.

(* import lines: one per tracked package, sorted by path, each `alias "path"` *)
Theorem C07_import_lines : forall t,
  import_lines t = map (fun p => print_import p (local_name_of t p)) (sort_strs (keys (p2n t)))
  /\ Permutation (sort_strs (keys (p2n t))) (keys (p2n t))
  /\ StronglySorted str_le (sort_strs (keys (p2n t))).
Proof. exact import_lines_spec. Qed.
Print Assumptions C07_import_lines.

(* sort.Strings has a unique admissible result on distinct keys: any sorted permutation *)
Theorem C07_sorted_order_unique : forall l out,
  Permutation out l -> StronglySorted str_le out -> out = sort_strs l.
Proof. exact sort_strs_unique. Qed.
Print Assumptions C07_sorted_order_unique.

(* path/name lookups are mutually inverse *)
Theorem C07_lookups_inverse : forall is_letter is_digit t, Inv is_letter is_digit t -> forall p n,
  local_name_of t p = n -> n <> [] -> path_of t n = Some p.
Proof. exact inv_lookups_inverse. Qed.
Print Assumptions C07_lookups_inverse.

(* ---------- the tracker's other entry points and options ---------- *)
(* For every sequence of symbols -- also symbols whose types.Name carries a Path different from its
   Package (the key is the Path, the alias is made from the Package) -- and of types the tracker's
   IsInvalidType rejects (their package name is reserved), from a fresh tracker: every tracked key
   has exactly one alias, path -> alias -> path is the identity, alias -> path -> alias is the
   identity on every non-empty path, every alias is a legal non-keyword identifier (v2: not the
   output package's leaf), and a reserved name is nobody's alias. *)
Theorem C07_invariant_every_operation_sequence : forall is_letter is_digit itoa,
  Contracts is_letter is_digit itoa ->
  forall ops v2 local t',
  run_ops is_letter is_digit itoa (init v2 local) ops = Some t' ->
  (forall p n, lookup p (p2n t') = Some n -> lookup n (n2p t') = Some p) /\
  (forall n p, lookup n (n2p t') = Some p -> p <> [] -> lookup p (p2n t') = Some n) /\
  (forall p n, lookup p (p2n t') = Some n -> valid_alias is_letter is_digit t' n = true) /\
  lookup [] (p2n t') = None /\
  NoDup (keys (p2n t')).
Proof.
  intros il id it [H1 [H2 [H3 [H4 H5]]]] ops v2 local t' H.
  exact (inv2_reachable il id it H1 H2 H3 H5 ops _ _ (inv2_init il id v2 local) H).
Qed.
Print Assumptions C07_invariant_every_operation_sequence.
Theorem C07_operations_never_panic : forall is_letter is_digit itoa,
  (forall a b, itoa a = itoa b -> a = b) -> forall ops t, run_ops is_letter is_digit itoa t ops <> None.
Proof. intros il id it H ops t. exact (run_ops_never_panics il id it H ops t). Qed.
Print Assumptions C07_operations_never_panic.
Theorem C07_operations_keep_aliases : forall is_letter is_digit itoa ops t t' p n,
  run_ops is_letter is_digit itoa t ops = Some t' -> lookup p (p2n t) = Some n -> lookup p (p2n t') = Some n.
Proof. intros il id it. exact (ops_alias_stable il id it). Qed.
Print Assumptions C07_operations_keep_aliases.
Theorem C07_reserved_name_is_no_alias : forall is_letter is_digit t, Inv2 is_letter is_digit t ->
  forall n, path_of t n = Some [] -> forall p, lookup p (p2n t) <> Some n.
Proof. exact inv2_reserved_not_alias. Qed.
Print Assumptions C07_reserved_name_is_no_alias.
(* AddSymbol with Path = Package is the operation of the theorems above *)
Theorem C07_add_symbol_is_the_special_case : forall is_letter is_digit itoa t pkg,
  add_symbol is_letter is_digit itoa t pkg = add_op is_letter is_digit itoa t (TSym pkg []).
Proof. intros. reflexivity. Qed.
Print Assumptions C07_add_symbol_is_the_special_case.
Example C07_example_ops :
  match run_ops is_letter_x is_digit_x itoa_dec (init false (s "local/out"))
          [TSym (s "x/foo") []; TInvalid (s "bar") false; TSym (s "y/bar") []; TSym (s "x/foo") (s "vendor/x/foo")] with
  | Some t => map (local_name_of t) [s "x/foo"; s "y/bar"; s "vendor/x/foo"] = [s "foo"; s "ybar"; s "xfoo"] /\ path_of t (s "bar") = Some []
  | None => False end.
Proof. vm_compute. split; reflexivity. Qed.

(* the instance that is extracted and run against the Go code meets the contracts *)
Theorem C07_instance_contracts : Contracts is_letter_x is_digit_x itoa_dec.
Proof.
  split; [exact inst_lower_letter|]. split; [exact inst_digit_lower|]. split; [exact inst_uscore|].
  split; [exact itoa_dec_inj|exact itoa_dec_digits].
Qed.
Print Assumptions C07_instance_contracts.

(* non-vacuity and the repaired behaviours, by computation *)
Example C07_example_keywords :
  option_map (fun t => (local_name_of t (s "a/go"), local_name_of t (s "b/go")))
    (run is_letter_x is_digit_x itoa_dec (init true (s "x/out")) [s "a/go"; s "b/go"])
  = Some (s "_go", s "bgo").
Proof. vm_compute. reflexivity. Qed.
Example C07_example_exhausted :
  option_map (fun t => import_lines t)
    (run is_letter_x is_digit_x itoa_dec (init false []) [s "x/b"; s "ab"; s "a/b"; s "c/2fa"])
  = Some [s "ab2 ""a/b"""; s "ab ""ab"""; s "_2fa ""c/2fa"""; s "b ""x/b"""].
Proof. vm_compute. reflexivity. Qed.
