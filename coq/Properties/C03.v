(* C03 — the canonical type order is sorted, complete and a function of the input only. *)
Require Import Gengo.Base.Str Gengo.Base.SortSpec Gengo.Model.Order Gengo.Proofs.OrderProofs.
From Coq Require Import Permutation Sorting.Sorted.

(* For every universe, every order in which Go may iterate the package map and the four tables
   of each package, and every result sort.Sort may return (any permutation of the gathered list
   without adjacent inversions w.r.t. Less): the result is [order u]. *)
Theorem C03_order_deterministic : forall u arranged out,
  Permutation (all_entries u) arranged ->
  Permutation arranged out -> no_inversion entry entry_ltb out ->
  out = order u.
Proof. exact order_deterministic. Qed.
Print Assumptions C03_order_deterministic.

Theorem C03_gather_any_map_order : forall u u1 u2,
  Permutation u u1 -> Forall2 pkg_perm u1 u2 -> Permutation (all_entries u) (all_entries u2).
Proof. exact gather_any_order. Qed.
Print Assumptions C03_gather_any_map_order.

(* every type, function, variable and constant exactly once *)
Theorem C03_order_complete : forall u, Permutation (all_entries u) (order u).
Proof. exact order_complete. Qed.
Print Assumptions C03_order_complete.

(* non-decreasing in the naming system's names *)
Theorem C03_order_sorted : forall u, names_sorted (order u) = true.
Proof. exact order_is_sorted. Qed.
Print Assumptions C03_order_sorted.

Theorem C03_less_is_strict_total_order :
  (forall a, entry_ltb a a = false) /\
  (forall a b c, entry_ltb a b = true -> entry_ltb b c = true -> entry_ltb a c = true) /\
  (forall a b, entry_ltb a b = true \/ a = b \/ entry_ltb b a = true).
Proof. split; [exact entry_ltb_irrefl|split; [exact entry_ltb_trans|exact entry_ltb_total]]. Qed.
Print Assumptions C03_less_is_strict_total_order.

(* the defect that was repaired: comparing the namer's names only admits two different results *)
Theorem C03_name_only_comparison_refuted :
  exists input out1 out2,
    Permutation input out1 /\ no_inversion entry name_ltb out1 /\
    Permutation input out2 /\ no_inversion entry name_ltb out2 /\ out1 <> out2.
Proof. exact order_by_name_only_refuted. Qed.
Print Assumptions C03_name_only_comparison_refuted.

Example C03_example :
  map epkg (order [ {| ppath := s "b"; ptypes := [tie_b]; pfuncs := []; pvars := []; pconsts := [] |};
                    {| ppath := s "a"; ptypes := [tie_a]; pfuncs := []; pvars := []; pconsts := [] |} ])
  = [s "a"; s "b"].
Proof. vm_compute. reflexivity. Qed.
