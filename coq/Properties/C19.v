(* C19 — JSON struct-tag lookup agrees with encoding/json.  Statements only. *)
Require Import Gengo.Base.Str Gengo.Model.JsonTag Gengo.Proofs.JsonTagProofs.

(* For every field name and every json tag value, the LookupJSON result satisfies P_check:
   inline is set exactly when the word "inline" is one of the comma-separated options, and --
   whenever encoding/json accepts the tag's name -- omitted flag, omitempty flag and (for
   non-inline fields) the name are the ones json_rule (the model of encoding/json's own rule,
   itself checked against real marshalling on every run) computes. *)
Theorem C19_lookup_agrees : forall is_letter is_digit fname tag,
  pcheck_lookup is_letter is_digit fname tag (lookup_json_value fname tag) = true.
Proof. exact lookup_satisfies_pcheck. Qed.
Print Assumptions C19_lookup_agrees.

(* options.Contains: word membership, not substring *)
Theorem C19_contains_is_word_membership : forall o w, w <> [] ->
  (opt_contains o w = true <-> In w (words o)).
Proof. exact opt_contains_In. Qed.
Print Assumptions C19_contains_is_word_membership.

(* rendering a result and parsing it again yields the same result, for results that do not
   combine a name with inline; [clean]: the name contains no quote, backslash or newline *)
Theorem C19_string_roundtrip : forall fname tags r,
  ~ In COMMA fname ->
  lookup_json fname tags = Some r ->
  (jinline r = false \/ jname r = []) ->
  clean (jname r) ->
  lookup_json fname (json_tag_of (json_string r)) = Some r.
Proof. exact string_roundtrip. Qed.
Print Assumptions C19_string_roundtrip.

(* reflect.StructTag.Get (model) returns the value we rendered *)
Theorem C19_get_of_rendered_tag : forall v, clean v -> struct_tag_get str_json (json_tag_of v) = GFound v.
Proof. exact struct_tag_get_json. Qed.
Print Assumptions C19_get_of_rendered_tag.

(* non-vacuity *)
Example C19_example_omit :
  lookup_json (s "F") (s "protobuf:""x"" json:""-""") = Some {| jname := []; jomit := true; jinline := false; jomitempty := false |}
  /\ lookup_json (s "F") (json_tag_of (json_string {| jname := []; jomit := true; jinline := false; jomitempty := false |}))
     = Some {| jname := []; jomit := true; jinline := false; jomitempty := false |}.
Proof. vm_compute. auto. Qed.
Example C19_example_dash_name :
  lookup_json (s "F") (s "json:""-,""") = Some {| jname := s "-"; jomit := false; jinline := false; jomitempty := false |}
  /\ json_string {| jname := s "-"; jomit := false; jinline := false; jomitempty := false |} = s "-,".
Proof. vm_compute. auto. Qed.
Example C19_example_near_miss :
  lookup_json (s "F") (s "json:""n,omitemptyx,xinline,inline """) =
  Some {| jname := s "n"; jomit := false; jinline := false; jomitempty := false |}.
Proof. vm_compute. reflexivity. Qed.
