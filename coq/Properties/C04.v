(* C04 — targets and generators are driven exactly by the documented protocol. *)
Require Import Gengo.Base.Str Gengo.Base.StrOrder Gengo.Model.Exec Gengo.Proofs.ExecProofs.

(* the hook trace of a target equals the documented protocol -- for each generator in order:
   Filter on exactly the target-accepted types in canonical order (each call being shown the
   order its context holds: the whole canonical order for the target's filter, the
   target-accepted order for a generator's), Namers, PackageVars,
   PackageConsts, Init, one GenerateType per type accepted by both filters, Finalize, Imports --
   whenever no generator fails ... *)
Theorem C04_trace_is_protocol : forall itoa c t, tdir t <> [] ->
  (forall e, r_err (exec_target itoa c t) = Some e -> (exists x, e = XUnknownType x) \/ exists fs, e = XAssemble fs) ->
  r_events (exec_target itoa c t) = target_protocol c t.
Proof. exact trace_is_protocol. Qed.
Print Assumptions C04_trace_is_protocol.

(* ... and is a prefix of it in every case: nothing skipped, repeated or out of order *)
Theorem C04_trace_is_protocol_prefix : forall itoa c t, tdir t <> [] ->
  exists rest, target_protocol c t = r_events (exec_target itoa c t) ++ rest.
Proof. exact trace_is_protocol_prefix. Qed.
Print Assumptions C04_trace_is_protocol_prefix.

(* ... where [ended] only ends the last line of what is already there: the next generator's text never
   continues a line of the previous one's *)
Theorem C04_contributions_are_separated : forall b,
  (ended b = b \/ ended b = b ++ nl) /\ (b <> [] -> exists b', ended b = b' ++ nl).
Proof. exact ended_spec. Qed.
Print Assumptions C04_contributions_are_separated.

(* naming systems returned by a generator are visible to that generator only *)
Theorem C04_namers_private : forall c g,
  visible_namers c g = match gnamers g with
                       | None => map (own_mark false) (sort_strs (namers c))
                       | Some l => map (fun n => own_mark (mem_str n l) n) (union_sorted (namers c) l) end.
Proof. exact namers_private. Qed.
Print Assumptions C04_namers_private.

(* ... and on a name collision the generator's own system wins over the context's: a visible name is
   bound to the generator's system exactly when the generator returned a system of that name *)
Theorem C04_own_namer_wins : forall c g l n b, gnamers g = Some l -> In (own_mark b n) (visible_namers c g) -> b = mem_str n l.
Proof. exact own_namer_wins. Qed.
Print Assumptions C04_own_namer_wins.

(* generators naming the same file contribute to one file in generator order *)
Theorem C04_file_merge : forall itoa c t pord g files ev files',
  gen_step itoa c t pord g files = (ev, inr files') ->
  let gord := accepted (gfilter g) pord in
  (exists f', find_file (gfilename g) files' = Some f' /\
     fbody f' = ended (match find_file (gfilename g) files with Some f => fbody f | None => [] end) ++ emitted itoa g gord /\
     fheader f' = match find_file (gfilename g) files with Some f => fheader f | None => theader t end /\
     ftype f' = gfiletype g) /\
  (forall n, n <> gfilename g -> find_file n files' = find_file n files).
Proof. exact file_merge_step. Qed.
Print Assumptions C04_file_merge.

(* errors of the generator stage are exactly: empty file type, conflicting file type, failing hook *)
Theorem C04_generator_stage_errors : forall itoa c t pord gs evs files evs' files' e,
  gen_loop itoa c t pord gs evs files = (evs', files', Some e) ->
  (forall x, e <> XUnknownType x) /\ (forall fs, e <> XAssemble fs).
Proof. exact gen_loop_err_kind. Qed.
Print Assumptions C04_generator_stage_errors.

Definition ex_g1 := {| gname := s "g1"; gfilter := [1%N; 2%N]; gnamers := Some [s "mine"]; gfiletype := s "go"; gfilename := s "a.go";
  gvars := []; gconsts := []; ginit := s "I1;"; ginit_err := false; gtype := s "T"; gtype_err := None; gfin := s "F1;"; gfin_err := false; gimports := [s "fmt"] |}.
Definition ex_g2 := {| gname := s "g2"; gfilter := [2%N]; gnamers := None; gfiletype := s "go"; gfilename := s "a.go";
  gvars := []; gconsts := []; ginit := s "I2;"; ginit_err := false; gtype := s "U"; gtype_err := None; gfin := []; gfin_err := false; gimports := [] |}.
Example C04_example :
  let c := {| order := [2%N; 0%N; 1%N]; namers := [s "raw"]; filetypes := [s "go"]; assemble_fails := [] |} in
  let t := {| tname := s "t"; tpath := s "p"; tdir := s "d"; tfilter := [1%N; 2%N]; theader := s "// h"; tgens := [ex_g1; ex_g2] |} in
  option_map (map fbody) (r_files (exec_target Tracker.itoa_dec c t)) = Some [s "I1;T2T1F1;" ++ nl ++ s "I2;U2"].
Proof. vm_compute. reflexivity. Qed.
