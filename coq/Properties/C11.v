(* C11 — the universe does not depend on how loading was split or ordered.  Proved here: splitting a
   load is the same as loading in sequence; every load on every world only extends it; objects
   obtained before stay the ones later lookups return, and an entry whose kind is decided keeps every
   field through any later walk or load; the same key resolves to the same object whatever the
   history; and the whole entry built for a non-generic type (unnamed composites, defined types over
   them, defined types over basic/map/slice... types) is a function of the type checker's node
   table, identical in any two universes reached by lookups and loads; so is the whole entry of a v2
   struct/interface declaration, generic or not (type parameters, origin's underlying type and
   methods).  Not proved (partial): that the same SET of keys is present after any permutation /
   partition of the same requests -- decided by the correspondence run over permutations and
   partitions. *)
Require Import Gengo.Base.Str Gengo.Model.Universe Gengo.Proofs.UniverseProofs Gengo.Proofs.CanonProofs Gengo.Proofs.FaithfulProofs Gengo.Proofs.IndepProofs
               Gengo.Proofs.FrameProofs Gengo.Proofs.MethodsProofs Gengo.Proofs.AliasProofs Gengo.Proofs.ExactProofs Gengo.Proofs.NamedProofs Gengo.Proofs.GenericProofs.

Theorem C11_split_is_sequence : forall v2 p fuel gs1 gs2 w,
  fold_left (add_package v2 p fuel) (gs1 ++ gs2) w =
  fold_left (add_package v2 p fuel) gs2 (fold_left (add_package v2 p fuel) gs1 w).
Proof. exact load_split. Qed.
Print Assumptions C11_split_is_sequence.

Theorem C11_load_extends_partial : forall v2 p fuel gs w w',
  fold_left (add_package v2 p fuel) gs (Some w) = Some w' -> ext (w_u w) (w_u w').
Proof. exact load_history_ext. Qed.
Print Assumptions C11_load_extends_partial.

Theorem C11_objects_stay_valid : forall v2 p fuel u k gs pk w',
  let '(u1, o) := get_or_create v2 u k in
  fold_left (add_package v2 p fuel) gs (Some {| w_u := u1; w_pkgs := pk |}) = Some w' ->
  get_or_create v2 (w_u w') k = (w_u w', o).
Proof. exact lookup_stable_across_loads. Qed.
Print Assumptions C11_objects_stay_valid.

Theorem C11_rewalk_noop : forall v2 p f u use t tstr sh o,
  plookup t p = Some (tstr, sh) -> no_tparams sh = true ->
  nlookup (key_of v2 use tstr sh) (tkeys u) = Some o -> complete u o = true ->
  walk v2 p (S f) u use t = Some (u, o).
Proof. exact walk_noop. Qed.
Print Assumptions C11_rewalk_noop.

(* which object a name denotes does not depend on the history: after any lookups and any sequence
   of loads, in any order and grouping, a key resolves to canon(key) (the shared singleton for a
   builtin key, the entry of that very name otherwise); so two histories never disagree, and the
   identity map on names is the isomorphism between their universes as far as object identity
   goes.  named_ok is the shape of go/types' output (the underlying type of a defined type is an
   unnamed composite); it is decidable (named_okb) and checked on every program of every run *)
Theorem C11_histories_agree_on_objects : forall v2 p fuel, named_ok v2 p -> forall pre1 pre2 gs1 gs2 pk1 pk2 w1 w2 k o1 o2,
  fold_left (add_package v2 p fuel) gs1 (Some {| w_u := lookups v2 {| objs := []; tkeys := [] |} pre1; w_pkgs := pk1 |}) = Some w1 ->
  fold_left (add_package v2 p fuel) gs2 (Some {| w_u := lookups v2 {| objs := []; tkeys := [] |} pre2; w_pkgs := pk2 |}) = Some w2 ->
  nlookup k (tkeys (w_u w1)) = Some o1 -> nlookup k (tkeys (w_u w2)) = Some o2 -> o1 = o2.
Proof. exact histories_agree_on_objects. Qed.
Print Assumptions C11_histories_agree_on_objects.

(* the object returned for a type occurrence is a function of the program text and the
   occurrence only: the same in every (canonical) universe *)
Theorem C11_walk_result_independent_of_universe : forall v2 p, named_ok v2 p -> forall f1 f2 u1 u2 use t u1' u2' o1 o2 k,
  canonical v2 u1 -> canonical v2 u2 -> node_key v2 p use t = Some k ->
  walk v2 p f1 u1 use t = Some (u1', o1) -> walk v2 p f2 u2 use t = Some (u2', o2) -> o1 = o2.
Proof. exact walk_same_object_everywhere. Qed.
Print Assumptions C11_walk_result_independent_of_universe.

(* what is recorded for a composite type whose entry is still undecided does not depend on the
   universe it is walked in (what was loaded before, in which order, in how many calls): same kind,
   same child objects, same member list *)
Theorem C11_struct_entry_independent_of_history : forall v2 p, named_ok v2 p -> forall f1 f2 u1 u2 use t tstr fs u1' u2' o1 o2,
  wf u1 -> canonical v2 u1 -> wf u2 -> canonical v2 u2 -> plookup t p = Some (tstr, SStruct fs) ->
  Forall (fun fd => keyed v2 p None (snd fd)) fs -> fresh_for v2 u1 use tstr -> fresh_for v2 u2 use tstr ->
  walk v2 p (S f1) u1 use t = Some (u1', o1) -> walk v2 p (S f2) u2 use t = Some (u2', o2) ->
  exists e1 e2, nlookup o1 (objs u1') = Some e1 /\ nlookup o2 (objs u2') = Some e2 /\
                e_kind e1 = e_kind e2 /\ e_members e1 = e_members e2.
Proof. exact struct_independent. Qed.
Print Assumptions C11_struct_entry_independent_of_history.

Theorem C11_map_entry_independent_of_history : forall v2 p, named_ok v2 p -> forall f1 f2 u1 u2 use t tstr kt c u1' u2' o1 o2,
  wf u1 -> canonical v2 u1 -> wf u2 -> canonical v2 u2 -> plookup t p = Some (tstr, SMap kt c) ->
  keyed v2 p None kt -> keyed v2 p None c -> fresh_for v2 u1 use tstr -> fresh_for v2 u2 use tstr ->
  walk v2 p (S f1) u1 use t = Some (u1', o1) -> walk v2 p (S f2) u2 use t = Some (u2', o2) ->
  exists e1 e2, nlookup o1 (objs u1') = Some e1 /\ nlookup o2 (objs u2') = Some e2 /\
                e_kind e1 = e_kind e2 /\ e_key e1 = e_key e2 /\ e_elem e1 = e_elem e2.
Proof. exact map_independent. Qed.
Print Assumptions C11_map_entry_independent_of_history.

Theorem C11_elem_entry_independent_of_history : forall v2 p, named_ok v2 p -> forall f1 f2 u1 u2 use t tstr c sh k u1' u2' o1 o2,
  wf u1 -> canonical v2 u1 -> wf u2 -> canonical v2 u2 -> plookup t p = Some (tstr, sh) ->
  (sh = SPtr c /\ k = "Pointer" \/ sh = SSlice c /\ k = "Slice" \/ sh = SChan c /\ k = "Chan")%string ->
  keyed v2 p None c -> fresh_for v2 u1 use tstr -> fresh_for v2 u2 use tstr ->
  walk v2 p (S f1) u1 use t = Some (u1', o1) -> walk v2 p (S f2) u2 use t = Some (u2', o2) ->
  exists e1 e2, nlookup o1 (objs u1') = Some e1 /\ nlookup o2 (objs u2') = Some e2 /\
                e_kind e1 = e_kind e2 /\ e_elem e1 = e_elem e2.
Proof. exact elem_independent. Qed.
Print Assumptions C11_elem_entry_independent_of_history.

Theorem C11_array_entry_independent_of_history : forall v2 p, named_ok v2 p -> forall f1 f2 u1 u2 use t tstr len c u1' u2' o1 o2,
  wf u1 -> canonical v2 u1 -> wf u2 -> canonical v2 u2 -> plookup t p = Some (tstr, SArray len c) ->
  keyed v2 p None c -> fresh_for v2 u1 use tstr -> fresh_for v2 u2 use tstr ->
  walk v2 p (S f1) u1 use t = Some (u1', o1) -> walk v2 p (S f2) u2 use t = Some (u2', o2) ->
  exists e1 e2, nlookup o1 (objs u1') = Some e1 /\ nlookup o2 (objs u2') = Some e2 /\
                e_kind e1 = e_kind e2 /\ e_len e1 = e_len e2 /\ e_elem e1 = e_elem e2.
Proof. exact array_independent. Qed.
Print Assumptions C11_array_entry_independent_of_history.

Theorem C11_func_entry_independent_of_history : forall v2 p, named_ok v2 p -> forall f1 f2 u1 u2 use t tstr ps rs vr recv u1' u2' o1 o2,
  wf u1 -> canonical v2 u1 -> wf u2 -> canonical v2 u2 -> plookup t p = Some (tstr, SFunc ps rs vr recv) ->
  Forall (fun a => keyed v2 p None (snd a)) ps -> Forall (fun a => keyed v2 p None (snd a)) rs ->
  (forall r, recv = Some r -> keyed v2 p None r) ->
  fresh_for v2 u1 use tstr -> fresh_for v2 u2 use tstr ->
  walk v2 p (S f1) u1 use t = Some (u1', o1) -> walk v2 p (S f2) u2 use t = Some (u2', o2) ->
  exists e1 e2, nlookup o1 (objs u1') = Some e1 /\ nlookup o2 (objs u2') = Some e2 /\
                e_kind e1 = e_kind e2 /\ e_sig e1 = e_sig e2.
Proof. exact func_independent. Qed.
Print Assumptions C11_func_entry_independent_of_history.

Theorem C11_interface_entry_independent_of_history : forall v2 p, named_ok v2 p -> forall f1 f2 u1 u2 use t tstr ms u1' u2' o1 o2,
  wf u1 -> canonical v2 u1 -> wf u2 -> canonical v2 u2 -> plookup t p = Some (tstr, SIface ms) ->
  Forall (fun m => keyed v2 p (Some (name_of_string v2 (snd (fst m)))) (snd m)) ms ->
  fresh_for v2 u1 use tstr -> fresh_for v2 u2 use tstr ->
  walk v2 p (S f1) u1 use t = Some (u1', o1) -> walk v2 p (S f2) u2 use t = Some (u2', o2) ->
  exists e1 e2, nlookup o1 (objs u1') = Some e1 /\ nlookup o2 (objs u2') = Some e2 /\
                e_kind e1 = e_kind e2 /\ e_methods e1 = e_methods e2.
Proof. exact iface_independent. Qed.
Print Assumptions C11_interface_entry_independent_of_history.

(* "objects obtained before an incremental load stay valid": not only does a key keep its object
   and the object its kind -- an entry whose kind has been decided keeps EVERY field (element, key,
   underlying type, members, methods, signature, ...) through any later walk and any later sequence
   of package loads.  Only the walk that decides an entry fills it in. *)
Theorem C11_walk_never_touches_decided_entries : forall v2 p, named_ok v2 p -> forall fuel u use t u' o, canonical v2 u ->
  walk v2 p fuel u use t = Some (u', o) ->
  forall x e, nlookup x (objs u) = Some e -> e_kind e <> [] -> nlookup x (objs u') = Some e.
Proof. exact walk_frame. Qed.
Print Assumptions C11_walk_never_touches_decided_entries.
Theorem C11_decided_entries_survive_every_load_history : forall v2 p fuel, named_ok v2 p -> forall gs w w', canonical v2 (w_u w) ->
  fold_left (add_package v2 p fuel) gs (Some w) = Some w' ->
  forall x e, nlookup x (objs (w_u w)) = Some e -> e_kind e <> [] -> nlookup x (objs (w_u w')) = Some e.
Proof. exact load_frame. Qed.
Print Assumptions C11_decided_entries_survive_every_load_history.

(* every universe reached from the empty one by lookups and loads is well-formed, canonical, and
   every entry whose kind is still undecided is exactly the blank placeholder its lookup created
   (pristine): nothing is ever written into an entry before its kind is set *)
Theorem C11_loaded_universes_invariant : forall v2 p fuel, named_ok v2 p -> forall pre gs pk w',
  fold_left (add_package v2 p fuel) gs (Some {| w_u := lookups v2 {| objs := []; tkeys := [] |} pre; w_pkgs := pk |}) = Some w' ->
  wf (w_u w') /\ canonical v2 (w_u w') /\ pristine (w_u w').
Proof. exact loaded_pristine. Qed.
Print Assumptions C11_loaded_universes_invariant.

(* the WHOLE entry of an unnamed composite type (pointer, slice, channel, array, map, struct,
   function, interface): two walks of the same node in any two such universes (different histories,
   different budgets) in which its entry is still undecided return the same object and leave
   identical entries -- every field *)
Theorem C11_composite_entry_is_a_function_of_the_node_table : forall v2 p, named_ok v2 p -> forall f1 f2 u1 u2 use t tstr sh u1' u2' o1 o2,
  (wf u1 /\ canonical v2 u1 /\ pristine u1) -> (wf u2 /\ canonical v2 u2 /\ pristine u2) ->
  plookup t p = Some (tstr, sh) -> children_keyed v2 p sh ->
  let nm := match use with Some n => n | None => name_of_string v2 tstr end in
  complete (fst (get_or_create v2 u1 nm)) (snd (get_or_create v2 u1 nm)) = false ->
  complete (fst (get_or_create v2 u2 nm)) (snd (get_or_create v2 u2 nm)) = false ->
  walk v2 p (S f1) u1 use t = Some (u1', o1) -> walk v2 p (S f2) u2 use t = Some (u2', o2) ->
  o1 = o2 /\ exists e, nlookup o1 (objs u1') = Some e /\ nlookup o2 (objs u2') = Some e.
Proof. exact composite_entry_independent. Qed.
Print Assumptions C11_composite_entry_is_a_function_of_the_node_table.

(* ... and so is the whole entry of a defined type over a struct, interface, function ... type
   (v1: every such type; v2: the non-generic branch), methods included *)
Theorem C11_defined_composite_entry_is_a_function_of_the_node_table : forall v2 p, named_ok v2 p ->
  forall f1 f2 u1 u2 use1 use2 t tstr cls under ms tps origin ts sh u1' u2' o1 o2,
  (wf u1 /\ canonical v2 u1 /\ pristine u1) -> (wf u2 /\ canonical v2 u2 /\ pristine u2) ->
  plookup t p = Some (tstr, SNamed cls under ms tps origin) -> N.eqb cls 0 = false -> (N.eqb cls 1 && v2) = false ->
  plookup under p = Some (ts, sh) -> children_keyed v2 p sh ->
  Forall (fun m => keyed v2 p (Some (name_of_string v2 (snd (fst m)))) (snd m)) ms ->
  complete (fst (get_or_create v2 u1 (name_of_string v2 tstr))) (snd (get_or_create v2 u1 (name_of_string v2 tstr))) = false ->
  complete (fst (get_or_create v2 u2 (name_of_string v2 tstr))) (snd (get_or_create v2 u2 (name_of_string v2 tstr))) = false ->
  walk v2 p (S f1) u1 use1 t = Some (u1', o1) -> walk v2 p (S f2) u2 use2 t = Some (u2', o2) ->
  o1 = o2 /\ exists e, nlookup o1 (objs u1') = Some e /\ nlookup o2 (objs u2') = Some e.
Proof. exact named_composite_entry_independent. Qed.
Print Assumptions C11_defined_composite_entry_is_a_function_of_the_node_table.

(* a defined type over a basic, map, slice, pointer, ... type (Kind Alias): kind, underlying object
   and the whole method list are the same in any two such universes in which it is still undecided *)
Theorem C11_defined_type_entry_independent_of_history : forall v2 p, named_ok v2 p -> forall f1 f2 u1 u2 use1 use2 t tstr under ms tps origin u1' u2' o1 o2,
  (wf u1 /\ canonical v2 u1 /\ pristine u1) -> (wf u2 /\ canonical v2 u2 /\ pristine u2) ->
  plookup t p = Some (tstr, SNamed 0 under ms tps origin) ->
  keyed v2 p None under -> Forall (fun m => keyed v2 p (Some (name_of_string v2 (snd (fst m)))) (snd m)) ms ->
  complete (fst (get_or_create v2 u1 (name_of_string v2 tstr))) (snd (get_or_create v2 u1 (name_of_string v2 tstr))) = false ->
  complete (fst (get_or_create v2 u2 (name_of_string v2 tstr))) (snd (get_or_create v2 u2 (name_of_string v2 tstr))) = false ->
  walk v2 p (S f1) u1 use1 t = Some (u1', o1) -> walk v2 p (S f2) u2 use2 t = Some (u2', o2) ->
  exists e1 e2, nlookup o1 (objs u1') = Some e1 /\ nlookup o2 (objs u2') = Some e2 /\
                e_kind e1 = e_kind e2 /\ e_under e1 = e_under e2 /\ e_methods e1 = e_methods e2.
Proof. exact alias_independent_of_history. Qed.
Print Assumptions C11_defined_type_entry_independent_of_history.

(* v2, a defined type over a struct or interface type, GENERIC OR NOT (the branch of walkType that first
   walks the type parameters' constraints, files the entry under "Name[P,Q]", describes it from the
   origin declaration and records the type parameters): the whole entry -- kind, members, methods,
   type parameters -- is the same in any two universes in which "Name[P,Q]" is still undecided.
   Hypotheses about the node table, all decidable and all true of what go/types produces: the
   constraints are leaves (any, comparable, a basic type, a type parameter ...) none of which is filed
   under the declaration's own name. *)
Theorem C11_generic_declaration_entry_independent_of_history : forall v2 p, named_ok v2 p ->
  forall f1 f2 u1 u2 use1 use2 t tstr cls under ms tps origin under' ms' ts sh u1' u2' o1 o2,
  (wf u1 /\ canonical v2 u1 /\ pristine u1) -> (wf u2 /\ canonical v2 u2 /\ pristine u2) ->
  plookup t p = Some (tstr, SNamed cls under ms tps origin) -> N.eqb cls 0 = false -> (N.eqb cls 1 && v2) = true ->
  origin_of p origin under ms = (under', ms') ->
  plookup under' p = Some (ts, sh) -> children_keyed v2 p sh ->
  Forall (fun m => keyed v2 p (Some (name_of_string v2 (snd (fst m)))) (snd m)) ms' ->
  forallb (fun a => is_tparam p (snd a)) tps = true ->
  Forall (fun a => forall k0, node_key v2 p None (snd a) = Some k0 ->
                     k0 <> generic_name v2 tstr tps /\ canon v2 k0 <> canon v2 (generic_name v2 tstr tps)) tps ->
  complete (fst (get_or_create v2 u1 (generic_name v2 tstr tps))) (snd (get_or_create v2 u1 (generic_name v2 tstr tps))) = false ->
  complete (fst (get_or_create v2 u2 (generic_name v2 tstr tps))) (snd (get_or_create v2 u2 (generic_name v2 tstr tps))) = false ->
  walk v2 p (S f1) u1 use1 t = Some (u1', o1) -> walk v2 p (S f2) u2 use2 t = Some (u2', o2) ->
  o1 = o2 /\ exists e, nlookup o1 (objs u1') = Some e /\ nlookup o2 (objs u2') = Some e.
Proof. exact generic_entry_independent_of_history. Qed.
Print Assumptions C11_generic_declaration_entry_independent_of_history.

Theorem C11_named_ok_decidable : forall v2 p, named_okb v2 p = true -> named_ok v2 p.
Proof. exact named_okb_sound. Qed.
Print Assumptions C11_named_ok_decidable.

Definition ex_prog : prog :=
  [(1, (s "p.T", SNamed 1 2 [] [] None)); (2, (s "struct{A int}", SStruct [(s "A", false, [], 3)])); (3, (s "int", SBasic (s "int")))]%N.
Definition ex_pkg : gpkg := {| g_path := s "p"; g_name := s "p"; g_requested := true; g_imports := []; g_scope := [OType 1%N] |}.
Example C11_example :
  match build false ex_prog 10 [ex_pkg], build false ex_prog 10 [ex_pkg; ex_pkg] with
  | Some w1, Some w2 => w_u w1 = w_u w2 /\ kind_of (w_u w1) (s "p", s "T") = s "Struct"
  | _, _ => False end.
Proof. vm_compute. split; reflexivity. Qed.
Example C11_example_named_ok : named_okb false ex_prog = true /\ named_okb true ex_prog = true.
Proof. vm_compute. split; reflexivity. Qed.
Definition ex_prog2 : prog :=
  [(1, (s "p.M", SNamed 0 2 [(s "Len", s "func (p.M).Len() int", 4)] [] None)); (2, (s "map[string]int", SMap 5 3)); (3, (s "int", SBasic (s "int")));
   (4, (s "func() int", SFunc [] [([], 3)] false (Some 1))); (5, (s "string", SBasic (s "string")))]%N.
Example C11_example_defined_type :
  named_okb false ex_prog2 = true /\
  match walk false ex_prog2 10 {| objs := []; tkeys := [] |} None 1%N with
  | Some (u, o) => o = (s "p", s "M") /\ kind_of u o = s "Alias" /\
                   option_map e_under (nlookup o (objs u)) = Some (Some ([], s "map[string]int")) /\
                   option_map (fun e => map fst (e_methods e)) (nlookup o (objs u)) = Some [s "Len"]
  | None => False end.
Proof. vm_compute. repeat split; reflexivity. Qed.

(* non-vacuity for the generic branch (v2): type Box[T any] struct{ V T; L []T } with a method, and its
   instantiation Box[int]; the declaration walked in the empty universe and the instantiation walked
   in a universe that already holds []int give the same entry under p.Box[T] *)
Definition ex_prog3 : prog :=
  [(1, (s "p.Box[T any]", SNamed 1 2 [(s "Get", s "func (p.Box[T]).Get() T", 8)] [(s "T", 4)] None));
   (2, (s "struct{V T; L []T}", SStruct [(s "V", false, [], 7); (s "L", false, [], 9)]));
   (3, (s "int", SBasic (s "int")));
   (4, (s "any", SIface []));
   (5, (s "p.Box[int]", SNamed 1 6 [(s "Get", s "func (p.Box[int]).Get() int", 10)] [(s "T", 4)] (Some 1)));
   (6, (s "struct{V int; L []int}", SStruct [(s "V", false, [], 3); (s "L", false, [], 11)]));
   (7, (s "T", STypeParam));
   (8, (s "func() T", SFunc [] [([], 7)] false (Some 1)));
   (9, (s "[]T", SSlice 7));
   (10, (s "func() int", SFunc [] [([], 3)] false (Some 5)));
   (11, (s "[]int", SSlice 3))]%N.
Example C11_example_generic :
  named_okb true ex_prog3 = true /\
  generic_name true (s "p.Box[T any]") [(s "T", 4%N)] = (s "p", s "Box[T]") /\
  generic_name true (s "p.Box[int]") [(s "T", 4%N)] = (s "p", s "Box[T]") /\
  origin_of ex_prog3 (Some 1%N) 6%N [] = (2%N, [(s "Get", s "func (p.Box[T]).Get() T", 8%N)]) /\
  match walk true ex_prog3 20 {| objs := []; tkeys := [] |} None 1%N,
        match walk true ex_prog3 20 {| objs := []; tkeys := [] |} None 11%N with
        | Some (u0, _) => walk true ex_prog3 20 u0 None 5%N | None => None end with
  | Some (ua, oa), Some (ub, ob) =>
      oa = (s "p", s "Box[T]") /\ ob = oa /\ nlookup oa (objs ua) = nlookup ob (objs ub) /\
      option_map e_kind (nlookup oa (objs ua)) = Some (s "Struct") /\
      option_map e_members (nlookup oa (objs ua)) = Some [(s "V", false, [], ([], s "T")); (s "L", false, [], ([], s "[]T"))] /\
      option_map e_tparams (nlookup oa (objs ua)) = Some [(s "T", ([], s "any"))] /\
      option_map (fun e => map fst (e_methods e)) (nlookup oa (objs ua)) = Some [s "Get"]
  | _, _ => False end.
Proof. vm_compute. repeat split; reflexivity. Qed.
(* ... and the node-table hypotheses of C11_generic_declaration_entry_independent_of_history hold of it
   (a field of type-parameter type included) *)
Example C11_example_generic_hypotheses :
  children_keyed true ex_prog3 (SStruct [(s "V", false, [], 7%N); (s "L", false, [], 9%N)]) /\
  Forall (fun m => keyed true ex_prog3 (Some (name_of_string true (snd (fst m)))) (snd m)) [(s "Get", s "func (p.Box[T]).Get() T", 8%N)] /\
  forallb (fun a => is_tparam ex_prog3 (snd a)) [(s "T", 4%N)] = true /\
  Forall (fun a => forall k0, node_key true ex_prog3 None (snd a) = Some k0 ->
                     k0 <> (s "p", s "Box[T]") /\ canon true k0 <> canon true (s "p", s "Box[T]")) [(s "T", 4%N)] /\
  complete (fst (get_or_create true {| objs := []; tkeys := [] |} (s "p", s "Box[T]")))
           (snd (get_or_create true {| objs := []; tkeys := [] |} (s "p", s "Box[T]"))) = false.
Proof.
  split; [simpl; constructor; [right; eexists; reflexivity|constructor; [left; eexists; reflexivity|constructor]]|].
  split; [constructor; [left; eexists; reflexivity|constructor]|].
  split; [reflexivity|].
  split; [|reflexivity].
  constructor; [|constructor]. intros k0 H. vm_compute in H. injection H as <-. split; vm_compute; discriminate.
Qed.
