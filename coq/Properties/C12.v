(* C12 — a tool never consumes its own output: regeneration is a fixed point
   (partial: which files go/build / go list select is exercised, not modelled). *)
Require Import Gengo.Base.Str Gengo.Model.BuildTags Gengo.Proofs.BuildTagsProofs.

(* files whose constraint is false under the tool's tags contribute nothing to what it sees *)
Theorem C12_invisible : forall content tags (t : tree content) x,
  In x (map f_content (visible content tags t)) ->
  exists f, In f t /\ f_content f = x /\ file_visible content tags f = true.
Proof. exact invisible. Qed.
Print Assumptions C12_invisible.

(* the header emitted for tag g ("//go:build !g") is false under every tag set containing g and
   true under every tag set without it *)
Theorem C12_header_matches : forall tags g, ceval tags (CNot (CTag g)) = negb (mem_str g tags).
Proof. exact header_matches. Qed.
Print Assumptions C12_header_matches.

(* for EVERY generator: running the tool on a tree that already contains its output (present,
   absent or stale -- as long as that file carries the constraint, i.e. is invisible under the
   tool's tag) sees the same universe and yields the same tree *)
Theorem C12_regen_fixed_point : forall content (gen : list content -> content) out_name tag (t : tree content),
  (forall f, In f t -> f_name f = out_name -> file_visible content [tag] f = false) ->
  map f_content (visible content [tag] (run_tool content (fun fs => map f_content fs) gen out_name tag t))
    = map f_content (visible content [tag] t) /\
  run_tool content (fun fs => map f_content fs) gen out_name tag (run_tool content (fun fs => map f_content fs) gen out_name tag t)
    = run_tool content (fun fs => map f_content fs) gen out_name tag t.
Proof. exact regen_fixed_point. Qed.
Print Assumptions C12_regen_fixed_point.

Theorem C12_regen_n_runs : forall content (gen : list content -> content) out_name tag (t : tree content) n,
  (forall f, In f t -> f_name f = out_name -> file_visible content [tag] f = false) ->
  Nat.iter (S n) (run_tool content (fun fs => map f_content fs) gen out_name tag) t
    = run_tool content (fun fs => map f_content fs) gen out_name tag t.
Proof. exact regen_n. Qed.
Print Assumptions C12_regen_n_runs.

Example C12_example :
  ceval [s "a"; s "g"] (CAnd (CNot (CTag (s "g"))) (CTag (s "a"))) = false /\
  ceval [s "a"] (CAnd (CNot (CTag (s "g"))) (CTag (s "a"))) = true.
Proof. vm_compute. auto. Qed.
