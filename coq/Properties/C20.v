(* C20 — type predicates are sound with respect to Go semantics.  IsComparable (v2) asks the
   retained go/types type and has no logic of gengo's own to model: it is decided by the
   correspondence run against go/types' Comparable only. *)
Require Import Gengo.Base.Str Gengo.Model.Universe Gengo.Proofs.UniverseProofs Gengo.Proofs.PredProofs.

(* reported assignable => no pointer, map, slice, channel, function or interface anywhere inside *)
Theorem C20_assignable_sound : forall u fuel o, is_assignable fuel u o = Some true -> ~ has_ref u o.
Proof. exact is_assignable_sound. Qed.
Print Assumptions C20_assignable_sound.

(* reported primitive exactly when a builtin scalar or a defined type whose underlying type is one *)
Theorem C20_primitive_exact : forall u o, is_primitive u o = true <-> primitive u o.
Proof. exact is_primitive_iff. Qed.
Print Assumptions C20_primitive_exact.

(* reported anonymous struct => the empty struct literal, possibly behind defined types *)
Theorem C20_anonymous_struct_sound : forall u fuel o, is_anonymous_struct fuel u o = Some true -> anon_struct u o.
Proof. exact is_anonymous_struct_sound. Qed.
Print Assumptions C20_anonymous_struct_sound.

Theorem C20_named_struct_not_anonymous : forall u f o e,
  nlookup o (objs u) = Some e -> e_kind e = s "Struct" -> snd (e_name e) <> s "struct{}" ->
  is_anonymous_struct (S f) u o = Some false.
Proof. exact named_struct_not_anonymous. Qed.
Print Assumptions C20_named_struct_not_anonymous.

Theorem C20_empty_struct_literal : forall u f o e,
  nlookup o (objs u) = Some e -> e_kind e = s "Struct" -> snd (e_name e) = s "struct{}" ->
  is_anonymous_struct (S f) u o = Some true.
Proof. exact empty_struct_literal_anonymous. Qed.
Print Assumptions C20_empty_struct_literal.

Example C20_example :
  is_assignable 5 ex_u (s "p", s "A") = Some true /\ is_assignable 5 ex_u (s "p", s "B") = Some false /\
  has_ref ex_u (s "p", s "B").
Proof. destruct ex_assignable. auto using ex_has_ref. Qed.
