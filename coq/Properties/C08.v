(* C08 — comment-tag extraction follows its documented grammar on every input.
   Statements only; proofs are in Proofs/TagsProofs.v. *)
Require Import Gengo.Base.Str Gengo.Model.Tags Gengo.Proofs.TagsProofs.

(* old form (v1 types.ExtractCommentTags = v2 gengo.ExtractCommentTags): the result maps k to
   the values of the considered lines whose key is k, in source order, and to nothing if there
   are none -- for every marker and every list of lines *)
Theorem C08_extract_spec : forall marker lines k,
  lookup k (extract marker lines) = nonempty (values_for k (considered marker lines)).
Proof. exact extract_spec. Qed.
Print Assumptions C08_extract_spec.

(* what "considered" and "key/value" mean, in logical terms *)
Theorem C08_parse_line_spec : forall marker line k v,
  parse_line marker line = Some (k, v) <->
  let t := trim is_sp line in
  t <> [] /\ exists rest, t = marker ++ rest /\
    ((rest = k ++ EQ :: v /\ ~ In EQ k) \/ (rest = k /\ v = [] /\ ~ In EQ rest)).
Proof. exact parse_line_spec. Qed.
Print Assumptions C08_parse_line_spec.

Theorem C08_no_key_with_zero_values : forall marker lines k, lookup k (extract marker lines) <> Some [].
Proof. exact extract_no_empty. Qed.
Print Assumptions C08_no_key_with_zero_values.

Theorem C08_result_is_a_map : forall marker lines, NoDup (keys (extract marker lines)).
Proof. exact extract_keys_NoDup. Qed.
Print Assumptions C08_result_is_a_map.

(* boolean helper, v1: first value, default when absent, error for non-booleans; never panics
   (the values[0] access is safe) *)
Theorem C08_bool_v1_spec : forall marker key d lines,
  bool_tag_v1 marker key d lines =
  match values_for key (considered marker lines) with
  | [] => Ok d
  | v :: _ => bool_of_value v
  end.
Proof. exact bool_v1_spec. Qed.
Print Assumptions C08_bool_v1_spec.

Theorem C08_bool_of_value : forall v,
  (v = str_true -> bool_of_value v = Ok true) /\
  (v = str_false -> bool_of_value v = Ok false) /\
  (v <> str_true -> v <> str_false -> bool_of_value v = Err ENotBool).
Proof. exact bool_of_value_spec. Qed.
Print Assumptions C08_bool_of_value.

(* function-style form (v2), for arbitrary letter/digit classifiers *)
Theorem C08_fn_extract_spec : forall is_letter is_digit marker names lines,
  match fn_extract is_letter is_digit marker names lines with
  | Ok out => first_bad (line_results is_letter is_digit marker names lines) = None /\
              forall k, lookup k out =
                nonempty (values_for k (tags_of (line_results is_letter is_digit marker names lines)))
  | Err e => first_bad (line_results is_letter is_digit marker names lines) = Some (LErr e)
  | Panic => False
  end.
Proof. exact fn_extract_spec. Qed.
Print Assumptions C08_fn_extract_spec.

Theorem C08_fn_never_panics : forall is_letter is_digit marker names lines,
  fn_extract is_letter is_digit marker names lines <> Panic.
Proof. exact fn_extract_never_panics. Qed.
Print Assumptions C08_fn_never_panics.

(* one value per considered line: when no names are requested, the only lines that yield nothing are
   blank or do not begin with the marker (a tag with an empty name, "+=v", yields a value under "") *)
Theorem C08_fn_every_considered_line_yields : forall is_letter is_digit marker line,
  parse_fn_line is_letter is_digit marker [] line = LSkip ->
  trim is_space line = [] \/ has_prefix marker (trim is_space line) = false.
Proof. exact parse_fn_line_considered. Qed.
Print Assumptions C08_fn_every_considered_line_yields.

Theorem C08_fn_only_requested_names : forall is_letter is_digit marker names line t,
  parse_fn_line is_letter is_digit marker names line = LTag t ->
  names <> [] -> In (tname t) names.
Proof. exact parse_fn_line_tag. Qed.
Print Assumptions C08_fn_only_requested_names.

(* argument grammar: a decision table over (longest letter/digit prefix, rest) *)
Theorem C08_args_grammar : forall is_letter is_digit input,
  parse_tag_args is_letter is_digit input
  = classify_args (span (fun c => is_letter c || is_digit c) input).
Proof. exact parse_tag_args_spec. Qed.
Print Assumptions C08_args_grammar.

Theorem C08_args_accepted : forall is_letter is_digit input a,
  is_letter RP || is_digit RP = false ->
  (parse_tag_args is_letter is_digit input = Ok (Some a) <->
   input = a ++ [RP] /\ a <> [] /\ forallb (fun c => is_letter c || is_digit c) a = true).
Proof. exact parse_tag_args_ok. Qed.
Print Assumptions C08_args_accepted.

Theorem C08_bool_v2_spec : forall is_letter is_digit marker key d lines,
  bool_tag_v2 is_letter is_digit marker key d lines =
  match first_bad (line_results is_letter is_digit marker [key] lines) with
  | Some (LErr e) => Err e
  | Some _ => Panic
  | None => match values_for key (tags_of (line_results is_letter is_digit marker [key] lines)) with
            | [] => Ok d
            | t :: _ => bool_of_value (tvalue t)
            end
  end.
Proof. exact bool_v2_spec. Qed.
Print Assumptions C08_bool_v2_spec.

Theorem C08_bool_v2_never_panics : forall is_letter is_digit marker key d lines,
  bool_tag_v2 is_letter is_digit marker key d lines <> Panic.
Proof. exact bool_v2_never_panics. Qed.
Print Assumptions C08_bool_v2_never_panics.

(* non-vacuity: a concrete non-trivial input *)
Example C08_example :
  lookup (s "foo") (extract (s "+") [s " +foo=a=b "; s "+bar"; s "+foo"; s "x+foo=1"])
  = Some [s "a=b"; []].
Proof. vm_compute. reflexivity. Qed.
Example C08_example_fn :
  fn_extract is_letter_x is_digit_x (s "+") [] [s "+foo(arg)=v // c"; s "+bar()"; s "+foo"] =
  Ok [(s "foo", [{| tname := s "foo"; targs := Some (s "arg"); tvalue := s "v" |};
                 {| tname := s "foo"; targs := None; tvalue := [] |}]);
      (s "bar", [{| tname := s "bar"; targs := None; tvalue := [] |}])].
Proof. vm_compute. reflexivity. Qed.
