(* C13 — generator and I/O failures are never swallowed. *)
Require Import Gengo.Base.Str Gengo.Base.StrOrder Gengo.Model.Exec Gengo.Proofs.ExecProofs.

(* for an ARBITRARY underlying writer: once an error is recorded every later write returns
   (0, that error), the writer is not reached, and Error() keeps reporting it *)
Theorem C13_sticky_after_error : forall W E (wwrite : W -> str -> W * (nat * option E)) (t : et W E) e ps,
  eterr t = Some e -> et_writes wwrite t ps = (t, map (fun _ => (0, Some e)) ps).
Proof. exact sticky_after_error. Qed.
Print Assumptions C13_sticky_after_error.

(* the first failing write, at any index, decides everything after it *)
Theorem C13_first_error_sticky : forall W E (wwrite : W -> str -> W * (nat * option E)) (t : et W E) a p b w' n e,
  eterr t = None ->
  (forall t1 rs1, et_writes wwrite t a = (t1, rs1) -> eterr t1 = None) ->
  wwrite (under (fst (et_writes wwrite t a))) p = (w', (n, Some e)) ->
  let '(tf, rs) := et_writes wwrite t (a ++ p :: b) in
  under tf = w' /\ et_error tf = Some e /\
  skipn (length a) rs = (n, Some e) :: map (fun _ => (0, Some e)) b.
Proof. exact first_error_sticky. Qed.
Print Assumptions C13_first_error_sticky.

Theorem C13_write_passthrough : forall W E (wwrite : W -> str -> W * (nat * option E)) (t : et W E) p,
  eterr t = None ->
  et_write wwrite t p =
  ({| under := fst (wwrite (under t) p); eterr := snd (snd (wwrite (under t) p)) |}, snd (wwrite (under t) p)).
Proof. exact write_passthrough. Qed.
Print Assumptions C13_write_passthrough.

(* a failing hook (or a missing, conflicting or unregistered file type) makes the target fail and
   hands none of its files to a file type: every error but a failed assembly *)
Theorem C13_generator_error_no_files : forall itoa c t e,
  r_err (exec_target itoa c t) = Some e ->
  (forall fs, e <> XAssemble fs) ->
  r_files (exec_target itoa c t) = Some [].
Proof. exact generator_error_no_files. Qed.
Print Assumptions C13_generator_error_no_files.

(* a hook error reported by executeBody comes from a hook that was told to fail and was reached *)
Theorem C13_hook_error_origin : forall itoa g vis ord body evs b w,
  exec_body itoa g vis ord body = (evs, b, Some w) ->
  (w = 0%N /\ ginit_err g = true) \/ (w = 1%N /\ exists x, gtype_err g = Some x /\ In x ord) \/ (w = 2%N /\ gfin_err g = true).
Proof. exact exec_body_hook. Qed.
Print Assumptions C13_hook_error_origin.

(* every file is attempted; exactly the failing ones are named in the error *)
Theorem C13_assembly_errors_aggregated : forall itoa c t files,
  r_files (exec_target itoa c t) = Some files -> files <> [] ->
  r_err (exec_target itoa c t) =
    match filter (fun n => mem_str n (assemble_fails c)) (map fname files) with
    | [] => None
    | bad => Some (XAssemble (sort_strs bad))
    end.
Proof. exact assembly_errors_aggregated. Qed.
Print Assumptions C13_assembly_errors_aggregated.

(* a failing target does not stop later targets; the run fails iff some target failed *)
Theorem C13_targets_continue : forall itoa c ts,
  fst (exec_targets itoa c ts) = map (exec_target itoa c) ts /\
  (snd (exec_targets itoa c ts) = true <-> exists t, In t ts /\ r_err (exec_target itoa c t) <> None).
Proof. exact targets_continue. Qed.
Print Assumptions C13_targets_continue.

(* an unformattable file is left on disk unformatted and reported; an uncreatable one is reported *)
Theorem C13_assemble_file_flow : forall text formatted,
  assemble_file false text formatted = (Some ACreate, None) /\
  assemble_file true text None = (Some AFormat, Some text) /\
  (forall f, assemble_file true text (Some f) = (None, Some f)).
Proof. intros. repeat split. Qed.
Print Assumptions C13_assemble_file_flow.

Example C13_example_tracker :
  let w0 := {| fw_log := []; fw_count := 0; fw_failat := 1; fw_part := 1; fw_eid := 7 |} in
  let '(t, rs) := et_writes fw_write (et_new w0) [s "ab"; s "cd"; s "ef"] in
  (rs, fw_log (under t), et_error t) = ([(2, None); (1, Some 7%N); (0, Some 7%N)], s "abc", Some 7%N).
Proof. vm_compute. reflexivity. Qed.
