(* C05 — doc comments and their tags reach exactly the declaration they document (partial:
   comment grouping, positions and Text() are go/parser's, taken as input). *)
Require Import Gengo.Base.Str Gengo.Model.Comments Gengo.Proofs.CommentsProofs.

(* a declaration is delivered exactly the lines of the (non-trailing) block that ends on the line
   directly above it, unmodified *)
Theorem C05_deliver_doc : forall gs code d g, distinct_ends gs -> In g gs -> documents g (d_line d) ->
  fst (deliver (index gs) code d) = g_text g.
Proof. exact deliver_doc. Qed.
Print Assumptions C05_deliver_doc.

(* a declaration with no such block is delivered none *)
Theorem C05_deliver_none : forall gs code d,
  (forall g, In g gs -> ~ documents g (d_line d)) -> fst (deliver (index gs) code d) = [].
Proof. exact deliver_none. Qed.
Print Assumptions C05_deliver_none.

(* whatever is delivered is a non-trailing group that ends exactly on the looked-up line:
   a trailing comment is never delivered to the declaration that follows it *)
Theorem C05_trailing_never_delivered : forall gs l g,
  ilookup l (index gs) = Some g -> g_trailing g = false /\ g_end g = l /\ In g gs.
Proof. exact trailing_never_indexed. Qed.
Print Assumptions C05_trailing_never_delivered.

(* the second-closest comment.  Its anchor is the first line of the doc block, or the declaration's
   own line when it has none ... *)
Theorem C05_second_closest_anchor : forall gs d,
  (forall g, distinct_ends gs -> In g gs -> documents g (d_line d) -> anchor (index gs) d = g_start g) /\
  ((forall g, In g gs -> ~ documents g (d_line d)) -> anchor (index gs) d = d_line d).
Proof. intros gs d. split; [intros g Hd Hin Hdoc; exact (anchor_doc gs d g Hd Hin Hdoc)|exact (anchor_nodoc gs d)]. Qed.
Print Assumptions C05_second_closest_anchor.
(* ... the (non-trailing) block that ends two lines above the anchor, separated from it by one
   blank line, is delivered unmodified ... *)
Theorem C05_second_closest : forall gs code d g, distinct_ends gs -> d_second d = true -> In g gs ->
  g_trailing g = false /\ (g_end g + 2 = anchor (index gs) d)%N /\ ~ In (anchor (index gs) d - 1)%N code ->
  snd (deliver (index gs) code d) = g_text g.
Proof. exact deliver_second. Qed.
Print Assumptions C05_second_closest.
(* ... a comment is never delivered across a line of code (the doc comment of the previous
   declaration, the last comment inside the previous declaration's braces) ... *)
Theorem C05_second_closest_never_across_code : forall gs code d, In (anchor (index gs) d - 1)%N code ->
  snd (deliver (index gs) code d) = [].
Proof. exact deliver_second_not_across_code. Qed.
Print Assumptions C05_second_closest_never_across_code.
(* ... and a declaration with no such block is delivered none *)
Theorem C05_second_closest_none : forall gs code d,
  (forall g, In g gs -> ~ (g_trailing g = false /\ (g_end g + 2 = anchor (index gs) d)%N /\ ~ In (anchor (index gs) d - 1)%N code)) ->
  snd (deliver (index gs) code d) = [].
Proof. exact deliver_second_none. Qed.
Print Assumptions C05_second_closest_none.
Theorem C05_package_comments : forall gs, package_comments gs = flat_map g_text gs.
Proof. exact package_comments_spec. Qed.
Print Assumptions C05_package_comments.

Example C05_example :
  let gs := [ {| g_start := 1; g_end := 1; g_trailing := true; g_text := [s "trailing"] |};
              {| g_start := 3; g_end := 3; g_trailing := false; g_text := [s "doc"] |};
              {| g_start := 6; g_end := 6; g_trailing := false; g_text := [s "detached"] |};
              {| g_start := 8; g_end := 8; g_trailing := false; g_text := [s "doc Z"] |} ] in
  let code := [1; 2; 4; 5; 9]%N in
  deliver (index gs) code {| d_key := s "type:X"; d_line := 4; d_second := true |} = ([s "doc"], []) /\
  deliver (index gs) code {| d_key := s "type:Y"; d_line := 2; d_second := true |} = ([], []) /\
  (* W, directly below X: X's doc comment is not W's second-closest comment *)
  deliver (index gs) code {| d_key := s "type:W"; d_line := 5; d_second := true |} = ([], []) /\
  deliver (index gs) code {| d_key := s "type:Z"; d_line := 9; d_second := true |} = ([s "doc Z"], [s "detached"]).
Proof. vm_compute. auto. Qed.
