(* C05 — doc comments and their tags reach exactly the declaration they document (partial:
   comment grouping, positions and Text() are go/parser's, taken as input). *)
Require Import Gengo.Base.Str Gengo.Model.Comments Gengo.Proofs.CommentsProofs.

(* a declaration is delivered exactly the lines of the (non-trailing) block that ends on the line
   directly above it, unmodified *)
Theorem C05_deliver_doc : forall gs d g, distinct_ends gs -> In g gs -> documents g (d_line d) ->
  fst (deliver (index gs) d) = g_text g.
Proof. exact deliver_doc. Qed.
Print Assumptions C05_deliver_doc.

(* a declaration with no such block is delivered none *)
Theorem C05_deliver_none : forall gs d,
  (forall g, In g gs -> ~ documents g (d_line d)) -> fst (deliver (index gs) d) = [].
Proof. exact deliver_none. Qed.
Print Assumptions C05_deliver_none.

(* whatever is delivered is a non-trailing group that ends exactly on the looked-up line:
   a trailing comment is never delivered to the declaration that follows it *)
Theorem C05_trailing_never_delivered : forall gs l g,
  ilookup l (index gs) = Some g -> g_trailing g = false /\ g_end g = l /\ In g gs.
Proof. exact trailing_never_indexed. Qed.
Print Assumptions C05_trailing_never_delivered.

(* the second-closest block is looked up two lines above the doc block, or above the declaration *)
Theorem C05_second_closest : forall gs d, d_second d = true ->
  snd (deliver (index gs) d) =
  text_of (match prior (index gs) (d_line d) 1 with
           | Some doc => prior (index gs) (g_start doc) 2
           | None => prior (index gs) (d_line d) 2 end).
Proof. exact deliver_second. Qed.
Print Assumptions C05_second_closest.

Theorem C05_package_comments : forall gs, package_comments gs = flat_map g_text gs.
Proof. exact package_comments_spec. Qed.
Print Assumptions C05_package_comments.

Example C05_example :
  let gs := [ {| g_start := 1; g_end := 1; g_trailing := true; g_text := [s "trailing"] |};
              {| g_start := 3; g_end := 3; g_trailing := false; g_text := [s "doc"] |} ] in
  deliver (index gs) {| d_key := s "type:X"; d_line := 4; d_second := true |} = ([s "doc"], []) /\
  deliver (index gs) {| d_key := s "type:Y"; d_line := 2; d_second := true |} = ([], []).
Proof. vm_compute. auto. Qed.
