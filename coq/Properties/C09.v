(* C09 — assembled files are well-formed, format-stable and byte-reproducible (partial: the
   formatter is golang.org/x/tools/imports, exercised on every run, not modelled). *)
Require Import Gengo.Base.Str Gengo.Model.Files Gengo.Proofs.FilesProofs.
From Coq Require Import Permutation.

(* the emitted text: header first, the target's package clause, the import block, the variable
   block, the constant block, the body -- generators' contributions in generator order (they are
   appended to the var/const/body buffers in that order, C04_file_merge) *)
Theorem C09_assemble_layout : forall f,
  assemble f = a_header f ++ s "package " ++ a_pkg f ++ [NL; NL] ++ import_block (a_imports f) ++
               section "var" (a_vars f) ++ section "const" (a_consts f) ++ a_body f.
Proof. exact assemble_layout. Qed.
Print Assumptions C09_assemble_layout.

(* whatever order the Imports map is ranged over: the same text outside the import block, the
   same import lines up to order *)
Theorem C09_assemble_perm : forall f imports', Permutation (a_imports f) imports' ->
  let f' := {| a_header := a_header f; a_pkg := a_pkg f; a_imports := imports'; a_vars := a_vars f; a_consts := a_consts f; a_body := a_body f |} in
  pre_imports f' = pre_imports f /\ post_imports f' = post_imports f /\
  Permutation (map import_line (a_imports f)) (map import_line imports').
Proof. exact assemble_perm. Qed.
Print Assumptions C09_assemble_perm.

(* hence byte-identical output for every map order, for ANY formatter obeying the one law that
   the order of lines inside one import block does not matter *)
Theorem C09_deterministic : forall (fmt : str -> option str),
  (forall pre post l1 l2, Permutation l1 l2 -> fmt (pre ++ block_of_lines l1 ++ post) = fmt (pre ++ block_of_lines l2 ++ post)) ->
  forall f imports', Permutation (a_imports f) imports' ->
  fmt (assemble f) =
  fmt (assemble {| a_header := a_header f; a_pkg := a_pkg f; a_imports := imports'; a_vars := a_vars f; a_consts := a_consts f; a_body := a_body f |}).
Proof. exact assemble_deterministic. Qed.
Print Assumptions C09_deterministic.

Theorem C09_boilerplate_layout : forall header bt gb yr gn,
  go_boilerplate header bt gb yr gn =
    (match bt with [] => [] | _ => s "//go:build !" ++ bt ++ [NL] ++ s "// +build !" ++ bt ++ [NL; NL] end) ++
    (match header with None => [] | Some b => replace (s "YEAR") yr b ++ [NL] end) ++
    (match gb with [] => [] | _ => replace (s "GENERATOR_NAME") gn gb ++ [NL; NL] end).
Proof. exact boilerplate_layout. Qed.
Print Assumptions C09_boilerplate_layout.

(* writing the file: whatever was there before is gone (create truncates); the formatted text is
   written and no error returned, or, when the formatter rejects the text, the unformatted text is
   still written and an error IS returned *)
Theorem C09_write_result : forall prev text formatted,
  assemble_file prev text formatted =
    match formatted with Some f => (f, false) | None => (text, true) end /\
  assemble_file prev text formatted = assemble_file None text formatted.
Proof. intros prev text [f|]; split; reflexivity. Qed.
Print Assumptions C09_write_result.

Example C09_example :
  assemble {| a_header := s "// h"; a_pkg := s "p"; a_imports := [s "fmt"; s "x ""e/x"""]; a_vars := []; a_consts := s "c = 1"; a_body := s "func F() {}" |}
  = s "// hpackage p" ++ [NL; NL] ++ s "import (" ++ [NL; TAB] ++ s """fmt""" ++ [NL; TAB] ++ s "x ""e/x""" ++ [NL] ++ s ")" ++ [NL; NL] ++
    s "const (" ++ [NL] ++ s "c = 1)" ++ [NL; NL] ++ s "func F() {}".
Proof. vm_compute. reflexivity. Qed.
