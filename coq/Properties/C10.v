(* C10 — verify-only mode is a faithful, read-only comparison (partial: OS calls exercised). *)
Require Import Gengo.Base.Str Gengo.Model.Files Gengo.Proofs.FilesProofs.

(* a verify run succeeds exactly when every file it would have written already exists with
   byte-identical content *)
Theorem C10_verify_iff : forall fs ws,
  snd (run_verify fs ws) = [] <->
  forall w, In w ws -> exists f, snd (snd w) = Some f /\ fs_dir fs = true /\ lookup (fst w) (fs_files fs) = Some f.
Proof. exact verify_iff. Qed.
Print Assumptions C10_verify_iff.

(* its errors name exactly the files that are missing and the files that differ *)
Theorem C10_verify_errors_exact : forall fs ws n,
  (In (FMissing n) (snd (run_verify fs ws)) <->
     exists t f, In (n, (t, Some f)) ws /\ (fs_dir fs = false \/ lookup n (fs_files fs) = None)) /\
  (In (FDiffers n) (snd (run_verify fs ws)) <->
     exists t f e, In (n, (t, Some f)) ws /\ fs_dir fs = true /\ lookup n (fs_files fs) = Some e /\ e <> f).
Proof. exact verify_errors_exact. Qed.
Print Assumptions C10_verify_errors_exact.

(* every single-byte edit, truncation or extension (any different content) and every deletion of
   an expected file is reported *)
Theorem C10_detects_any_edit : forall fs ws n t f e,
  In (n, (t, Some f)) ws -> fs_dir fs = true -> lookup n (fs_files fs) = Some e -> e <> f ->
  In (FDiffers n) (snd (run_verify fs ws)).
Proof. exact verify_detects_any_edit. Qed.
Print Assumptions C10_detects_any_edit.
Theorem C10_detects_deletion : forall fs ws n t f,
  In (n, (t, Some f)) ws -> lookup n (fs_files fs) = None -> In (FMissing n) (snd (run_verify fs ws)).
Proof. exact verify_detects_deletion. Qed.
Print Assumptions C10_detects_deletion.

(* it never creates, truncates or modifies anything *)
Theorem C10_verify_readonly : forall fs ws, fst (run_verify fs ws) = fs.
Proof. exact verify_readonly. Qed.
Print Assumptions C10_verify_readonly.

(* generating and then verifying the same inputs always succeeds, from any starting filesystem *)
Theorem C10_generate_then_verify : forall fs ws,
  NoDup (map fst ws) -> (forall w, In w ws -> snd (snd w) <> None) ->
  snd (run_verify (fst (run_generate fs ws)) ws) = [].
Proof. exact generate_then_verify. Qed.
Print Assumptions C10_generate_then_verify.

Example C10_example :
  let ws := [(s "a.go", ([], Some (s "x")))] in
  snd (run_verify {| fs_dir := true; fs_files := [(s "a.go", s "y")] |} ws) = [FDiffers (s "a.go")] /\
  snd (run_verify {| fs_dir := false; fs_files := [] |} ws) = [FMissing (s "a.go")] /\
  snd (run_verify (fst (run_generate {| fs_dir := false; fs_files := [] |} ws)) ws) = [].
Proof. vm_compute. auto. Qed.
