Require Import Gengo.Base.Str Gengo.Base.Sexp Gengo.Base.StrOrder Gengo.Model.Universe.

(* ================= names ================= *)
Lemma join_app_last sep : forall l x, l <> [] -> join sep (l ++ [x]) = join sep l ++ sep ++ x.
Proof.
  induction l as [|a l IH]; intros x H; [congruence|].
  destruct l as [|b l]; [reflexivity|].
  change (join sep ((a :: b :: l) ++ [x])) with (a ++ sep ++ join sep ((b :: l) ++ [x])).
  rewrite IH by discriminate. change (join sep (a :: b :: l)) with (a ++ sep ++ join sep (b :: l)).
  rewrite <- !app_assoc. reflexivity.
Qed.

(* tcNameToName / goNameToName: a string that is not an anonymous type's spelling (and, for v2,
   has no '[') is cut at its LAST dot: package path before, type name (dot-free) after *)
Theorem name_of_string_named v2 x :
  existsb (fun p => has_prefix p x) anon_prefixes = false ->
  (v2 = true -> index_of LBR x = None) ->
  let '(pkg, nm) := name_of_string v2 x in
  (pkg = [] /\ nm = x /\ ~ In DOT x) \/ (x = pkg ++ [DOT] ++ nm /\ ~ In DOT nm).
Proof.
  intros Ha Hb. unfold name_of_string. rewrite Ha.
  assert (Hgi : (if v2 then match index_of LBR x with Some i => i | None => length x end else length x) = length x).
  { destruct v2; auto. rewrite Hb; auto. }
  rewrite Hgi, firstn_all, skipn_all.
  pose proof (split_on_join DOT x) as Hj. pose proof (split_on_no_sep DOT x) as Hn.
  destruct (rev (split_on DOT x)) as [|lst before] eqn:Er.
  - exfalso. apply (split_acc_nonempty DOT x []). unfold split_on in Er.
    apply (f_equal (@rev str)) in Er. rewrite rev_involutive in Er. exact Er.
  - assert (Hs : split_on DOT x = rev before ++ [lst]).
    { rewrite <- (rev_involutive (split_on DOT x)), Er. reflexivity. }
    destruct before as [|b bs].
    + left. simpl in Hs. rewrite Hs in Hj, Hn. simpl in Hj. inversion Hn as [|? ? Hl _]. rewrite Hj in Hl. auto.
    + right. rewrite Hs in Hj, Hn. rewrite join_app_last in Hj by (simpl; intros E; apply app_eq_nil in E; destruct E; discriminate).
      split; [rewrite app_nil_r; symmetry; exact Hj|]. rewrite app_nil_r. apply Forall_app in Hn. destruct Hn as [_ Hn]. apply Forall_inv in Hn. exact Hn.
Qed.

Theorem name_of_string_anonymous v2 x :
  existsb (fun p => has_prefix p x) anon_prefixes = true -> name_of_string v2 x = ([], x).
Proof. intros H. unfold name_of_string. rewrite H. reflexivity. Qed.

(* ================= the universe only ever grows ================= *)
Lemma name_eqb_spec a b : reflect (a = b) (name_eqb a b).
Proof.
  destruct a as [a1 a2], b as [b1 b2]. unfold name_eqb. simpl.
  destruct (str_eqb_spec a1 b1), (str_eqb_spec a2 b2); simpl; constructor; congruence.
Qed.
Lemma nlookup_nset_same {V} k (v : V) m : nlookup k (nset k v m) = Some v.
Proof.
  induction m as [|[k' v'] m IH]; simpl.
  - destruct (name_eqb_spec k k); congruence.
  - destruct (name_eqb_spec k k'); simpl.
    + destruct (name_eqb_spec k k); congruence.
    + destruct (name_eqb_spec k k'); congruence.
Qed.
Lemma nlookup_nset_other {V} k k' (v : V) m : k <> k' -> nlookup k (nset k' v m) = nlookup k m.
Proof.
  intros Hne. induction m as [|[k2 v2] m IH]; simpl.
  - destruct (name_eqb_spec k k'); congruence.
  - destruct (name_eqb_spec k' k2) as [->|H2]; simpl.
    + destruct (name_eqb_spec k k2); congruence.
    + destruct (name_eqb_spec k k2); auto.
Qed.

(* well-formed: every key resolves to an object that exists *)
Definition wf (u : univ) : Prop := forall k o, nlookup k (tkeys u) = Some o -> exists e, nlookup o (objs u) = Some e.

(* u' extends u: every key keeps its object, an entry whose kind has been decided keeps it, and
   well-formedness is kept *)
Definition ext (u u' : univ) : Prop :=
  (forall k o, nlookup k (tkeys u) = Some o -> nlookup k (tkeys u') = Some o) /\
  (forall o, complete u o = true -> kind_of u' o = kind_of u o) /\
  (wf u -> wf u').
Lemma wf_empty : wf {| objs := []; tkeys := [] |}.
Proof. intros k o H. discriminate. Qed.
Lemma ext_refl u : ext u u. Proof. repeat split; auto. Qed.
Lemma ext_complete u u' o : ext u u' -> complete u o = true -> complete u' o = true.
Proof. intros (_ & H & _) Hc. unfold complete in *. rewrite (H o Hc). exact Hc. Qed.
Lemma ext_trans a b c : ext a b -> ext b c -> ext a c.
Proof.
  intros A B. split; [|split].
  - destruct A as [A1 _], B as [B1 _]. auto.
  - intros o Hc. destruct B as (_ & B2 & _). rewrite B2 by (eapply ext_complete; eauto). destruct A as (_ & A2 & _). auto.
  - destruct A as (_ & _ & A3), B as (_ & _ & B3). auto.
Qed.

Lemma kind_nset_other u o n e : o <> n ->
  kind_of {| objs := nset n e (objs u); tkeys := tkeys u |} o = kind_of u o.
Proof. intros H. unfold kind_of. simpl. rewrite nlookup_nset_other by auto. reflexivity. Qed.

Lemma get_or_create_key v2 u n u1 o : get_or_create v2 u n = (u1, o) -> nlookup n (tkeys u1) = Some o.
Proof.
  unfold get_or_create. destruct (nlookup n (tkeys u)) as [o0|] eqn:Ek.
  - intros H; inversion H; subst; auto.
  - destruct (if str_eqb (fst n) [] then builtin_of v2 (snd n) else None) as [[bn bk]|];
      intros H; inversion H; subst; simpl; apply nlookup_nset_same.
Qed.

(* Universe.Type: get-or-create *)
Theorem get_or_create_ext v2 u n u1 o : get_or_create v2 u n = (u1, o) -> ext u u1.
Proof.
  unfold get_or_create. destruct (nlookup n (tkeys u)) as [o0|] eqn:Ek.
  - intros H; inversion H; subst. apply ext_refl.
  - destruct (if str_eqb (fst n) [] then builtin_of v2 (snd n) else None) as [[bn bk]|];
      intros H; injection H as <- <-;
      match goal with |- ext _ {| objs := match nlookup ?ob _ with _ => _ end; tkeys := _ |} => set (ob0 := ob) in * end.
    all: split; [|split]; simpl.
    all: try (intros k o1 Hk; rewrite nlookup_nset_other; auto; intros ->; congruence).
    all: try (intros o1 Hc; destruct (nlookup ob0 (objs u)) eqn:Eo; auto;
              unfold complete, kind_of in *; simpl;
              destruct (name_eqb_spec o1 ob0) as [->|Hne];
              [rewrite Eo in Hc; discriminate | rewrite nlookup_nset_other by auto; reflexivity]).
    all: intros W k o1; simpl; destruct (name_eqb_spec k n) as [->|Hkn];
      [rewrite nlookup_nset_same; intros E; injection E as <-;
       destruct (nlookup ob0 (objs u)) eqn:Eo; [eauto|rewrite nlookup_nset_same; eauto]
      |rewrite nlookup_nset_other by auto; intros Hk; destruct (W _ _ Hk) as [e He];
       destruct (nlookup ob0 (objs u)) eqn:Eo; [eauto|];
       destruct (name_eqb_spec o1 ob0) as [->|Hne]; [congruence|rewrite nlookup_nset_other by auto; eauto]].
Qed.

(* looking a name up twice returns the same object and changes nothing the second time *)
Theorem get_or_create_idem v2 u n u1 o : get_or_create v2 u n = (u1, o) -> get_or_create v2 u1 n = (u1, o).
Proof.
  intros H. apply get_or_create_key in H. unfold get_or_create. rewrite H. reflexivity.
Qed.

(* filling an entry in (update) with a function that leaves the kind alone *)
Definition keeps_kind (g : entry -> entry) : Prop := forall e, e_kind (g e) = e_kind e.
Lemma wf_update u o g : wf u -> wf (update u o g).
Proof.
  intros W. unfold update. destruct (nlookup o (objs u)) as [e|] eqn:Eo; [|exact W].
  intros k o1 Hk. simpl in *. destruct (W _ _ Hk) as [e1 He1].
  destruct (name_eqb_spec o1 o) as [->|Hne]; [rewrite nlookup_nset_same; eauto|rewrite nlookup_nset_other by auto; eauto].
Qed.
Lemma update_ext u o g : keeps_kind g -> ext u (update u o g).
Proof.
  intros Hg. split; [|split]; [| |apply wf_update].
  - unfold update. destruct (nlookup o (objs u)); auto.
  - unfold update. destruct (nlookup o (objs u)) as [e|] eqn:Eo; auto.
    intros o1 Hc. unfold kind_of. simpl.
    destruct (name_eqb_spec o1 o) as [->|Hne].
    + rewrite nlookup_nset_same, Eo. apply Hg.
    + rewrite nlookup_nset_other by auto. reflexivity.
Qed.
(* deciding the kind of an entry that has none yet *)
Lemma update_set_kind_ext u o k : complete u o = false -> ext u (update u o (set_kind k)).
Proof.
  intros Hn. split; [|split]; [| |apply wf_update].
  - unfold update. destruct (nlookup o (objs u)); auto.
  - unfold update. destruct (nlookup o (objs u)) as [e|] eqn:Eo; auto.
    intros o1 Hc. unfold kind_of. simpl.
    destruct (name_eqb_spec o1 o) as [->|Hne]; [congruence|].
    rewrite nlookup_nset_other by auto. reflexivity.
Qed.
Lemma update_set_kind_kind u o k e : nlookup o (objs u) = Some e -> kind_of (update u o (set_kind k)) o = s k.
Proof. intros Eo. unfold update, kind_of. rewrite Eo. simpl. rewrite nlookup_nset_same. reflexivity. Qed.

(* builtins: a builtin key resolves to the reserved singleton of the table, in every universe *)
Theorem builtin_lookup v2 u k bn bk : nlookup ([], k) (tkeys u) = None -> builtin_of v2 k = Some (bn, bk) ->
  snd (get_or_create v2 u ([], k)) = ([], bn).
Proof. intros Hn Hb. unfold get_or_create. rewrite Hn. simpl. rewrite Hb. reflexivity. Qed.

(* uint8 and byte share one singleton (they are one Go type); int8 has its own; rune is int32 *)
Theorem builtin_table_faithful v2 :
  builtin_of v2 (s "uint8") = Some (s "byte", s "Builtin") /\ builtin_of v2 (s "byte") = Some (s "byte", s "Builtin") /\
  builtin_of v2 (s "int8") = Some (s "int8", s "Builtin") /\ builtin_of v2 (s "rune") = Some (s "int32", s "Builtin") /\
  builtin_of v2 (s "int32") = Some (s "int32", s "Builtin").
Proof. destruct v2; repeat split; reflexivity. Qed.

(* ================= walkType only ever extends the universe ================= *)
Lemma kk_elem n : keeps_kind (with_elem n). Proof. intros e; reflexivity. Qed.
Lemma kk_key n : keeps_kind (with_key n). Proof. intros e; reflexivity. Qed.
Lemma kk_under n : keeps_kind (with_under n). Proof. intros e; reflexivity. Qed.
Lemma kk_len n : keeps_kind (with_len n). Proof. intros e; reflexivity. Qed.
Lemma kk_members n : keeps_kind (with_members n). Proof. intros e; reflexivity. Qed.
Lemma kk_methods n : keeps_kind (with_methods n). Proof. intros e; reflexivity. Qed.
Lemma kk_sig n : keeps_kind (with_sig n). Proof. intros e; reflexivity. Qed.
Lemma kk_tparams n : keeps_kind (with_tparams n). Proof. intros e; reflexivity. Qed.
Lemma kk_comp f g : keeps_kind f -> keeps_kind g -> keeps_kind (fun x => f (g x)).
Proof. intros Hf Hg e. rewrite Hf. apply Hg. Qed.
#[export] Hint Resolve kk_elem kk_key kk_under kk_len kk_members kk_methods kk_sig kk_tparams kk_comp : kk.

Lemma get_or_create_obj v2 u n u1 o : get_or_create v2 u n = (u1, o) ->
  (forall k o', nlookup k (tkeys u) = Some o' -> exists e, nlookup o' (objs u) = Some e) ->
  exists e, nlookup o (objs u1) = Some e.
Proof.
  unfold get_or_create. destruct (nlookup n (tkeys u)) as [o0|] eqn:Ek.
  - intros H Hw; inversion H; subst. eauto.
  - destruct (if str_eqb (fst n) [] then builtin_of v2 (snd n) else None) as [[bn bk]|];
      intros H _; inversion H; subst; simpl.
    + destruct (nlookup ([], bn) (objs u)) eqn:E; eauto. rewrite nlookup_nset_same. eauto.
    + destruct (nlookup o (objs u)) eqn:E; eauto. rewrite nlookup_nset_same. eauto.
Qed.

Lemma s_nonempty k : k <> ""%string -> s k <> [].
Proof. destruct k; [congruence|discriminate]. Qed.
Lemma complete_kind u o k : k <> ""%string -> kind_of u o = s k -> complete u o = true.
Proof.
  intros Hk E. unfold complete. rewrite E. destruct (str_eqb_spec (s k) []) as [E0|]; [|reflexivity].
  exfalso. exact (s_nonempty k Hk E0).
Qed.

Section WalkExt.
Variable v2 : bool.
Variable p : prog.
Variable rec : univ -> option name -> N -> option (univ * name).
Hypothesis rec_ext : forall u use t u' o, rec u use t = Some (u', o) -> ext u u'.

Lemma walk_list_ext : forall l u u' ns, walk_list rec u l = Some (u', ns) -> ext u u'.
Proof.
  induction l as [|x l IH]; intros u u' ns H; simpl in H.
  - inversion H; subst. apply ext_refl.
  - destruct (rec u None x) as [[u1 n1]|] eqn:E1; [|discriminate].
    destruct (walk_list rec u1 l) as [[u2 ns2]|] eqn:E2; [|discriminate].
    inversion H; subst. eapply ext_trans; [eapply rec_ext; eauto | eapply IH; eauto].
Qed.
Lemma walk_methods_ext : forall ms u u' r, walk_methods v2 rec u ms = Some (u', r) -> ext u u'.
Proof.
  induction ms as [|[[mn mstr] sg] ms IH]; intros u u' r H; simpl in H.
  - inversion H; subst. apply ext_refl.
  - destruct (rec u (Some (name_of_string v2 mstr)) sg) as [[u1 n1]|] eqn:E1; [|discriminate].
    destruct (walk_methods v2 rec u1 ms) as [[u2 r2]|] eqn:E2; [|discriminate].
    inversion H; subst. eapply ext_trans; [eapply rec_ext; eauto | eapply IH; eauto].
Qed.

(* what [simple] guarantees: the object is the one the name resolves to; the universe only grows;
   and if the entry was undecided its kind is now k *)
Lemma simple_inv u nm k fill u' o :
  k <> ""%string ->
  (forall u1 u2 g, fill u1 = Some (u2, g) -> ext u1 u2 /\ keeps_kind g) ->
  simple v2 u nm k fill = Some (u', o) ->
  exists u0, get_or_create v2 u nm = (u0, o) /\ ext u0 u' /\
             (complete u0 o = true \/ forall e, nlookup o (objs u0) = Some e -> kind_of u' o = s k).
Proof.
  intros Hk Hf. unfold simple. destruct (get_or_create v2 u nm) as [u0 o0] eqn:Eg.
  destruct (complete u0 o0) eqn:Ec; [intros H; inversion H; subst; exists u'; auto using ext_refl|].
  destruct (fill (update u0 o0 (set_kind k))) as [[u2 g]|] eqn:Ef; [|discriminate].
  intros H; inversion H; subst. destruct (Hf _ _ _ Ef) as [H2 Hg].
  exists u0. split; [reflexivity|]. split.
  - eapply ext_trans; [apply update_set_kind_ext, Ec|]. eapply ext_trans; [exact H2|]. apply update_ext, Hg.
  - right. intros e Ee. pose proof (update_set_kind_kind u0 o k e Ee) as K1.
    pose proof (complete_kind _ _ _ Hk K1) as C1.
    destruct H2 as (_ & H2 & _). pose proof (H2 o C1) as K2.
    destruct (update_ext u2 o g Hg) as (_ & H3 & _). rewrite H3; [congruence|].
    eapply complete_kind; [exact Hk|congruence].
Qed.
Lemma simple_ext u nm k fill u' o :
  k <> ""%string ->
  (forall u1 u2 g, fill u1 = Some (u2, g) -> ext u1 u2 /\ keeps_kind g) ->
  simple v2 u nm k fill = Some (u', o) -> ext u u'.
Proof.
  intros Hk Hf H. destruct (simple_inv _ _ _ _ _ _ Hk Hf H) as (u0 & Eg & He & _).
  eapply ext_trans; [eapply get_or_create_ext; eauto|exact He].
Qed.

Lemma attach_inv r ms u' o : attach v2 rec r ms = Some (u', o) -> exists u1, r = Some (u1, o) /\ ext u1 u'.
Proof.
  unfold attach. destruct r as [[u1 o1]|]; [|discriminate].
  destruct (nlookup o1 (objs u1)) as [e|]; [|intros H; inversion H; subst; eauto using ext_refl].
  destruct (e_methods e); [|intros H; inversion H; subst; eauto using ext_refl].
  destruct (walk_methods v2 rec u1 ms) as [[u2 r2]|] eqn:Em; [|discriminate].
  intros H; inversion H; subst. exists u1. split; auto.
  eapply ext_trans; [eapply walk_methods_ext; eauto|]. apply update_ext; auto with kk.
Qed.
Lemma attach_ext u r ms u' o :
  (forall u1 o1, r = Some (u1, o1) -> ext u u1) -> attach v2 rec r ms = Some (u', o) -> ext u u'.
Proof.
  intros Hr H. destruct (attach_inv _ _ _ _ H) as (u1 & -> & He). eapply ext_trans; [eapply Hr; eauto|exact He].
Qed.

Ltac one_child :=
  let u1 := fresh "u1" in let u2 := fresh "u2" in let g := fresh "g" in let H := fresh "H" in
  intros u1 u2 g H;
  match type of H with
  | match rec ?a ?b ?c with _ => _ end = _ =>
      let E := fresh "E" in destruct (rec a b c) as [[? ?]|] eqn:E; [|discriminate];
      inversion H; subst; split; [eapply rec_ext; eauto | auto with kk]
  end.

(* the fill functions of the composite shapes only grow the universe and leave the kind alone *)
Lemma fill_struct fs u1 u2 g :
  match walk_list rec u1 (map snd fs) with
  | Some (u2, ns) => Some (u2, with_members (map (fun fn : str * bool * str * N * name => (fst (fst (fst (fst fn))), snd (fst (fst (fst fn))), snd (fst (fst fn)), snd fn)) (combine fs ns)))
  | None => None end = Some (u2, g) -> ext u1 u2 /\ keeps_kind g.
Proof.
  destruct (walk_list rec u1 (map snd fs)) as [[ua ns]|] eqn:E1; [|discriminate].
  intros H; inversion H; subst. split; [eapply walk_list_ext; eauto | auto with kk].
Qed.
Lemma fill_iface ms u1 u2 g :
  match walk_methods v2 rec u1 ms with Some (u2, r) => Some (u2, with_methods r) | None => None end = Some (u2, g) ->
  ext u1 u2 /\ keeps_kind g.
Proof.
  destruct (walk_methods v2 rec u1 ms) as [[ua r]|] eqn:E1; [|discriminate].
  intros H; inversion H; subst. split; [eapply walk_methods_ext; eauto | auto with kk].
Qed.
Lemma fill_map k e u1 u2 g :
  match rec u1 None e with
  | Some (u2, ne) => match rec u2 None k with
                     | Some (u3, nk) => Some (u3, fun x => with_key nk (with_elem ne x))
                     | None => None end
  | None => None end = Some (u2, g) -> ext u1 u2 /\ keeps_kind g.
Proof.
  destruct (rec u1 None e) as [[ua ne]|] eqn:E1; [|discriminate].
  destruct (rec ua None k) as [[ub nk]|] eqn:E2; [|discriminate].
  intros H; inversion H; subst. split; [|auto with kk]. eapply ext_trans; eapply rec_ext; eauto.
Qed.
Lemma fill_func ps rs vr recv u1 u2 g :
  match walk_list rec u1 (map snd ps) with
  | Some (u2, pn) => match walk_list rec u2 (map snd rs) with
      | Some (u3, rn) =>
          match (match recv with
                 | Some r => match rec u3 None r with Some (u4, n) => Some (u4, Some n) | None => None end
                 | None => Some (u3, None) end) with
          | Some (u4, rc) => Some (u4, with_sig {| s_params := combine (map fst ps) pn; s_results := combine (map fst rs) rn;
                                                    s_variadic := vr; s_recv := rc |})
          | None => None end
      | None => None end
  | None => None end = Some (u2, g) -> ext u1 u2 /\ keeps_kind g.
Proof.
  destruct (walk_list rec u1 (map snd ps)) as [[ua pn]|] eqn:E1; [|discriminate].
  destruct (walk_list rec ua (map snd rs)) as [[ub rn]|] eqn:E2; [|discriminate].
  assert (Ha : ext u1 ub) by (eapply ext_trans; eapply walk_list_ext; eauto).
  destruct recv as [r|].
  - destruct (rec ub None r) as [[uc n]|] eqn:E3; [|discriminate].
    intros H; inversion H; subst. split; [|auto with kk]. eapply ext_trans; [exact Ha|eapply rec_ext; eauto].
  - intros H; inversion H; subst. split; [exact Ha|auto with kk].
Qed.

Lemma walk_step_ext u use t u' o : walk_step v2 p rec u use t = Some (u', o) -> ext u u'.
Proof.
  unfold walk_step. destruct (plookup t p) as [[tstr sh]|]; [|discriminate].
  set (nm := match use with Some n => n | None => name_of_string v2 tstr end). clearbody nm.
  destruct sh as [n|e|e|len e|k e|e|fs|ms|ps rs vr recv|cls under ms tps origin| |].
  - destruct (get_or_create v2 u ([], n)) as [u0 o0] eqn:Eg. pose proof (get_or_create_ext _ _ _ _ _ Eg) as H0.
    destruct (complete u0 o0) eqn:Ec; intros H; inversion H; subst; auto.
    eapply ext_trans; [exact H0|]. apply update_set_kind_ext, Ec.
  - apply simple_ext; [discriminate|one_child].
  - apply simple_ext; [discriminate|one_child].
  - apply simple_ext; [discriminate|one_child].
  - apply simple_ext; [discriminate|]. intros u1 u2 g. apply fill_map.
  - apply simple_ext; [discriminate|one_child].
  - apply simple_ext; [discriminate|]. intros u1 u2 g. apply fill_struct.
  - apply simple_ext; [discriminate|]. intros u1 u2 g. apply fill_iface.
  - apply simple_ext; [discriminate|]. intros u1 u2 g. apply fill_func.
  - destruct (N.eqb cls 0).
    { destruct (get_or_create v2 u (name_of_string v2 tstr)) as [u0 o0] eqn:Eg. pose proof (get_or_create_ext _ _ _ _ _ Eg) as H0.
      destruct (complete u0 o0) eqn:Ec; [intros H; inversion H; subst; auto|].
      destruct (rec (update u0 o0 (set_kind "Alias")) None under) as [[u2 nu]|] eqn:E1; [|discriminate].
      assert (Hx : ext u (update u2 o0 (with_under nu))).
      { eapply ext_trans; [exact H0|]. eapply ext_trans; [apply update_set_kind_ext, Ec|].
        eapply ext_trans; [eapply rec_ext; eauto|]. apply update_ext; auto with kk. }
      apply attach_ext. intros ua oa Ha; inversion Ha; subst; exact Hx. }
    destruct (N.eqb cls 1 && v2).
    { destruct (match origin with
                | Some og => match plookup og p with Some (_, SNamed _ u'0 m' _ _) => (u'0, m') | _ => (under, ms) end
                | None => (under, ms) end) as [under' ms'].
      destruct (walk_list rec u (map snd tps)) as [[ut tpn]|] eqn:Et; [|discriminate].
      pose proof (walk_list_ext _ _ _ _ Et) as Ht.
      match goal with |- context [get_or_create v2 ut ?n] => destruct (get_or_create v2 ut n) as [u0 o0] eqn:Eg; set (nmg := n) in * end.
      pose proof (get_or_create_ext _ _ _ _ _ Eg) as H0.
      destruct (complete u0 o0); [intros H; inversion H; subst; eapply ext_trans; eauto|].
      destruct (rec u0 (Some nmg) under') as [[u1 o1]|] eqn:E1; [|discriminate].
      assert (Hx : ext u (update u1 o1 (with_tparams (combine (map fst tps) tpn)))).
      { eapply ext_trans; [exact Ht|]. eapply ext_trans; [exact H0|].
        eapply ext_trans; [eapply rec_ext; eauto|]. apply update_ext; auto with kk. }
      apply attach_ext. intros ua oa Ha; inversion Ha; subst; exact Hx. }
    destruct (get_or_create v2 u (name_of_string v2 tstr)) as [u0 o0] eqn:Eg. pose proof (get_or_create_ext _ _ _ _ _ Eg) as H0.
    destruct (complete u0 o0); [intros H; inversion H; subst; auto|].
    apply attach_ext. intros ua oa Ha. eapply ext_trans; [exact H0|eapply rec_ext; eauto].
  - intros H; inversion H; subst. apply ext_refl.
  - destruct (get_or_create v2 u nm) as [u0 o0] eqn:Eg. pose proof (get_or_create_ext _ _ _ _ _ Eg) as H0.
    destruct (complete u0 o0) eqn:Ec; intros H; inversion H; subst; auto.
    eapply ext_trans; [exact H0|]. apply update_set_kind_ext, Ec.
Qed.
End WalkExt.

(* walkType: whatever it is asked to walk, with whatever budget, the universe it returns extends
   the one it was given: no key is re-bound to another object, no decided kind is changed *)
Theorem walk_ext v2 p : forall fuel u use t u' o, walk v2 p fuel u use t = Some (u', o) -> ext u u'.
Proof.
  induction fuel as [|f IH]; intros u use t u' o H; simpl in H; [discriminate|].
  eapply walk_step_ext; eauto.
Qed.

(* ================= what walkType returns is registered and decided ================= *)
(* good: the object is what some key resolves to, and it is no placeholder (its kind is decided) *)
Definition good (u : univ) (o : name) : Prop := (exists k, nlookup k (tkeys u) = Some o) /\ complete u o = true.
Lemma good_ext u u' o : ext u u' -> good u o -> good u' o.
Proof. intros He [[k Hk] Hc]. split; [exists k; destruct He as [H _]; auto | eapply ext_complete; eauto]. Qed.
Lemma wf_ext u u' : ext u u' -> wf u -> wf u'.
Proof. intros (_ & _ & H); exact H. Qed.

Section WalkGood.
Variable v2 : bool.
Variable p : prog.
Hypothesis tpfree : forall t ts, plookup t p <> Some (ts, STypeParam).
Variable rec : univ -> option name -> N -> option (univ * name).
Hypothesis rec_ext : forall u use t u' o, rec u use t = Some (u', o) -> ext u u'.
Hypothesis rec_good : forall u use t u' o, wf u -> rec u use t = Some (u', o) -> good u' o.

Lemma decide_good u0 o k nm : wf u0 -> k <> ""%string -> nlookup nm (tkeys u0) = Some o ->
  good (update u0 o (set_kind k)) o.
Proof.
  intros W Hk Hn. destruct (W _ _ Hn) as [e He]. split.
  - exists nm. unfold update. rewrite He. exact Hn.
  - eapply complete_kind; [exact Hk|]. eapply update_set_kind_kind; eauto.
Qed.

Lemma simple_good u nm k fill u' o :
  wf u -> k <> ""%string ->
  (forall u1 u2 g, fill u1 = Some (u2, g) -> ext u1 u2 /\ keeps_kind g) ->
  simple v2 u nm k fill = Some (u', o) -> good u' o.
Proof.
  intros W Hk Hf H. destruct (simple_inv _ _ _ _ _ _ _ Hk Hf H) as (u0 & Eg & He & Hc).
  pose proof (get_or_create_key _ _ _ _ _ Eg) as Hkey.
  pose proof (wf_ext _ _ (get_or_create_ext _ _ _ _ _ Eg) W) as W0.
  split; [exists nm; destruct He as [H1 _]; auto|].
  destruct Hc as [Hc|Hc]; [eapply ext_complete; eauto|].
  destruct (W0 _ _ Hkey) as [e Ee]. eapply complete_kind; [exact Hk|eauto].
Qed.

Ltac one_child' :=
  let u1 := fresh "u1" in let u2 := fresh "u2" in let g := fresh "g" in let H := fresh "H" in
  intros u1 u2 g H;
  match type of H with
  | match rec ?a ?b ?c with _ => _ end = _ =>
      let E := fresh "E" in destruct (rec a b c) as [[? ?]|] eqn:E; [|discriminate];
      inversion H; subst; split; [eapply rec_ext; eauto | auto with kk]
  end.

Lemma walk_step_good u use t u' o : wf u -> walk_step v2 p rec u use t = Some (u', o) -> good u' o.
Proof.
  intros W. unfold walk_step. destruct (plookup t p) as [[tstr sh]|] eqn:Ep; [|discriminate].
  set (nm := match use with Some n => n | None => name_of_string v2 tstr end). clearbody nm.
  destruct sh as [n|e|e|len e|k e|e|fs|ms|ps rs vr recv|cls under ms tps origin| |].
  - destruct (get_or_create v2 u ([], n)) as [u0 o0] eqn:Eg.
    pose proof (get_or_create_key _ _ _ _ _ Eg) as Hkey.
    pose proof (wf_ext _ _ (get_or_create_ext _ _ _ _ _ Eg) W) as W0.
    destruct (complete u0 o0) eqn:Ec; intros H; inversion H; subst.
    + split; eauto.
    + eapply decide_good; eauto. discriminate.
  - apply simple_good; [exact W|discriminate|one_child'].
  - apply simple_good; [exact W|discriminate|one_child'].
  - apply simple_good; [exact W|discriminate|one_child'].
  - apply simple_good; [exact W|discriminate|]. intros u1 u2 g. apply fill_map, rec_ext.
  - apply simple_good; [exact W|discriminate|one_child'].
  - apply simple_good; [exact W|discriminate|]. intros u1 u2 g. apply fill_struct, rec_ext.
  - apply simple_good; [exact W|discriminate|]. intros u1 u2 g. apply fill_iface, rec_ext.
  - apply simple_good; [exact W|discriminate|]. intros u1 u2 g. apply fill_func, rec_ext.
  - destruct (N.eqb cls 0).
    { destruct (get_or_create v2 u (name_of_string v2 tstr)) as [u0 o0] eqn:Eg.
      pose proof (get_or_create_key _ _ _ _ _ Eg) as Hkey.
      pose proof (wf_ext _ _ (get_or_create_ext _ _ _ _ _ Eg) W) as W0.
      destruct (complete u0 o0) eqn:Ec; [intros H; inversion H; subst; split; eauto|].
      destruct (rec (update u0 o0 (set_kind "Alias")) None under) as [[u2 nu]|] eqn:E1; [|discriminate].
      intros H. destruct (attach_inv _ _ rec_ext _ _ _ _ H) as (ux & Hx & He). inversion Hx; subst.
      eapply good_ext; [exact He|]. eapply good_ext; [apply update_ext; auto with kk|].
      eapply good_ext; [eapply rec_ext; eauto|]. eapply decide_good; eauto. discriminate. }
    destruct (N.eqb cls 1 && v2).
    { destruct (match origin with
                | Some og => match plookup og p with Some (_, SNamed _ u'0 m' _ _) => (u'0, m') | _ => (under, ms) end
                | None => (under, ms) end) as [under' ms'].
      destruct (walk_list rec u (map snd tps)) as [[ut tpn]|] eqn:Et; [|discriminate].
      pose proof (wf_ext _ _ (walk_list_ext _ rec_ext _ _ _ _ Et) W) as Wt.
      match goal with |- context [get_or_create v2 ut ?n] => destruct (get_or_create v2 ut n) as [u0 o0] eqn:Eg; set (nmg := n) in * end.
      pose proof (get_or_create_key _ _ _ _ _ Eg) as Hkey.
      pose proof (wf_ext _ _ (get_or_create_ext _ _ _ _ _ Eg) Wt) as W0.
      destruct (complete u0 o0) eqn:Ec; [intros H; inversion H; subst; split; eauto|].
      destruct (rec u0 (Some nmg) under') as [[u1 o1]|] eqn:E1; [|discriminate].
      intros H. destruct (attach_inv _ _ rec_ext _ _ _ _ H) as (ux & Hx & He). inversion Hx; subst.
      eapply good_ext; [exact He|]. eapply good_ext; [apply update_ext; auto with kk|].
      eapply rec_good; eauto. }
    destruct (get_or_create v2 u (name_of_string v2 tstr)) as [u0 o0] eqn:Eg.
    pose proof (get_or_create_key _ _ _ _ _ Eg) as Hkey.
    pose proof (wf_ext _ _ (get_or_create_ext _ _ _ _ _ Eg) W) as W0.
    destruct (complete u0 o0) eqn:Ec; [intros H; inversion H; subst; split; eauto|].
    intros H. destruct (attach_inv _ _ rec_ext _ _ _ _ H) as (ux & Hx & He).
    eapply good_ext; [exact He|]. eapply rec_good; eauto.
  - exfalso. eapply tpfree; eauto.
  - destruct (get_or_create v2 u nm) as [u0 o0] eqn:Eg.
    pose proof (get_or_create_key _ _ _ _ _ Eg) as Hkey.
    pose proof (wf_ext _ _ (get_or_create_ext _ _ _ _ _ Eg) W) as W0.
    destruct (complete u0 o0) eqn:Ec; intros H; inversion H; subst.
    + split; eauto.
    + eapply decide_good; eauto. discriminate.
Qed.
End WalkGood.

(* on programs without type parameters, whatever walkType returns is the object some key of the
   universe resolves to, and it is not a placeholder *)
Theorem walk_good v2 p : (forall t ts, plookup t p <> Some (ts, STypeParam)) ->
  forall fuel u use t u' o, wf u -> walk v2 p fuel u use t = Some (u', o) -> good u' o.
Proof.
  intros Htp. induction fuel as [|f IH]; intros u use t u' o W H; simpl in H; [discriminate|].
  eapply walk_step_good; eauto. intros; eapply walk_ext; eauto.
Qed.

(* ================= kinds ================= *)
(* the kind gengo must report for the composite shapes *)
Definition shape_kind (sh : shape) : option string :=
  match sh with
  | SPtr _ => Some "Pointer" | SSlice _ => Some "Slice" | SChan _ => Some "Chan" | SArray _ _ => Some "Array"
  | SMap _ _ => Some "Map" | SStruct _ => Some "Struct" | SIface _ => Some "Interface" | SFunc _ _ _ _ => Some "Func"
  | _ => None
  end%string.

(* walking a composite type whose entry is still undecided decides it as exactly that kind, and
   that stays so in the universe the walk returns (whatever else the walk visits on the way) *)
Theorem walk_decides_kind v2 p fuel u use t tstr sh k u' o :
  wf u -> plookup t p = Some (tstr, sh) -> shape_kind sh = Some k ->
  walk v2 p fuel u use t = Some (u', o) ->
  let nm := match use with Some n => n | None => name_of_string v2 tstr end in
  complete (fst (get_or_create v2 u nm)) (snd (get_or_create v2 u nm)) = false ->
  o = snd (get_or_create v2 u nm) /\ kind_of u' o = s k.
Proof.
  intros W Ep Hk H nm Hc. destruct fuel as [|f]; [discriminate|]. simpl in H.
  unfold walk_step in H. rewrite Ep in H. fold nm in H.
  assert (Hrec : forall u use t u' o, walk v2 p f u use t = Some (u', o) -> ext u u') by (intros; eapply walk_ext; eauto).
  assert (Hgen : forall fill, (forall u1 u2 g, fill u1 = Some (u2, g) -> ext u1 u2 /\ keeps_kind g) ->
                 simple v2 u nm k fill = Some (u', o) -> o = snd (get_or_create v2 u nm) /\ kind_of u' o = s k).
  { intros fill Hf Hs.
    assert (Hk0 : k <> ""%string) by (destruct sh; inversion Hk; discriminate).
    destruct (simple_inv _ _ _ _ _ _ _ Hk0 Hf Hs) as (u0 & Eg & He & Hd).
    rewrite Eg in *. simpl in *. split; [reflexivity|].
    destruct Hd as [Hd|Hd]; [congruence|].
    pose proof (wf_ext _ _ (get_or_create_ext _ _ _ _ _ Eg) W) as W0.
    destruct (W0 _ _ (get_or_create_key _ _ _ _ _ Eg)) as [e Ee]. eauto. }
  destruct sh; inversion Hk; subst k; eapply Hgen; try exact H.
  all: intros u1 u2 g Hf; cbv beta in Hf.
  all: try (eapply fill_map; eauto; fail).
  all: try (eapply fill_struct; eauto; fail).
  all: try (eapply fill_iface; eauto; fail).
  all: try (eapply fill_func; eauto; fail).
  all: match type of Hf with
       | match walk ?vv ?pp ?ff ?a ?b ?c with _ => _ end = _ =>
           let E := fresh "E" in destruct (walk vv pp ff a b c) as [[? ?]|] eqn:E; [|discriminate];
           inversion Hf; subst; split; [eapply Hrec; eauto | auto with kk]
       end.
Qed.

(* ================= re-walking a finished type is a no-op ================= *)
Definition no_tparams (sh : shape) : bool :=
  match sh with SNamed _ _ _ (_ :: _) _ => false | STypeParam => false | _ => true end.
Definition key_of (v2 : bool) (use : option name) (tstr : str) (sh : shape) : name :=
  match sh with
  | SBasic n => ([], n)
  | SNamed _ _ _ _ _ => name_of_string v2 tstr
  | _ => match use with Some n => n | None => name_of_string v2 tstr end
  end.

Lemma get_or_create_hit v2 u n o : nlookup n (tkeys u) = Some o -> get_or_create v2 u n = (u, o).
Proof. intros H. unfold get_or_create. rewrite H. reflexivity. Qed.

Theorem walk_noop v2 p f u use t tstr sh o :
  plookup t p = Some (tstr, sh) -> no_tparams sh = true ->
  nlookup (key_of v2 use tstr sh) (tkeys u) = Some o -> complete u o = true ->
  walk v2 p (S f) u use t = Some (u, o).
Proof.
  intros Ep Hn Hk Hc. simpl. unfold walk_step. rewrite Ep.
  destruct sh as [n|e|e|len e|k e|e|fs|ms|ps rs vr recv|cls under ms tps origin| |]; simpl in Hk, Hn; try discriminate;
    unfold simple; try (rewrite (get_or_create_hit _ _ _ _ Hk), Hc; reflexivity).
  destruct tps; [|discriminate].
  destruct (N.eqb cls 0); [rewrite (get_or_create_hit _ _ _ _ Hk), Hc; reflexivity|].
  destruct (N.eqb cls 1 && v2).
  - destruct (match origin with
              | Some og => match plookup og p with Some (_, SNamed _ u'0 m' _ _) => (u'0, m') | _ => (under, ms) end
              | None => (under, ms) end) as [under' ms'].
    simpl. rewrite (get_or_create_hit _ _ _ _ Hk), Hc. reflexivity.
  - rewrite (get_or_create_hit _ _ _ _ Hk), Hc. reflexivity.
Qed.

(* ================= generic declarations are described from their origin ================= *)
(* v2, struct/interface class: which instantiation (or the declaration itself) is seen is
   irrelevant: underlying type and methods are taken from the origin node *)
Theorem generic_described_from_origin p rec u use t1 t2 s1 s2 un1 ms1 un2 ms2 tps og so c uo mo tpo oo :
  plookup t1 p = Some (s1, SNamed 1 un1 ms1 tps (Some og)) ->
  plookup t2 p = Some (s2, SNamed 1 un2 ms2 tps (Some og)) ->
  plookup og p = Some (so, SNamed c uo mo tpo oo) ->
  name_of_string true s1 = name_of_string true s2 ->
  walk_step true p rec u use t1 = walk_step true p rec u use t2.
Proof.
  intros E1 E2 Eo En. unfold walk_step. rewrite E1, E2, Eo, En. reflexivity.
Qed.

(* ================= loading only ever extends the universe ================= *)
Lemma upd_pkg_u w path f : w_u (upd_pkg w path f) = w_u w.
Proof. reflexivity. Qed.
Lemma get_pkg_u w path : w_u (get_pkg w path) = w_u w.
Proof. unfold get_pkg. destruct (existsb _ _); reflexivity. Qed.

Lemma add_obj_ext v2 p fuel w o w' : add_obj v2 p fuel (Some w) o = Some w' -> ext (w_u w) (w_u w').
Proof.
  unfold add_obj. destruct o as [t|ostr sg|ostr ty|ostr ty v].
  all: match goal with |- match walk ?vv ?pp ?ff ?a ?b ?c with _ => _ end = _ -> _ =>
         let E := fresh "E" in destruct (walk vv pp ff a b c) as [[u1 n1]|] eqn:E; [|discriminate];
         intros H; inversion H; subst; simpl; eapply walk_ext; eauto end.
Qed.
Lemma add_obj_none v2 p fuel l : fold_left (add_obj v2 p fuel) l None = None.
Proof. induction l; simpl; auto. Qed.
Lemma add_objs_ext v2 p fuel : forall l w w', fold_left (add_obj v2 p fuel) l (Some w) = Some w' -> ext (w_u w) (w_u w').
Proof.
  induction l as [|o l IH]; intros w w' H; cbn [fold_left] in H.
  - inversion H; subst. apply ext_refl.
  - destruct (add_obj v2 p fuel (Some w) o) as [w1|] eqn:E1; [|rewrite add_obj_none in H; discriminate].
    eapply ext_trans; [eapply add_obj_ext; eauto | eapply IH; eauto].
Qed.
Lemma fold_get_pkg_u : forall l w, w_u (fold_left get_pkg l w) = w_u w.
Proof. induction l as [|x l IH]; intros w; simpl; auto. rewrite IH. apply get_pkg_u. Qed.

Lemma add_package_ext v2 p fuel w g w' : add_package v2 p fuel (Some w) g = Some w' -> ext (w_u w) (w_u w').
Proof.
  unfold add_package.
  match goal with |- match fold_left _ _ (Some ?w1) with _ => _ end = _ -> _ =>
    destruct (fold_left (add_obj v2 p fuel) (g_scope g) (Some w1)) as [w2|] eqn:E; [|discriminate] end.
  intros H; inversion H; subst. rewrite upd_pkg_u, fold_get_pkg_u.
  apply add_objs_ext in E. rewrite upd_pkg_u in E. exact E.
Qed.
Lemma add_package_none v2 p fuel l : fold_left (add_package v2 p fuel) l None = None.
Proof. induction l; simpl; auto. Qed.

(* any further sequence of package loads, on any world: every key obtained before still resolves
   to the same object afterwards, and no decided kind changes *)
Theorem load_history_ext v2 p fuel : forall gs w w',
  fold_left (add_package v2 p fuel) gs (Some w) = Some w' -> ext (w_u w) (w_u w').
Proof.
  induction gs as [|g gs IH]; intros w w' H; cbn [fold_left] in H.
  - inversion H; subst. apply ext_refl.
  - destruct (add_package v2 p fuel (Some w) g) as [w1|] eqn:E1; [|rewrite add_package_none in H; discriminate].
    eapply ext_trans; [eapply add_package_ext; eauto | eapply IH; eauto].
Qed.

(* splitting one load into two consecutive loads changes nothing *)
Theorem load_split v2 p fuel gs1 gs2 w :
  fold_left (add_package v2 p fuel) (gs1 ++ gs2) w =
  fold_left (add_package v2 p fuel) gs2 (fold_left (add_package v2 p fuel) gs1 w).
Proof. apply fold_left_app. Qed.

(* ================= lookups ================= *)
Definition lookups (v2 : bool) (u : univ) (ks : list name) : univ :=
  fold_left (fun u k => fst (get_or_create v2 u k)) ks u.
Lemma lookups_ext v2 : forall ks u, ext u (lookups v2 u ks).
Proof.
  induction ks as [|k ks IH]; intros u; simpl; [apply ext_refl|].
  eapply ext_trans; [|apply IH]. destruct (get_or_create v2 u k) eqn:E. simpl. eapply get_or_create_ext; eauto.
Qed.
(* the object a lookup returned is what the same lookup returns after any further lookups *)
Theorem lookup_stable v2 u k ks :
  let '(u1, o) := get_or_create v2 u k in
  snd (get_or_create v2 (lookups v2 u1 ks) k) = o.
Proof.
  destruct (get_or_create v2 u k) as [u1 o] eqn:E.
  pose proof (get_or_create_key _ _ _ _ _ E) as Hk.
  destruct (lookups_ext v2 ks u1) as [H _]. rewrite (get_or_create_hit _ _ _ _ (H _ _ Hk)). reflexivity.
Qed.
(* ... and after any further loading *)
Theorem lookup_stable_across_loads v2 p fuel u k gs pk w' :
  let '(u1, o) := get_or_create v2 u k in
  fold_left (add_package v2 p fuel) gs (Some {| w_u := u1; w_pkgs := pk |}) = Some w' ->
  get_or_create v2 (w_u w') k = (w_u w', o).
Proof.
  destruct (get_or_create v2 u k) as [u1 o] eqn:E. intros H.
  pose proof (get_or_create_key _ _ _ _ _ E) as Hk.
  destruct (load_history_ext _ _ _ _ _ _ H) as [H1 _]. apply get_or_create_hit. apply H1. exact Hk.
Qed.
