(* C11 / C01: the WHOLE entry that a walk builds for an unnamed composite type (pointer, slice,
   channel, array, map, struct, function, interface) is determined by the type checker's node table:
   two walks of the same node, in any two universes reached by lookups and loads in which its entry
   is still undecided, leave identical entries (every field, not only the ones the walk sets). *)
Require Import Gengo.Base.Str Gengo.Base.Sexp Gengo.Base.StrOrder Gengo.Model.Universe
               Gengo.Proofs.UniverseProofs Gengo.Proofs.CanonProofs Gengo.Proofs.FaithfulProofs Gengo.Proofs.FrameProofs
               Gengo.Proofs.IndepProofs Gengo.Proofs.MethodsProofs.

Section Exact.
Variable v2 : bool.
Variable p : prog.
Hypothesis Hok : named_ok v2 p.

(* every child occurrence of the shape has a key *)
Definition children_keyed (sh : shape) : Prop :=
  match sh with
  | SPtr c | SSlice c | SChan c | SArray _ c => keyed v2 p None c
  | SMap k c => keyed v2 p None k /\ keyed v2 p None c
  | SStruct fs => Forall (fun fd => keyed v2 p None (snd fd)) fs
  | SIface ms => Forall (fun m => keyed v2 p (Some (name_of_string v2 (snd (fst m)))) (snd m)) ms
  | SFunc ps rs _ recv => Forall (fun a => keyed v2 p None (snd a)) ps /\ Forall (fun a => keyed v2 p None (snd a)) rs /\
                          (forall r, recv = Some r -> keyed v2 p None r)
  | _ => False
  end.

Section Fuel.
Variable f : nat.
Notation rec := (walk v2 p f).

Lemma rec_frame' : forall u use t u' o, canonical v2 u -> rec u use t = Some (u', o) -> frame u u'.
Proof. intros. eapply walk_frame; eauto. Qed.
Lemma rec_inv' : forall u use t u' o, canonical v2 u -> rec u use t = Some (u', o) ->
  (canonical v2 u' /\ forall k, node_key v2 p use t = Some k -> o = canon v2 k) /\ frame u u'.
Proof. intros u use t u' o C H. split; [eapply walk_canonical; eauto|eapply walk_frame; eauto]. Qed.

(* what [simple] leaves for a blank placeholder: exactly [g] applied to the marked placeholder *)
Lemma simple_exact u nm k fill u' o :
  wf u -> canonical v2 u -> pristine u -> k <> ""%string ->
  (forall u1 u2 g, canonical v2 u1 -> fill u1 = Some (u2, g) -> frame u1 u2) ->
  simple v2 u nm k fill = Some (u', o) ->
  complete (fst (get_or_create v2 u nm)) (snd (get_or_create v2 u nm)) = false ->
  o = canon v2 nm /\
  exists u2 g, fill (update (fst (get_or_create v2 u nm)) o (set_kind k)) = Some (u2, g) /\
               nlookup o (objs u') = Some (g (set_kind k (blank o []))).
Proof.
  intros W C P Hk Hf. unfold simple. destruct (get_or_create v2 u nm) as [u0 o0] eqn:Eg. simpl.
  intros H Hc. rewrite Hc in H.
  destruct (get_or_create_canon _ _ _ _ _ C Eg) as [C0 Eo].
  pose proof (wf_ext _ _ (get_or_create_ext _ _ _ _ _ Eg) W) as W0.
  destruct (W0 _ _ (get_or_create_key _ _ _ _ _ Eg)) as [e0 He0].
  pose proof (undecided_blank _ _ _ (get_or_create_pristine _ _ _ _ _ P Eg) Hc He0) as Eb. subst e0.
  destruct (fill (update u0 o0 (set_kind k))) as [[u2 g]|] eqn:Ef; [|discriminate].
  injection H as <- <-. split; [exact Eo|]. exists u2, g. split; [exact Ef|].
  apply update_lookup_same. eapply (Hf _ _ _ (update_canon _ _ _ _ C0) Ef).
  - apply update_lookup_same. exact He0.
  - simpl. apply s_nonempty, Hk.
Qed.

Lemma names_unique : forall l ns1 ns2, Forall (fun t => keyed v2 p None t) l ->
  Forall2 (fun t n => child_is v2 p None t n) l ns1 -> Forall2 (fun t n => child_is v2 p None t n) l ns2 -> ns1 = ns2.
Proof.
  induction l as [|x l IH]; intros ns1 ns2 Hk A B; inversion A; inversion B; subst; [reflexivity|].
  inversion Hk; subst. f_equal; [eapply child_is_unique; eauto|eapply IH; eauto].
Qed.
Lemma Forall_map_snd {A} (P : N -> Prop) (l : list (A * N)) : Forall (fun a => P (snd a)) l -> Forall P (map snd l).
Proof. induction 1; simpl; constructor; auto. Qed.
End Fuel.

Definition fresh (u : univ) (nm : name) : Prop :=
  complete (fst (get_or_create v2 u nm)) (snd (get_or_create v2 u nm)) = false.

Lemma FF1 : forall ff c (wrap : name -> entry -> entry) u1 u2 g, canonical v2 u1 ->
  match walk v2 p ff u1 None c with Some (u2, n) => Some (u2, wrap n) | None => None end = Some (u2, g) -> frame u1 u2.
Proof.
  intros ff c wrap u1 u2 g C H. destruct (walk v2 p ff u1 None c) as [[ua n]|] eqn:E; [|discriminate].
  inversion H; subst. eapply walk_frame; eauto.
Qed.

Theorem composite_entry_independent f1 f2 u1 u2 use t tstr sh u1' u2' o1 o2 :
  winv' v2 u1 -> winv' v2 u2 -> plookup t p = Some (tstr, sh) -> children_keyed sh ->
  let nm := match use with Some n => n | None => name_of_string v2 tstr end in
  fresh u1 nm -> fresh u2 nm ->
  walk v2 p (S f1) u1 use t = Some (u1', o1) -> walk v2 p (S f2) u2 use t = Some (u2', o2) ->
  o1 = o2 /\ exists e, nlookup o1 (objs u1') = Some e /\ nlookup o2 (objs u2') = Some e.
Proof.
  intros (W1 & C1 & P1) (W2 & C2 & P2) Ep Hkeys nm F1 F2 H1 H2.
  simpl in H1, H2. unfold walk_step in H1, H2. rewrite Ep in H1, H2. fold nm in H1, H2.
  destruct sh as [n|c|c|len c|k c|c|fs|ms|ps rs vr recv|cls under ms tps origin| |]; try contradiction.
  - (* pointer *)
    destruct (simple_exact _ _ _ _ _ _ W1 C1 P1 (ltac:(discriminate) : "Pointer"%string <> ""%string) (FF1 f1 c with_elem) H1 F1) as (E1 & ua & ga & Fa & La).
    destruct (simple_exact _ _ _ _ _ _ W2 C2 P2 (ltac:(discriminate) : "Pointer"%string <> ""%string) (FF1 f2 c with_elem) H2 F2) as (E2 & ub & gb & Fb & Lb).
    cbv beta in Fa, Fb.
    destruct (get_or_create v2 u1 nm) as [u10 o10] eqn:Eg1. destruct (get_or_create v2 u2 nm) as [u20 o20] eqn:Eg2. simpl in Fa, Fb.
    destruct (get_or_create_canon _ _ _ _ _ C1 Eg1) as [C10 _]. destruct (get_or_create_canon _ _ _ _ _ C2 Eg2) as [C20 _].
    destruct (walk v2 p f1 _ None c) as [[xa na]|] eqn:Ra; [|discriminate]. destruct (walk v2 p f2 _ None c) as [[xb nb]|] eqn:Rb; [|discriminate].
    injection Fa as _ <-. injection Fb as _ <-.
    destruct (walk_child_is v2 p Hok _ _ _ _ _ _ (update_canon _ _ _ _ C10) Ra) as [_ Ka].
    destruct (walk_child_is v2 p Hok _ _ _ _ _ _ (update_canon _ _ _ _ C20) Rb) as [_ Kb].
    assert (na = nb) by (eapply child_is_unique; eauto). subst nb.
    split; [congruence|]. rewrite E2 in Lb. rewrite E1 in La. rewrite E1, E2. eexists. split; [exact La|exact Lb].
  - (* slice *)
    destruct (simple_exact _ _ _ _ _ _ W1 C1 P1 (ltac:(discriminate) : "Slice"%string <> ""%string) (FF1 f1 c with_elem) H1 F1) as (E1 & ua & ga & Fa & La).
    destruct (simple_exact _ _ _ _ _ _ W2 C2 P2 (ltac:(discriminate) : "Slice"%string <> ""%string) (FF1 f2 c with_elem) H2 F2) as (E2 & ub & gb & Fb & Lb).
    cbv beta in Fa, Fb.
    destruct (get_or_create v2 u1 nm) as [u10 o10] eqn:Eg1. destruct (get_or_create v2 u2 nm) as [u20 o20] eqn:Eg2. simpl in Fa, Fb.
    destruct (get_or_create_canon _ _ _ _ _ C1 Eg1) as [C10 _]. destruct (get_or_create_canon _ _ _ _ _ C2 Eg2) as [C20 _].
    destruct (walk v2 p f1 _ None c) as [[xa na]|] eqn:Ra; [|discriminate]. destruct (walk v2 p f2 _ None c) as [[xb nb]|] eqn:Rb; [|discriminate].
    injection Fa as _ <-. injection Fb as _ <-.
    destruct (walk_child_is v2 p Hok _ _ _ _ _ _ (update_canon _ _ _ _ C10) Ra) as [_ Ka].
    destruct (walk_child_is v2 p Hok _ _ _ _ _ _ (update_canon _ _ _ _ C20) Rb) as [_ Kb].
    assert (na = nb) by (eapply child_is_unique; eauto). subst nb.
    split; [congruence|]. rewrite E2 in Lb. rewrite E1 in La. rewrite E1, E2. eexists. split; [exact La|exact Lb].
  - (* array *)
    destruct (simple_exact _ _ _ _ _ _ W1 C1 P1 (ltac:(discriminate) : "Array"%string <> ""%string) (FF1 f1 c (fun n x => with_len len (with_elem n x))) H1 F1) as (E1 & ua & ga & Fa & La).
    destruct (simple_exact _ _ _ _ _ _ W2 C2 P2 (ltac:(discriminate) : "Array"%string <> ""%string) (FF1 f2 c (fun n x => with_len len (with_elem n x))) H2 F2) as (E2 & ub & gb & Fb & Lb).
    cbv beta in Fa, Fb.
    destruct (get_or_create v2 u1 nm) as [u10 o10] eqn:Eg1. destruct (get_or_create v2 u2 nm) as [u20 o20] eqn:Eg2. simpl in Fa, Fb.
    destruct (get_or_create_canon _ _ _ _ _ C1 Eg1) as [C10 _]. destruct (get_or_create_canon _ _ _ _ _ C2 Eg2) as [C20 _].
    destruct (walk v2 p f1 _ None c) as [[xa na]|] eqn:Ra; [|discriminate]. destruct (walk v2 p f2 _ None c) as [[xb nb]|] eqn:Rb; [|discriminate].
    injection Fa as _ <-. injection Fb as _ <-.
    destruct (walk_child_is v2 p Hok _ _ _ _ _ _ (update_canon _ _ _ _ C10) Ra) as [_ Ka].
    destruct (walk_child_is v2 p Hok _ _ _ _ _ _ (update_canon _ _ _ _ C20) Rb) as [_ Kb].
    assert (na = nb) by (eapply child_is_unique; eauto). subst nb.
    split; [congruence|]. rewrite E2 in Lb. rewrite E1 in La. rewrite E1, E2. eexists. split; [exact La|exact Lb].
  - (* map *)
    destruct Hkeys as [Hkk Hkc].
    assert (FF : forall ff u1 u2 g, canonical v2 u1 ->
       match walk v2 p ff u1 None c with
       | Some (u2, ne) => match walk v2 p ff u2 None k with Some (u3, nk) => Some (u3, fun x => with_key nk (with_elem ne x)) | None => None end
       | None => None end = Some (u2, g) -> frame u1 u2).
    { intros ff x1 x2 g C H. destruct (walk v2 p ff x1 None c) as [[xa ne]|] eqn:Ea; [|discriminate].
      destruct (walk v2 p ff xa None k) as [[xb nk]|] eqn:Eb; [|discriminate]. inversion H; subst.
      destruct (walk_canonical v2 p Hok _ _ _ _ _ _ C Ea) as [Ca _].
      eapply frame_trans; eapply walk_frame; eauto. }
    destruct (simple_exact _ _ _ _ _ _ W1 C1 P1 (ltac:(discriminate) : "Map"%string <> ""%string) (FF f1) H1 F1) as (E1 & ua & ga & Fa & La).
    destruct (simple_exact _ _ _ _ _ _ W2 C2 P2 (ltac:(discriminate) : "Map"%string <> ""%string) (FF f2) H2 F2) as (E2 & ub & gb & Fb & Lb).
    destruct (get_or_create v2 u1 nm) as [u10 o10] eqn:Eg1. destruct (get_or_create v2 u2 nm) as [u20 o20] eqn:Eg2. simpl in Fa, Fb.
    destruct (get_or_create_canon _ _ _ _ _ C1 Eg1) as [C10 _]. destruct (get_or_create_canon _ _ _ _ _ C2 Eg2) as [C20 _].
    destruct (walk v2 p f1 _ None c) as [[xa nea]|] eqn:Ra; [|discriminate]. destruct (walk v2 p f1 xa None k) as [[ya nka]|] eqn:Sa; [|discriminate].
    destruct (walk v2 p f2 _ None c) as [[xb neb]|] eqn:Rb; [|discriminate]. destruct (walk v2 p f2 xb None k) as [[yb nkb]|] eqn:Sb; [|discriminate].
    injection Fa as _ <-. injection Fb as _ <-.
    destruct (walk_child_is v2 p Hok _ _ _ _ _ _ (update_canon _ _ _ _ C10) Ra) as [Cxa Ka]. destruct (walk_child_is v2 p Hok _ _ _ _ _ _ Cxa Sa) as [_ Ka2].
    destruct (walk_child_is v2 p Hok _ _ _ _ _ _ (update_canon _ _ _ _ C20) Rb) as [Cxb Kb]. destruct (walk_child_is v2 p Hok _ _ _ _ _ _ Cxb Sb) as [_ Kb2].
    assert (nea = neb) by exact (child_is_unique v2 p None c _ _ Hkc Ka Kb). assert (nka = nkb) by exact (child_is_unique v2 p None k _ _ Hkk Ka2 Kb2). subst neb nkb.
    split; [congruence|]. rewrite E2 in Lb. rewrite E1 in La. rewrite E1, E2. eexists. split; [exact La|exact Lb].
  - (* channel *)
    destruct (simple_exact _ _ _ _ _ _ W1 C1 P1 (ltac:(discriminate) : "Chan"%string <> ""%string) (FF1 f1 c with_elem) H1 F1) as (E1 & ua & ga & Fa & La).
    destruct (simple_exact _ _ _ _ _ _ W2 C2 P2 (ltac:(discriminate) : "Chan"%string <> ""%string) (FF1 f2 c with_elem) H2 F2) as (E2 & ub & gb & Fb & Lb).
    cbv beta in Fa, Fb.
    destruct (get_or_create v2 u1 nm) as [u10 o10] eqn:Eg1. destruct (get_or_create v2 u2 nm) as [u20 o20] eqn:Eg2. simpl in Fa, Fb.
    destruct (get_or_create_canon _ _ _ _ _ C1 Eg1) as [C10 _]. destruct (get_or_create_canon _ _ _ _ _ C2 Eg2) as [C20 _].
    destruct (walk v2 p f1 _ None c) as [[xa na]|] eqn:Ra; [|discriminate]. destruct (walk v2 p f2 _ None c) as [[xb nb]|] eqn:Rb; [|discriminate].
    injection Fa as _ <-. injection Fb as _ <-.
    destruct (walk_child_is v2 p Hok _ _ _ _ _ _ (update_canon _ _ _ _ C10) Ra) as [_ Ka].
    destruct (walk_child_is v2 p Hok _ _ _ _ _ _ (update_canon _ _ _ _ C20) Rb) as [_ Kb].
    assert (na = nb) by (eapply child_is_unique; eauto). subst nb.
    split; [congruence|]. rewrite E2 in Lb. rewrite E1 in La. rewrite E1, E2. eexists. split; [exact La|exact Lb].
  - (* struct *)
    assert (FF : forall ff u1 u2 g, canonical v2 u1 ->
       match walk_list (walk v2 p ff) u1 (map snd fs) with
       | Some (u2, ns) => Some (u2, with_members (map (fun fn : str * bool * str * N * name => (fst (fst (fst (fst fn))), snd (fst (fst (fst fn))), snd (fst (fst fn)), snd fn)) (combine fs ns)))
       | None => None end = Some (u2, g) -> frame u1 u2).
    { intros ff x1 x2 g C H. destruct (walk_list (walk v2 p ff) x1 (map snd fs)) as [[xa ns]|] eqn:Ea; [|discriminate]. inversion H; subst.
      eapply (walk_list_frame v2 p (walk v2 p ff) (rec_inv' ff)); eauto. }
    destruct (simple_exact _ _ _ _ _ _ W1 C1 P1 (ltac:(discriminate) : "Struct"%string <> ""%string) (FF f1) H1 F1) as (E1 & ua & ga & Fa & La).
    destruct (simple_exact _ _ _ _ _ _ W2 C2 P2 (ltac:(discriminate) : "Struct"%string <> ""%string) (FF f2) H2 F2) as (E2 & ub & gb & Fb & Lb).
    destruct (get_or_create v2 u1 nm) as [u10 o10] eqn:Eg1. destruct (get_or_create v2 u2 nm) as [u20 o20] eqn:Eg2. simpl in Fa, Fb.
    destruct (get_or_create_canon _ _ _ _ _ C1 Eg1) as [C10 _]. destruct (get_or_create_canon _ _ _ _ _ C2 Eg2) as [C20 _].
    destruct (walk_list (walk v2 p f1) _ (map snd fs)) as [[xa nsa]|] eqn:Ra; [|discriminate].
    destruct (walk_list (walk v2 p f2) _ (map snd fs)) as [[xb nsb]|] eqn:Rb; [|discriminate].
    injection Fa as _ <-. injection Fb as _ <-.
    destruct (walk_list_names v2 p Hok f1 _ _ _ _ (update_canon _ _ _ _ C10) Ra) as [_ Na].
    destruct (walk_list_names v2 p Hok f2 _ _ _ _ (update_canon _ _ _ _ C20) Rb) as [_ Nb].
    assert (nsa = nsb) by (eapply names_unique; [exact (Forall_map_snd (fun t => keyed v2 p None t) fs Hkeys)|exact Na|exact Nb]). subst nsb.
    split; [congruence|]. rewrite E2 in Lb. rewrite E1 in La. rewrite E1, E2. eexists. split; [exact La|exact Lb].
  - (* interface *)
    assert (FF : forall ff u1 u2 g, canonical v2 u1 ->
       match walk_methods v2 (walk v2 p ff) u1 ms with Some (u2, r) => Some (u2, with_methods r) | None => None end = Some (u2, g) -> frame u1 u2).
    { intros ff x1 x2 g C H. destruct (walk_methods v2 (walk v2 p ff) x1 ms) as [[xa r]|] eqn:Ea; [|discriminate]. inversion H; subst.
      eapply (walk_methods_frame v2 p (walk v2 p ff) (rec_inv' ff)); eauto. }
    destruct (simple_exact _ _ _ _ _ _ W1 C1 P1 (ltac:(discriminate) : "Interface"%string <> ""%string) (FF f1) H1 F1) as (E1 & ua & ga & Fa & La).
    destruct (simple_exact _ _ _ _ _ _ W2 C2 P2 (ltac:(discriminate) : "Interface"%string <> ""%string) (FF f2) H2 F2) as (E2 & ub & gb & Fb & Lb).
    destruct (get_or_create v2 u1 nm) as [u10 o10] eqn:Eg1. destruct (get_or_create v2 u2 nm) as [u20 o20] eqn:Eg2. simpl in Fa, Fb.
    destruct (get_or_create_canon _ _ _ _ _ C1 Eg1) as [C10 _]. destruct (get_or_create_canon _ _ _ _ _ C2 Eg2) as [C20 _].
    destruct (walk_methods v2 (walk v2 p f1) _ ms) as [[xa ra]|] eqn:Ra; [|discriminate].
    destruct (walk_methods v2 (walk v2 p f2) _ ms) as [[xb rb]|] eqn:Rb; [|discriminate].
    injection Fa as _ <-. injection Fb as _ <-.
    destruct (walk_methods_names v2 p Hok f1 _ _ _ _ (update_canon _ _ _ _ C10) Ra) as [_ Na].
    destruct (walk_methods_names v2 p Hok f2 _ _ _ _ (update_canon _ _ _ _ C20) Rb) as [_ Nb].
    assert (ra = rb) by (eapply (methods_unique v2 p); eauto). subst rb.
    split; [congruence|]. rewrite E2 in Lb. rewrite E1 in La. rewrite E1, E2. eexists. split; [exact La|exact Lb].
  - (* function *)
    destruct Hkeys as (Hps & Hrs & Hrc).
    set (fl := fun ff (u1 : univ) =>
       match walk_list (walk v2 p ff) u1 (map snd ps) with
       | Some (u2, pn) => match walk_list (walk v2 p ff) u2 (map snd rs) with
           | Some (u3, rn) =>
               match (match recv with
                      | Some r => match walk v2 p ff u3 None r with Some (u4, n) => Some (u4, Some n) | None => None end
                      | None => Some (u3, None) end) with
               | Some (u4, rc) => Some (u4, with_sig {| s_params := combine (map fst ps) pn; s_results := combine (map fst rs) rn;
                                                         s_variadic := vr; s_recv := rc |})
               | None => None end
           | None => None end
       | None => None end).
    assert (FF : forall ff u1 u2 g, canonical v2 u1 -> fl ff u1 = Some (u2, g) -> frame u1 u2).
    { intros ff x1 x2 g C H. unfold fl in H.
      destruct (walk_list (walk v2 p ff) x1 (map snd ps)) as [[xa pn]|] eqn:Ea; [|discriminate].
      destruct (walk_list (walk v2 p ff) xa (map snd rs)) as [[xb rn]|] eqn:Eb; [|discriminate].
      destruct (walk_list_frame v2 p (walk v2 p ff) (rec_inv' ff) _ _ _ _ C Ea) as [Ca Fa].
      destruct (walk_list_frame v2 p (walk v2 p ff) (rec_inv' ff) _ _ _ _ Ca Eb) as [Cb Fb].
      destruct recv as [r|].
      - destruct (walk v2 p ff xb None r) as [[xc n]|] eqn:Ec; [|discriminate]. inversion H; subst.
        eapply frame_trans; [exact Fa|]. eapply frame_trans; [exact Fb|]. eapply walk_frame; eauto.
      - inversion H; subst. eapply frame_trans; eauto. }
    change (simple v2 u1 nm "Func" (fl f1) = Some (u1', o1)) in H1. change (simple v2 u2 nm "Func" (fl f2) = Some (u2', o2)) in H2.
    destruct (simple_exact _ _ _ _ _ _ W1 C1 P1 (ltac:(discriminate) : "Func"%string <> ""%string) (FF f1) H1 F1) as (E1 & ua & ga & Fa & La).
    destruct (simple_exact _ _ _ _ _ _ W2 C2 P2 (ltac:(discriminate) : "Func"%string <> ""%string) (FF f2) H2 F2) as (E2 & ub & gb & Fb & Lb).
    destruct (get_or_create v2 u1 nm) as [u10 o10] eqn:Eg1. destruct (get_or_create v2 u2 nm) as [u20 o20] eqn:Eg2. simpl in Fa, Fb.
    destruct (get_or_create_canon _ _ _ _ _ C1 Eg1) as [C10 _]. destruct (get_or_create_canon _ _ _ _ _ C2 Eg2) as [C20 _].
    unfold fl in Fa, Fb.
    destruct (walk_list (walk v2 p f1) _ (map snd ps)) as [[xa pna]|] eqn:Ra; [|discriminate].
    destruct (walk_list (walk v2 p f1) xa (map snd rs)) as [[ya rna]|] eqn:Sa; [|discriminate].
    destruct (walk_list (walk v2 p f2) _ (map snd ps)) as [[xb pnb]|] eqn:Rb; [|discriminate].
    destruct (walk_list (walk v2 p f2) xb (map snd rs)) as [[yb rnb]|] eqn:Sb; [|discriminate].
    destruct (walk_list_names v2 p Hok f1 _ _ _ _ (update_canon _ _ _ _ C10) Ra) as [Cxa Npa]. destruct (walk_list_names v2 p Hok f1 _ _ _ _ Cxa Sa) as [Cya Nra].
    destruct (walk_list_names v2 p Hok f2 _ _ _ _ (update_canon _ _ _ _ C20) Rb) as [Cxb Npb]. destruct (walk_list_names v2 p Hok f2 _ _ _ _ Cxb Sb) as [Cyb Nrb].
    assert (pna = pnb) by (eapply names_unique; [exact (Forall_map_snd (fun t => keyed v2 p None t) ps Hps)|exact Npa|exact Npb]).
    assert (rna = rnb) by (eapply names_unique; [exact (Forall_map_snd (fun t => keyed v2 p None t) rs Hrs)|exact Nra|exact Nrb]). subst pnb rnb.
    destruct recv as [r|].
    + destruct (walk v2 p f1 ya None r) as [[za na]|] eqn:Ta; [|discriminate]. destruct (walk v2 p f2 yb None r) as [[zb nb]|] eqn:Tb; [|discriminate].
      injection Fa as _ <-. injection Fb as _ <-.
      destruct (walk_child_is v2 p Hok _ _ _ _ _ _ Cya Ta) as [_ Ka]. destruct (walk_child_is v2 p Hok _ _ _ _ _ _ Cyb Tb) as [_ Kb].
      assert (na = nb) by (eapply child_is_unique; [exact (Hrc r eq_refl)|exact Ka|exact Kb]). subst nb.
      split; [congruence|]. rewrite E2 in Lb. rewrite E1 in La. rewrite E1, E2. eexists. split; [exact La|exact Lb].
    + injection Fa as _ <-. injection Fb as _ <-.
      split; [congruence|]. rewrite E2 in Lb. rewrite E1 in La. rewrite E1, E2. eexists. split; [exact La|exact Lb].
Qed.
End Exact.
