Require Import Gengo.Base.Str Gengo.Base.Sexp Gengo.Base.StrOrder Gengo.Model.Files.
From Coq Require Import Permutation.

(* ================= C09 ================= *)
Theorem assemble_layout f :
  assemble f = a_header f ++ s "package " ++ a_pkg f ++ [NL; NL] ++ import_block (a_imports f) ++
               section "var" (a_vars f) ++ section "const" (a_consts f) ++ a_body f.
Proof. unfold assemble, pre_imports, post_imports. rewrite <- !app_assoc. reflexivity. Qed.

Corollary header_first f : exists r, assemble f = a_header f ++ r.
Proof. rewrite assemble_layout. eauto. Qed.

(* contributing the imports in another order changes nothing outside the import block, and
   permutes the lines inside it *)
Theorem assemble_perm f imports' : Permutation (a_imports f) imports' ->
  let f' := {| a_header := a_header f; a_pkg := a_pkg f; a_imports := imports'; a_vars := a_vars f; a_consts := a_consts f; a_body := a_body f |} in
  pre_imports f' = pre_imports f /\ post_imports f' = post_imports f /\
  Permutation (map import_line (a_imports f)) (map import_line imports').
Proof. intros Hp. simpl. repeat split. apply Permutation_map. exact Hp. Qed.

Definition block_of_lines (ls : list str) : str :=
  match ls with [] => [] | _ => s "import (" ++ [NL] ++ concat ls ++ s ")" ++ [NL; NL] end.
Lemma import_block_lines l : import_block l = block_of_lines (map import_line l).
Proof. destruct l; reflexivity. Qed.

Section Formatter.
(* the formatter (golang.org/x/tools/imports.Process) is not modelled; this is the one law of it
   that determinism needs: the result does not depend on the order of the lines of one import block *)
Variable fmt : str -> option str.
Hypothesis fmt_sorts_block : forall pre post l1 l2, Permutation l1 l2 ->
  fmt (pre ++ block_of_lines l1 ++ post) = fmt (pre ++ block_of_lines l2 ++ post).

Theorem assemble_deterministic f imports' : Permutation (a_imports f) imports' ->
  fmt (assemble f) =
  fmt (assemble {| a_header := a_header f; a_pkg := a_pkg f; a_imports := imports'; a_vars := a_vars f; a_consts := a_consts f; a_body := a_body f |}).
Proof.
  intros Hp. unfold assemble. rewrite !import_block_lines. simpl.
  apply fmt_sorts_block. apply Permutation_map. exact Hp.
Qed.
End Formatter.

Theorem boilerplate_layout header bt gb yr gn :
  go_boilerplate header bt gb yr gn =
    (match bt with [] => [] | _ => s "//go:build !" ++ bt ++ [NL] ++ s "// +build !" ++ bt ++ [NL; NL] end) ++
    (match header with None => [] | Some b => replace (s "YEAR") yr b ++ [NL] end) ++
    (match gb with [] => [] | _ => replace (s "GENERATOR_NAME") gn gb ++ [NL; NL] end).
Proof. reflexivity. Qed.

(* replace leaves text without the pattern alone *)
Lemma replace_all_no_occurrence old new : forall fuel l,
  (forall a b, l <> a ++ old ++ b) -> old <> [] -> replace_all fuel old new l = l.
Proof.
  induction fuel as [|f IH]; intros l Hno Hne; simpl; auto.
  destruct l as [|c l']; auto.
  destruct (has_prefix old (c :: l')) eqn:E.
  - apply has_prefix_spec in E. destruct E as [r Hr]. exfalso. apply (Hno [] r). simpl. exact Hr.
  - simpl. f_equal. apply IH; auto. intros a b Hab. apply (Hno (c :: a) b). simpl. f_equal. exact Hab.
Qed.

(* ================= C10 ================= *)
Definition wname (w : str * (str * option str)) : str := fst w.

Theorem verify_readonly fs ws : fst (run_verify fs ws) = fs.
Proof. reflexivity. Qed.

Lemma verify_file_ok fs w : verify_file fs w = [] <->
  exists f, snd (snd w) = Some f /\ fs_dir fs = true /\ lookup (fst w) (fs_files fs) = Some f.
Proof.
  destruct w as [name [text formatted]]. simpl. destruct formatted as [f|].
  - destruct (fs_dir fs); simpl.
    + destruct (lookup name (fs_files fs)) as [e|] eqn:El.
      * destruct (str_eqb_spec f e) as [->|Hne].
        -- split; eauto.
        -- split; [discriminate|]. intros [f0 [H1 [_ H2]]]. inversion H1; inversion H2; congruence.
      * split; [discriminate|]. intros [f0 [_ [_ H2]]]. discriminate.
    + split; [discriminate|]. intros [f0 [_ [H _]]]. discriminate.
  - split; [discriminate|]. intros [f0 [H _]]. discriminate.
Qed.

(* a verify run succeeds exactly when every file it would write exists with identical bytes *)
Theorem verify_iff fs ws :
  snd (run_verify fs ws) = [] <->
  forall w, In w ws -> exists f, snd (snd w) = Some f /\ fs_dir fs = true /\ lookup (fst w) (fs_files fs) = Some f.
Proof.
  unfold run_verify. simpl. induction ws as [|w ws IH]; simpl.
  - split; [intros _ w []|reflexivity].
  - split.
    + intros H. apply app_eq_nil in H. destruct H as [H1 H2]. intros w' [<-|Hw].
      * apply verify_file_ok. exact H1.
      * apply IH; auto.
    + intros H. assert (H1 : verify_file fs w = []) by (apply verify_file_ok; apply H; auto).
      rewrite H1. simpl. apply IH. intros w' Hw. apply H. auto.
Qed.

(* the errors name exactly the missing and the differing files *)
Theorem verify_errors_exact fs ws n :
  (In (FMissing n) (snd (run_verify fs ws)) <->
     exists t f, In (n, (t, Some f)) ws /\ (fs_dir fs = false \/ lookup n (fs_files fs) = None)) /\
  (In (FDiffers n) (snd (run_verify fs ws)) <->
     exists t f e, In (n, (t, Some f)) ws /\ fs_dir fs = true /\ lookup n (fs_files fs) = Some e /\ e <> f).
Proof.
  unfold run_verify. simpl. split; rewrite in_flat_map; split.
  - intros [[name [t fo]] [Hw Hin]]. simpl in Hin. destruct fo as [f|]; [|destruct Hin as [H|[]]; discriminate].
    destruct (fs_dir fs) eqn:Ed.
    + destruct (lookup name (fs_files fs)) as [e0|] eqn:El.
      * destruct (str_eqb f e0); [destruct Hin|destruct Hin as [H|[]]; discriminate].
      * destruct Hin as [H|[]]. inversion H; subst. exists t, f. auto.
    + destruct Hin as [H|[]]. inversion H; subst. exists t, f. auto.
  - intros [t [f [Hw Hc]]]. exists (n, (t, Some f)). split; auto. simpl.
    destruct (fs_dir fs); [|left; reflexivity]. destruct Hc as [Hc|Hc]; [discriminate|]. rewrite Hc. left; reflexivity.
  - intros [[name [t fo]] [Hw Hin]]. simpl in Hin. destruct fo as [f|]; [|destruct Hin as [H|[]]; discriminate].
    destruct (fs_dir fs) eqn:Ed.
    + destruct (lookup name (fs_files fs)) as [e|] eqn:El.
      * destruct (str_eqb_spec f e); [destruct Hin|]. destruct Hin as [H|[]]. inversion H; subst.
        exists t, f, e. repeat split; auto.
      * destruct Hin as [H|[]]. discriminate.
    + destruct Hin as [H|[]]. discriminate.
  - intros [t [f [e [Hw [Hd [Hl Hne]]]]]]. exists (n, (t, Some f)). split; auto. simpl. rewrite Hd, Hl.
    destruct (str_eqb_spec f e); [congruence|left; reflexivity].
Qed.

(* any change of the bytes of an expected file is reported *)
Corollary verify_detects_any_edit fs ws n t f e :
  In (n, (t, Some f)) ws -> fs_dir fs = true -> lookup n (fs_files fs) = Some e -> e <> f ->
  In (FDiffers n) (snd (run_verify fs ws)).
Proof. intros. apply verify_errors_exact. exists t, f, e. auto. Qed.
Corollary verify_detects_deletion fs ws n t f :
  In (n, (t, Some f)) ws -> lookup n (fs_files fs) = None -> In (FMissing n) (snd (run_verify fs ws)).
Proof. intros. apply verify_errors_exact. exists t, f. auto. Qed.

Lemma find_app {T} (f : T -> bool) l1 l2 :
  find f (l1 ++ l2) = match find f l1 with Some x => Some x | None => find f l2 end.
Proof. induction l1 as [|x l1 IH]; simpl; auto. destruct (f x); auto. Qed.

(* generating and then verifying the same inputs succeeds *)
Lemma run_generate_spec ws : forall fs0 errs0 fs' errs',
  fs_dir fs0 = true ->
  fold_left (fun acc w => let '(fs, errs) := acc in let '(fs', e) := gen_file fs w in (fs', errs ++ e)) ws (fs0, errs0) = (fs', errs') ->
  fs_dir fs' = true /\
  forall n, lookup n (fs_files fs') =
    match find (fun w => str_eqb n (fst w)) (rev ws) with
    | Some (_, (t, Some f)) => Some f
    | Some (_, (t, None)) => Some t
    | None => lookup n (fs_files fs0)
    end.
Proof.
  induction ws as [|w ws IH]; simpl; intros fs0 errs0 fs' errs' Hd H.
  - inversion H; subst. auto.
  - destruct (gen_file fs0 w) as [fs1 e1] eqn:Eg.
    assert (Hg : fs_dir fs1 = true /\ forall n, lookup n (fs_files fs1) =
              if str_eqb n (fst w) then Some (match snd (snd w) with Some f => f | None => fst (snd w) end) else lookup n (fs_files fs0)).
    { unfold gen_file in Eg. destruct w as [name [t fo]]. rewrite Hd in Eg. simpl in Eg.
      destruct fo as [f|]; inversion Eg; subst; simpl; split; auto; intros n;
        (destruct (str_eqb_spec n name) as [->|Hn]; [apply lookup_set_same|apply lookup_set_other; auto]). }
    destruct Hg as [Hd1 Hl1]. destruct (IH _ _ _ _ Hd1 H) as [Hd' Hl']. split; auto.
    intros n. rewrite Hl'. rewrite find_app.
    destruct (find (fun w0 => str_eqb n (fst w0)) (rev ws)) as [[? [? ?]]|]; auto.
    simpl. rewrite Hl1. destruct w as [name [t fo]]. simpl. destruct (str_eqb n name); auto. destruct fo; auto.
Qed.

Theorem generate_then_verify fs ws :
  NoDup (map fst ws) -> (forall w, In w ws -> snd (snd w) <> None) ->
  snd (run_verify (fst (run_generate fs ws)) ws) = [].
Proof.
  intros Hnd Hfmt. unfold run_generate.
  destruct (fold_left _ ws _) as [fs' errs'] eqn:E.
  destruct (run_generate_spec ws {| fs_dir := true; fs_files := fs_files fs |} [] fs' errs' eq_refl E) as [Hd Hl]. simpl.
  apply verify_iff. intros [name [t fo]] Hw. simpl.
  destruct fo as [f|]; [|exfalso; apply (Hfmt _ Hw); reflexivity].
  exists f. repeat split; auto. rewrite Hl.
  assert (Hfind : find (fun w0 => str_eqb name (fst w0)) (rev ws) = Some (name, (t, Some f))).
  { clear -Hnd Hw. induction ws as [|w ws IH]; [destruct Hw|]. simpl. inversion Hnd as [|? ? Hn Hd]; subst.
    rewrite find_app. destruct Hw as [->|Hw].
    - assert (Hnone : find (fun w0 => str_eqb name (fst w0)) (rev ws) = None).
      { destruct (find _ (rev ws)) as [w1|] eqn:Ef; auto. apply find_some in Ef. destruct Ef as [Hin He].
        apply str_eqb_eq in He. exfalso. apply Hn. simpl. rewrite He. apply in_map. apply in_rev. exact Hin. }
      rewrite Hnone. simpl. rewrite str_eqb_refl. reflexivity.
    - rewrite (IH Hd Hw). reflexivity. }
  rewrite Hfind. reflexivity.
Qed.
