(* C08 proofs: functional specification of the tag extractors. *)
Require Import Gengo.Base.Str Gengo.Base.Sexp Gengo.Model.Tags.

(* ---------- declarative vocabulary ---------- *)

(* the (key, value) pairs of the considered lines, in source order *)
Definition considered (marker : str) (lines : list str) : list (str * str) :=
  flat_map (fun l => match parse_line marker l with Some kv => [kv] | None => [] end) lines.
Definition values_for {V} (k : str) (kvs : list (str * V)) : list V :=
  map snd (filter (fun kv => str_eqb k (fst kv)) kvs).
Definition nonempty {V} (l : list V) : option (list V) := match l with [] => None | _ => Some l end.

(* parse_line in logical terms: the trimmed line is non-empty and starts with the marker; the key
   is the text up to the first '=', the value the text after it (empty if there is none) *)
Lemma parse_line_spec marker line k v :
  parse_line marker line = Some (k, v) <->
  let t := trim is_sp line in
  t <> [] /\ exists rest, t = marker ++ rest /\
    ((rest = k ++ EQ :: v /\ ~ In EQ k) \/ (rest = k /\ v = [] /\ ~ In EQ rest)).
Proof.
  unfold parse_line. cbv zeta. generalize (trim is_sp line) as t. intros t.
  destruct t as [|c t'].
  - split; [discriminate|]. intros [H _]; congruence.
  - set (t := c :: t'). destruct (has_prefix marker t) eqn:Hp.
    + pose proof (has_prefix_skipn _ _ Hp) as Hsk.
      destruct (split_first EQ (skipn (length marker) t)) as [a b] eqn:Hs.
      split.
      * intros H. inversion H; subst. split; [discriminate|].
        exists (skipn (length marker) t). split; auto.
        destruct b as [b|].
        -- left. apply split_first_some in Hs. exact Hs.
        -- right. apply split_first_none in Hs. destruct Hs as [-> Hn]. auto.
      * intros [Hne [rest [Hr Hcase]]].
        assert (Hrest : rest = skipn (length marker) t).
        { rewrite Hr. rewrite skipn_app, skipn_all, Nat.sub_diag. reflexivity. }
        rewrite <- Hrest in Hs. destruct Hcase as [[H1 H2]|[H1 [H2 H3]]].
        -- assert (Hx : split_first EQ rest = (k, Some v)) by (apply split_first_some; auto).
           rewrite Hx in Hs. inversion Hs; subst. reflexivity.
        -- assert (Hx : split_first EQ rest = (rest, None)) by (apply split_first_none; auto).
           rewrite Hx in Hs. inversion Hs; subst. reflexivity.
    + split; [discriminate|]. intros [_ [rest [Hr _]]].
      assert (has_prefix marker t = true) by (apply has_prefix_spec; eauto). congruence.
Qed.

(* ---------- append_val ---------- *)

Lemma lookup_append_same {V} k (v : V) m :
  lookup k (append_val k v m) = Some (match lookup k m with Some vs => vs ++ [v] | None => [v] end).
Proof.
  induction m as [|[k' vs] m IH]; simpl.
  - rewrite str_eqb_refl; auto.
  - destruct (str_eqb_spec k k') as [->|Hne]; simpl.
    + rewrite str_eqb_refl; auto.
    + destruct (str_eqb_spec k k'); [congruence|]. auto.
Qed.
Lemma lookup_append_other {V} k k' (v : V) m : k <> k' -> lookup k (append_val k' v m) = lookup k m.
Proof.
  intros Hne. induction m as [|[k2 vs] m IH]; simpl.
  - destruct (str_eqb_spec k k'); congruence.
  - destruct (str_eqb_spec k' k2) as [->|H2]; simpl.
    + destruct (str_eqb_spec k k2); congruence.
    + destruct (str_eqb_spec k k2); auto.
Qed.

Definition combine_vals {V} (o : option (list V)) (vs : list V) : option (list V) :=
  match o, vs with
  | None, [] => None
  | None, _ => Some vs
  | Some a, _ => Some (a ++ vs)
  end.

(* ---------- the old form ---------- *)

Lemma extract_gen marker k : forall lines acc,
  lookup k (fold_left (extract_step marker) lines acc)
  = combine_vals (lookup k acc) (values_for k (considered marker lines)).
Proof.
  induction lines as [|l lines IH]; intros acc; simpl.
  - unfold values_for; simpl. destruct (lookup k acc); simpl; auto. rewrite app_nil_r; auto.
  - rewrite IH. unfold extract_step, considered; simpl.
    destruct (parse_line marker l) as [[k' v]|]; simpl; auto.
    unfold values_for; simpl. fold (considered marker lines).
    destruct (str_eqb_spec k k') as [<-|Hne]; simpl.
    + rewrite lookup_append_same. destruct (lookup k acc); simpl; auto.
      rewrite <- app_assoc; auto.
    + rewrite lookup_append_other; auto.
Qed.

Theorem extract_spec marker lines k :
  lookup k (extract marker lines) = nonempty (values_for k (considered marker lines)).
Proof. unfold extract. rewrite extract_gen. simpl. destruct (values_for _ _); auto. Qed.

Corollary extract_no_empty marker lines k : lookup k (extract marker lines) <> Some [].
Proof. rewrite extract_spec. destruct (values_for _ _); simpl; congruence. Qed.

Lemma append_val_keys_NoDup {V} k (v : V) m : NoDup (keys m) -> NoDup (keys (append_val k v m)).
Proof.
  unfold keys. induction m as [|[k' vs] m IH]; simpl; intros H.
  - constructor; [simpl; tauto|constructor].
  - inversion H as [|? ? Hn Hd]; subst. destruct (str_eqb_spec k k') as [->|Hne]; simpl.
    + constructor; auto.
    + constructor; auto. intros Hin. apply Hn.
      clear -Hin Hne. induction m as [|[k2 v2] m IH]; simpl in *.
      * destruct Hin; [congruence|tauto].
      * destruct (str_eqb_spec k k2) as [->|H2]; simpl in *; tauto.
Qed.

(* the result is a map: no key occurs twice *)
Theorem extract_keys_NoDup marker lines : NoDup (keys (extract marker lines)).
Proof.
  unfold extract. assert (H : NoDup (keys (@nil (str * list str)))) by constructor.
  revert H. generalize (@nil (str * list str)) as acc.
  induction lines as [|l lines IH]; intros acc H; simpl; auto.
  apply IH. unfold extract_step. destruct (parse_line marker l) as [[k v]|]; auto.
  apply append_val_keys_NoDup; auto.
Qed.

(* ---------- boolean helper, v1 ---------- *)

Theorem bool_v1_spec marker key d lines :
  bool_tag_v1 marker key d lines =
  match values_for key (considered marker lines) with
  | [] => Ok d
  | v :: _ => bool_of_value v
  end.
Proof.
  unfold bool_tag_v1. rewrite extract_spec.
  destruct (values_for key (considered marker lines)) as [|v vs]; simpl; auto.
Qed.

Corollary bool_v1_never_panics marker key d lines : bool_tag_v1 marker key d lines <> Panic.
Proof.
  rewrite bool_v1_spec. destruct (values_for _ _) as [|v vs]; [discriminate|].
  unfold bool_of_value. destruct (str_eqb v str_true); [discriminate|].
  destruct (str_eqb v str_false); discriminate.
Qed.

Lemma bool_of_value_spec v :
  (v = str_true -> bool_of_value v = Ok true) /\
  (v = str_false -> bool_of_value v = Ok false) /\
  (v <> str_true -> v <> str_false -> bool_of_value v = Err ENotBool).
Proof.
  unfold bool_of_value. repeat split.
  - intros ->. rewrite str_eqb_refl; auto.
  - intros ->. vm_compute. reflexivity.
  - intros H1 H2. apply str_eqb_neq in H1, H2. rewrite H1, H2. reflexivity.
Qed.

(* ---------- function-style form ---------- *)
Section Fn.
Variable is_letter is_digit : N -> bool.
Let alnum c := is_letter c || is_digit c.

(* strings of letters/digits: the longest such prefix and the rest *)
Fixpoint span (f : N -> bool) (l : str) : str * str :=
  match l with
  | x :: l' => if f x then let (a, b) := span f l' in (x :: a, b) else ([], l)
  | [] => ([], [])
  end.
Lemma span_spec f l a b : span f l = (a, b) ->
  l = a ++ b /\ forallb f a = true /\ match b with x :: _ => f x = false | [] => True end.
Proof.
  revert a b. induction l as [|x l IH]; simpl; intros a b H.
  - inversion H; subst; auto.
  - destruct (f x) eqn:Hf.
    + destruct (span f l) as [a' b'] eqn:Hs. inversion H; subst.
      destruct (IH _ _ eq_refl) as [-> [H2 H3]]. simpl. rewrite Hf, H2. auto.
    + inversion H; subst. simpl. auto.
Qed.

(* parseTagArgs as a decision table on (identifier prefix, rest) *)
Definition classify_args (ab : str * str) : res (option str) :=
  match snd ab with
  | [] => Err ENoClose
  | c :: r => if N.eqb c COMMA then Err EMultiple
              else if N.eqb c RP then
                match r with
                | _ :: _ => Err EAfterParen
                | [] => match fst ab with [] => Ok None | a => Ok (Some a) end
                end
              else Err EUnsupported
  end.

Lemma parse_args_loop_spec : forall rs pre,
  forallb alnum pre = true ->
  parse_args_loop is_letter is_digit (pre ++ rs) (length pre) rs
  = classify_args (pre ++ fst (span alnum rs), snd (span alnum rs)).
Proof.
  induction rs as [|r rs IH]; intros pre Hpre; simpl.
  - reflexivity.
  - fold (alnum r). destruct (alnum r) eqn:Ha.
    + replace (pre ++ r :: rs) with ((pre ++ [r]) ++ rs) by (rewrite <- app_assoc; reflexivity).
      replace (S (length pre)) with (length (pre ++ [r])) by (rewrite app_length; simpl; lia).
      rewrite IH.
      * destruct (span alnum rs) as [a b]. simpl. rewrite <- app_assoc. reflexivity.
      * rewrite forallb_app, Hpre. simpl. rewrite Ha. reflexivity.
    + unfold classify_args. simpl. rewrite app_nil_r.
      destruct (N.eqb r COMMA); auto. destruct (N.eqb r RP); auto.
      destruct rs; auto. rewrite firstn_app, firstn_all, Nat.sub_diag. simpl. rewrite app_nil_r.
      destruct pre; reflexivity.
Qed.

Theorem parse_tag_args_spec input :
  parse_tag_args is_letter is_digit input = classify_args (span alnum input).
Proof.
  unfold parse_tag_args. pose proof (parse_args_loop_spec input [] eq_refl) as H.
  simpl in H. rewrite H. destruct (span alnum input); reflexivity.
Qed.

Lemma classify_never_panics ab : classify_args ab <> Panic.
Proof.
  unfold classify_args. destruct (snd ab) as [|c r]; [discriminate|].
  destruct (N.eqb c COMMA); [discriminate|]. destruct (N.eqb c RP); [|discriminate].
  destruct r; [|discriminate]. destruct (fst ab); discriminate.
Qed.

Lemma span_app_stop f a c r : forallb f a = true -> f c = false -> span f (a ++ c :: r) = (a, c :: r).
Proof.
  induction a as [|x a IH]; simpl; intros Ha Hc.
  - rewrite Hc. reflexivity.
  - apply andb_true_iff in Ha. destruct Ha as [Hx Ha]. rewrite Hx, IH; auto.
Qed.

(* accepted argument lists are exactly "ident)" and ")" (for classifiers that do not count
   ')' as a letter or digit) *)
Corollary parse_tag_args_ok input a : alnum RP = false ->
  (parse_tag_args is_letter is_digit input = Ok (Some a) <->
   input = a ++ [RP] /\ a <> [] /\ forallb alnum a = true).
Proof.
  intros Hrp. rewrite parse_tag_args_spec. split.
  - destruct (span alnum input) as [x y] eqn:Hs.
    apply span_spec in Hs. destruct Hs as [-> [Hx Hy]]. unfold classify_args; simpl.
    destruct y as [|c r]; [discriminate|]. destruct (N.eqb c COMMA); [discriminate|].
    destruct (N.eqb_spec c RP); [|discriminate]. subst. destruct r; [|discriminate].
    destruct x; [discriminate|]. intros H; inversion H; subst. repeat split; auto. discriminate.
  - intros [-> [H2 H3]]. rewrite span_app_stop; auto. unfold classify_args; simpl.
    destruct a; [congruence|reflexivity].
Qed.
Corollary parse_tag_args_ok_empty input : alnum RP = false ->
  (parse_tag_args is_letter is_digit input = Ok None <-> input = [RP]).
Proof.
  intros Hrp. rewrite parse_tag_args_spec. split.
  - destruct (span alnum input) as [x y] eqn:Hs.
    apply span_spec in Hs. destruct Hs as [-> [Hx Hy]]. unfold classify_args; simpl.
    destruct y as [|c r]; [discriminate|]. destruct (N.eqb c COMMA); [discriminate|].
    destruct (N.eqb_spec c RP); [|discriminate]. subst. destruct r; [|discriminate].
    destruct x; [reflexivity|discriminate].
  - intros ->. simpl. fold (alnum RP). rewrite Hrp. reflexivity.
Qed.

Lemma parse_tag_key_never_panics input names : parse_tag_key is_letter is_digit input names <> Panic.
Proof.
  unfold parse_tag_key. destruct (split_first LP input) as [key rest].
  destruct (match names with [] => false | _ => negb (mem_str key names) end); [discriminate|].
  destruct rest as [r|]; [|discriminate].
  pose proof (classify_never_panics (span alnum r)) as H. rewrite <- parse_tag_args_spec in H.
  destruct (parse_tag_args is_letter is_digit r); congruence.
Qed.

Lemma parse_fn_line_never_panics marker names line :
  parse_fn_line is_letter is_digit marker names line <> LPanic.
Proof.
  unfold parse_fn_line. destruct (trim is_space line) as [|c t]; [discriminate|].
  destruct (negb (has_prefix marker (c :: t))); [discriminate|].
  destruct (split_first EQ _) as [key v].
  pose proof (parse_tag_key_never_panics key names) as H.
  destruct (parse_tag_key is_letter is_digit key names) as [[name args]| |]; try congruence; try discriminate.
  destruct name; [destruct (wants_empty_name key names)|]; discriminate.
Qed.

(* the loop: first failing line decides; otherwise the tags are grouped by name in order *)
Definition line_results marker names lines := map (parse_fn_line is_letter is_digit marker names) lines.
Fixpoint first_bad (rs : list line_result) : option line_result :=
  match rs with
  | [] => None
  | LErr e :: _ => Some (LErr e)
  | LPanic :: _ => Some LPanic
  | _ :: rs' => first_bad rs'
  end.
Definition tags_of (rs : list line_result) : list (str * tag) :=
  flat_map (fun r => match r with LTag t => [(tname t, t)] | _ => [] end) rs.

Lemma fn_loop_spec marker names k : forall lines acc,
  match fn_loop is_letter is_digit marker names lines acc with
  | Ok out => first_bad (line_results marker names lines) = None /\
              lookup k out = combine_vals (lookup k acc) (values_for k (tags_of (line_results marker names lines)))
  | Err e => first_bad (line_results marker names lines) = Some (LErr e)
  | Panic => first_bad (line_results marker names lines) = Some LPanic
  end.
Proof.
  induction lines as [|l lines IH]; intros acc; simpl.
  - split; auto. unfold values_for; simpl. destruct (lookup k acc); simpl; auto. rewrite app_nil_r; auto.
  - destruct (parse_fn_line is_letter is_digit marker names l) as [|t|e|] eqn:Hl; simpl; auto.
    + apply IH.
    + specialize (IH (append_val (tname t) t acc)).
      destruct (fn_loop is_letter is_digit marker names lines (append_val (tname t) t acc)); auto.
      destruct IH as [H1 H2]. split; auto. rewrite H2. unfold values_for; simpl.
      destruct (str_eqb_spec k (tname t)) as [->|Hne]; simpl.
      * rewrite lookup_append_same. destruct (lookup (tname t) acc); simpl; auto.
        rewrite <- app_assoc; auto.
      * rewrite lookup_append_other; auto.
Qed.

Theorem fn_extract_spec marker names lines :
  match fn_extract is_letter is_digit marker names lines with
  | Ok out => first_bad (line_results marker names lines) = None /\
              forall k, lookup k out = nonempty (values_for k (tags_of (line_results marker names lines)))
  | Err e => first_bad (line_results marker names lines) = Some (LErr e)
  | Panic => False
  end.
Proof.
  unfold fn_extract.
  destruct (fn_loop is_letter is_digit marker names lines []) as [out|e|] eqn:H.
  - split.
    + pose proof (fn_loop_spec marker names [] lines []) as Hs. rewrite H in Hs. tauto.
    + intros k. pose proof (fn_loop_spec marker names k lines []) as Hs. rewrite H in Hs.
      destruct Hs as [_ Hs]. rewrite Hs. simpl. destruct (values_for _ _); auto.
  - pose proof (fn_loop_spec marker names [] lines []) as Hs. rewrite H in Hs. auto.
  - pose proof (fn_loop_spec marker names [] lines []) as Hs. rewrite H in Hs.
    clear H. induction lines as [|l lines IH]; simpl in Hs; [discriminate|].
    pose proof (parse_fn_line_never_panics marker names l) as Hn.
    destruct (parse_fn_line is_letter is_digit marker names l); try discriminate; auto.
Qed.

Corollary fn_extract_never_panics marker names lines :
  fn_extract is_letter is_digit marker names lines <> Panic.
Proof. pose proof (fn_extract_spec marker names lines) as H. intros E. rewrite E in H. exact H. Qed.

Corollary fn_extract_no_empty marker names lines out k :
  fn_extract is_letter is_digit marker names lines = Ok out -> lookup k out <> Some [].
Proof.
  intros E. pose proof (fn_extract_spec marker names lines) as H. rewrite E in H.
  destruct H as [_ H]. rewrite H. destruct (values_for _ _); simpl; congruence.
Qed.

(* only requested names are returned; the empty name only when it is the tag's own name *)
Lemma parse_fn_line_tag marker names line t :
  parse_fn_line is_letter is_digit marker names line = LTag t ->
  names <> [] -> In (tname t) names.
Proof.
  unfold parse_fn_line. destruct (trim is_space line) as [|c l]; [discriminate|].
  destruct (negb (has_prefix marker (c :: l))); [discriminate|].
  destruct (split_first EQ _) as [key v].
  unfold parse_tag_key, wants_empty_name. destruct (split_first LP key) as [nm rest]. cbn [fst].
  destruct names as [|n0 names']; [congruence|]. intros H _.
  destruct (mem_str nm (n0 :: names')) eqn:Hm; cbn [negb] in H.
  - apply mem_str_In in Hm. destruct rest as [r|].
    + destruct (parse_tag_args is_letter is_digit r); try discriminate.
      destruct nm; [destruct (mem_str [] (n0 :: names')); [|discriminate]|]; inversion H; subst; exact Hm.
    + destruct nm; [destruct (mem_str [] (n0 :: names')); [|discriminate]|]; inversion H; subst; exact Hm.
  - destruct nm; [|discriminate]. rewrite Hm in H. discriminate.
Qed.

(* one value per considered line: with no tag names requested, only a line that is blank or does not
   begin with the marker yields nothing -- a tag with an empty name ("+=v") is a tag too *)
Lemma parse_fn_line_considered marker line :
  parse_fn_line is_letter is_digit marker [] line = LSkip ->
  trim is_space line = [] \/ has_prefix marker (trim is_space line) = false.
Proof.
  unfold parse_fn_line. destruct (trim is_space line) as [|c l]; [left; reflexivity|].
  destruct (has_prefix marker (c :: l)); [|right; reflexivity]. cbn [negb].
  destruct (split_first EQ _) as [key v].
  unfold parse_tag_key, wants_empty_name. destruct (split_first LP key) as [nm rest]. cbn [fst].
  destruct rest as [r|].
  - destruct (parse_tag_args is_letter is_digit r); try discriminate. destruct nm; discriminate.
  - destruct nm; discriminate.
Qed.

(* boolean helper v2 *)
Theorem bool_v2_spec marker key d lines :
  bool_tag_v2 is_letter is_digit marker key d lines =
  match first_bad (line_results marker [key] lines) with
  | Some (LErr e) => Err e
  | Some _ => Panic
  | None => match values_for key (tags_of (line_results marker [key] lines)) with
            | [] => Ok d
            | t :: _ => bool_of_value (tvalue t)
            end
  end.
Proof.
  unfold bool_tag_v2. pose proof (fn_extract_spec marker [key] lines) as H.
  destruct (fn_extract is_letter is_digit marker [key] lines) as [out|e|].
  - destruct H as [H1 H2]. rewrite H1, H2.
    destruct (values_for key _) as [|t ts]; simpl; auto.
  - rewrite H. reflexivity.
  - contradiction.
Qed.

Corollary bool_v2_never_panics marker key d lines :
  bool_tag_v2 is_letter is_digit marker key d lines <> Panic.
Proof.
  unfold bool_tag_v2. pose proof (fn_extract_never_panics marker [key] lines) as Hn.
  pose proof (fn_extract_no_empty marker [key] lines) as He.
  destruct (fn_extract is_letter is_digit marker [key] lines) as [out|e|]; try congruence; try discriminate.
  specialize (He out key eq_refl). destruct (lookup key out) as [[|t ts]|]; try congruence; try discriminate.
  simpl. unfold bool_of_value. destruct (str_eqb _ _); [discriminate|]. destruct (str_eqb _ _); discriminate.
Qed.
End Fn.
