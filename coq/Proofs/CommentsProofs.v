Require Import Gengo.Base.Str Gengo.Base.Sexp Gengo.Model.Comments.

(* the index is a map from end line to group: lookup finds the LAST non-trailing group ending there *)
Lemma ilookup_filter_ne l k m : k <> l ->
  ilookup l (filter (fun kv => negb (N.eqb (fst kv) k)) m) = ilookup l m.
Proof.
  intros Hne. induction m as [|[k' g] m IH]; simpl; auto.
  destruct (N.eqb_spec k' k) as [->|Hk]; simpl.
  - destruct (N.eqb_spec k l); [congruence|exact IH].
  - destruct (N.eqb_spec k' l); auto.
Qed.

Definition ends_at (l : N) (g : group) : bool := negb (g_trailing g) && N.eqb (g_end g) l.

(* what the index holds for line l after the groups gs (in file order) were added to m *)
Lemma index_fold gs : forall m l,
  ilookup l (fold_left (fun m g => if g_trailing g then m
                                   else (g_end g, g) :: filter (fun kv => negb (N.eqb (fst kv) (g_end g))) m) gs m)
  = match find (ends_at l) (rev gs) with Some g => Some g | None => ilookup l m end.
Proof.
  induction gs as [|g gs IH]; intros m l; simpl; auto.
  rewrite IH. clear IH.
  assert (Hfind : find (ends_at l) (rev gs ++ [g]) =
                  match find (ends_at l) (rev gs) with Some x => Some x | None => if ends_at l g then Some g else None end).
  { induction (rev gs) as [|x xs IHx]; simpl; [destruct (ends_at l g); reflexivity|].
    destruct (ends_at l x); auto. }
  rewrite Hfind. destruct (find (ends_at l) (rev gs)); auto.
  unfold ends_at. destruct (g_trailing g); simpl; auto.
  destruct (N.eqb_spec (g_end g) l) as [He|Hne]; simpl; [reflexivity|].
  apply ilookup_filter_ne. auto.
Qed.

Theorem index_spec gs l : ilookup l (index gs) = find (ends_at l) (rev gs).
Proof. unfold index. rewrite index_fold. simpl. destruct (find _ _); reflexivity. Qed.

(* a trailing comment group is never delivered to anything *)
Theorem trailing_never_indexed gs l g : ilookup l (index gs) = Some g -> g_trailing g = false /\ g_end g = l /\ In g gs.
Proof.
  rewrite index_spec. intros H. apply find_some in H. destruct H as [Hin H].
  unfold ends_at in H. apply andb_true_iff in H. destruct H as [H1 H2].
  apply N.eqb_eq in H2. destruct (g_trailing g); [discriminate|]. repeat split; auto. apply in_rev. exact Hin.
Qed.

(* layouts in which no two non-trailing groups end on the same line (always true of a file:
   groups are disjoint and ordered): the group found is THE group ending there *)
Definition distinct_ends (gs : list group) : Prop :=
  forall g1 g2, In g1 gs -> In g2 gs -> g_trailing g1 = false -> g_trailing g2 = false -> g_end g1 = g_end g2 -> g1 = g2.

Theorem index_complete gs g : distinct_ends gs -> In g gs -> g_trailing g = false ->
  ilookup (g_end g) (index gs) = Some g.
Proof.
  intros Hd Hin Ht. rewrite index_spec.
  destruct (find (ends_at (g_end g)) (rev gs)) as [g'|] eqn:E.
  - apply find_some in E. destruct E as [Hin' H]. unfold ends_at in H. apply andb_true_iff in H. destruct H as [H1 H2].
    apply N.eqb_eq in H2. f_equal. apply Hd; auto; [apply in_rev; auto|destruct (g_trailing g'); [discriminate|reflexivity]].
  - assert (Hf : ends_at (g_end g) g = false) by (apply (find_none _ _ E g); rewrite <- in_rev; exact Hin).
    unfold ends_at in Hf. rewrite Ht, N.eqb_refl in Hf. discriminate.
Qed.

(* the property: a declaration gets exactly the block that documents it *)
Theorem deliver_doc gs code d g : distinct_ends gs -> In g gs -> documents g (d_line d) ->
  fst (deliver (index gs) code d) = g_text g.
Proof.
  intros Hd Hin [Ht He]. unfold deliver, prior.
  assert (Hl : (d_line d <? 1)%N = false) by (apply N.ltb_ge; lia).
  rewrite Hl. replace (d_line d - 1)%N with (g_end g) by lia.
  rewrite (index_complete gs g Hd Hin Ht). reflexivity.
Qed.

Theorem deliver_none gs code d :
  (forall g, In g gs -> ~ documents g (d_line d)) -> fst (deliver (index gs) code d) = [].
Proof.
  intros Hno. unfold deliver, prior. destruct (d_line d <? 1)%N eqn:El; [reflexivity|].
  destruct (ilookup (d_line d - 1) (index gs)) as [g|] eqn:E; [|reflexivity].
  apply trailing_never_indexed in E. destruct E as [Ht [He Hin]]. exfalso. apply (Hno g Hin).
  split; auto. apply N.ltb_ge in El. lia.
Qed.

(* the anchor of the second-closest lookup: the first line of the doc block, or the declaration's
   own line when it has no doc block *)
Theorem anchor_doc gs d g : distinct_ends gs -> In g gs -> documents g (d_line d) -> anchor (index gs) d = g_start g.
Proof.
  intros Hd Hin [Ht He]. unfold anchor, prior.
  assert (Hl : (d_line d <? 1)%N = false) by (apply N.ltb_ge; lia).
  rewrite Hl. replace (d_line d - 1)%N with (g_end g) by lia.
  rewrite (index_complete gs g Hd Hin Ht). reflexivity.
Qed.
Theorem anchor_nodoc gs d : (forall g, In g gs -> ~ documents g (d_line d)) -> anchor (index gs) d = d_line d.
Proof.
  intros Hno. unfold anchor, prior. destruct (d_line d <? 1)%N eqn:El; [reflexivity|].
  destruct (ilookup (d_line d - 1) (index gs)) as [g|] eqn:E; [|reflexivity].
  apply trailing_never_indexed in E. destruct E as [Ht [He Hin]]. exfalso. apply (Hno g Hin).
  split; auto. apply N.ltb_ge in El. lia.
Qed.

Lemma has_code_In code l : has_code code l = true <-> In l code.
Proof.
  unfold has_code. rewrite existsb_exists. split.
  - intros [x [Hin He]]. apply N.eqb_eq in He. subst. exact Hin.
  - intros H. exists l. split; [exact H|apply N.eqb_refl].
Qed.

(* the second-closest block: the block [g] that ends two lines above the anchor, the line in
   between being blank, is delivered ... *)
Definition second_closest (code : list N) (a : N) (g : group) : Prop :=
  g_trailing g = false /\ (g_end g + 2 = a)%N /\ ~ In (a - 1)%N code.
Theorem deliver_second gs code d g : distinct_ends gs -> d_second d = true -> In g gs ->
  second_closest code (anchor (index gs) d) g -> snd (deliver (index gs) code d) = g_text g.
Proof.
  intros Hd Hs Hin (Ht & He & Hb). unfold deliver. rewrite Hs. cbn [snd].
  destruct (has_code code (anchor (index gs) d - 1)) eqn:Ec; [apply has_code_In in Ec; contradiction|].
  unfold prior. assert (Hl : (anchor (index gs) d <? 2)%N = false) by (apply N.ltb_ge; lia). rewrite Hl.
  replace (anchor (index gs) d - 2)%N with (g_end g) by lia.
  rewrite (index_complete gs g Hd Hin Ht). reflexivity.
Qed.
(* ... nothing is delivered across a line of code ... *)
Theorem deliver_second_not_across_code gs code d : In (anchor (index gs) d - 1)%N code ->
  snd (deliver (index gs) code d) = [].
Proof.
  intros H. unfold deliver. cbn [snd]. apply has_code_In in H. rewrite H. destruct (d_second d); reflexivity.
Qed.
(* ... and nothing when there is no such block *)
Theorem deliver_second_none gs code d :
  (forall g, In g gs -> ~ second_closest code (anchor (index gs) d) g) -> snd (deliver (index gs) code d) = [].
Proof.
  intros Hno. unfold deliver. cbn [snd]. destruct (d_second d); [|reflexivity].
  destruct (has_code code (anchor (index gs) d - 1)) eqn:Ec; [reflexivity|].
  unfold prior. destruct (anchor (index gs) d <? 2)%N eqn:El; [reflexivity|].
  destruct (ilookup (anchor (index gs) d - 2) (index gs)) as [g|] eqn:E; [|reflexivity].
  apply trailing_never_indexed in E. destruct E as [Ht [He Hin]]. exfalso. apply (Hno g Hin).
  split; [exact Ht|]. split; [apply N.ltb_ge in El; lia|].
  intros Hc. apply has_code_In in Hc. congruence.
Qed.

Theorem package_comments_spec gs : package_comments gs = flat_map g_text gs.
Proof. reflexivity. Qed.
