(* C06: references are closed -- every name stored in any entry of the universe (element, key,
   underlying type, member, method, parameter, result, receiver, type parameter) denotes an entry
   whose kind is decided, at every point of every walk and after every load. *)
Require Import Gengo.Base.Str Gengo.Base.Sexp Gengo.Base.StrOrder Gengo.Model.Universe Gengo.Proofs.UniverseProofs.

Definition opt_ref (o : option name) : list name := match o with Some n => [n] | None => [] end.
Definition sig_refs (g : sig) : list name := map snd (s_params g) ++ map snd (s_results g) ++ opt_ref (s_recv g).
Definition refs (e : entry) : list name :=
  opt_ref (e_elem e) ++ opt_ref (e_key e) ++ opt_ref (e_under e) ++ map snd (e_members e) ++ map snd (e_methods e) ++
  (match e_sig e with Some g => sig_refs g | None => [] end) ++ map snd (e_tparams e).

Definition closed (u : univ) : Prop :=
  forall o e, nlookup o (objs u) = Some e -> forall r, In r (refs e) -> complete u r = true.

Lemma closed_empty : closed {| objs := []; tkeys := [] |}.
Proof. intros o e H. discriminate. Qed.

(* what each setter can add *)
Ltac refs_tac := unfold refs, sig_refs, opt_ref; simpl; rewrite ?in_app_iff; simpl; rewrite ?in_app_iff; intuition.
Lemma refs_blank n k : refs (blank n k) = [].
Proof. reflexivity. Qed.
Lemma refs_set_kind k e : refs (set_kind k e) = refs e.
Proof. reflexivity. Qed.
Lemma refs_with_elem n e r : In r (refs (with_elem n e)) -> r = n \/ In r (refs e).
Proof. unfold refs; simpl; intros H; repeat first [rewrite in_app_iff in * | progress simpl in * ]; intuition (subst; auto). Qed.
Lemma refs_with_key n e r : In r (refs (with_key n e)) -> r = n \/ In r (refs e).
Proof. unfold refs; simpl; intros H; repeat first [rewrite in_app_iff in * | progress simpl in * ]; intuition (subst; auto). Qed.
Lemma refs_with_under n e r : In r (refs (with_under n e)) -> r = n \/ In r (refs e).
Proof. unfold refs; simpl; intros H; repeat first [rewrite in_app_iff in * | progress simpl in * ]; intuition (subst; auto). Qed.
Lemma refs_with_len n e : refs (with_len n e) = refs e.
Proof. reflexivity. Qed.
Lemma refs_with_members ms e r : In r (refs (with_members ms e)) -> In r (map snd ms) \/ In r (refs e).
Proof. unfold refs; simpl; intros H; repeat first [rewrite in_app_iff in * | progress simpl in * ]; intuition. Qed.
Lemma refs_with_methods ms e r : In r (refs (with_methods ms e)) -> In r (map snd ms) \/ In r (refs e).
Proof. unfold refs; simpl; intros H; repeat first [rewrite in_app_iff in * | progress simpl in * ]; intuition. Qed.
Lemma refs_with_tparams ms e r : In r (refs (with_tparams ms e)) -> In r (map snd ms) \/ In r (refs e).
Proof. unfold refs; simpl; intros H; repeat first [rewrite in_app_iff in * | progress simpl in * ]; intuition. Qed.
Lemma refs_with_sig g e r : In r (refs (with_sig g e)) -> In r (sig_refs g) \/ In r (refs e).
Proof. unfold refs; simpl; intros H; repeat first [rewrite in_app_iff in * | progress simpl in * ]; intuition. Qed.

(* ---------- the universe operations keep it closed ---------- *)
Lemma closed_ext_objs u u' : ext u u' -> closed u ->
  (forall o e', nlookup o (objs u') = Some e' ->
     (exists e, nlookup o (objs u) = Some e /\ forall r, In r (refs e') -> In r (refs e) \/ complete u' r = true) \/ refs e' = []) ->
  closed u'.
Proof.
  intros He Hc Hobj o e' Hl r Hr. destruct (Hobj o e' Hl) as [(e & Hle & Hsub)|Hnil].
  - destruct (Hsub r Hr) as [Hin|Hcm]; [|exact Hcm]. eapply ext_complete; [exact He|]. eapply Hc; eauto.
  - rewrite Hnil in Hr. destruct Hr.
Qed.

Lemma closed_get_or_create v2 u n u1 o : closed u -> get_or_create v2 u n = (u1, o) -> closed u1.
Proof.
  intros Hc Hg. pose proof (get_or_create_ext _ _ _ _ _ Hg) as He. eapply closed_ext_objs; eauto.
  clear He. revert Hg. unfold get_or_create. destruct (nlookup n (tkeys u)) as [o0|].
  - intros H; inversion H; subst. intros o' e' Hl. left. exists e'. auto.
  - destruct (if str_eqb (fst n) [] then builtin_of v2 (snd n) else None) as [[bn bk]|];
      intros H; injection H as <- <-; simpl; intros o' e' Hl;
      match type of Hl with nlookup _ (match nlookup ?ob _ with _ => _ end) = _ => set (ob0 := ob) in * end;
      (destruct (nlookup ob0 (objs u)) eqn:Eo; [left; exists e'; auto|];
       destruct (name_eqb_spec o' ob0) as [->|Hne];
       [rewrite nlookup_nset_same in Hl; inversion Hl; subst; right; reflexivity
       |rewrite nlookup_nset_other in Hl by auto; left; exists e'; auto]).
Qed.

Lemma closed_update u o g : closed u -> keeps_kind g ->
  (forall e r, nlookup o (objs u) = Some e -> In r (refs (g e)) -> In r (refs e) \/ complete u r = true) ->
  closed (update u o g).
Proof.
  intros Hc Hk Hg. pose proof (update_ext u o g Hk) as He. eapply closed_ext_objs; eauto.
  unfold update. destruct (nlookup o (objs u)) as [e|] eqn:Eo; [|intros o' e' Hl; left; exists e'; auto].
  simpl. intros o' e' Hl. left. destruct (name_eqb_spec o' o) as [->|Hne].
  - rewrite nlookup_nset_same in Hl. inversion Hl; subst. exists e. split; auto.
    intros r Hr. destruct (Hg e r eq_refl Hr) as [H|H]; auto. right.
    assert (Heq : {| objs := nset o (g e) (objs u); tkeys := tkeys u |} = update u o g) by (unfold update; rewrite Eo; reflexivity).
    rewrite Heq. eapply ext_complete; eauto.
  - rewrite nlookup_nset_other in Hl by auto. exists e'. auto.
Qed.

Lemma closed_set_kind u o k : complete u o = false -> closed u -> closed (update u o (set_kind k)).
Proof.
  intros Hn Hc. pose proof (update_set_kind_ext u o k Hn) as He. eapply closed_ext_objs; eauto.
  unfold update. destruct (nlookup o (objs u)) as [e|] eqn:Eo; [|intros o' e' Hl; left; exists e'; auto].
  simpl. intros o' e' Hl. left. destruct (name_eqb_spec o' o) as [->|Hne].
  - rewrite nlookup_nset_same in Hl. inversion Hl; subst. exists e. split; auto.
  - rewrite nlookup_nset_other in Hl by auto. exists e'. auto.
Qed.

Lemma good_complete u o : good u o -> complete u o = true.
Proof. intros [_ H]; exact H. Qed.

(* ---------- walkType keeps it closed ---------- *)
Section WalkClosed.
Variable v2 : bool.
Variable p : prog.
Hypothesis tpfree : forall t ts, plookup t p <> Some (ts, STypeParam).
Variable rec : univ -> option name -> N -> option (univ * name).
Hypothesis rec_ext : forall u use t u' o, rec u use t = Some (u', o) -> ext u u'.
Hypothesis rec_good : forall u use t u' o, wf u -> rec u use t = Some (u', o) -> good u' o.
Hypothesis rec_closed : forall u use t u' o, wf u -> closed u -> rec u use t = Some (u', o) -> closed u'.

Definition all_complete (u : univ) (ns : list name) : Prop := Forall (fun n => complete u n = true) ns.
Lemma all_complete_ext u u' ns : ext u u' -> all_complete u ns -> all_complete u' ns.
Proof. intros He H. eapply Forall_impl; [|exact H]. intros n Hn. eapply ext_complete; eauto. Qed.

Lemma walk_list_closed : forall l u u' ns, wf u -> closed u -> walk_list rec u l = Some (u', ns) ->
  closed u' /\ all_complete u' ns.
Proof.
  induction l as [|x l IH]; intros u u' ns W Hc H; simpl in H.
  - inversion H; subst. split; [exact Hc|constructor].
  - destruct (rec u None x) as [[u1 n1]|] eqn:E1; [|discriminate].
    destruct (walk_list rec u1 l) as [[u2 ns2]|] eqn:E2; [|discriminate]. inversion H; subst.
    pose proof (wf_ext _ _ (rec_ext _ _ _ _ _ E1) W) as W1.
    destruct (IH _ _ _ W1 (rec_closed _ _ _ _ _ W Hc E1) E2) as [C2 A2]. split; [exact C2|].
    constructor; [|exact A2]. eapply ext_complete; [eapply walk_list_ext; eauto|]. apply good_complete. exact (rec_good _ _ _ _ _ W E1).
Qed.
Lemma walk_methods_closed : forall ms u u' r, wf u -> closed u -> walk_methods v2 rec u ms = Some (u', r) ->
  closed u' /\ all_complete u' (map snd r).
Proof.
  induction ms as [|[[mn mstr] sg] ms IH]; intros u u' r W Hc H; simpl in H.
  - inversion H; subst. split; [exact Hc|constructor].
  - destruct (rec u (Some (name_of_string v2 mstr)) sg) as [[u1 n1]|] eqn:E1; [|discriminate].
    destruct (walk_methods v2 rec u1 ms) as [[u2 r2]|] eqn:E2; [|discriminate]. inversion H; subst.
    pose proof (wf_ext _ _ (rec_ext _ _ _ _ _ E1) W) as W1.
    destruct (IH _ _ _ W1 (rec_closed _ _ _ _ _ W Hc E1) E2) as [C2 A2]. split; [exact C2|].
    simpl. constructor; [|exact A2]. eapply ext_complete; [eapply walk_methods_ext; eauto|]. apply good_complete. exact (rec_good _ _ _ _ _ W E1).
Qed.

(* what a fill function must guarantee *)
Definition fill_ok (fill : univ -> option (univ * (entry -> entry))) : Prop :=
  forall u1 u2 g, wf u1 -> closed u1 -> fill u1 = Some (u2, g) ->
    ext u1 u2 /\ closed u2 /\ keeps_kind g /\ (forall e r, In r (refs (g e)) -> In r (refs e) \/ complete u2 r = true).

Lemma simple_closed u nm k fill u' o : wf u -> closed u -> k <> ""%string -> fill_ok fill ->
  simple v2 u nm k fill = Some (u', o) -> closed u'.
Proof.
  intros W Hc Hk Hf. unfold simple. destruct (get_or_create v2 u nm) as [u0 o0] eqn:Eg.
  pose proof (closed_get_or_create _ _ _ _ _ Hc Eg) as C0.
  pose proof (wf_ext _ _ (get_or_create_ext _ _ _ _ _ Eg) W) as W0.
  destruct (complete u0 o0) eqn:Ec; [intros H; inversion H; subst; exact C0|].
  destruct (fill (update u0 o0 (set_kind k))) as [[u2 g]|] eqn:Ef; [|discriminate].
  intros H; inversion H; subst.
  destruct (Hf _ _ _ (wf_update _ _ _ W0) (closed_set_kind _ _ _ Ec C0) Ef) as (E2 & C2 & Kg & Rg).
  apply closed_update; [exact C2|exact Kg|]. intros e r _ Hr. apply Rg. exact Hr.
Qed.

Lemma attach_closed r ms u' o : (forall u1 o1, r = Some (u1, o1) -> wf u1 /\ closed u1) ->
  attach v2 rec r ms = Some (u', o) -> closed u'.
Proof.
  intros Hr. unfold attach. destruct r as [[u1 o1]|]; [|discriminate]. destruct (Hr _ _ eq_refl) as [W1 C1].
  destruct (nlookup o1 (objs u1)) as [e|]; [|intros H; inversion H; subst; exact C1].
  destruct (e_methods e); [|intros H; inversion H; subst; exact C1].
  destruct (walk_methods v2 rec u1 ms) as [[u2 r2]|] eqn:Em; [|discriminate].
  intros H; inversion H; subst. destruct (walk_methods_closed _ _ _ _ W1 C1 Em) as [C2 A2].
  apply closed_update; auto with kk. intros e0 r _ Hin. apply refs_with_methods in Hin. destruct Hin as [Hin|Hin]; auto.
  right. unfold all_complete in A2. rewrite Forall_forall in A2. auto.
Qed.

Lemma fill_one (e : N) (mk : name -> entry -> entry) :
  (forall n, keeps_kind (mk n)) -> (forall n x r, In r (refs (mk n x)) -> r = n \/ In r (refs x)) ->
  fill_ok (fun u1 => match rec u1 None e with Some (u2, n) => Some (u2, mk n) | None => None end).
Proof.
  intros Hk Hr u1 u2 g W Hc H. destruct (rec u1 None e) as [[ua n]|] eqn:E; [|discriminate]. inversion H; subst.
  split; [eapply rec_ext; eauto|]. split; [eapply rec_closed; eauto|]. split; [apply Hk|].
  intros x r Hin. destruct (Hr _ _ _ Hin) as [->|Hin']; auto. right. apply good_complete. eapply rec_good; eauto.
Qed.

Lemma in_map_snd_combine {A} (f : A * name -> str * bool * str * name) (Hf : forall x, snd (f x) = snd x) :
  forall (fs : list A) ns r, In r (map snd (map f (combine fs ns))) -> In r ns.
Proof.
  induction fs as [|a fs IH]; intros ns r H; [destruct H|]. destruct ns as [|n ns]; [destruct H|].
  simpl in H. destruct H as [H|H]; [left; rewrite Hf in H; exact H|right; eapply IH; eauto].
Qed.
Lemma in_map_snd_combine' {A} : forall (l : list A) (ns : list name) r, In r (map snd (combine l ns)) -> In r ns.
Proof.
  induction l as [|a l IH]; intros ns r H; [destruct H|]. destruct ns as [|n ns]; [destruct H|].
  simpl in H. destruct H as [H|H]; [left; exact H|right; eapply IH; eauto].
Qed.

Lemma walk_step_closed u use t u' o : wf u -> closed u -> walk_step v2 p rec u use t = Some (u', o) -> closed u'.
Proof.
  intros W Hc. unfold walk_step. destruct (plookup t p) as [[tstr sh]|] eqn:Ep; [|discriminate].
  set (nm := match use with Some n => n | None => name_of_string v2 tstr end). clearbody nm.
  destruct sh as [n|e|e|len e|k e|e|fs|ms|ps rs vr recv|cls under ms tps origin| |].
  - destruct (get_or_create v2 u ([], n)) as [u0 o0] eqn:Eg. pose proof (closed_get_or_create _ _ _ _ _ Hc Eg) as C0.
    destruct (complete u0 o0) eqn:Ec; intros H; inversion H; subst; auto. apply closed_set_kind; auto.
  - apply simple_closed; auto; [discriminate|]. apply fill_one; [intros; auto with kk|apply refs_with_elem].
  - apply simple_closed; auto; [discriminate|]. apply fill_one; [intros; auto with kk|apply refs_with_elem].
  - apply simple_closed; auto; [discriminate|].
    apply (fill_one e (fun n x => with_len len (with_elem n x))); [intros; auto with kk|].
    intros n x r Hin. rewrite refs_with_len in Hin. apply refs_with_elem. exact Hin.
  - (* map *)
    apply simple_closed; auto; [discriminate|]. intros u1 u2 g W1 C1 H.
    destruct (rec u1 None e) as [[ua ne]|] eqn:E1; [|discriminate].
    destruct (rec ua None k) as [[ub nk]|] eqn:E2; [|discriminate]. inversion H; subst.
    pose proof (wf_ext _ _ (rec_ext _ _ _ _ _ E1) W1) as Wa.
    assert (Ca : closed ua) by exact (rec_closed _ _ _ _ _ W1 C1 E1).
    split; [eapply ext_trans; eapply rec_ext; eauto|]. split; [exact (rec_closed _ _ _ _ _ Wa Ca E2)|].
    split; [auto with kk|]. intros x r Hin. apply refs_with_key in Hin. destruct Hin as [->|Hin].
    + right. apply good_complete. exact (rec_good _ _ _ _ _ Wa E2).
    + apply refs_with_elem in Hin. destruct Hin as [->|Hin]; auto. right.
      eapply ext_complete; [exact (rec_ext _ _ _ _ _ E2)|]. apply good_complete. exact (rec_good _ _ _ _ _ W1 E1).
  - apply simple_closed; auto; [discriminate|]. apply fill_one; [intros; auto with kk|apply refs_with_elem].
  - (* struct *)
    apply simple_closed; auto; [discriminate|]. intros u1 u2 g W1 C1 H.
    destruct (walk_list rec u1 (map snd fs)) as [[ua ns]|] eqn:E1; [|discriminate]. inversion H; subst.
    destruct (walk_list_closed _ _ _ _ W1 C1 E1) as [Ca Aa].
    split; [eapply walk_list_ext; eauto|]. split; [exact Ca|]. split; [auto with kk|].
    intros x r Hin. apply refs_with_members in Hin. destruct Hin as [Hin|Hin]; auto. right.
    apply in_map_snd_combine in Hin; [|reflexivity]. unfold all_complete in Aa. rewrite Forall_forall in Aa. auto.
  - (* interface *)
    apply simple_closed; auto; [discriminate|]. intros u1 u2 g W1 C1 H.
    destruct (walk_methods v2 rec u1 ms) as [[ua r0]|] eqn:E1; [|discriminate]. inversion H; subst.
    destruct (walk_methods_closed _ _ _ _ W1 C1 E1) as [Ca Aa].
    split; [eapply walk_methods_ext; eauto|]. split; [exact Ca|]. split; [auto with kk|].
    intros x r Hin. apply refs_with_methods in Hin. destruct Hin as [Hin|Hin]; auto. right.
    unfold all_complete in Aa. rewrite Forall_forall in Aa. auto.
  - (* func *)
    apply simple_closed; auto; [discriminate|]. intros u1 u2 g W1 C1 H.
    destruct (walk_list rec u1 (map snd ps)) as [[ua pn]|] eqn:E1; [|discriminate].
    destruct (walk_list rec ua (map snd rs)) as [[ub rn]|] eqn:E2; [|discriminate].
    destruct (walk_list_closed _ _ _ _ W1 C1 E1) as [Ca Aa].
    pose proof (wf_ext _ _ (walk_list_ext _ rec_ext _ _ _ _ E1) W1) as Wa.
    destruct (walk_list_closed _ _ _ _ Wa Ca E2) as [Cb Ab].
    pose proof (wf_ext _ _ (walk_list_ext _ rec_ext _ _ _ _ E2) Wa) as Wb.
    pose proof (all_complete_ext _ _ _ (walk_list_ext _ rec_ext _ _ _ _ E2) Aa) as Aab.
    destruct recv as [r0|].
    + destruct (rec ub None r0) as [[uc n]|] eqn:E3; [|discriminate]. inversion H; subst.
      split; [eapply ext_trans; [eapply walk_list_ext; eauto|]; eapply ext_trans; [eapply walk_list_ext; eauto|eapply rec_ext; eauto]|].
      split; [eapply rec_closed; eauto|]. split; [auto with kk|].
      intros x r Hin. apply refs_with_sig in Hin. destruct Hin as [Hin|Hin]; auto. right.
      unfold sig_refs in Hin. simpl in Hin. rewrite !in_app_iff in Hin. destruct Hin as [Hin|[Hin|Hin]].
      * apply in_map_snd_combine' in Hin. eapply ext_complete; [eapply rec_ext; eauto|].
        unfold all_complete in Aab. rewrite Forall_forall in Aab. auto.
      * apply in_map_snd_combine' in Hin. eapply ext_complete; [eapply rec_ext; eauto|].
        unfold all_complete in Ab. rewrite Forall_forall in Ab. auto.
      * simpl in Hin. destruct Hin as [<-|[]]. apply good_complete. eapply rec_good; eauto.
    + inversion H; subst.
      split; [eapply ext_trans; eapply walk_list_ext; eauto|]. split; [exact Cb|]. split; [auto with kk|].
      intros x r Hin. apply refs_with_sig in Hin. destruct Hin as [Hin|Hin]; auto. right.
      unfold sig_refs in Hin. simpl in Hin. rewrite !in_app_iff in Hin. destruct Hin as [Hin|[Hin|Hin]].
      * apply in_map_snd_combine' in Hin. unfold all_complete in Aab. rewrite Forall_forall in Aab. auto.
      * apply in_map_snd_combine' in Hin. unfold all_complete in Ab. rewrite Forall_forall in Ab. auto.
      * destruct Hin.
  - (* named *)
    destruct (N.eqb cls 0).
    { destruct (get_or_create v2 u (name_of_string v2 tstr)) as [u0 o0] eqn:Eg.
      pose proof (closed_get_or_create _ _ _ _ _ Hc Eg) as C0.
      pose proof (wf_ext _ _ (get_or_create_ext _ _ _ _ _ Eg) W) as W0.
      destruct (complete u0 o0) eqn:Ec; [intros H; inversion H; subst; exact C0|].
      destruct (rec (update u0 o0 (set_kind "Alias")) None under) as [[u2 nu]|] eqn:E1; [|discriminate].
      pose proof (wf_update u0 o0 (set_kind "Alias") W0) as W1.
      pose proof (closed_set_kind _ _ "Alias"%string Ec C0) as C1.
      apply attach_closed. intros ua oa Ha. inversion Ha; subst. split.
      - apply wf_update. eapply wf_ext; [eapply rec_ext; eauto|exact W1].
      - apply closed_update; auto with kk; [eapply rec_closed; eauto|].
        intros e r _ Hin. apply refs_with_under in Hin. destruct Hin as [->|Hin]; auto.
        right. apply good_complete. eapply rec_good; eauto. }
    destruct (N.eqb cls 1 && v2).
    { destruct (match origin with
                | Some og => match plookup og p with Some (_, SNamed _ u'0 m' _ _) => (u'0, m') | _ => (under, ms) end
                | None => (under, ms) end) as [under' ms'].
      destruct (walk_list rec u (map snd tps)) as [[ut tpn]|] eqn:Et; [|discriminate].
      destruct (walk_list_closed _ _ _ _ W Hc Et) as [Ct At].
      pose proof (wf_ext _ _ (walk_list_ext _ rec_ext _ _ _ _ Et) W) as Wt.
      match goal with |- context [get_or_create v2 ut ?n] => destruct (get_or_create v2 ut n) as [u0 o0] eqn:Eg; set (nmg := n) in * end.
      pose proof (closed_get_or_create _ _ _ _ _ Ct Eg) as C0.
      pose proof (get_or_create_ext _ _ _ _ _ Eg) as E0.
      pose proof (wf_ext _ _ E0 Wt) as W0.
      destruct (complete u0 o0) eqn:Ec; [intros H; inversion H; subst; exact C0|].
      destruct (rec u0 (Some nmg) under') as [[u1 o1]|] eqn:E1; [|discriminate].
      apply attach_closed. intros ua oa Ha. inversion Ha; subst. split.
      - apply wf_update. eapply wf_ext; [eapply rec_ext; eauto|exact W0].
      - apply closed_update; auto with kk; [eapply rec_closed; eauto|].
        intros e r _ Hin. apply refs_with_tparams in Hin. destruct Hin as [Hin|Hin]; auto. right.
        apply in_map_snd_combine' in Hin. eapply ext_complete; [eapply rec_ext; eauto|].
        eapply ext_complete; [exact E0|]. unfold all_complete in At. rewrite Forall_forall in At. auto. }
    destruct (get_or_create v2 u (name_of_string v2 tstr)) as [u0 o0] eqn:Eg.
    pose proof (closed_get_or_create _ _ _ _ _ Hc Eg) as C0.
    pose proof (wf_ext _ _ (get_or_create_ext _ _ _ _ _ Eg) W) as W0.
    destruct (complete u0 o0) eqn:Ec; [intros H; inversion H; subst; exact C0|].
    apply attach_closed. intros ua oa Ha. split.
    + eapply wf_ext; [eapply rec_ext; eauto|exact W0].
    + eapply rec_closed; eauto.
  - exfalso. eapply tpfree; eauto.
  - destruct (get_or_create v2 u nm) as [u0 o0] eqn:Eg. pose proof (closed_get_or_create _ _ _ _ _ Hc Eg) as C0.
    destruct (complete u0 o0) eqn:Ec; intros H; inversion H; subst; auto. apply closed_set_kind; auto.
Qed.
End WalkClosed.

Theorem walk_closed v2 p : (forall t ts, plookup t p <> Some (ts, STypeParam)) ->
  forall fuel u use t u' o, wf u -> closed u -> walk v2 p fuel u use t = Some (u', o) -> closed u'.
Proof.
  intros Htp. induction fuel as [|f IH]; intros u use t u' o W Hc H; simpl in H; [discriminate|].
  eapply walk_step_closed; eauto.
  - intros; eapply walk_ext; eauto.
  - intros; eapply walk_good; eauto.
Qed.

(* ---------- loading keeps it closed ---------- *)
Definition wfc (u : univ) : Prop := wf u /\ closed u.

Lemma add_obj_wfc v2 p fuel w o w' : (forall t ts, plookup t p <> Some (ts, STypeParam)) ->
  wfc (w_u w) -> add_obj v2 p fuel (Some w) o = Some w' -> wfc (w_u w').
Proof.
  intros Htp [W Hc]. unfold add_obj. destruct o as [t|ostr sg|ostr ty|ostr ty v].
  all: match goal with |- match walk ?vv ?pp ?ff ?a ?b ?c with _ => _ end = _ -> _ =>
         let E := fresh "E" in destruct (walk vv pp ff a b c) as [[u1 n1]|] eqn:E; [|discriminate];
         intros H; inversion H; subst; simpl; split;
         [eapply wf_ext; [eapply walk_ext; eauto|exact W] | eapply walk_closed; eauto] end.
Qed.
Lemma add_objs_wfc v2 p fuel : (forall t ts, plookup t p <> Some (ts, STypeParam)) ->
  forall l w w', wfc (w_u w) -> fold_left (add_obj v2 p fuel) l (Some w) = Some w' -> wfc (w_u w').
Proof.
  intros Htp. induction l as [|o l IH]; intros w w' H0 H; cbn [fold_left] in H.
  - inversion H; subst. exact H0.
  - destruct (add_obj v2 p fuel (Some w) o) as [w1|] eqn:E1; [|rewrite add_obj_none in H; discriminate].
    eapply IH; [|exact H]. eapply add_obj_wfc; eauto.
Qed.
Lemma add_package_wfc v2 p fuel w g w' : (forall t ts, plookup t p <> Some (ts, STypeParam)) ->
  wfc (w_u w) -> add_package v2 p fuel (Some w) g = Some w' -> wfc (w_u w').
Proof.
  intros Htp H0. unfold add_package.
  match goal with |- match fold_left _ _ (Some ?w1) with _ => _ end = _ -> _ =>
    destruct (fold_left (add_obj v2 p fuel) (g_scope g) (Some w1)) as [w2|] eqn:E; [|discriminate] end.
  intros H; inversion H; subst. rewrite upd_pkg_u, fold_get_pkg_u.
  eapply add_objs_wfc in E; eauto.
Qed.

(* after any sequence of loads on a well-formed closed universe -- in particular after loading
   into the empty universe -- every name stored in any entry denotes a decided entry: nothing
   reachable is left as an unresolved placeholder *)
Theorem load_closed v2 p fuel : (forall t ts, plookup t p <> Some (ts, STypeParam)) ->
  forall gs w w', wfc (w_u w) -> fold_left (add_package v2 p fuel) gs (Some w) = Some w' -> wfc (w_u w').
Proof.
  intros Htp. induction gs as [|g gs IH]; intros w w' H0 H; cbn [fold_left] in H.
  - inversion H; subst. exact H0.
  - destruct (add_package v2 p fuel (Some w) g) as [w1|] eqn:E1; [|rewrite add_package_none in H; discriminate].
    eapply IH; [|exact H]. eapply add_package_wfc; eauto.
Qed.

Theorem build_closed v2 p fuel pkgs w : (forall t ts, plookup t p <> Some (ts, STypeParam)) ->
  build v2 p fuel pkgs = Some w -> closed (w_u w) /\ wf (w_u w).
Proof.
  intros Htp H. unfold build, build_from in H.
  match type of H with fold_left _ _ (Some ?w0) = _ => assert (H0 : wfc (w_u w0)) end.
  { destruct v2; [|split; [apply wf_empty|apply closed_empty]].
    assert (G : forall l w1, w_u (fold_left (fun w g => get_pkg w (g_path g)) l w1) = w_u w1).
    { induction l as [|x l IH]; intros w1; simpl; auto. rewrite IH. apply get_pkg_u. }
    rewrite G. split; [apply wf_empty|apply closed_empty]. }
  destruct (load_closed v2 p fuel Htp _ _ _ H0 H) as [A B]. split; assumption.
Qed.
