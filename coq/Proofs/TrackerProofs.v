(* C07 proofs: invariant of the import tracker over every add-sequence. *)
Require Import Gengo.Base.Str Gengo.Base.Sexp Gengo.Base.StrOrder Gengo.Model.Tracker.
From Coq Require Import Permutation Sorting.Sorted.

Section Proofs.
Variable is_letter is_digit : N -> bool.
Variable itoa : N -> str.
(* contracts of the library functions the model is parametric in *)
Hypothesis H_lower_letter : forall c, is_lower c = true -> is_letter c = true.
Hypothesis H_digit_lower : forall c, is_digit c = true -> is_lower c = false.
Hypothesis H_uscore : is_letter USCORE || is_digit USCORE = false.
Hypothesis H_itoa_inj : forall a b, itoa a = itoa b -> a = b.
Hypothesis H_itoa_digits : forall n, itoa n <> [] /\ forallb is_digit (itoa n) = true.

Notation alnum := (alnum is_letter is_digit).
Notation import_name := (import_name is_letter is_digit).
Notation candidates := (candidates is_letter is_digit).
Notation is_ident := (is_ident is_letter is_digit).
Notation valid_alias := (valid_alias is_letter is_digit).
Notation local_name := (local_name is_letter is_digit itoa).
Notation add_symbol := (add_symbol is_letter is_digit itoa).
Notation run := (run is_letter is_digit itoa).
Notation numbered := (numbered itoa).
Notation ident_char := (ident_char is_letter is_digit).
Notation add_op := (add_op is_letter is_digit itoa).
Notation run_ops := (run_ops is_letter is_digit itoa).

(* ---------- keywords ---------- *)
Lemma keywords_lower w : is_keyword w = true -> forallb is_lower w = true /\ w <> [].
Proof.
  unfold is_keyword. intros H. apply mem_str_In in H.
  assert (Hall : forallb (fun k => forallb is_lower k && negb (str_eqb k [])) keywords = true) by (vm_compute; reflexivity).
  rewrite forallb_forall in Hall. apply Hall in H. apply andb_true_iff in H. destruct H as [H1 H2].
  split; [exact H1|]. intros E. subst w. discriminate.
Qed.

Lemma not_keyword_uscore n : is_keyword (USCORE :: n) = false.
Proof.
  destruct (is_keyword (USCORE :: n)) eqn:E; [|reflexivity].
  apply keywords_lower in E. destruct E as [E _]. simpl in E. discriminate.
Qed.

Lemma not_keyword_with_digit a d b : is_digit d = true -> is_keyword (a ++ d :: b) = false.
Proof.
  intros Hd. destruct (is_keyword (a ++ d :: b)) eqn:E; [|reflexivity].
  apply keywords_lower in E. destruct E as [E _]. rewrite forallb_app in E.
  apply andb_true_iff in E. destruct E as [_ E]. simpl in E. rewrite (H_digit_lower d Hd) in E. discriminate.
Qed.

(* ---------- importName yields legal non-keyword identifiers ---------- *)
Lemma alnum_ident_char c : alnum c = true -> ident_char c = true.
Proof. unfold Tracker.ident_char. intros ->. reflexivity. Qed.

Lemma forallb_alnum_ident l : forallb alnum l = true -> forallb ident_char l = true.
Proof.
  rewrite !forallb_forall. intros H x Hx. apply alnum_ident_char. auto.
Qed.

Lemma filter_all {T} (f : T -> bool) l : forallb f (filter f l) = true.
Proof. apply forallb_forall. intros x Hx. apply filter_In in Hx. tauto. Qed.

Lemma pkg_alnum : forallb alnum (s "pkg") = true.
Proof.
  apply forallb_forall. intros c Hc. unfold Tracker.alnum. rewrite H_lower_letter; auto.
  simpl in Hc. destruct Hc as [<-|[<-|[<-|[]]]]; reflexivity.
Qed.

Definition core (x : str) : str := let n := filter alnum x in match n with [] => s "pkg" | _ => n end.
Lemma core_alnum x : forallb alnum (core x) = true /\ core x <> [].
Proof.
  unfold core. cbv zeta. destruct (filter alnum x) eqn:E.
  - split; [apply pkg_alnum|discriminate].
  - split; [rewrite <- E; apply filter_all|discriminate].
Qed.

Lemma import_name_unfold x :
  import_name x = if match core x with c :: _ => is_digit c | [] => false end || is_keyword (core x)
                  then USCORE :: core x else core x.
Proof. reflexivity. Qed.

Lemma uscore_not_alnum : alnum USCORE = false.
Proof. exact H_uscore. Qed.

Lemma import_name_ident x : is_ident (import_name x) = true.
Proof.
  rewrite import_name_unfold. destruct (core_alnum x) as [Ha Hne].
  destruct (core x) as [|c r] eqn:Ec; [congruence|].
  destruct (is_digit c || is_keyword (c :: r)) eqn:Eb.
  - pose proof (forallb_alnum_ident _ Ha) as Hi.
    unfold Tracker.is_ident. unfold ident_start. rewrite N.eqb_refl, orb_true_r. rewrite Hi. simpl andb.
    destruct (str_eqb_spec (USCORE :: c :: r) [USCORE]); [discriminate|reflexivity].
  - apply orb_false_iff in Eb. destruct Eb as [Ed _].
    simpl in Ha. apply andb_true_iff in Ha. destruct Ha as [Hc Hr].
    unfold Tracker.is_ident, ident_start.
    assert (Hl : is_letter c = true).
    { unfold Tracker.alnum in Hc. rewrite Ed, orb_false_r in Hc. exact Hc. }
    rewrite Hl. simpl. rewrite (forallb_alnum_ident _ Hr). simpl.
    destruct (str_eqb_spec (c :: r) [USCORE]) as [E|]; [|reflexivity].
    inversion E; subst. pose proof uscore_not_alnum as Hu. congruence.
Qed.

Lemma import_name_not_keyword x : is_keyword (import_name x) = false.
Proof.
  rewrite import_name_unfold.
  destruct (match core x with c :: _ => is_digit c | [] => false end || is_keyword (core x)) eqn:Eb.
  - apply not_keyword_uscore.
  - apply orb_false_iff in Eb. tauto.
Qed.

Lemma is_ident_app_digits b ds : is_ident b = true -> ds <> [] -> forallb is_digit ds = true ->
  is_ident (b ++ ds) = true.
Proof.
  unfold Tracker.is_ident. destruct b as [|c r]; [discriminate|]. simpl app.
  intros H Hne Hd. apply andb_true_iff in H. destruct H as [H _]. apply andb_true_iff in H. destruct H as [Hs Hr].
  rewrite Hs. simpl. rewrite forallb_app, Hr. simpl.
  assert (Hdi : forallb ident_char ds = true).
  { rewrite forallb_forall in *. intros y Hy. unfold Tracker.ident_char, Tracker.alnum. rewrite (Hd y Hy).
    rewrite orb_true_r. reflexivity. }
  rewrite Hdi. simpl.
  destruct (str_eqb_spec (c :: r ++ ds) [USCORE]) as [E|]; [|reflexivity].
  inversion E. destruct r; destruct ds; simpl in *; congruence.
Qed.

Lemma not_keyword_app_digits b ds : ds <> [] -> forallb is_digit ds = true -> is_keyword (b ++ ds) = false.
Proof.
  intros Hne Hd. destruct ds as [|d ds']; [congruence|]. simpl in Hd. apply andb_true_iff in Hd.
  apply not_keyword_with_digit. tauto.
Qed.

(* ---------- candidates ---------- *)
Lemma candidates_nonempty path : candidates path <> [].
Proof.
  unfold Tracker.candidates. pose proof (split_acc_nonempty SLASH path []) as H. unfold split_on.
  destruct (split_acc SLASH [] path) as [|d ds]; [congruence|].
  simpl length. rewrite seq_S. rewrite rev_app_distr. simpl. discriminate.
Qed.
Lemma candidates_are_names path c : In c (candidates path) -> exists x, c = import_name x.
Proof. unfold Tracker.candidates. intros H. apply in_map_iff in H. destruct H as [n [<- _]]. eauto. Qed.

Lemma last_In {T} (l : list T) d : l <> [] -> In (last l d) l.
Proof.
  induction l as [|x l IH]; [congruence|]. intros _. destruct l as [|y l]; [left; reflexivity|].
  right. apply IH. discriminate.
Qed.

Lemma first_free_spec t cs c : first_free t cs = Some c -> In c cs /\ taken t c = false.
Proof.
  induction cs as [|x cs IH]; simpl; [discriminate|].
  destruct (taken t x) eqn:E.
  - intros H. destruct (IH H). auto.
  - intros H; inversion H; subst. auto.
Qed.

Lemma numbered_spec t base : forall fuel i c, numbered t base fuel i = Some c ->
  taken t c = false /\ exists j, c = base ++ itoa j.
Proof.
  induction fuel as [|f IH]; simpl; intros i c; [discriminate|].
  destruct (taken t (base ++ itoa i)) eqn:E.
  - apply IH.
  - intros H; inversion H; subst. eauto.
Qed.

Lemma local_name_ok t path n : local_name t path = Some n ->
  taken t n = false /\ is_ident n = true /\ is_keyword n = false.
Proof.
  unfold Tracker.local_name. destruct (first_free t (candidates path)) as [c|] eqn:E.
  - intros H; inversion H; subst. apply first_free_spec in E. destruct E as [Hin Ht].
    apply candidates_are_names in Hin. destruct Hin as [x ->].
    split; auto. split; [apply import_name_ident|apply import_name_not_keyword].
  - intros H. apply numbered_spec in H. destruct H as [Ht [j ->]].
    pose proof (last_In (candidates path) [] (candidates_nonempty path)) as Hl.
    apply candidates_are_names in Hl. destruct Hl as [x Hx]. rewrite Hx in *.
    destruct (H_itoa_digits j) as [Hne Hd].
    split; auto. split.
    + apply is_ident_app_digits; auto. apply import_name_ident.
    + apply not_keyword_app_digits; auto.
Qed.

(* ---------- never panics: pigeonhole on the numbered fallback ---------- *)
Lemma numbered_none t base : forall fuel i, numbered t base fuel i = None ->
  forall k, (k < fuel)%nat -> taken t (base ++ itoa (i + N.of_nat k)) = true.
Proof.
  induction fuel as [|f IH]; simpl; intros i H k Hk; [lia|].
  destruct (taken t (base ++ itoa i)) eqn:E; [|discriminate].
  destruct k as [|k].
  - rewrite N.add_0_r. exact E.
  - replace (i + N.of_nat (S k))%N with (N.succ i + N.of_nat k)%N by lia.
    apply IH; auto. lia.
Qed.

Lemma taken_in t n : taken t n = true -> In n (local_leaf t :: keys (n2p t)).
Proof.
  unfold taken. intros H. apply orb_true_iff in H. destruct H as [H|H].
  - right. destruct (lookup n (n2p t)) as [pth|] eqn:E; [|discriminate].
    apply lookup_In in E. unfold keys. apply in_map_iff. exists (n, pth). auto.
  - apply andb_true_iff in H. destruct H as [_ H]. apply str_eqb_eq in H. left. auto.
Qed.

Lemma numbered_some t base i : numbered t base (length (n2p t) + 2) i <> None.
Proof.
  intros H. pose proof (numbered_none t base _ i H) as Hall.
  set (fuel := (length (n2p t) + 2)%nat) in *.
  set (L := map (fun k => base ++ itoa (i + N.of_nat k)) (seq 0 fuel)).
  assert (Hnd : NoDup L).
  { unfold L. apply FinFun.Injective_map_NoDup; [|apply seq_NoDup].
    intros a b Hab. apply app_inv_head in Hab. apply H_itoa_inj in Hab. lia. }
  assert (Hincl : incl L (local_leaf t :: keys (n2p t))).
  { intros x Hx. unfold L in Hx. apply in_map_iff in Hx. destruct Hx as [k [<- Hk]].
    apply in_seq in Hk. apply taken_in. apply Hall. lia. }
  pose proof (NoDup_incl_length Hnd Hincl) as Hlen.
  unfold L in Hlen. rewrite map_length, seq_length in Hlen. simpl in Hlen.
  unfold keys in Hlen. rewrite map_length in Hlen. unfold fuel in Hlen. lia.
Qed.

Theorem local_name_never_panics t path : local_name t path <> None.
Proof.
  unfold Tracker.local_name. destruct (first_free t (candidates path)); [discriminate|].
  apply numbered_some.
Qed.

Theorem add_symbol_never_panics t pkg : add_symbol t pkg <> None.
Proof.
  unfold Tracker.add_symbol. destruct (str_eqb (localpkg t) pkg); [discriminate|].
  destruct pkg; [discriminate|]. destruct (lookup _ (p2n t)); [discriminate|].
  pose proof (local_name_never_panics t (n :: pkg)) as H.
  destruct (local_name t (n :: pkg)); [discriminate|congruence].
Qed.

Theorem run_never_panics ops : forall t, run t ops <> None.
Proof.
  induction ops as [|p ops IH]; simpl; intros t; [discriminate|].
  pose proof (add_symbol_never_panics t p) as H.
  destruct (add_symbol t p); [apply IH|congruence].
Qed.

(* ---------- the invariant ---------- *)
Definition Inv (t : tracker) : Prop :=
  (forall p n, lookup p (p2n t) = Some n <-> lookup n (n2p t) = Some p) /\
  (forall p n, lookup p (p2n t) = Some n -> valid_alias t n = true) /\
  lookup (localpkg t) (p2n t) = None /\
  lookup [] (p2n t) = None /\
  NoDup (keys (p2n t)).

Lemma inv_init v2 l : Inv (init v2 l).
Proof. unfold Inv, init; simpl. repeat split; try discriminate. constructor. Qed.

Lemma add_symbol_cases t pkg t' : add_symbol t pkg = Some t' ->
  t' = t \/
  (exists name, local_name t pkg = Some name /\ lookup pkg (p2n t) = None /\ pkg <> localpkg t /\ pkg <> [] /\
     t' = {| p2n := set pkg name (p2n t); n2p := set name pkg (n2p t); localpkg := localpkg t; ver2 := ver2 t |}).
Proof.
  unfold Tracker.add_symbol. destruct (str_eqb_spec (localpkg t) pkg) as [Heq|Hne]; [intros H; inversion H; auto|].
  destruct pkg as [|c pkg']; [intros H; inversion H; auto|].
  destruct (lookup (c :: pkg') (p2n t)) eqn:Hl; [intros H; inversion H; auto|].
  destruct (local_name t (c :: pkg')) as [name|] eqn:Hn; [|discriminate].
  intros H; inversion H; subst. right. exists name. repeat split; auto. discriminate.
Qed.

Theorem inv_step t pkg t' : Inv t -> add_symbol t pkg = Some t' -> Inv t'.
Proof.
  intros HI Ha. destruct (add_symbol_cases _ _ _ Ha) as [->|[name [Hn [Hl [Hloc [Hne ->]]]]]]; auto.
  destruct HI as [Hbij [Hok [Hlocal [Hempty Hnd]]]].
  apply local_name_ok in Hn. destruct Hn as [Htaken [Hid Hkw]].
  assert (Hfree : lookup name (n2p t) = None).
  { unfold taken in Htaken. apply orb_false_iff in Htaken. destruct Htaken as [H _].
    destruct (lookup name (n2p t)); [discriminate|reflexivity]. }
  assert (Hleaf : (ver2 t && str_eqb name (local_leaf t)) = false).
  { unfold taken in Htaken. apply orb_false_iff in Htaken. tauto. }
  unfold Inv; simpl. split; [|split; [|split; [|split]]].
  - intros p n. destruct (str_eqb_spec p pkg) as [->|Hp].
    + rewrite lookup_set_same. split.
      * intros H; inversion H; subst. apply lookup_set_same.
      * intros H. destruct (str_eqb_spec n name) as [->|Hnn]; auto.
        rewrite lookup_set_other in H by auto. apply Hbij in H. congruence.
    + rewrite lookup_set_other by auto. destruct (str_eqb_spec n name) as [->|Hnn].
      * rewrite lookup_set_same. split.
        -- intros H. apply Hbij in H. congruence.
        -- intros H; inversion H; congruence.
      * rewrite lookup_set_other by auto. apply Hbij.
  - intros p n. unfold Tracker.valid_alias, local_leaf. simpl.
    destruct (str_eqb_spec p pkg) as [->|Hp].
    + rewrite lookup_set_same. intros H; inversion H; subst.
      rewrite Hid, Hkw. simpl. unfold local_leaf in Hleaf. rewrite Hleaf. reflexivity.
    + rewrite lookup_set_other by auto. intros H. apply Hok in H. exact H.
  - rewrite lookup_set_other by auto. auto.
  - rewrite lookup_set_other by auto. auto.
  - apply set_keys_NoDup; auto.
Qed.

Theorem inv_reachable ops : forall t t', Inv t -> run t ops = Some t' -> Inv t'.
Proof.
  induction ops as [|p ops IH]; simpl; intros t t' Hi H; [inversion H; subst; auto|].
  destruct (add_symbol t p) as [t0|] eqn:Ha; [|discriminate].
  apply (IH t0 t'); [eapply inv_step; eauto | exact H].
Qed.

(* consequences of the invariant, in the property's words *)
Theorem inv_injective t : Inv t -> forall p q n,
  lookup p (p2n t) = Some n -> lookup q (p2n t) = Some n -> p = q.
Proof. intros [Hb _] p q n H1 H2. apply Hb in H1, H2. congruence. Qed.

Theorem inv_lookups_inverse t : Inv t -> forall p n,
  local_name_of t p = n -> n <> [] -> path_of t n = Some p.
Proof.
  intros [Hb _] p n. unfold local_name_of, path_of. destruct (lookup p (p2n t)) eqn:E.
  - intros <- _. apply Hb. exact E.
  - intros <- H. congruence.
Qed.

Theorem inv_local_never_imported t : Inv t -> local_name_of t (localpkg t) = [] /\ ~ In (localpkg t) (keys (p2n t)).
Proof.
  intros [_ [_ [Hl _]]]. unfold local_name_of. rewrite Hl. split; auto. apply lookup_None_notin. auto.
Qed.

(* ---------- stability and exact tracked set ---------- *)
Theorem alias_stable_step t pkg t' p n : add_symbol t pkg = Some t' ->
  lookup p (p2n t) = Some n -> lookup p (p2n t') = Some n.
Proof.
  intros Ha Hl. destruct (add_symbol_cases _ _ _ Ha) as [->|[name [_ [Hnone [_ [_ ->]]]]]]; auto.
  simpl. rewrite lookup_set_other; auto. intros ->. congruence.
Qed.

Theorem alias_stable ops : forall t t' p n, run t ops = Some t' ->
  lookup p (p2n t) = Some n -> lookup p (p2n t') = Some n.
Proof.
  induction ops as [|q ops IH]; simpl; intros t t' p n H Hl; [inversion H; subst; auto|].
  destruct (add_symbol t q) as [t0|] eqn:Ha; [|discriminate].
  eapply IH; eauto. eapply alias_stable_step; eauto.
Qed.

Theorem tracked_after_add t pkg t' : add_symbol t pkg = Some t' ->
  pkg <> localpkg t -> pkg <> [] -> lookup pkg (p2n t') <> None.
Proof.
  unfold Tracker.add_symbol. destruct (str_eqb_spec (localpkg t) pkg) as [Heq|Hne]; [congruence|].
  destruct pkg as [|c pkg']; [congruence|].
  destruct (lookup (c :: pkg') (p2n t)) eqn:Hl.
  - intros H; inversion H; subst. congruence.
  - destruct (local_name t (c :: pkg')); [|discriminate]. intros H; inversion H; subst. simpl.
    rewrite lookup_set_same. discriminate.
Qed.

Theorem only_added_tracked t pkg t' q : add_symbol t pkg = Some t' ->
  lookup q (p2n t') <> None -> q = pkg \/ lookup q (p2n t) <> None.
Proof.
  intros Ha. destruct (add_symbol_cases _ _ _ Ha) as [->|[name [_ [_ [_ [_ ->]]]]]]; auto.
  simpl. destruct (str_eqb_spec q pkg) as [->|Hq]; auto. rewrite lookup_set_other; auto.
Qed.

(* ---------- import lines ---------- *)
Theorem import_lines_spec t :
  import_lines t = map (fun p => print_import p (local_name_of t p)) (sort_strs (keys (p2n t)))
  /\ Permutation (sort_strs (keys (p2n t))) (keys (p2n t))
  /\ StronglySorted str_le (sort_strs (keys (p2n t))).
Proof. split; [reflexivity|]. split; [apply sort_strs_perm|apply sort_strs_sorted]. Qed.

Theorem import_lines_one_per_package t : Inv t ->
  length (import_lines t) = length (p2n t) /\ NoDup (sort_strs (keys (p2n t))).
Proof.
  intros [_ [_ [_ [_ Hnd]]]]. unfold import_lines. rewrite map_length. split.
  - rewrite (Permutation_length (sort_strs_perm _)). unfold keys. apply map_length.
  - eapply Permutation_NoDup; [apply Permutation_sym, sort_strs_perm|auto].
Qed.
(* ---------- the general operations (Name.Path, invalid types) ---------- *)
(* the invariant in the presence of reserved names: name -> path is the inverse of path -> name on
   every non-empty path; a reserved name maps to the empty path and is nobody's alias *)
Definition Inv2 (t : tracker) : Prop :=
  (forall p n, lookup p (p2n t) = Some n -> lookup n (n2p t) = Some p) /\
  (forall n p, lookup n (n2p t) = Some p -> p <> [] -> lookup p (p2n t) = Some n) /\
  (forall p n, lookup p (p2n t) = Some n -> valid_alias t n = true) /\
  lookup [] (p2n t) = None /\
  NoDup (keys (p2n t)).

Lemma inv2_init v2 l : Inv2 (init v2 l).
Proof. unfold Inv2, init; simpl. repeat split; try discriminate. constructor. Qed.

Lemma top_key_nonempty pkg path : pkg <> [] -> top_key pkg path <> [].
Proof. unfold top_key. destruct path; [auto|discriminate]. Qed.

Theorem add_op_never_panics t o : add_op t o <> None.
Proof.
  destruct o as [pkg path|pkg b]; cbn [Tracker.add_op].
  - destruct (str_eqb (localpkg t) pkg); [discriminate|]. destruct pkg; [discriminate|].
    destruct (lookup _ (p2n t)); [discriminate|].
    pose proof (local_name_never_panics t (n :: pkg)) as H. destruct (local_name t (n :: pkg)); [discriminate|congruence].
  - destruct (str_eqb (localpkg t) pkg); [discriminate|]. destruct b; [discriminate|]. destruct (lookup pkg (n2p t)); discriminate.
Qed.

Theorem inv2_step t o t' : Inv2 t -> add_op t o = Some t' -> Inv2 t'.
Proof.
  intros (H1 & H2 & Hok & Hempty & Hnd). destruct o as [pkg path|pkg b]; cbn [Tracker.add_op].
  - destruct (str_eqb (localpkg t) pkg); [intros E; inversion E; subst; repeat split; auto|].
    destruct pkg as [|c pkg']; [intros E; inversion E; subst; repeat split; auto|].
    set (key := top_key (c :: pkg') path). assert (Hkey : key <> []) by (apply top_key_nonempty; discriminate).
    destruct (lookup key (p2n t)) eqn:Hl; [intros E; inversion E; subst; repeat split; auto|].
    destruct (local_name t (c :: pkg')) as [name|] eqn:Hn; [|discriminate]. intros E; inversion E; subst; clear E.
    apply local_name_ok in Hn. destruct Hn as [Htaken [Hid Hkw]].
    assert (Hfree : lookup name (n2p t) = None).
    { unfold taken in Htaken. apply orb_false_iff in Htaken. destruct Htaken as [H _].
      destruct (lookup name (n2p t)); [discriminate|reflexivity]. }
    assert (Hleaf : (ver2 t && str_eqb name (local_leaf t)) = false).
    { unfold taken in Htaken. apply orb_false_iff in Htaken. tauto. }
    unfold Inv2; simpl. split; [|split; [|split; [|split]]].
    + intros p n. destruct (str_eqb_spec p key) as [->|Hp].
      * rewrite lookup_set_same. intros H; inversion H; subst. apply lookup_set_same.
      * rewrite lookup_set_other by auto. intros H. pose proof (H1 _ _ H) as H'.
        destruct (str_eqb_spec n name) as [->|Hnn]; [congruence|]. rewrite lookup_set_other by auto. exact H'.
    + intros n p. destruct (str_eqb_spec n name) as [->|Hnn].
      * rewrite lookup_set_same. intros H _; inversion H; subst. apply lookup_set_same.
      * rewrite lookup_set_other by auto. intros H Hp. pose proof (H2 _ _ H Hp) as H'.
        destruct (str_eqb_spec p key) as [->|Hpk]; [congruence|]. rewrite lookup_set_other by auto. exact H'.
    + intros p n. unfold Tracker.valid_alias, local_leaf. simpl.
      destruct (str_eqb_spec p key) as [->|Hp].
      * rewrite lookup_set_same. intros H; inversion H; subst.
        rewrite Hid, Hkw. simpl. unfold local_leaf in Hleaf. rewrite Hleaf. reflexivity.
      * rewrite lookup_set_other by auto. intros H. apply Hok in H. exact H.
    + rewrite lookup_set_other by auto. exact Hempty.
    + apply set_keys_NoDup; auto.
  - destruct (str_eqb (localpkg t) pkg); [intros E; inversion E; subst; repeat split; auto|].
    destruct b; [intros E; inversion E; subst; repeat split; auto|].
    destruct (lookup pkg (n2p t)) eqn:Hl; intros E; inversion E; subst; clear E; [repeat split; auto|].
    unfold Inv2; simpl. split; [|split; [|split; [|split]]]; auto.
    + intros p n H. pose proof (H1 _ _ H) as H'. destruct (str_eqb_spec n pkg) as [->|Hnn]; [congruence|].
      rewrite lookup_set_other by auto. exact H'.
    + intros n p. destruct (str_eqb_spec n pkg) as [->|Hnn].
      * rewrite lookup_set_same. intros H Hp; inversion H; subst. congruence.
      * rewrite lookup_set_other by auto. apply H2.
Qed.

Theorem inv2_reachable ops : forall t t', Inv2 t -> run_ops t ops = Some t' -> Inv2 t'.
Proof.
  induction ops as [|o ops IH]; simpl; intros t t' Hi H; [inversion H; subst; auto|].
  destruct (add_op t o) as [t0|] eqn:Ha; [|discriminate].
  apply (IH t0 t'); [eapply inv2_step; eauto | exact H].
Qed.
Theorem run_ops_never_panics ops : forall t, run_ops t ops <> None.
Proof.
  induction ops as [|o ops IH]; simpl; intros t; [discriminate|].
  pose proof (add_op_never_panics t o) as H. destruct (add_op t o); [apply IH|congruence].
Qed.

(* in the property's words *)
Theorem inv2_lookups_inverse t : Inv2 t -> forall p n, lookup p (p2n t) = Some n -> path_of t n = Some p.
Proof. intros (H1 & _) p n H. exact (H1 _ _ H). Qed.
Theorem inv2_injective t : Inv2 t -> forall p q n, lookup p (p2n t) = Some n -> lookup q (p2n t) = Some n -> p = q.
Proof. intros (H1 & _) p q n Hp Hq. apply H1 in Hp, Hq. congruence. Qed.
(* a reserved name (it maps to the empty path) is nobody's alias *)
Theorem inv2_reserved_not_alias t : Inv2 t -> forall n, path_of t n = Some [] -> forall p, lookup p (p2n t) <> Some n.
Proof.
  intros (H1 & _ & _ & Hempty & _) n Hn p Hp. pose proof (H1 _ _ Hp) as Hq. unfold path_of in Hn. rewrite Hn in Hq.
  inversion Hq; subst. rewrite Hempty in Hp. discriminate.
Qed.
Theorem op_alias_stable t o t' p n : add_op t o = Some t' -> lookup p (p2n t) = Some n -> lookup p (p2n t') = Some n.
Proof.
  destruct o as [pkg path|pkg b]; cbn [Tracker.add_op].
  - destruct (str_eqb (localpkg t) pkg); [intros E; inversion E; subst; auto|].
    destruct pkg as [|c pkg']; [intros E; inversion E; subst; auto|].
    destruct (lookup (top_key (c :: pkg') path) (p2n t)) eqn:Hl; [intros E; inversion E; subst; auto|].
    destruct (local_name t (c :: pkg')); [|discriminate]. intros E; inversion E; subst. simpl. intros Hp.
    rewrite lookup_set_other; auto. intros ->. congruence.
  - destruct (str_eqb (localpkg t) pkg); [intros E; inversion E; subst; auto|].
    destruct b; [intros E; inversion E; subst; auto|].
    destruct (lookup pkg (n2p t)); intros E; inversion E; subst; auto.
Qed.
Theorem ops_alias_stable ops : forall t t' p n, run_ops t ops = Some t' -> lookup p (p2n t) = Some n -> lookup p (p2n t') = Some n.
Proof.
  induction ops as [|o ops IH]; simpl; intros t t' p n H Hl; [inversion H; subst; auto|].
  destruct (add_op t o) as [t0|] eqn:Ha; [|discriminate]. eapply IH; eauto. eapply op_alias_stable; eauto.
Qed.
(* AddSymbol with Path = Package is the old operation *)
Theorem add_symbol_is_op t pkg : add_symbol t pkg = add_op t (TSym pkg []).
Proof. reflexivity. Qed.

End Proofs.

(* ---------- the executable instance satisfies the contracts ---------- *)
Require Import Gengo.Model.Tags.
From Coq Require Import DecimalN DecimalPos.

Lemma inst_lower_letter c : is_lower c = true -> is_letter_x c = true.
Proof. unfold is_letter_x, is_ascii_letter. intros ->. rewrite orb_true_r. reflexivity. Qed.

Lemma inst_digit_lower c : is_digit_x c = true -> is_lower c = false.
Proof.
  unfold is_digit_x, is_ascii_digit, is_lower, memN, digit_table. simpl existsb.
  intros H. destruct (N.leb_spec 97 c); destruct (N.leb_spec c 122); simpl; auto.
  repeat rewrite orb_true_iff in H. repeat rewrite andb_true_iff in H.
  repeat rewrite N.leb_le in H. repeat rewrite N.eqb_eq in H. lia.
Qed.

Lemma inst_uscore : is_letter_x USCORE || is_digit_x USCORE = false.
Proof. vm_compute. reflexivity. Qed.

Lemma uint_to_str_inj u v : uint_to_str u = uint_to_str v -> u = v.
Proof.
  revert v. induction u; destruct v; simpl; intros H; try discriminate; auto;
    inversion H; f_equal; auto.
Qed.

Lemma itoa_dec_inj a b : itoa_dec a = itoa_dec b -> a = b.
Proof. unfold itoa_dec. intros H. apply uint_to_str_inj in H. apply DecimalN.Unsigned.to_uint_inj. exact H. Qed.

Lemma uint_to_str_digits u : forallb is_digit_x (uint_to_str u) = true.
Proof. induction u; simpl; auto. Qed.

Lemma itoa_dec_digits n : itoa_dec n <> [] /\ forallb is_digit_x (itoa_dec n) = true.
Proof.
  split; [|apply uint_to_str_digits]. unfold itoa_dec. destruct n as [|p]; simpl; [discriminate|].
  pose proof (DecimalPos.Unsigned.to_uint_nonnil p) as H. destruct (Pos.to_uint p); simpl; congruence.
Qed.

(* the headline facts for the instance that is extracted and run against the Go code *)
Theorem inst_inv_reachable ops v2 local t' :
  run is_letter_x is_digit_x itoa_dec (init v2 local) ops = Some t' -> Inv is_letter_x is_digit_x t'.
Proof.
  intros H. eapply (inv_reachable is_letter_x is_digit_x itoa_dec); eauto using inst_lower_letter, inst_digit_lower, inst_uscore, itoa_dec_digits.
  apply inv_init.
Qed.
Theorem inst_never_panics ops t : run is_letter_x is_digit_x itoa_dec t ops <> None.
Proof. apply run_never_panics. exact itoa_dec_inj. Qed.
