(* C02 proofs: the raw namer against a reference speller of Go type expressions.
   [spell q ty] is the Go spelling of [ty] where [q pkg name] is the (possibly qualified) spelling
   of a named type.  The namer threads an import tracker through the rendering; the theorems say
   its output is the reference spelling under the FINAL tracker's aliases, i.e. the aliases that
   the emitted import block binds. *)
Require Import Gengo.Base.Str Gengo.Base.Sexp Gengo.Base.StrOrder Gengo.Model.GType Gengo.Model.Tracker Gengo.Model.Tags
               Gengo.Model.RawNamer Gengo.Proofs.TrackerProofs.

Notation add := (add_symbol is_letter_x is_digit_x itoa_dec).
Notation runT := (run is_letter_x is_digit_x itoa_dec).

(* the foreign-or-local packages a rendering visits, in the order it visits them *)
Fixpoint pkgs (ty : gt) : list str :=
  match ty with
  | GNamed p _ => [p]
  | GBuiltin _ => []
  | GMap k e => pkgs k ++ pkgs e
  | GSlice e | GArray _ e | GPointer e | GChan e => pkgs e
  | GStruct ms => flat_map (fun m => pkgs (snd m)) ms
  | GInterface _ => []
  | GFunc ps rs _ => flat_map pkgs ps ++ flat_map pkgs rs
  | GOther _ => []
  end.

Section Spell.
Variable v2 : bool.
Variable q : str -> str -> str.
Fixpoint spell (ty : gt) : str :=
  match ty with
  | GNamed p n => q p n
  | GBuiltin n => n
  | GMap k e => s "map[" ++ spell k ++ s "]" ++ spell e
  | GSlice e => s "[]" ++ spell e
  | GArray len e => s "[" ++ itoa_dec len ++ s "]" ++ spell e
  | GPointer e => s "*" ++ spell e
  | GChan e => s "chan " ++ spell e
  | GStruct ms => s "struct{" ++ join (s "; ") (map (fun m => fst (fst (fst m)) ++ s " " ++ spell (snd m)) ms) ++ s "}"
  | GInterface ms => match ms with
                     | [] => if v2 then s "any" else s "interface{}"
                     | _ => s "interface{" ++ join (s "; ") (map fst ms) ++ s "}"
                     end
  | GFunc ps rs _ =>
      let rn := map spell rs in
      s "func(" ++ join (s ",") (map spell ps) ++ s ")" ++
      match rn with [] => [] | [r] => s " " ++ r | _ => s " (" ++ join (s ",") rn ++ s ")" end
  | GOther k => s "unnameable_" ++ k
  end.
End Spell.

Section Proofs.
Variable v2 : bool.
Variable outpkg : str.

(* qualification by a tracker: local types bare, foreign ones with the tracker's alias *)
Definition qual (t : tracker) (p n : str) : str :=
  if str_eqb p outpkg then n else local_name_of t p ++ [46%N] ++ n.
(* qualification without a tracker: the last path element *)
Definition qual_base (p n : str) : str := if str_eqb p outpkg then n else base_of p ++ [46%N] ++ n.

Definition sub (t t' : tracker) : Prop := forall p n, lookup p (p2n t) = Some n -> lookup p (p2n t') = Some n.
Definition covered (t : tracker) (ps : list str) : Prop := forall p, In p ps -> p = outpkg \/ lookup p (p2n t) <> None.

Lemma sub_refl t : sub t t. Proof. intros p n H; exact H. Qed.
Lemma sub_trans a b c : sub a b -> sub b c -> sub a c. Proof. intros H1 H2 p n H; auto. Qed.
Lemma run_sub ops t t' : runT t ops = Some t' -> sub t t'.
Proof. intros H p n Hl. eapply alias_stable; eauto. Qed.
Lemma run_app a : forall b t, runT t (a ++ b) = match runT t a with Some t1 => runT t1 b | None => None end.
Proof.
  induction a as [|x a IH]; intros b t; simpl; [reflexivity|].
  destruct (add t x); [apply IH|reflexivity].
Qed.
Lemma run_local t ops t' : runT t ops = Some t' -> localpkg t' = localpkg t.
Proof.
  revert t. induction ops as [|x ops IH]; intros t H; simpl in H; [inversion H; reflexivity|].
  destruct (add t x) as [t1|] eqn:E; [|discriminate]. rewrite (IH _ H).
  destruct (add_symbol_cases _ _ _ _ _ _ E) as [->|(nm & _ & _ & _ & _ & ->)]; reflexivity.
Qed.
Lemma run_covers ops : forall t t', runT t ops = Some t' -> localpkg t = outpkg ->
  (forall p, In p ops -> p <> []) -> covered t' ops.
Proof.
  induction ops as [|x ops IH]; intros t t' H Hl Hne p Hin; [destruct Hin|]. simpl in H.
  destruct (add t x) as [t1|] eqn:E; [|discriminate].
  assert (Hl1 : localpkg t1 = outpkg).
  { destruct (add_symbol_cases _ _ _ _ _ _ E) as [->|(nm & _ & _ & _ & _ & ->)]; auto. }
  destruct Hin as [<-|Hin].
  - destruct (str_eqb_spec x outpkg) as [->|Hx]; [left; reflexivity|right].
    assert (Hx1 : lookup x (p2n t1) <> None).
    { eapply tracked_after_add; eauto; [congruence|apply Hne; left; reflexivity]. }
    destruct (lookup x (p2n t1)) as [n|] eqn:E1; [|congruence].
    rewrite (run_sub _ _ _ H x n E1). discriminate.
  - eapply IH; eauto. intros p' Hp'. apply Hne. right. exact Hp'.
Qed.
Lemma covered_sub t t' ps : covered t ps -> sub t t' -> covered t' ps.
Proof.
  intros Hc Hs p Hp. destruct (Hc p Hp) as [->|H]; [left; reflexivity|right].
  destruct (lookup p (p2n t)) as [n|] eqn:E; [|congruence]. rewrite (Hs _ _ E). discriminate.
Qed.
Lemma covered_app t a b : covered t (a ++ b) <-> covered t a /\ covered t b.
Proof.
  unfold covered. split.
  - intros H. split; intros p Hp; apply H, in_or_app; auto.
  - intros [Ha Hb] p Hp. apply in_app_or in Hp. destruct Hp; auto.
Qed.

(* two trackers that agree on the packages of a type spell it alike *)
Lemma spell_stable t t' : sub t t' -> forall ty, covered t (pkgs ty) -> spell v2 (qual t) ty = spell v2 (qual t') ty.
Proof.
  intros Hs. induction ty using gt_ind'; intros Hc; cbn [spell pkgs] in *; try reflexivity.
  - unfold qual. destruct (str_eqb_spec p outpkg); [reflexivity|].
    destruct (Hc p (or_introl eq_refl)) as [->|H]; [congruence|].
    unfold local_name_of. destruct (lookup p (p2n t)) as [a|] eqn:E; [|congruence]. rewrite (Hs _ _ E). reflexivity.
  - apply covered_app in Hc. destruct Hc as [Hk He]. rewrite IHty1, IHty2; auto.
  - rewrite IHty; auto.
  - rewrite IHty; auto.
  - rewrite IHty; auto.
  - rewrite IHty; auto.
  - do 3 f_equal. induction H as [|m ms Hm Hms IH]; [reflexivity|]. cbn [map flat_map] in *.
    apply covered_app in Hc. destruct Hc as [H1 H2]. unfold member_type in Hm.
    f_equal; [do 2 f_equal; apply Hm, H1 | apply IH, H2].
  - apply covered_app in Hc. destruct Hc as [Hp Hr].
    assert (Ep : map (spell v2 (qual t)) ps = map (spell v2 (qual t')) ps).
    { clear Hr H0. induction H as [|x xs Hx Hxs IH]; [reflexivity|]. cbn [map flat_map] in *.
      apply covered_app in Hp. destruct Hp as [H1 H2]. rewrite Hx by auto. f_equal. apply IH. exact H2. }
    assert (Er : map (spell v2 (qual t)) rs = map (spell v2 (qual t')) rs).
    { clear Hp H Ep. induction H0 as [|x xs Hx Hxs IH]; [reflexivity|]. cbn [map flat_map] in *.
      apply covered_app in Hr. destruct Hr as [H1 H2]. rewrite Hx by auto. f_equal. apply IH. exact H2. }
    rewrite Ep, Er. reflexivity.
Qed.

Lemma struct_names (f : gt -> str) : forall ms : list (str * bool * str * gt),
  map (fun mn : str * bool * str * gt * str => fst (fst (fst (fst mn))) ++ s " " ++ snd mn) (combine ms (map (fun x => f (snd x)) ms)) =
  map (fun m : str * bool * str * gt => fst (fst (fst m)) ++ s " " ++ f (snd m)) ms.
Proof. induction ms as [|m ms IH]; [reflexivity|]. cbn [map combine]. f_equal. exact IH. Qed.

(* what one rendering with a tracker guarantees *)
Definition claim (ty : gt) : Prop := forall t st' n,
  raw_name v2 outpkg (Some t) ty = Some (st', n) ->
  exists t', st' = Some t' /\ runT t (pkgs ty) = Some t' /\
             (localpkg t = outpkg -> (forall p, In p (pkgs ty) -> p <> []) -> n = spell v2 (qual t') ty).

Lemma omap_claim {T} (proj : T -> gt) : forall l, Forall (fun x => claim (proj x)) l -> forall t st' ns,
  omap_st (fun t0 x => raw_name v2 outpkg t0 (proj x)) (Some t) l = Some (st', ns) ->
  exists t', st' = Some t' /\ runT t (flat_map (fun x => pkgs (proj x)) l) = Some t' /\
             (localpkg t = outpkg -> (forall p, In p (flat_map (fun x => pkgs (proj x)) l) -> p <> []) ->
              ns = map (fun x => spell v2 (qual t') (proj x)) l).
Proof.
  induction l as [|x l IH]; intros HF t st' ns H; simpl in H.
  - inversion H; subst. exists t. repeat split; reflexivity.
  - inversion HF as [|? ? Hx Hl]; subst.
    destruct (raw_name v2 outpkg (Some t) (proj x)) as [[st1 n1]|] eqn:E1; [|discriminate].
    destruct (Hx _ _ _ E1) as (t1 & -> & R1 & S1).
    destruct (omap_st _ (Some t1) l) as [[st2 ns2]|] eqn:E2; [|discriminate].
    destruct (IH Hl _ _ _ E2) as (t2 & -> & R2 & S2). inversion H; subst.
    exists t2. split; [reflexivity|]. simpl. rewrite run_app, R1. split; [exact R2|].
    intros Hloc Hne. simpl.
    assert (Hne1 : forall p, In p (pkgs (proj x)) -> p <> []) by (intros p Hp; apply Hne, in_or_app; auto).
    assert (Hne2 : forall p, In p (flat_map (fun x => pkgs (proj x)) l) -> p <> []) by (intros p Hp; apply Hne, in_or_app; auto).
    rewrite (S1 Hloc Hne1). rewrite S2 by (try rewrite (run_local _ _ _ R1); auto). f_equal.
    apply spell_stable; [eapply run_sub; eauto|]. eapply run_covers; eauto.
Qed.

Lemma raw_claim : forall ty, claim ty.
Proof.
  induction ty using gt_ind'; intros t st' nm Hr; cbn [raw_name] in Hr.
  - (* named *)
    unfold named_name in Hr. destruct (add t p) as [tr'|] eqn:Ea; [|discriminate]. inversion Hr; subst.
    exists tr'. split; [reflexivity|]. simpl. rewrite Ea. split; [reflexivity|]. intros _ _. reflexivity.
  - inversion Hr; subst. exists t. repeat split; reflexivity.
  - (* map: key first, then element *)
    destruct (raw_name v2 outpkg (Some t) ty1) as [[st1 kn]|] eqn:E1; [|discriminate].
    destruct (IHty1 _ _ _ E1) as (t1 & -> & R1 & S1).
    destruct (raw_name v2 outpkg (Some t1) ty2) as [[st2 en]|] eqn:E2; [|discriminate].
    destruct (IHty2 _ _ _ E2) as (t2 & -> & R2 & S2). inversion Hr; subst.
    exists t2. split; [reflexivity|]. simpl. rewrite run_app, R1. split; [exact R2|].
    intros Hloc Hne.
    assert (Hne1 : forall p, In p (pkgs ty1) -> p <> []) by (intros p Hp; apply Hne, in_or_app; auto).
    assert (Hne2 : forall p, In p (pkgs ty2) -> p <> []) by (intros p Hp; apply Hne, in_or_app; auto).
    rewrite (S1 Hloc Hne1). rewrite S2 by (try rewrite (run_local _ _ _ R1); auto).
    rewrite (spell_stable t1 t2); [reflexivity|eapply run_sub; eauto|eapply run_covers; eauto].
  - destruct (raw_name v2 outpkg (Some t) ty) as [[st1 n1]|] eqn:E1; [|discriminate].
    destruct (IHty _ _ _ E1) as (t1 & -> & R1 & S1). inversion Hr; subst.
    exists t1. repeat split; auto. intros Hl Hne. rewrite (S1 Hl Hne). reflexivity.
  - destruct (raw_name v2 outpkg (Some t) ty) as [[st1 n1]|] eqn:E1; [|discriminate].
    destruct (IHty _ _ _ E1) as (t1 & -> & R1 & S1). inversion Hr; subst.
    exists t1. repeat split; auto. intros Hl Hne. rewrite (S1 Hl Hne). reflexivity.
  - destruct (raw_name v2 outpkg (Some t) ty) as [[st1 n1]|] eqn:E1; [|discriminate].
    destruct (IHty _ _ _ E1) as (t1 & -> & R1 & S1). inversion Hr; subst.
    exists t1. repeat split; auto. intros Hl Hne. rewrite (S1 Hl Hne). reflexivity.
  - destruct (raw_name v2 outpkg (Some t) ty) as [[st1 n1]|] eqn:E1; [|discriminate].
    destruct (IHty _ _ _ E1) as (t1 & -> & R1 & S1). inversion Hr; subst.
    exists t1. repeat split; auto. intros Hl Hne. rewrite (S1 Hl Hne). reflexivity.
  - (* struct *)
    destruct (omap_st _ (Some t) ms) as [[st1 ns]|] eqn:E1; [|discriminate].
    destruct (omap_claim (fun m : str * bool * str * gt => snd m) ms H _ _ _ E1) as (t1 & -> & R1 & S1).
    injection Hr as <- <-. exists t1. split; [reflexivity|]. split; [exact R1|].
    intros Hl Hne. rewrite (S1 Hl Hne).
    change (s "struct{" ++ join (s "; ") (map (fun mn : str * bool * str * gt * str => fst (fst (fst (fst mn))) ++ s " " ++ snd mn)
                                              (combine ms (map (fun x : str * bool * str * gt => spell v2 (qual t1) (snd x)) ms))) ++ s "}" =
            s "struct{" ++ join (s "; ") (map (fun m : str * bool * str * gt => fst (fst (fst m)) ++ s " " ++ spell v2 (qual t1) (snd m)) ms) ++ s "}").
    rewrite (struct_names (spell v2 (qual t1)) ms). reflexivity.
  - inversion Hr; subst. exists t. repeat split; try reflexivity.
  - (* func: parameters, then results *)
    destruct (omap_st _ (Some t) ps) as [[st1 pn]|] eqn:E1; [|discriminate].
    destruct (omap_claim (fun x : gt => x) ps H _ _ _ E1) as (t1 & -> & R1 & S1).
    destruct (omap_st _ (Some t1) rs) as [[st2 rn]|] eqn:E2; [|discriminate].
    destruct (omap_claim (fun x : gt => x) rs H0 _ _ _ E2) as (t2 & -> & R2 & S2).
    cbv beta in R1, R2, S1, S2. change (fun x : gt => pkgs x) with pkgs in *.
    injection Hr as <- <-. exists t2. split; [reflexivity|]. cbn [pkgs]. rewrite run_app, R1. split; [exact R2|].
    intros Hloc Hne.
    assert (Hne1 : forall p, In p (flat_map pkgs ps) -> p <> []) by (intros p Hp; apply Hne, in_or_app; auto).
    assert (Hne2 : forall p, In p (flat_map pkgs rs) -> p <> []) by (intros p Hp; apply Hne, in_or_app; auto).
    rewrite (S1 Hloc Hne1). rewrite S2 by (try rewrite (run_local _ _ _ R1); auto).
    assert (Ep : map (fun x => spell v2 (qual t1) x) ps = map (spell v2 (qual t2)) ps).
    { apply map_ext_in. intros x Hx. apply spell_stable; [eapply run_sub; eauto|].
      intros p Hp. eapply (run_covers _ _ _ R1 Hloc Hne1). apply in_flat_map. eauto. }
    rewrite Ep. reflexivity.
  - inversion Hr; subst. exists t. repeat split; reflexivity.
Qed.

(* ---------- the theorems ---------- *)
(* with a tracker: the name is the reference spelling under the final tracker's aliases; the
   tracker's evolution is exactly AddType on the packages of the type, in rendering order *)
Theorem raw_with_tracker t ty st' n :
  raw_name v2 outpkg (Some t) ty = Some (st', n) ->
  exists t', st' = Some t' /\ runT t (pkgs ty) = Some t' /\
             (localpkg t = outpkg -> (forall p, In p (pkgs ty) -> p <> []) -> n = spell v2 (qual t') ty).
Proof. apply raw_claim. Qed.

(* rendering never panics / fails *)
Theorem raw_total t ty : raw_name v2 outpkg (Some t) ty <> None.
Proof.
  revert t. induction ty using gt_ind'; intros t; simpl; try discriminate.
  - unfold named_name. destruct (add t p) eqn:E; [discriminate|].
    exfalso. eapply (add_symbol_never_panics is_letter_x is_digit_x itoa_dec itoa_dec_inj); eauto.
  - destruct (raw_name v2 outpkg (Some t) ty1) as [[st1 kn]|] eqn:E1; [|exfalso; eapply IHty1; eauto].
    destruct (raw_claim _ _ _ _ E1) as (t1 & -> & _).
    destruct (raw_name v2 outpkg (Some t1) ty2) as [[st2 en]|] eqn:E2; [discriminate|exfalso; eapply IHty2; eauto].
  - destruct (raw_name v2 outpkg (Some t) ty) as [[st1 kn]|] eqn:E1; [discriminate|exfalso; eapply IHty; eauto].
  - destruct (raw_name v2 outpkg (Some t) ty) as [[st1 kn]|] eqn:E1; [discriminate|exfalso; eapply IHty; eauto].
  - destruct (raw_name v2 outpkg (Some t) ty) as [[st1 kn]|] eqn:E1; [discriminate|exfalso; eapply IHty; eauto].
  - destruct (raw_name v2 outpkg (Some t) ty) as [[st1 kn]|] eqn:E1; [discriminate|exfalso; eapply IHty; eauto].
  - assert (Hl : forall t0, omap_st (fun t1 m => raw_name v2 outpkg t1 (member_type m)) (Some t0) ms <> None).
    { induction H as [|m ms Hm Hms IH]; intros t0; simpl; [discriminate|].
      destruct (raw_name v2 outpkg (Some t0) (member_type m)) as [[st1 n1]|] eqn:E1; [|exfalso; eapply Hm; eauto].
      destruct (raw_claim _ _ _ _ E1) as (t1 & -> & _).
      destruct (omap_st _ (Some t1) ms) as [[? ?]|] eqn:E2; [discriminate|exfalso; eapply IH; eauto]. }
    destruct (omap_st _ (Some t) ms) as [[? ?]|] eqn:E; [discriminate|exfalso; eapply Hl; eauto].
  - assert (Hl : forall l, Forall (fun x => forall t, raw_name v2 outpkg (Some t) x <> None) l ->
                 forall t0, omap_st (fun t1 x => raw_name v2 outpkg t1 x) (Some t0) l <> None).
    { clear. induction 1 as [|x xs Hx Hxs IH]; intros t0; simpl; [discriminate|].
      destruct (raw_name v2 outpkg (Some t0) x) as [[st1 n1]|] eqn:E1; [|exfalso; eapply Hx; eauto].
      destruct (raw_claim _ _ _ _ E1) as (t1 & -> & _).
      destruct (omap_st _ (Some t1) xs) as [[? ?]|] eqn:E2; [discriminate|exfalso; eapply IH; eauto]. }
    destruct (omap_st _ (Some t) ps) as [[st1 pn]|] eqn:E1; [|exfalso; exact (Hl ps H t E1)].
    assert (exists t1, st1 = Some t1) as [t1 ->].
    { assert (HF : Forall (fun x : gt => claim x) ps) by (apply Forall_forall; intros; apply raw_claim).
      destruct (omap_claim (fun x : gt => x) ps HF _ _ _ E1) as (t1 & -> & _). eauto. }
    destruct (omap_st _ (Some t1) rs) as [[st2 rn]|] eqn:E2; [discriminate|exfalso; exact (Hl rs H0 t1 E2)].
Qed.

(* without a tracker: the reference spelling with the last path element as qualifier *)
Lemma omap_none {T} (proj : T -> gt) (f : gt -> str) : forall l,
  Forall (fun x => raw_name v2 outpkg None (proj x) = Some (None, f (proj x))) l ->
  omap_st (fun t0 x => raw_name v2 outpkg t0 (proj x)) None l = Some (None, map (fun x => f (proj x)) l).
Proof.
  induction 1 as [|x l Hx Hl IH]; [reflexivity|]. simpl. rewrite Hx. simpl in IH. rewrite IH. reflexivity.
Qed.
Theorem raw_without_tracker : forall ty, raw_name v2 outpkg None ty = Some (None, spell v2 qual_base ty).
Proof.
  induction ty using gt_ind'; cbn [raw_name spell]; try reflexivity.
  - rewrite IHty1, IHty2. reflexivity.
  - rewrite IHty. reflexivity.
  - rewrite IHty. reflexivity.
  - rewrite IHty. reflexivity.
  - rewrite IHty. reflexivity.
  - rewrite (omap_none (fun m : str * bool * str * gt => member_type m) (spell v2 qual_base) ms H).
    exact (f_equal (fun z => Some (@None tracker, s "struct{" ++ join (s "; ") z ++ s "}")) (struct_names (spell v2 qual_base) ms)).
  - rewrite (omap_none (fun x : gt => x) (spell v2 qual_base) ps H).
    rewrite (omap_none (fun x : gt => x) (spell v2 qual_base) rs H0).
    change (map (fun x : gt => spell v2 qual_base x)) with (map (spell v2 qual_base)). reflexivity.
Qed.

(* everything a rendering mentions is either local or reported by the tracker afterwards; the
   output package itself is never reported; the tracker stays within its invariant (C07) *)
Theorem raw_imports_exact t ty t' n :
  raw_name v2 outpkg (Some t) ty = Some (Some t', n) -> localpkg t = outpkg ->
  (forall p, In p (pkgs ty) -> p <> []) -> Inv is_letter_x is_digit_x t ->
  covered t' (pkgs ty) /\
  Inv is_letter_x is_digit_x t' /\
  ~ In outpkg (keys (p2n t')) /\
  (forall q, lookup q (p2n t') <> None -> In q (pkgs ty) \/ lookup q (p2n t) <> None).
Proof.
  intros Hr Hl Hne Hi. destruct (raw_claim _ _ _ _ Hr) as (t1 & E & R & _). inversion E; subst t1.
  assert (Hi' : Inv is_letter_x is_digit_x t').
  { eapply (inv_reachable is_letter_x is_digit_x itoa_dec); eauto using inst_lower_letter, inst_digit_lower, inst_uscore, itoa_dec_digits. }
  split; [eapply run_covers; eauto|]. split; [exact Hi'|]. split.
  - rewrite <- Hl, <- (run_local _ _ _ R). apply (inv_local_never_imported is_letter_x is_digit_x), Hi'.
  - clear Hr Hne Hi Hi' E Hl. revert t R. induction (pkgs ty) as [|x l IH]; intros t R q Hq; simpl in R.
    + inversion R; subst. auto.
    + destruct (add t x) as [t1|] eqn:Ea; [|discriminate].
      destruct (IH _ R q Hq) as [H|H]; [left; right; exact H|].
      destruct (only_added_tracked _ _ _ _ _ _ _ Ea H) as [->|H']; [left; left; reflexivity|right; exact H'].
Qed.

(* local types are spelled bare, foreign ones with the alias the tracker binds to their package *)
Theorem spell_named_local t n : spell v2 (qual t) (GNamed outpkg n) = n.
Proof. cbn [spell]. unfold qual. destruct (str_eqb_spec outpkg outpkg); congruence. Qed.
Theorem spell_named_foreign t p n : p <> outpkg -> spell v2 (qual t) (GNamed p n) = local_name_of t p ++ [46%N] ++ n.
Proof. intros H. cbn [spell]. unfold qual. destruct (str_eqb_spec p outpkg); congruence. Qed.
End Proofs.
