Require Import Gengo.Base.Str Gengo.Base.Sexp Gengo.Base.StrOrder Gengo.Base.Closure Gengo.Model.Tags Gengo.Model.ImportBoss Gengo.Proofs.TagsProofs.
From Coq Require Import Permutation Sorting.Sorted.

(* ---------- dedup ---------- *)
Lemma dedup_acc_spec l : forall acc x,
  In x (fold_left (fun acc x => if mem_str x acc then acc else acc ++ [x]) l acc) <-> In x acc \/ In x l.
Proof.
  induction l as [|y l IH]; simpl; intros acc x; [tauto|].
  rewrite IH. destruct (mem_str y acc) eqn:E.
  - apply mem_str_In in E. split; [tauto|]. intros [H|[<-|H]]; auto.
  - rewrite in_app_iff. simpl. tauto.
Qed.
Lemma dedup_In l x : In x (dedup l) <-> In x l.
Proof. unfold dedup. rewrite dedup_acc_spec. simpl. tauto. Qed.

Lemma dedup_acc_NoDup l : forall acc, NoDup acc ->
  NoDup (fold_left (fun acc x => if mem_str x acc then acc else acc ++ [x]) l acc).
Proof.
  induction l as [|y l IH]; simpl; intros acc H; auto.
  apply IH. destruct (mem_str y acc) eqn:E; auto.
  apply (Permutation_NoDup (Permutation_cons_append acc y)). constructor; auto.
  intros Hin. apply mem_str_In in Hin. congruence.
Qed.
Lemma dedup_NoDup l : NoDup (dedup l).
Proof. apply dedup_acc_NoDup. constructor. Qed.

Lemma Permutation_in_iff {T} (a b : list T) : Permutation a b -> forall x, In x a <-> In x b.
Proof. intros H x. split; intros Hx; [eapply Permutation_in; eauto|eapply Permutation_in; [apply Permutation_sym; exact H|exact Hx]]. Qed.

(* ---------- transitive closure ---------- *)
Lemma edges_of_In inm i j : In (i, j) (edges_of inm) <-> exists l, In (i, l) inm /\ In j l.
Proof.
  unfold edges_of. rewrite in_flat_map. split.
  - intros [[k l] [Hkl Hin]]. simpl in Hin. apply in_map_iff in Hin. destruct Hin as [t [Ht Hin]].
    inversion Ht; subst. eauto.
  - intros [l [H1 H2]]. exists (i, l). split; auto. simpl. apply in_map_iff. eauto.
Qed.

Lemma keys_cover inm i m : In (i, m) (edges_of inm) -> In i (keys inm).
Proof.
  intros H. apply edges_of_In in H. destruct H as [l [H1 _]].
  unfold keys. apply in_map_iff. exists (i, l). auto.
Qed.
Lemma imports_cover inm m j : In (m, j) (edges_of inm) -> In j (imports_of inm).
Proof.
  intros H. apply edges_of_In in H. destruct H as [l [H1 H2]].
  unfold imports_of. apply dedup_In. apply in_flat_map. exists (m, l). auto.
Qed.

Definition covers (inm : amap (list str)) (ks is_ js : list str) : Prop :=
  (forall i m, In (i, m) (edges_of inm) -> In i ks) /\
  (forall i m, In (i, m) (edges_of inm) -> In i is_) /\
  (forall m j, In (m, j) (edges_of inm) -> In j js).

Lemma canonical_covers inm : covers inm (keys inm) (keys inm) (imports_of inm).
Proof. repeat split; intros; eauto using keys_cover, imports_cover. Qed.

(* for ANY three iteration orders that visit every map key, the computed relation is reachability *)
Theorem closure_is_reachability inm ks is_ js : covers inm ks is_ js ->
  forall i j, has str str_eqb (warshall str str_eqb ks is_ js (edges_of inm)) (i, j) = true
              <-> path str (edges_of inm) i j.
Proof.
  intros [H1 [H2 H3]] i j. rewrite (has_In str str_eqb str_eqb_spec).
  apply (warshall_is_reachability str str_eqb str_eqb_spec); auto.
Qed.

Theorem tclosure_order_independent inm ks is_ js : covers inm ks is_ js ->
  tclosure_with ks is_ js inm = tclosure inm.
Proof.
  intros Hc. unfold tclosure, tclosure_with.
  assert (Hext : forall i, filter (fun j => has str str_eqb (warshall str str_eqb ks is_ js (edges_of inm)) (i, j)) (imports_of inm)
                         = filter (fun j => has str str_eqb (warshall str str_eqb (keys inm) (keys inm) (imports_of inm) (edges_of inm)) (i, j)) (imports_of inm)).
  { intros i. apply filter_ext. intros j.
    pose proof (closure_is_reachability inm ks is_ js Hc i j) as A.
    pose proof (closure_is_reachability inm _ _ _ (canonical_covers inm) i j) as B.
    destruct (has str str_eqb (warshall str str_eqb ks is_ js (edges_of inm)) (i, j));
    destruct (has str str_eqb (warshall str str_eqb (keys inm) (keys inm) (imports_of inm) (edges_of inm)) (i, j)); auto.
    - symmetry. apply B, A. reflexivity.
    - apply A, B. reflexivity. }
  induction (dedup (keys inm)) as [|i l IH]; cbn [flat_map]; auto. rewrite Hext. f_equal. exact IH.
Qed.

(* what the output holds: for every listed package exactly its reachable set, sorted, no duplicates *)
Theorem tclosure_spec inm i l : In (i, l) (tclosure inm) ->
  (forall j, In j l <-> path str (edges_of inm) i j) /\ StronglySorted str_le l /\ NoDup l /\ l <> [].
Proof.
  unfold tclosure, tclosure_with. rewrite in_flat_map. intros [i' [Hi H]].
  remember (filter (fun j => has str str_eqb (warshall str str_eqb (keys inm) (keys inm) (imports_of inm) (edges_of inm)) (i', j)) (imports_of inm)) as f eqn:Ef.
  assert (Hf : f <> [] /\ i = i' /\ l = sort_strs f).
  { destruct f as [|x f']; [destruct H|]. destruct H as [H|[]]. inversion H; subst. repeat split; auto. discriminate. }
  destruct Hf as [Hne [<- ->]]. clear H. split; [|split; [|split]].
  - intros j. rewrite (Permutation_in_iff _ _ (sort_strs_perm f) j).
    rewrite Ef. rewrite filter_In. rewrite (closure_is_reachability inm _ _ _ (canonical_covers inm)).
    split; [tauto|]. intros Hp. split; auto.
    destruct Hp as [w Hw]. destruct (walk_last_in str (edges_of inm) _ _ _ Hw) as [m Hm].
    eapply imports_cover; eauto.
  - apply sort_strs_sorted.
  - apply (Permutation_NoDup (Permutation_sym (sort_strs_perm f))). rewrite Ef. apply NoDup_filter. apply dedup_NoDup.
  - intros E. assert (Hl : length (sort_strs f) = length f) by (apply Permutation_length, sort_strs_perm).
    rewrite E in Hl. destruct f; [congruence|discriminate].
Qed.

Theorem tclosure_complete inm i j : In i (keys inm) -> path str (edges_of inm) i j ->
  exists l, In (i, l) (tclosure inm).
Proof.
  intros Hi Hp. unfold tclosure, tclosure_with.
  set (f := filter (fun j => has str str_eqb (warshall str str_eqb (keys inm) (keys inm) (imports_of inm) (edges_of inm)) (i, j)) (imports_of inm)).
  assert (Hj : In j f).
  { unfold f. apply filter_In. split.
    - destruct Hp as [w Hw]. destruct (walk_last_in str (edges_of inm) _ _ _ Hw) as [m Hm]. eapply imports_cover; eauto.
    - apply (closure_is_reachability inm _ _ _ (canonical_covers inm)). exact Hp. }
  exists (sort_strs f). apply in_flat_map. exists i. split; [apply dedup_In; auto|].
  fold f. destruct f; [destruct Hj|]. left. reflexivity.
Qed.

(* ---------- rule verdicts ---------- *)
Definition fails (a : acc) : Prop := forb a <> [] \/ mism a <> [].
Lemma failed_fails a : failed a = true <-> fails a.
Proof.
  unfold failed, fails. destruct (forb a), (mism a); split; intros H; try discriminate; auto;
    try (destruct H; congruence); try (left; discriminate); try (right; discriminate).
Qed.

Lemma set_nonempty {V} k (v : V) m : set k v m <> [].
Proof. destruct m as [|[k' v'] m]; simpl; [discriminate|]. destruct (str_eqb k k'); discriminate. Qed.

Lemma record_forbidden_fails r v a :
  fails (record_forbidden r v a) <-> fails a \/ forbidden_by r v = true.
Proof.
  unfold record_forbidden, fails, forbidden_by. simpl.
  generalize (forb a) as m. generalize (mism a) as mm. intros mm.
  induction (forbidden r) as [|p ps IH]; simpl; intros m.
  - split; [tauto|]. intros [H|H]; [auto|discriminate].
  - rewrite IH. destruct (has_prefix p v); simpl.
    + split; [tauto|]. intros _. left. left. apply set_nonempty.
    + tauto.
Qed.

Lemma rules_loop_mono considered v rs : forall a, fails a -> fails (rules_loop considered v rs a).
Proof.
  induction rs as [|r rs IH]; simpl; intros a Ha; auto.
  destruct (negb (considered r) || negb (matches r v)); auto.
  assert (H1 : fails (record_forbidden r v a)) by (apply record_forbidden_fails; auto).
  destruct (allowed_by r v); auto. apply IH. right. simpl. destruct (mism a); discriminate.
Qed.

Lemma rules_loop_verdict considered v rs : forall a,
  fails (rules_loop considered v rs a) <-> fails a \/ ok_import considered v rs = false.
Proof.
  unfold ok_import, first_match.
  induction rs as [|r rs IH]; simpl; intros a.
  - split; [tauto|]. intros [H|H]; [auto|discriminate].
  - destruct (considered r); simpl; [|apply IH]. destruct (matches r v); simpl; [|apply IH].
    destruct (allowed_by r v) eqn:Ea; simpl.
    + rewrite record_forbidden_fails. destruct (forbidden_by r v); simpl; intuition congruence.
    + split; [auto|]. intros _. apply rules_loop_mono. right. simpl.
      destruct (mism a); discriminate.
Qed.

Theorem verify_loop_verdict considered rs imports :
  failed (verify_loop considered rs imports) = false <->
  forall v, In v imports -> ok_import (considered v) v rs = true.
Proof.
  unfold verify_loop.
  assert (H : forall a, fails (fold_left (fun a v => rules_loop (considered v) v rs a) imports a) <->
                        fails a \/ exists v, In v imports /\ ok_import (considered v) v rs = false).
  { induction imports as [|v vs IH]; simpl; intros a.
    - split; [tauto|]. intros [H|[v [[] _]]]; auto.
    - rewrite IH, rules_loop_verdict. split.
      + intros [[H|H]|[w [Hw1 Hw2]]]; eauto.
      + intros [H|[w [[<-|Hw1] Hw2]]]; eauto. }
  specialize (H {| forb := []; mism := [] |}).
  destruct (failed _) eqn:E.
  - split; [discriminate|]. intros Hall. apply failed_fails in E. apply H in E.
    destruct E as [[E|E]|[v [Hv1 Hv2]]]; try (simpl in E; congruence). rewrite Hall in Hv2 by auto. discriminate.
  - split; auto. intros _ v Hv. destruct (ok_import (considered v) v rs) eqn:Eo; auto.
    assert (Hf : fails (fold_left (fun a v => rules_loop (considered v) v rs a) imports {| forb := []; mism := [] |})) by (apply H; eauto).
    apply failed_fails in Hf. congruence.
Qed.

(* the property's wording, for rules and for inverse rules *)
Theorem rules_verdict rs imports :
  failed (verify_rules rs imports) = false <->
  forall v, In v imports ->
    match find (fun r => matches r v) rs with
    | None => True
    | Some r => allowed_by r v = true /\ forbidden_by r v = false
    end.
Proof.
  unfold verify_rules. rewrite verify_loop_verdict. split; intros H v Hv; specialize (H v Hv);
    unfold ok_import, first_match in *; simpl in *.
  - destruct (find (fun r => matches r v) rs); auto. apply andb_true_iff in H. destruct H as [H1 H2].
    split; auto. destruct (forbidden_by r v); auto; discriminate.
  - destruct (find (fun r => matches r v) rs); auto. destruct H as [-> ->]. reflexivity.
Qed.

Theorem inverse_verdict rs direct trans :
  failed (verify_inverse rs direct trans) = false <->
  forall v, In v trans ->
    match find (fun r => (transitive r || mem_str v direct) && matches r v) rs with
    | None => True
    | Some r => allowed_by r v = true /\ forbidden_by r v = false
    end.
Proof.
  unfold verify_inverse. rewrite verify_loop_verdict. split; intros H v Hv; specialize (H v Hv);
    unfold ok_import, first_match in *; simpl in *.
  - destruct (find _ rs); auto. apply andb_true_iff in H. destruct H as [H1 H2].
    split; auto. destruct (forbidden_by r v); auto; discriminate.
  - destruct (find _ rs); auto. destruct H as [-> ->]. reflexivity.
Qed.

Corollary verdict_order_independent considered rs imports imports' :
  Permutation imports imports' ->
  failed (verify_loop considered rs imports) = failed (verify_loop considered rs imports').
Proof.
  intros Hp.
  destruct (failed (verify_loop considered rs imports)) eqn:E1; destruct (failed (verify_loop considered rs imports')) eqn:E2; auto.
  - pose proof (proj1 (verify_loop_verdict considered rs imports') E2) as H2.
    assert (E3 : failed (verify_loop considered rs imports) = false).
    { apply verify_loop_verdict. intros v Hv. apply H2. eapply Permutation_in; eauto. }
    congruence.
  - pose proof (proj1 (verify_loop_verdict considered rs imports) E1) as H1.
    assert (E3 : failed (verify_loop considered rs imports') = false).
    { apply verify_loop_verdict. intros v Hv. apply H1. eapply Permutation_in; [apply Permutation_sym; exact Hp|exact Hv]. }
    congruence.
Qed.

(* ---------- which files are read ---------- *)
Definition stops {T} (l : level T) : bool := gomod l || str_eqb (dname l) (s "src").
Fixpoint stop_index {T} (levels : list (level T)) : nat :=
  match levels with
  | [] => 0
  | l :: up => if stops l then 0 else S (stop_index up)
  end.
Definition file_list {T} (l : level T) : list T := match lfile l with Some f => [f] | None => [] end.

(* exactly the files of the package directory and its ancestors up to and including the first
   directory that holds go.mod or is named src, nearest first *)
Theorem restriction_files_spec {T} (levels : list (level T)) :
  restriction_files levels = flat_map file_list (firstn (S (stop_index levels)) levels).
Proof.
  induction levels as [|l up IH]; [reflexivity|].
  cbn [restriction_files stop_index]. unfold stops. fold (@file_list T l).
  destruct (gomod l || str_eqb (dname l) (s "src")) eqn:E.
  - cbn [firstn flat_map]. destruct up; reflexivity.
  - cbn [firstn flat_map]. f_equal. exact IH.
Qed.

(* ---------- importRules.Imports = everything reachable through Package.Imports ---------- *)
Require Import Gengo.Base.Dfs.

Lemma children_in_universe u x : incl (children_of u x) (node_universe u).
Proof.
  unfold children_of, node_universe. destruct (lookup x u) as [l|] eqn:E; [|intros y []].
  apply lookup_In in E. intros y Hy. apply in_or_app. right. apply in_flat_map. exists (x, l). auto.
Qed.

Theorem all_imports_terminates u p : all_imports u p <> None.
Proof.
  unfold all_imports.
  destruct (visit_list_terminates str str_eqb str_eqb_spec (children_of u) (node_universe u)
              (fun x _ => children_in_universe u x) (S (length (node_universe u))) (children_of u p) [])
    as [a Ha].
  - apply children_in_universe.
  - assert (H : forall s l, count_unseen str str_eqb s l <= length l).
    { induction l; simpl; auto. destruct (mem str str_eqb a s); lia. }
    specialize (H [] (node_universe u)). lia.
  - rewrite Ha. discriminate.
Qed.

(* x is collected iff it is reachable from the package by a chain of at least one import *)
Theorem all_imports_spec u p l : all_imports u p = Some l ->
  forall x, In x l <-> exists c, In c (children_of u p) /\ reach str (children_of u) c x.
Proof.
  unfold all_imports. intros H x. split.
  - intros Hx. destruct (visit_list_sound str str_eqb (children_of u) _ _ _ _ H x Hx) as [[]|Hc]. exact Hc.
  - intros [c [Hc Hr]].
    destruct (visit_list_ok str str_eqb str_eqb_spec (children_of u) _ _ _ _ H) as [[_ Hcl] Hin].
    apply (closed_reach str (children_of u) l) with (a := c); auto.
    intros y Hy. destruct (Hcl y Hy) as [[]|Hok]. exact Hok.
Qed.

(* ---------- Context.IncomingImports and the caches ---------- *)

Definition vals (q : str) (m : amap (list str)) : list str :=
  match lookup q m with Some l => l | None => [] end.

Lemma vals_append q k v m :
  vals q (append_val k v m) = if str_eqb q k then vals q m ++ [v] else vals q m.
Proof.
  unfold vals. destruct (str_eqb_spec q k) as [->|Hne].
  - rewrite lookup_append_same. destruct (lookup k m); reflexivity.
  - rewrite lookup_append_other by exact Hne. reflexivity.
Qed.

Definition contrib (q : str) (pi : str * list str) : list str :=
  map (fun _ => fst pi) (filter (str_eqb q) (snd pi)).

Lemma inner_vals q p imps : forall acc,
  vals q (fold_left (fun acc imp => append_val imp p acc) imps acc) = vals q acc ++ contrib q (p, imps).
Proof.
  unfold contrib. cbn [fst snd].
  induction imps as [|i imps IH]; intros acc; cbn [fold_left filter map].
  - rewrite app_nil_r. reflexivity.
  - rewrite IH, vals_append. destruct (str_eqb q i); cbn [map].
    + rewrite <- app_assoc. reflexivity.
    + reflexivity.
Qed.

Lemma outer_vals q u : forall acc,
  vals q (fold_left (fun acc pi => fold_left (fun acc imp => append_val imp (fst pi) acc) (snd pi) acc) u acc)
  = vals q acc ++ flat_map (contrib q) u.
Proof.
  induction u as [|[p imps] u IH]; intros acc; cbn [fold_left flat_map fst snd].
  - rewrite app_nil_r. reflexivity.
  - rewrite IH, inner_vals, <- app_assoc. reflexivity.
Qed.

(* Context.IncomingImports, exactly: the importers of q are the packages that list q among their
   imports, in universe order, once per listing *)
Theorem incoming_exact u q : vals q (incoming u) = flat_map (contrib q) u.
Proof. unfold incoming. rewrite outer_vals. reflexivity. Qed.

Theorem incoming_spec u q p :
  In p (vals q (incoming u)) <-> exists imps, In (p, imps) u /\ In q imps.
Proof.
  rewrite incoming_exact, in_flat_map. unfold contrib. split.
  - intros [[p' imps] [Hin Hc]]. cbn [fst snd] in Hc. apply in_map_iff in Hc.
    destruct Hc as [i [<- Hf]]. apply filter_In in Hf. destruct Hf as [Hi He].
    destruct (str_eqb_spec q i) as [->|]; [|discriminate]. exists imps. split; assumption.
  - intros [imps [Hin Hq]]. exists (p, imps). split; [exact Hin|]. cbn [fst snd].
    apply in_map_iff. exists q. split; [reflexivity|]. apply filter_In. split; [exact Hq|].
    destruct (str_eqb_spec q q); congruence.
Qed.

(* ---------- the caches never outlive a change of the universe ---------- *)
Definition ctx_inv (c : ctxt) : Prop :=
  (cinc c = None \/ cinc c = Some (incoming (cu c))) /\
  (ctr c = None \/ ctr c = Some (tclosure (incoming (cu c)))).

Lemma ctx_new_inv u : ctx_inv (ctx_new u).
Proof. split; left; reflexivity. Qed.

Lemma ctx_incoming_spec c : ctx_inv c ->
  snd (ctx_incoming c) = incoming (cu c) /\ cu (fst (ctx_incoming c)) = cu c /\
  cinc (fst (ctx_incoming c)) = Some (incoming (cu c)) /\ ctr (fst (ctx_incoming c)) = ctr c.
Proof.
  intros [Hi _]. unfold ctx_incoming. destruct (cinc c) as [i|] eqn:E; cbn [fst snd cu cinc ctr].
  - destruct Hi as [Hi|Hi]; [discriminate|]. injection Hi as ->. auto.
  - auto.
Qed.

Lemma ctx_step_spec c o : ctx_inv c ->
  let u' := match o with OSet u => u | _ => cu c end in
  ctx_inv (fst (ctx_step c o)) /\ cu (fst (ctx_step c o)) = u' /\
  snd (ctx_step c o) = match o with
                       | OSet _ => None
                       | OInc => Some (incoming (cu c))
                       | OTrans => Some (tclosure (incoming (cu c)))
                       end.
Proof.
  intros Hinv. destruct o as [u| |]; cbn [ctx_step].
  - cbn [fst snd]. split; [apply ctx_new_inv|]. split; reflexivity.
  - destruct (ctx_incoming_spec c Hinv) as [Hs [Hu [Hc Ht]]].
    destruct (ctx_incoming c) as [c' i]. cbn [fst snd] in *. subst i.
    split; [|split; [exact Hu|reflexivity]].
    split; [right; rewrite Hu; exact Hc|]. rewrite Ht, Hu. apply Hinv.
  - destruct (ctr c) as [t|] eqn:Et.
    + cbn [fst snd]. split; [exact Hinv|]. split; [reflexivity|].
      destruct Hinv as [_ [Ht|Ht]]; rewrite Et in Ht; [discriminate|exact Ht].
    + destruct (ctx_incoming_spec c Hinv) as [Hs [Hu [Hc Ht]]].
      destruct (ctx_incoming c) as [c' i]. cbn [fst snd] in *. subst i.
      split; [|split; [exact Hu|reflexivity]].
      split; cbn [cu cinc ctr]; right; rewrite Hu; [exact Hc|reflexivity].
Qed.

(* every answer of a Context, over any history of questions and universe changes, is the answer
   computed from the universe as it is at that moment *)
Theorem ctx_answers_fresh ops : forall c, ctx_inv c -> ctx_run c ops = ctx_spec (cu c) ops.
Proof.
  induction ops as [|o ops IH]; intros c Hinv; [reflexivity|].
  cbn [ctx_run]. destruct (ctx_step_spec c o Hinv) as [Hinv' [Hu Ha]].
  destruct (ctx_step c o) as [c' a]. cbn [fst snd] in *. subst a.
  rewrite (IH c' Hinv'), Hu. destruct o; reflexivity.
Qed.
Corollary ctx_answers_fresh_new u ops : ctx_run (ctx_new u) ops = ctx_spec u ops.
Proof. apply (ctx_answers_fresh ops (ctx_new u)), ctx_new_inv. Qed.
