(* C01: the entry built for a composite type records, position by position, the canonical objects
   of the child types named in the type checker's node table, with names, flags, tags and lengths
   verbatim and in declaration order. *)
Require Import Gengo.Base.Str Gengo.Base.Sexp Gengo.Base.StrOrder Gengo.Model.Universe
               Gengo.Proofs.UniverseProofs Gengo.Proofs.CanonProofs.

(* the object a child occurrence (walked without a name override) must resolve to *)
(* ... and a type parameter (which is not filed in the universe at all) is described by its own name *)
Definition child_is (v2 : bool) (p : prog) (use : option name) (t : N) (n : name) : Prop :=
  (forall k, node_key v2 p use t = Some k -> n = canon v2 k) /\
  (forall ts, plookup t p = Some (ts, STypeParam) -> n = match use with Some x => x | None => name_of_string v2 ts end).

Lemma update_lookup_same u o g e : nlookup o (objs u) = Some e -> nlookup o (objs (update u o g)) = Some (g e).
Proof. intros H. unfold update. rewrite H. simpl. apply nlookup_nset_same. Qed.

Lemma lit_nonempty (k : string) : k <> ""%string -> k <> ""%string.
Proof. auto. Qed.

Section Faithful.
Variable v2 : bool.
Variable p : prog.
Hypothesis Hok : named_ok v2 p.
Variable f : nat.
Notation rec := (walk v2 p f).

Lemma rec_canon : forall u use t u' o, canonical v2 u -> rec u use t = Some (u', o) ->
  canonical v2 u' /\ child_is v2 p use t o.
Proof.
  intros u use t u' o C H. destruct (walk_canonical v2 p Hok _ _ _ _ _ _ C H) as [C' K]. split; [exact C'|]. split; [exact K|].
  intros ts Ep. destruct f as [|g]; [discriminate|]. simpl in H. unfold walk_step in H. rewrite Ep in H. injection H as _ <-. reflexivity.
Qed.
Lemma rec_ext : forall u use t u' o, rec u use t = Some (u', o) -> ext u u'.
Proof. intros. eapply walk_ext; eauto. Qed.

Lemma walk_list_names : forall l u u' ns, canonical v2 u -> walk_list rec u l = Some (u', ns) ->
  canonical v2 u' /\ Forall2 (fun t n => child_is v2 p None t n) l ns.
Proof.
  induction l as [|x l IH]; intros u u' ns Hc H; simpl in H.
  - inversion H; subst. split; [exact Hc|constructor].
  - destruct (rec u None x) as [[u1 n1]|] eqn:E1; [|discriminate].
    destruct (walk_list rec u1 l) as [[u2 ns2]|] eqn:E2; [|discriminate]. inversion H; subst.
    destruct (rec_canon _ _ _ _ _ Hc E1) as [C1 K1]. destruct (IH _ _ _ C1 E2) as [C2 F2].
    split; [exact C2|]. constructor; [exact K1|exact F2].
Qed.
Lemma walk_methods_names : forall ms u u' r, canonical v2 u -> walk_methods v2 rec u ms = Some (u', r) ->
  canonical v2 u' /\
  Forall2 (fun m (x : str * name) => fst x = fst (fst m) /\ child_is v2 p (Some (name_of_string v2 (snd (fst m)))) (snd m) (snd x)) ms r.
Proof.
  induction ms as [|[[mn mstr] sg] ms IH]; intros u u' r Hc H; simpl in H.
  - inversion H; subst. split; [exact Hc|constructor].
  - destruct (rec u (Some (name_of_string v2 mstr)) sg) as [[u1 n1]|] eqn:E1; [|discriminate].
    destruct (walk_methods v2 rec u1 ms) as [[u2 r2]|] eqn:E2; [|discriminate]. inversion H; subst.
    destruct (rec_canon _ _ _ _ _ Hc E1) as [C1 K1]. destruct (IH _ _ _ C1 E2) as [C2 F2].
    split; [exact C2|]. constructor; [split; [reflexivity|exact K1]|exact F2].
Qed.

(* what [simple] leaves behind for a fresh entry: its kind is k and it is [g] applied to what the
   fill step saw *)
Lemma simple_result u nm k fill u' o :
  wf u -> k <> ""%string ->
  (forall u1 u2 g, fill u1 = Some (u2, g) -> ext u1 u2 /\ keeps_kind g) ->
  simple v2 u nm k fill = Some (u', o) ->
  let '(u0, o0) := get_or_create v2 u nm in
  complete u0 o0 = false ->
  o = o0 /\ exists u2 g e2, fill (update u0 o0 (set_kind k)) = Some (u2, g) /\ nlookup o (objs u2) = Some e2 /\
                           e_kind e2 = s k /\ nlookup o (objs u') = Some (g e2).
Proof.
  intros W Hk Hf. unfold simple. destruct (get_or_create v2 u nm) as [u0 o0] eqn:Eg. intros H Hc. rewrite Hc in H.
  destruct (fill (update u0 o0 (set_kind k))) as [[u2 g]|] eqn:Ef; [|discriminate]. inversion H; subst.
  split; [reflexivity|]. destruct (Hf _ _ _ Ef) as [E2 Kg].
  pose proof (wf_ext _ _ (get_or_create_ext _ _ _ _ _ Eg) W) as W0.
  destruct (W0 _ _ (get_or_create_key _ _ _ _ _ Eg)) as [e0 He0].
  pose proof (update_set_kind_kind u0 o k e0 He0) as K1.
  pose proof (complete_kind _ _ _ Hk K1) as C1.
  destruct E2 as (_ & E2k & E2w). pose proof (E2k o C1) as K2. rewrite K1 in K2.
  assert (Hex : exists e2, nlookup o (objs u2) = Some e2 /\ e_kind e2 = s k).
  { unfold kind_of in K2. destruct (nlookup o (objs u2)) as [e2|] eqn:E; [eauto|].
    exfalso. exact (s_nonempty k Hk (eq_sym K2)). }
  destruct Hex as (e2 & He2 & Hk2). exists u2, g, e2. split; [reflexivity|]. split; [exact He2|]. split; [exact Hk2|].
  apply update_lookup_same. exact He2.
Qed.

(* ---------- pointer, slice, channel ---------- *)
Theorem elem_faithful u use t tstr c sh k u' o :
  wf u -> canonical v2 u -> plookup t p = Some (tstr, sh) ->
  (sh = SPtr c /\ k = "Pointer" \/ sh = SSlice c /\ k = "Slice" \/ sh = SChan c /\ k = "Chan")%string ->
  walk v2 p (S f) u use t = Some (u', o) ->
  let nm := match use with Some n => n | None => name_of_string v2 tstr end in
  complete (fst (get_or_create v2 u nm)) (snd (get_or_create v2 u nm)) = false ->
  exists e, nlookup o (objs u') = Some e /\ e_kind e = s k /\ exists n, e_elem e = Some n /\ child_is v2 p None c n.
Proof.
  intros W Hc Ep Hsh H nm Hfresh. simpl in H. unfold walk_step in H. rewrite Ep in H. fold nm in H.
  assert (Hk : k <> ""%string) by (destruct Hsh as [[_ ->]|[[_ ->]|[_ ->]]]; discriminate).
  assert (G : simple v2 u nm k (fun u1 => match rec u1 None c with Some (u2, n) => Some (u2, with_elem n) | None => None end) = Some (u', o))
    by (destruct Hsh as [[-> ->]|[[-> ->]|[-> ->]]]; exact H).
  assert (Hf : forall u1 u2 g, (fun u1 => match rec u1 None c with Some (u2, n) => Some (u2, with_elem n) | None => None end) u1 = Some (u2, g) -> ext u1 u2 /\ keeps_kind g).
  { intros u1 u2 g Hfill. cbv beta in Hfill. destruct (rec u1 None c) as [[ua n]|] eqn:E; [|discriminate]. inversion Hfill; subst.
    split; [eapply rec_ext; eauto|auto with kk]. }
  pose proof (simple_result _ _ _ _ _ _ W Hk Hf G) as R. destruct (get_or_create v2 u nm) as [u0 o0] eqn:Eg. simpl in Hfresh.
  destruct (R Hfresh) as (-> & u2 & g & e2 & Efill & He2 & Hkind & Hfin). cbv beta in Efill.
  destruct (rec (update u0 o0 (set_kind k)) None c) as [[ua n]|] eqn:E; [|discriminate]. inversion Efill; subst.
  exists (with_elem n e2). split; [exact Hfin|]. split; [exact Hkind|]. exists n. split; [reflexivity|].
  destruct (get_or_create_canon _ _ _ _ _ Hc Eg) as [C0 _].
  destruct (rec_canon _ _ _ _ _ (update_canon _ _ _ _ C0) E) as [_ K]. exact K.
Qed.

(* ---------- array: the length too ---------- *)
Theorem array_faithful u use t tstr len c u' o :
  wf u -> canonical v2 u -> plookup t p = Some (tstr, SArray len c) ->
  walk v2 p (S f) u use t = Some (u', o) ->
  let nm := match use with Some n => n | None => name_of_string v2 tstr end in
  complete (fst (get_or_create v2 u nm)) (snd (get_or_create v2 u nm)) = false ->
  exists e, nlookup o (objs u') = Some e /\ e_kind e = s "Array" /\ e_len e = len /\ exists n, e_elem e = Some n /\ child_is v2 p None c n.
Proof.
  intros W Hc Ep H nm Hfresh. simpl in H. unfold walk_step in H. rewrite Ep in H. fold nm in H.
  assert (Hf : forall u1 u2 g, (fun u1 => match rec u1 None c with Some (u2, n) => Some (u2, fun x => with_len len (with_elem n x)) | None => None end) u1 = Some (u2, g) -> ext u1 u2 /\ keeps_kind g).
  { intros u1 u2 g Hfill. cbv beta in Hfill. destruct (rec u1 None c) as [[ua n]|] eqn:E; [|discriminate]. inversion Hfill; subst.
    split; [eapply rec_ext; eauto|auto with kk]. }
  pose proof (simple_result _ _ _ _ _ _ W (ltac:(discriminate) : "Array"%string <> ""%string) Hf H) as R. destruct (get_or_create v2 u nm) as [u0 o0] eqn:Eg. simpl in Hfresh.
  destruct (R Hfresh) as (-> & u2 & g & e2 & Efill & He2 & Hkind & Hfin). cbv beta in Efill.
  destruct (rec (update u0 o0 (set_kind "Array")) None c) as [[ua n]|] eqn:E; [|discriminate]. inversion Efill; subst.
  exists (with_len len (with_elem n e2)). split; [exact Hfin|]. split; [exact Hkind|]. split; [reflexivity|]. exists n. split; [reflexivity|].
  destruct (get_or_create_canon _ _ _ _ _ Hc Eg) as [C0 _].
  destruct (rec_canon _ _ _ _ _ (update_canon _ _ _ _ C0) E) as [_ K]. exact K.
Qed.

(* ---------- map: key and element, not swapped ---------- *)
Theorem map_faithful u use t tstr kt c u' o :
  wf u -> canonical v2 u -> plookup t p = Some (tstr, SMap kt c) ->
  walk v2 p (S f) u use t = Some (u', o) ->
  let nm := match use with Some n => n | None => name_of_string v2 tstr end in
  complete (fst (get_or_create v2 u nm)) (snd (get_or_create v2 u nm)) = false ->
  exists e, nlookup o (objs u') = Some e /\ e_kind e = s "Map" /\
            (exists nk, e_key e = Some nk /\ child_is v2 p None kt nk) /\ (exists ne, e_elem e = Some ne /\ child_is v2 p None c ne).
Proof.
  intros W Hc Ep H nm Hfresh. simpl in H. unfold walk_step in H. rewrite Ep in H. fold nm in H.
  match type of H with simple _ _ _ _ ?fill = _ => set (fl := fill) in * end.
  assert (Hf : forall u1 u2 g, fl u1 = Some (u2, g) -> ext u1 u2 /\ keeps_kind g) by (intros u1 u2 g; apply fill_map; apply rec_ext).
  pose proof (simple_result _ _ _ _ _ _ W (ltac:(discriminate) : "Map"%string <> ""%string) Hf H) as R. destruct (get_or_create v2 u nm) as [u0 o0] eqn:Eg. simpl in Hfresh.
  destruct (R Hfresh) as (-> & u2 & g & e2 & Efill & He2 & Hkind & Hfin). unfold fl in Efill.
  destruct (rec (update u0 o0 (set_kind "Map")) None c) as [[ua ne]|] eqn:E1; [|discriminate].
  destruct (rec ua None kt) as [[ub nk]|] eqn:E2; [|discriminate]. inversion Efill; subst.
  destruct (get_or_create_canon _ _ _ _ _ Hc Eg) as [C0 _].
  destruct (rec_canon _ _ _ _ _ (update_canon _ _ _ _ C0) E1) as [Ca K1]. destruct (rec_canon _ _ _ _ _ Ca E2) as [_ K2].
  exists (with_key nk (with_elem ne e2)). split; [exact Hfin|]. split; [exact Hkind|]. split; [exists nk|exists ne]; split; auto.
Qed.

(* ---------- struct: members in declaration order with name, embedded flag, tag verbatim ---------- *)
Theorem struct_faithful u use t tstr fs u' o :
  wf u -> canonical v2 u -> plookup t p = Some (tstr, SStruct fs) ->
  walk v2 p (S f) u use t = Some (u', o) ->
  let nm := match use with Some n => n | None => name_of_string v2 tstr end in
  complete (fst (get_or_create v2 u nm)) (snd (get_or_create v2 u nm)) = false ->
  exists e, nlookup o (objs u') = Some e /\ e_kind e = s "Struct" /\
            Forall2 (fun (fd : str * bool * str * N) (m : str * bool * str * name) =>
                       fst m = fst fd /\ child_is v2 p None (snd fd) (snd m)) fs (e_members e).
Proof.
  intros W Hc Ep H nm Hfresh. simpl in H. unfold walk_step in H. rewrite Ep in H. fold nm in H.
  match type of H with simple _ _ _ _ ?fill = _ => set (fl := fill) in * end.
  assert (Hf : forall u1 u2 g, fl u1 = Some (u2, g) -> ext u1 u2 /\ keeps_kind g) by (intros u1 u2 g; apply fill_struct; apply rec_ext).
  pose proof (simple_result _ _ _ _ _ _ W (ltac:(discriminate) : "Struct"%string <> ""%string) Hf H) as R. destruct (get_or_create v2 u nm) as [u0 o0] eqn:Eg. simpl in Hfresh.
  destruct (R Hfresh) as (-> & u2 & g & e2 & Efill & He2 & Hkind & Hfin). unfold fl in Efill.
  destruct (walk_list rec (update u0 o0 (set_kind "Struct")) (map snd fs)) as [[ua ns]|] eqn:E1; [|discriminate]. inversion Efill; subst.
  destruct (get_or_create_canon _ _ _ _ _ Hc Eg) as [C0 _].
  destruct (walk_list_names _ _ _ _ (update_canon _ _ _ _ C0) E1) as [_ F].
  eexists. split; [exact Hfin|]. split; [exact Hkind|]. cbn [e_members with_members].
  clear - F. revert ns F. induction fs as [|fd fs IH]; intros ns F; inversion F; subst; [constructor|].
  cbn [map combine]. constructor; [split; [destruct fd as [[[a b] c] d]; reflexivity|assumption]|]. apply IH. assumption.
Qed.

(* ---------- function: parameter/result names and types in order, variadic flag, receiver ---------- *)
Theorem func_faithful u use t tstr ps rs vr recv u' o :
  wf u -> canonical v2 u -> plookup t p = Some (tstr, SFunc ps rs vr recv) ->
  walk v2 p (S f) u use t = Some (u', o) ->
  let nm := match use with Some n => n | None => name_of_string v2 tstr end in
  complete (fst (get_or_create v2 u nm)) (snd (get_or_create v2 u nm)) = false ->
  exists e g, nlookup o (objs u') = Some e /\ e_kind e = s "Func" /\ e_sig e = Some g /\ s_variadic g = vr /\
    Forall2 (fun (a : str * N) (b : str * name) => fst b = fst a /\ child_is v2 p None (snd a) (snd b)) ps (s_params g) /\
    Forall2 (fun (a : str * N) (b : str * name) => fst b = fst a /\ child_is v2 p None (snd a) (snd b)) rs (s_results g) /\
    match recv, s_recv g with
    | Some r, Some n => child_is v2 p None r n
    | None, None => True
    | _, _ => False end.
Proof.
  intros W Hc Ep H nm Hfresh. simpl in H. unfold walk_step in H. rewrite Ep in H. fold nm in H.
  match type of H with simple _ _ _ _ ?fill = _ => set (fl := fill) in * end.
  assert (Hf : forall u1 u2 g, fl u1 = Some (u2, g) -> ext u1 u2 /\ keeps_kind g) by (intros u1 u2 g; apply fill_func; apply rec_ext).
  pose proof (simple_result _ _ _ _ _ _ W (ltac:(discriminate) : "Func"%string <> ""%string) Hf H) as R. destruct (get_or_create v2 u nm) as [u0 o0] eqn:Eg. simpl in Hfresh.
  destruct (R Hfresh) as (-> & u2 & g & e2 & Efill & He2 & Hkind & Hfin). unfold fl in Efill.
  destruct (walk_list rec (update u0 o0 (set_kind "Func")) (map snd ps)) as [[ua pn]|] eqn:E1; [|discriminate].
  destruct (walk_list rec ua (map snd rs)) as [[ub rn]|] eqn:E2; [|discriminate].
  destruct (get_or_create_canon _ _ _ _ _ Hc Eg) as [C0 _].
  destruct (walk_list_names _ _ _ _ (update_canon _ _ _ _ C0) E1) as [Ca Fp].
  destruct (walk_list_names _ _ _ _ Ca E2) as [Cb Fr].
  assert (Z : forall (l : list (str * N)) ns, Forall2 (fun t n => child_is v2 p None t n) (map snd l) ns ->
              Forall2 (fun (a : str * N) (b : str * name) => fst b = fst a /\ child_is v2 p None (snd a) (snd b)) l (combine (map fst l) ns)).
  { induction l as [|a l IH]; intros ns F; inversion F; subst; [constructor|]. cbn [map combine]. constructor; [split; [reflexivity|assumption]|]. apply IH. assumption. }
  destruct recv as [r|].
  - destruct (rec ub None r) as [[uc n]|] eqn:E3; [|discriminate]. inversion Efill; subst.
    destruct (rec_canon _ _ _ _ _ Cb E3) as [_ K3].
    eexists. eexists. split; [exact Hfin|]. split; [exact Hkind|]. split; [reflexivity|]. cbn [s_variadic s_params s_results s_recv].
    split; [reflexivity|]. split; [apply Z; exact Fp|]. split; [apply Z; exact Fr|exact K3].
  - inversion Efill; subst.
    eexists. eexists. split; [exact Hfin|]. split; [exact Hkind|]. split; [reflexivity|]. cbn [s_variadic s_params s_results s_recv].
    split; [reflexivity|]. split; [apply Z; exact Fp|]. split; [apply Z; exact Fr|exact I].
Qed.

(* ---------- interface: method names with their signatures' objects ---------- *)
Theorem iface_faithful u use t tstr ms u' o :
  wf u -> canonical v2 u -> plookup t p = Some (tstr, SIface ms) ->
  walk v2 p (S f) u use t = Some (u', o) ->
  let nm := match use with Some n => n | None => name_of_string v2 tstr end in
  complete (fst (get_or_create v2 u nm)) (snd (get_or_create v2 u nm)) = false ->
  exists e, nlookup o (objs u') = Some e /\ e_kind e = s "Interface" /\
    Forall2 (fun m (x : str * name) => fst x = fst (fst m) /\ child_is v2 p (Some (name_of_string v2 (snd (fst m)))) (snd m) (snd x)) ms (e_methods e).
Proof.
  intros W Hc Ep H nm Hfresh. simpl in H. unfold walk_step in H. rewrite Ep in H. fold nm in H.
  match type of H with simple _ _ _ _ ?fill = _ => set (fl := fill) in * end.
  assert (Hf : forall u1 u2 g, fl u1 = Some (u2, g) -> ext u1 u2 /\ keeps_kind g) by (intros u1 u2 g; apply fill_iface; apply rec_ext).
  pose proof (simple_result _ _ _ _ _ _ W (ltac:(discriminate) : "Interface"%string <> ""%string) Hf H) as R. destruct (get_or_create v2 u nm) as [u0 o0] eqn:Eg. simpl in Hfresh.
  destruct (R Hfresh) as (-> & u2 & g & e2 & Efill & He2 & Hkind & Hfin). unfold fl in Efill.
  destruct (walk_methods v2 rec (update u0 o0 (set_kind "Interface")) ms) as [[ua r]|] eqn:E1; [|discriminate]. inversion Efill; subst.
  destruct (get_or_create_canon _ _ _ _ _ Hc Eg) as [C0 _].
  destruct (walk_methods_names _ _ _ _ (update_canon _ _ _ _ C0) E1) as [_ F].
  eexists. split; [exact Hfin|]. split; [exact Hkind|]. exact F.
Qed.
End Faithful.

(* the object any walk returns is the one its node denotes *)
Theorem walk_child_is v2 p : named_ok v2 p -> forall fuel u use t u' o, canonical v2 u ->
  walk v2 p fuel u use t = Some (u', o) -> canonical v2 u' /\ child_is v2 p use t o.
Proof. intros Hok fuel. exact (rec_canon v2 p Hok fuel). Qed.
