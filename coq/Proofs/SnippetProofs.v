Require Import Gengo.Base.Str Gengo.Base.Sexp Gengo.Model.Exec Gengo.Model.Snippet.

(* ---------- list update ---------- *)
Lemma nth_set_same {T} (l : list T) i x y : nth_error l i = Some y -> nth_error (set_nth l i x) i = Some x.
Proof. revert i. induction l as [|a l IH]; intros [|i]; simpl; try discriminate; auto. Qed.
Lemma nth_set_other {T} (l : list T) i j x : i <> j -> nth_error (set_nth l i x) j = nth_error l j.
Proof. revert i j. induction l as [|a l IH]; intros [|i] [|j] H; simpl; auto; try congruence. Qed.

Definition targets (o : op) (i : nat) : Prop :=
  match o with ODo j _ | OAppend j _ | OMerge j _ _ => j = i | ODup _ _ => False end.

(* ---------- sticky errors ---------- *)
(* a call on a snippet writer that already has an error changes nothing at all: no byte is
   written to any writer, no error changes *)
Theorem no_effect_after_error n wd o i x e :
  nth_error (sws wd) i = Some x -> sw_err x = Some e -> targets o i -> step n wd o = wd.
Proof.
  intros Hx He Ht. destruct o; simpl in Ht; try contradiction; subst; simpl; rewrite Hx.
  - rewrite He. reflexivity.
  - rewrite He. reflexivity.
  - destruct (nth_error (sws wd) other); [rewrite He|]; reflexivity.
Qed.

Lemma do_append_keeps wd j y content i x e :
  nth_error (sws wd) i = Some x -> sw_err x = Some e -> i <> j ->
  nth_error (sws (do_append wd j y content)) i = Some x.
Proof.
  intros Hx He Hij. unfold do_append. destruct content; auto.
  destruct (get_w wd (sw_w y)); auto. destruct (fw_write f (n :: content)) as [w' [k r]].
  destruct r; simpl; auto. rewrite nth_set_other; auto.
Qed.

(* whatever is called on whichever snippet writer, an error once recorded stays exactly that error *)
Theorem error_kept_step n wd o i x e :
  nth_error (sws wd) i = Some x -> sw_err x = Some e ->
  nth_error (sws (step n wd o)) i = Some x.
Proof.
  intros Hx He. destruct o as [j t|j c|j c k|j w]; simpl.
  - destruct (Nat.eq_dec j i) as [->|Hne].
    + rewrite Hx, He. exact Hx.
    + destruct (nth_error (sws wd) j) as [y|]; auto. destruct (sw_err y); auto.
      destruct (t_parse_err t); [simpl; rewrite nth_set_other; auto|].
      destruct (get_w wd (sw_w y)); auto. destruct (write_chunks f (t_chunks t)) as [w' r].
      destruct r; simpl; [rewrite nth_set_other; auto|]. destruct (t_exec_err t); simpl; auto. rewrite nth_set_other; auto.
  - destruct (Nat.eq_dec j i) as [->|Hne].
    + rewrite Hx, He. exact Hx.
    + destruct (nth_error (sws wd) j) as [y|]; auto. destruct (sw_err y); auto. apply do_append_keeps with e; auto.
  - destruct (Nat.eq_dec j i) as [->|Hne].
    + rewrite Hx. destruct (nth_error (sws wd) k); [rewrite He|]; exact Hx.
    + destruct (nth_error (sws wd) j) as [y|]; auto. destruct (nth_error (sws wd) k) as [z|]; auto.
      destruct (sw_err y); auto. destruct (sw_err z); [simpl; rewrite nth_set_other; auto|].
      apply do_append_keeps with e; auto.
  - destruct (nth_error (sws wd) j); auto. simpl. rewrite nth_error_app1; auto.
    apply nth_error_Some. congruence.
Qed.

Theorem error_kept_forever os : forall n wd i x e,
  nth_error (sws wd) i = Some x -> sw_err x = Some e ->
  Forall (fun wd' => nth_error (sws wd') i = Some x) (run_ops n wd os).
Proof.
  induction os as [|o os IH]; simpl; intros n wd i x e Hx He; constructor.
  - eapply error_kept_step; eauto.
  - eapply IH; eauto. eapply error_kept_step; eauto.
Qed.

(* ---------- Do means what the template engine means ---------- *)
Lemma write_chunks_ok : forall cs w w', write_chunks w cs = (w', None) -> fw_log w' = fw_log w ++ concat cs.
Proof.
  induction cs as [|c cs IH]; simpl; intros w w' H.
  - inversion H; subst. rewrite app_nil_r. reflexivity.
  - unfold fw_write in H. destruct (Nat.ltb (fw_count w) (fw_failat w)); [|discriminate].
    apply IH in H. rewrite H. simpl. rewrite <- app_assoc. reflexivity.
Qed.

(* on an error-free snippet writer whose destination accepts the writes, Do writes exactly the
   engine's bytes and records exactly the engine's error (parse errors write nothing) *)
Theorem do_is_template n wd i x t w :
  nth_error (sws wd) i = Some x -> sw_err x = None -> get_w wd (sw_w x) = Some w ->
  let wd' := step n wd (ODo i t) in
  if t_parse_err t then
    writers wd' = writers wd /\ (exists x', nth_error (sws wd') i = Some x' /\ sw_err x' = Some (STmpl n))
  else
    forall w', write_chunks w (t_chunks t) = (w', None) ->
    (exists w2, get_w wd' (sw_w x) = Some w2 /\ fw_log w2 = fw_log w ++ concat (t_chunks t)) /\
    (exists x', nth_error (sws wd') i = Some x' /\ sw_err x' = if t_exec_err t then Some (STmpl n) else None).
Proof.
  intros Hx He Hw. simpl. rewrite Hx, He. destruct (t_parse_err t).
  - simpl. split; auto. eexists. split; [eapply nth_set_same; eauto|reflexivity].
  - rewrite Hw. intros w' Hc. rewrite Hc. split.
    + exists w'. split; [|apply write_chunks_ok; auto].
      destruct (t_exec_err t); simpl; unfold get_w; simpl; eapply nth_set_same; eauto.
    + destruct (t_exec_err t); simpl.
      * eexists. split; [eapply nth_set_same; eauto|reflexivity].
      * exists x. auto.
Qed.

(* ---------- Dup and Merge preserve the accumulated error ---------- *)
Theorem dup_carries_error n wd i x w :
  nth_error (sws wd) i = Some x ->
  let wd' := step n wd (ODup i w) in
  writers wd' = writers wd /\ nth_error (sws wd') (length (sws wd)) = Some {| sw_w := w; sw_err := sw_err x |}.
Proof.
  intros Hx. simpl. rewrite Hx. simpl. split; auto.
  rewrite nth_error_app2, Nat.sub_diag by lia. reflexivity.
Qed.

Theorem merge_adopts_error n wd i j x y e content :
  nth_error (sws wd) i = Some x -> nth_error (sws wd) j = Some y -> sw_err x = None -> sw_err y = Some e ->
  let wd' := step n wd (OMerge i content j) in
  writers wd' = writers wd /\ nth_error (sws wd') i = Some {| sw_w := sw_w x; sw_err := Some e |}.
Proof.
  intros Hx Hy Hex Hey. simpl. rewrite Hx, Hy, Hex, Hey. simpl. split; auto. eapply nth_set_same; eauto.
Qed.

(* ---------- Args ---------- *)
Theorem args_with_v2_spec a k v k' :
  lookup k' (args_with_v2 a k v) = if str_eqb k' k then Some v else lookup k' a.
Proof.
  unfold args_with_v2. destruct (str_eqb_spec k' k) as [->|H].
  - apply lookup_set_same. - apply lookup_set_other; auto.
Qed.

Theorem args_with_v1_spec a k v k' :
  lookup k' (args_with_v1 a k v) = match lookup k' a with Some x => Some x | None => if str_eqb k' k then Some v else None end.
Proof.
  unfold args_with_v1. destruct (lookup k a) eqn:E.
  - destruct (lookup k' a) eqn:E'; auto. destruct (str_eqb_spec k' k); auto. subst. congruence.
  - destruct (str_eqb_spec k' k) as [->|H].
    + rewrite lookup_set_same, E. reflexivity.
    + rewrite lookup_set_other by auto. destruct (lookup k' a); auto.
Qed.

(* v2: on a clash the added value wins *)
Theorem args_withargs_v2_spec rhs : forall a k, NoDup (keys rhs) ->
  lookup k (args_withargs_v2 a rhs) = match lookup k rhs with Some v => Some v | None => lookup k a end.
Proof.
  unfold args_withargs_v2. induction rhs as [|[k0 v0] rhs IH]; simpl; intros a k Hnd; auto.
  inversion Hnd as [|? ? Hn Hd]; subst. rewrite IH by auto.
  destruct (str_eqb_spec k k0) as [->|Hne].
  - assert (Hl : lookup k0 rhs = None) by (apply lookup_None_notin; auto). rewrite Hl. apply lookup_set_same.
  - destruct (lookup k rhs); auto. apply lookup_set_other; auto.
Qed.
