(* C20: the predicates of types.Type on the universe model *)
Require Import Gengo.Base.Str Gengo.Base.Sexp Gengo.Base.StrOrder Gengo.Model.Universe Gengo.Proofs.UniverseProofs.

Definition ref_kinds : list str := map s ["Pointer"; "Map"; "Slice"; "Chan"; "Func"; "Interface"]%string.

(* a type "contains a reference": itself one of the reference kinds, or a struct with such a
   member, a defined type (Alias) over such a type, or an array of such elements *)
Inductive has_ref (u : univ) : name -> Prop :=
| hr_kind o : In (kind_of u o) ref_kinds -> has_ref u o
| hr_member o e m : nlookup o (objs u) = Some e -> e_kind e = s "Struct" -> In m (e_members e) ->
                    has_ref u (snd m) -> has_ref u o
| hr_under o e x : nlookup o (objs u) = Some e -> e_kind e = s "Alias" -> e_under e = Some x ->
                   has_ref u x -> has_ref u o
| hr_elem o e x : nlookup o (objs u) = Some e -> e_kind e = s "Array" -> e_elem e = Some x ->
                  has_ref u x -> has_ref u o.

Ltac kdisc :=
  match goal with
  | H1 : ?a = s _, H2 : ?a = s _ |- _ => rewrite H1 in H2; vm_compute in H2; discriminate
  | H1 : ?a = s _, H2 : In ?a ref_kinds |- _ => rewrite H1 in H2; vm_compute in H2; intuition discriminate
  end.

Lemma kind_of_lookup u o e : nlookup o (objs u) = Some e -> kind_of u o = e_kind e.
Proof. intros H. unfold kind_of. rewrite H. reflexivity. Qed.

Lemma builtin_no_ref u x : kind_of u x = s "Builtin" -> ~ has_ref u x.
Proof.
  intros Hk Hr. inversion Hr as [o Hin|o e m He Hs _ _|o e y He Hs _ _|o e y He Hs _ _]; subst.
  - kdisc.
  - rewrite (kind_of_lookup _ _ _ He) in Hk. kdisc.
  - rewrite (kind_of_lookup _ _ _ He) in Hk. kdisc.
  - rewrite (kind_of_lookup _ _ _ He) in Hk. kdisc.
Qed.

(* IsPrimitive: exactly a builtin, or a defined type (Alias kind) whose underlying type is one *)
Definition primitive (u : univ) (o : name) : Prop :=
  exists e, nlookup o (objs u) = Some e /\
    (e_kind e = s "Builtin" \/ (e_kind e = s "Alias" /\ exists x, e_under e = Some x /\ kind_of u x = s "Builtin")).
Theorem is_primitive_iff u o : is_primitive u o = true <-> primitive u o.
Proof.
  unfold is_primitive, primitive. split.
  - destruct (nlookup o (objs u)) as [e|]; [|discriminate]. intros H. exists e. split; [reflexivity|].
    apply orb_true_iff in H. destruct H as [H|H].
    + left. destruct (str_eqb_spec (e_kind e) (s "Builtin")); [assumption|discriminate].
    + right. apply andb_true_iff in H. destruct H as [H1 H2].
      destruct (str_eqb_spec (e_kind e) (s "Alias")); [|discriminate]. split; [assumption|].
      destruct (e_under e) as [x|]; [|discriminate]. exists x. split; [reflexivity|].
      destruct (str_eqb_spec (kind_of u x) (s "Builtin")); [assumption|discriminate].
  - intros (e & He & H). rewrite He. destruct H as [H|(H & x & Hx & Hk)].
    + rewrite H. reflexivity.
    + rewrite H, Hx, Hk. reflexivity.
Qed.

Lemma primitive_no_ref u o : primitive u o -> ~ has_ref u o.
Proof.
  intros (e & He & H) Hr. destruct H as [H|(H & x & Hx & Hk)].
  - apply (builtin_no_ref u o); [rewrite (kind_of_lookup _ _ _ He); exact H|exact Hr].
  - inversion Hr as [o' Hin|o' e' m He' Hs _ _|o' e' y He' Hs Hu Hy|o' e' y He' Hs _ _]; subst.
    + rewrite (kind_of_lookup _ _ _ He) in Hin. kdisc.
    + rewrite He in He'. inversion He'; subst. kdisc.
    + rewrite He in He'. inversion He'; subst. rewrite Hx in Hu. inversion Hu; subst.
      exact (builtin_no_ref _ _ Hk Hy).
    + rewrite He in He'. inversion He'; subst. kdisc.
Qed.

Lemma fold_all_true {A} (g : A -> option bool) : forall l init,
  fold_left (fun acc m => match acc with Some true => g m | other => other end) l init = Some true ->
  init = Some true /\ forall m, In m l -> g m = Some true.
Proof.
  induction l as [|a l IH]; intros init H; simpl in H.
  - split; [exact H|intros m []].
  - destruct (IH _ H) as [H1 H2]. destruct init as [[|]|]; try discriminate.
    split; [reflexivity|]. intros m [<-|Hm]; auto.
Qed.

(* IsAssignable is sound: a type reported assignable contains no pointer, map, slice, channel,
   function or interface anywhere inside it; so plain assignment copies it completely *)
Theorem is_assignable_sound u : forall fuel o, is_assignable fuel u o = Some true -> ~ has_ref u o.
Proof.
  induction fuel as [|f IH]; intros o H; [discriminate|]. simpl in H.
  destruct (is_primitive u o) eqn:Ep; [apply primitive_no_ref, is_primitive_iff, Ep|].
  destruct (nlookup o (objs u)) as [e|] eqn:He; [|discriminate].
  destruct (str_eqb_spec (e_kind e) (s "Struct")) as [Hs|]; [|discriminate].
  apply fold_all_true in H. destruct H as [_ Hall].
  intros Hr. inversion Hr as [o' Hin|o' e' m He' Hs' Hm Hrm|o' e' y He' Hs' _ _|o' e' y He' Hs' _ _]; subst.
  - rewrite (kind_of_lookup _ _ _ He) in Hin. kdisc.
  - rewrite He in He'. inversion He'; subst. exact (IH _ (Hall _ Hm) Hrm).
  - rewrite He in He'. inversion He'; subst. kdisc.
  - rewrite He in He'. inversion He'; subst. kdisc.
Qed.

(* IsAnonymousStruct *)
Inductive anon_struct (u : univ) : name -> Prop :=
| an_lit o e : nlookup o (objs u) = Some e -> e_kind e = s "Struct" -> snd (e_name e) = s "struct{}" -> anon_struct u o
| an_alias o e x : nlookup o (objs u) = Some e -> e_kind e = s "Alias" -> e_under e = Some x -> anon_struct u x -> anon_struct u o.

Theorem is_anonymous_struct_sound u : forall fuel o, is_anonymous_struct fuel u o = Some true -> anon_struct u o.
Proof.
  induction fuel as [|f IH]; intros o H; [discriminate|]. simpl in H.
  destruct (nlookup o (objs u)) as [e|] eqn:He; [|discriminate].
  destruct (str_eqb_spec (e_kind e) (s "Struct")) as [Hs|Hs]; simpl in H.
  - destruct (str_eqb_spec (snd (e_name e)) (s "struct{}")) as [Hn|Hn].
    + eapply an_lit; eauto.
    + destruct (str_eqb_spec (e_kind e) (s "Alias")) as [Ha|]; [kdisc|discriminate].
  - destruct (str_eqb_spec (e_kind e) (s "Alias")) as [Ha|]; [|discriminate].
    destruct (e_under e) as [x|] eqn:Hu; [|discriminate]. eapply an_alias; eauto.
Qed.
(* no struct with another name (in particular no named struct) is reported anonymous *)
Theorem named_struct_not_anonymous u f o e :
  nlookup o (objs u) = Some e -> e_kind e = s "Struct" -> snd (e_name e) <> s "struct{}" ->
  is_anonymous_struct (S f) u o = Some false.
Proof.
  intros He Hs Hn. simpl. rewrite He, Hs.
  destruct (str_eqb_spec (snd (e_name e)) (s "struct{}")); [contradiction|]. reflexivity.
Qed.
Theorem empty_struct_literal_anonymous u f o e :
  nlookup o (objs u) = Some e -> e_kind e = s "Struct" -> snd (e_name e) = s "struct{}" ->
  is_anonymous_struct (S f) u o = Some true.
Proof. intros He Hs Hn. simpl. rewrite He, Hs, Hn. reflexivity. Qed.

(* non-vacuity: a universe with a struct of two builtins is assignable; with a pointer member it is not *)
Definition ex_u : univ :=
  {| objs := [(([], s "int"), blank ([], s "int") (s "Builtin"));
              (([], s "*int"), with_elem ([], s "int") (blank ([], s "*int") (s "Pointer")));
              ((s "p", s "A"), with_members [(s "X", false, [], ([], s "int")); (s "Y", false, [], ([], s "int"))] (blank (s "p", s "A") (s "Struct")));
              ((s "p", s "B"), with_members [(s "X", false, [], ([], s "int")); (s "P", false, [], ([], s "*int"))] (blank (s "p", s "B") (s "Struct")))];
     tkeys := [] |}.
Example ex_assignable : is_assignable 5 ex_u (s "p", s "A") = Some true /\ is_assignable 5 ex_u (s "p", s "B") = Some false.
Proof. split; vm_compute; reflexivity. Qed.
Example ex_has_ref : has_ref ex_u (s "p", s "B").
Proof.
  eapply hr_member with (m := (s "P", false, [], ([], s "*int"))); [vm_compute; reflexivity|reflexivity|right; left; reflexivity|].
  apply hr_kind. vm_compute. auto.
Qed.
