(* C17 (struct keys): what types.FlattenMembers returns.  The struct's own members come first, in
   declaration order; after them the promoted members of the embedded structs, each name once;
   every name of an embedded struct's flattened members is present; no name occurs twice. *)
Require Import Gengo.Base.Str Gengo.Base.Sexp Gengo.Model.Flatten.

Definition names (l : list mem) : list str := map m_name l.
Definition own (ms : list mem) : list mem := filter (fun m => negb (promoted m)) ms.

Lemma NoDup_app_intro {A} (a b : list A) : NoDup a -> NoDup b -> (forall x, In x a -> In x b -> False) -> NoDup (a ++ b).
Proof.
  induction a as [|x a IH]; intros Ha Hb Hd; simpl; [exact Hb|]. inversion Ha; subst. constructor.
  - intros Hc. apply in_app_iff in Hc. destruct Hc as [Hc|Hc]; [contradiction|]. exact (Hd x (or_introl eq_refl) Hc).
  - apply IH; [assumption|exact Hb|]. intros y Hy. apply Hd. right. exact Hy.
Qed.

(* the bookkeeping map knows exactly the names collected so far *)
Definition tracks (normal : list mem) (nm : amap info) : Prop :=
  forall n, lookup n nm <> None <-> In n (names normal).

Lemma tracks_add normal nm m v : tracks normal nm -> tracks (normal ++ [m]) (set (m_name m) v nm).
Proof.
  intros T n. unfold names. rewrite map_app, in_app_iff. cbn [map In]. destruct (str_eqb_spec n (m_name m)) as [->|Hne].
  - rewrite lookup_set_same. split; [intros _; right; left; reflexivity|intros _; discriminate].
  - rewrite lookup_set_other by exact Hne. rewrite (T n). unfold names. split; [intros H; left; exact H|].
    intros [H|[H|[]]]; [exact H|congruence].
Qed.

(* ---------- the first loop ---------- *)
Lemma split_members_spec : forall ms normal nm,
  tracks normal nm ->
  fst (split_members ms normal nm) = normal ++ own ms /\ tracks (fst (split_members ms normal nm)) (snd (split_members ms normal nm)).
Proof.
  induction ms as [|m ms IH]; intros normal nm T; cbn [split_members own filter].
  - rewrite app_nil_r. split; [reflexivity|exact T].
  - destruct (promoted m); cbn [negb].
    + apply IH, T.
    + destruct (IH (normal ++ [m]) (set (m_name m) (true, length normal) nm) (tracks_add _ _ _ _ T)) as [E T'].
      split; [rewrite E, <- app_assoc; reflexivity|exact T'].
Qed.

(* ---------- the second loop, one embedded struct ---------- *)
Lemma add_sub_spec : forall sub normal nm normal' nm',
  tracks normal nm -> add_sub sub normal nm = Some (normal', nm') ->
  tracks normal' nm' /\
  (exists extra, normal' = normal ++ extra /\ (forall x, In x extra -> In x sub) /\
                 (forall x, In x extra -> ~ In (m_name x) (names normal)) /\ NoDup (names extra)) /\
  (forall x, In x sub -> In (m_name x) (names normal')).
Proof.
  induction sub as [|e sub IH]; intros normal nm normal' nm' T H; cbn [add_sub] in H.
  - injection H as <- <-. split; [exact T|]. split; [|intros x []].
    exists []. rewrite app_nil_r. split; [reflexivity|]. split; [intros x []|]. split; [intros x []|constructor].
  - destruct (lookup (m_name e) nm) as [[top i]|] eqn:El.
    + assert (Hin : In (m_name e) (names normal)) by (apply T; rewrite El; discriminate).
      assert (Hrest : add_sub sub normal nm = Some (normal', nm')).
      { destruct top; [exact H|]. destruct (nth_error normal i) as [n|]; [|discriminate].
        destruct (str_eqb (m_name n) (m_name e) && N.eqb (ty_id (m_ty n)) (ty_id (m_ty e))); [exact H|discriminate]. }
      destruct (IH _ _ _ _ T Hrest) as (T' & (extra & E & S1 & S2 & S3) & Call).
      split; [exact T'|]. split.
      * exists extra. split; [exact E|]. split; [intros x Hx; right; apply S1, Hx|]. split; [exact S2|exact S3].
      * intros x [<-|Hx]; [|apply Call, Hx]. rewrite E. unfold names. rewrite map_app, in_app_iff. left. exact Hin.
    + assert (Hnot : ~ In (m_name e) (names normal)) by (intros Hc; apply T in Hc; apply Hc; exact El).
      destruct (IH _ _ _ _ (tracks_add _ _ e (false, length normal) T) H) as (T' & (extra & E & S1 & S2 & S3) & Call).
      split; [exact T'|]. split.
      * exists (e :: extra). split; [rewrite E, <- app_assoc; reflexivity|]. split.
        { intros x [<-|Hx]; [left; reflexivity|right; apply S1, Hx]. }
        split.
        { intros x [<-|Hx]; [exact Hnot|]. intros Hc. apply (S2 x Hx). unfold names. rewrite map_app, in_app_iff. left. exact Hc. }
        cbn [names map]. constructor; [|exact S3]. intros Hc. apply in_map_iff in Hc. destruct Hc as (x & Ex & Hx).
        apply (S2 x Hx). rewrite Ex. unfold names. rewrite map_app, in_app_iff. right. left. reflexivity.
      * intros x [<-|Hx]; [|apply Call, Hx]. rewrite E. unfold names. rewrite !map_app, !in_app_iff. left. right. left. reflexivity.
Qed.

(* ---------- all embedded structs ---------- *)
Lemma add_subs_spec : forall subs normal nm r,
  tracks normal nm -> add_subs subs normal nm = Some r ->
  (exists extra, r = normal ++ extra /\
     (forall x, In x extra -> exists sub, In (Some sub) subs /\ In x sub) /\
     (forall x, In x extra -> ~ In (m_name x) (names normal)) /\ NoDup (names extra)) /\
  (forall sub x, In (Some sub) subs -> In x sub -> In (m_name x) (names r)) /\
  ~ In None subs.
Proof.
  induction subs as [|[sub|] subs IH]; intros normal nm r T H; cbn [add_subs] in H; [| |discriminate].
  - injection H as <-. split; [|split; [intros sub x []|intros []]].
    exists []. rewrite app_nil_r. split; [reflexivity|]. split; [intros x []|]. split; [intros x []|constructor].
  - destruct (add_sub sub normal nm) as [[normal1 nm1]|] eqn:E1; [|discriminate].
    destruct (add_sub_spec _ _ _ _ _ T E1) as (T1 & (ex1 & En1 & A1 & B1 & D1) & Call1).
    destruct (IH _ _ _ T1 H) as ((ex2 & En2 & A2 & B2 & D2) & Call2 & Nn).
    split; [|split].
    + exists (ex1 ++ ex2). split; [rewrite En2, En1, <- app_assoc; reflexivity|]. split.
      { intros x Hx. apply in_app_iff in Hx. destruct Hx as [Hx|Hx].
        - exists sub. split; [left; reflexivity|apply A1, Hx].
        - destruct (A2 x Hx) as (s2 & Hs & Hi). exists s2. split; [right; exact Hs|exact Hi]. }
      split.
      { intros x Hx. apply in_app_iff in Hx. destruct Hx as [Hx|Hx]; [apply B1, Hx|].
        intros Hc. apply (B2 x Hx). rewrite En1. unfold names. rewrite map_app, in_app_iff. left. exact Hc. }
      unfold names. rewrite map_app. apply NoDup_app_intro; [exact D1|exact D2|].
      intros n Hn1 Hn2. apply in_map_iff in Hn2. destruct Hn2 as (x & Ex & Hx).
      apply (B2 x Hx). rewrite Ex, En1. unfold names. rewrite map_app, in_app_iff. right. exact Hn1.
    + intros s0 x [Es|Hs] Hx.
      * injection Es as <-. pose proof (Call1 x Hx) as Hin. rewrite En2. unfold names. rewrite map_app, in_app_iff. left. exact Hin.
      * exact (Call2 s0 x Hs Hx).
    + intros [Hc|Hc]; [discriminate|exact (Nn Hc)].
Qed.

(* ---------- FlattenMembers ---------- *)
Definition subs_of (ms : list mem) : list (option (list mem)) := map (fun m => flat_ty (m_ty m)) (filter promoted ms).

Lemma flat_ty_unfold i ms :
  flat_ty (TStruct i ms) = let '(normal, nm) := split_members ms [] [] in add_subs (subs_of ms) normal nm.
Proof.
  cbn [flat_ty]. replace ((fix go (l : list mem) : list (option (list mem)) :=
     match l with [] => [] | m :: l' => if promoted m then flat_ty (snd m) :: go l' else go l' end) ms) with (subs_of ms); [reflexivity|].
  unfold subs_of. induction ms as [|m ms IH]; [reflexivity|]. cbn [filter map]. destruct (promoted m); cbn [map]; rewrite IH; reflexivity.
Qed.

Lemma tracks_empty : tracks [] [].
Proof. intros n. split; [intros H; exfalso; apply H; reflexivity|intros []]. Qed.

Lemma in_subs_of ms sub : In (Some sub) (subs_of ms) <-> exists m, In m ms /\ promoted m = true /\ flat_ty (m_ty m) = Some sub.
Proof.
  unfold subs_of. rewrite in_map_iff. split.
  - intros (m & E & Hm). apply filter_In in Hm. exists m. tauto.
  - intros (m & Hin & Hp & E). exists m. split; [exact E|apply filter_In; tauto].
Qed.

(* the struct's own members first, in declaration order; then promoted members, each a flattened
   member of an embedded struct, under a name not seen before; every flattened member of every
   embedded struct is represented by name; and the call panics only if a nested call does or two
   promoted members conflict *)
Theorem flatten_spec i ms r : flat_ty (TStruct i ms) = Some r ->
  (exists extra, r = own ms ++ extra /\
     (forall x, In x extra -> exists m sub, In m ms /\ promoted m = true /\ flat_ty (m_ty m) = Some sub /\ In x sub) /\
     (forall x, In x extra -> ~ In (m_name x) (names (own ms))) /\ NoDup (names extra)) /\
  (forall m sub x, In m ms -> promoted m = true -> flat_ty (m_ty m) = Some sub -> In x sub -> In (m_name x) (names r)).
Proof.
  rewrite flat_ty_unfold. destruct (split_members_spec ms [] [] tracks_empty) as [E T].
  destruct (split_members ms [] []) as [normal nm]. cbn [fst snd app] in E, T. subst normal. intros H.
  destruct (add_subs_spec _ _ _ _ T H) as ((extra & Er & A & B & D) & Call & _).
  split.
  - exists extra. split; [exact Er|]. split; [|split; [exact B|exact D]].
    intros x Hx. destruct (A x Hx) as (sub & Hs & Hi). apply in_subs_of in Hs. destruct Hs as (m & Hm & Hp & Ef).
    exists m, sub. tauto.
  - intros m sub x Hm Hp Ef Hx. apply (Call sub x); [apply in_subs_of; exists m; tauto|exact Hx].
Qed.

(* no field name twice: lessBody compares every flattened field exactly once *)
Theorem flatten_names_NoDup i ms r : flat_ty (TStruct i ms) = Some r -> NoDup (names (own ms)) -> NoDup (names r).
Proof.
  intros H Hown. destruct (flatten_spec i ms r H) as ((extra & -> & _ & B & D) & _).
  unfold names. rewrite map_app. apply NoDup_app_intro; [exact Hown|exact D|].
  intros n Hn1 Hn2. apply in_map_iff in Hn2. destruct Hn2 as (x & <- & Hx). exact (B x Hx Hn1).
Qed.

(* a struct without embedded structs is returned as it is *)
Lemma filter_promoted_nil : forall ms : list mem, (forall m, In m ms -> promoted m = false) -> filter promoted ms = [] /\ own ms = ms.
Proof.
  induction ms as [|m ms IH]; intros Hp; [split; reflexivity|]. unfold own in *. cbn [filter].
  rewrite (Hp m (or_introl eq_refl)). cbn [negb]. destruct (IH (fun m' Hm' => Hp m' (or_intror Hm'))) as [E1 E2].
  split; [exact E1|f_equal; exact E2].
Qed.
Theorem flatten_plain i ms : (forall m, In m ms -> promoted m = false) -> flat_ty (TStruct i ms) = Some ms.
Proof.
  intros Hp. rewrite flat_ty_unfold. destruct (split_members_spec ms [] [] tracks_empty) as [E _].
  destruct (split_members ms [] []) as [normal nm]. cbn [fst app] in E. subst normal.
  destruct (filter_promoted_nil ms Hp) as [E1 E2]. unfold subs_of. rewrite E1, E2. reflexivity.
Qed.

(* ---------- the generated less function is a strict total order on tuples of one length ---------- *)
From Coq Require Import NArith Lia.
Lemma less_irrefl : forall a, less_body a a = false.
Proof. induction a as [|x a IH]; [reflexivity|]. cbn [less_body]. rewrite N.ltb_irrefl. exact IH. Qed.
Lemma less_asym : forall a b, less_body a b = true -> less_body b a = false.
Proof.
  induction a as [|x a IH]; intros [|y b] H; cbn [less_body] in *; try discriminate; try reflexivity.
  destruct (N.ltb_spec x y) as [Hxy|Hxy].
  - destruct (N.ltb_spec y x); [lia|]. destruct (N.ltb_spec x y); [reflexivity|lia].
  - destruct (N.ltb_spec y x) as [Hyx|Hyx]; [discriminate|]. apply IH, H.
Qed.
Lemma less_trans : forall a b c, less_body a b = true -> less_body b c = true -> less_body a c = true.
Proof.
  induction a as [|x a IH]; intros [|y b] [|z c] H1 H2; cbn [less_body] in *; try discriminate.
  destruct (N.ltb_spec x y) as [Hxy|Hxy]; destruct (N.ltb_spec y z) as [Hyz|Hyz].
  - destruct (N.ltb_spec x z); [reflexivity|lia].
  - destruct (N.ltb_spec z y); [discriminate|]. destruct (N.ltb_spec x z); [reflexivity|lia].
  - destruct (N.ltb_spec y x); [discriminate|]. destruct (N.ltb_spec x z); [reflexivity|lia].
  - destruct (N.ltb_spec y x); [discriminate|]. destruct (N.ltb_spec z y); [discriminate|].
    destruct (N.ltb_spec x z); [reflexivity|]. destruct (N.ltb_spec z x); [lia|]. eapply IH; eauto.
Qed.
Lemma less_total : forall a b, length a = length b -> a <> b -> less_body a b = true \/ less_body b a = true.
Proof.
  induction a as [|x a IH]; intros [|y b] Hl Hne; cbn [length] in Hl; try discriminate; [congruence|].
  cbn [less_body]. destruct (N.ltb_spec x y) as [Hxy|Hxy]; [left; reflexivity|].
  destruct (N.ltb_spec y x) as [Hyx|Hyx]; [right; reflexivity|].
  assert (x = y) by lia. subst y. destruct (N.ltb_spec x x); [lia|].
  apply IH; [lia|congruence].
Qed.
(* ... and it is total only if every field is compared: two keys that differ in a field the function
   does not look at are neither less nor greater *)
Lemma less_ignoring_a_field_ties : forall pre x y, x <> y ->
  less_body pre pre = false /\ (pre ++ [x]) <> (pre ++ [y]).
Proof. intros pre x y Hne. split; [apply less_irrefl|]. intros H. apply app_inv_head in H. congruence. Qed.
