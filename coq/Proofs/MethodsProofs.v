(* An entry that carries methods has had its kind decided: methods are attached only to entries
   that have been marked.  Hence an undecided entry (a placeholder) never carries methods, which is
   the side condition of AliasProofs.alias_faithful. *)
Require Import Gengo.Base.Str Gengo.Base.Sexp Gengo.Base.StrOrder Gengo.Model.Universe
               Gengo.Proofs.UniverseProofs Gengo.Proofs.CanonProofs Gengo.Proofs.FaithfulProofs Gengo.Proofs.TerminationProofs.

(* the general form: a property Q of undecided entries that holds of blank entries *)
Section Placeholder.
Variable Q : name -> entry -> Prop.
Hypothesis Qblank : forall o, Q o (blank o []).

Definition pinv (u : univ) : Prop := forall o e, nlookup o (objs u) = Some e -> e_kind e = [] -> Q o e.

Lemma pinv_empty : pinv {| objs := []; tkeys := [] |}.
Proof. intros o e H. discriminate. Qed.

Lemma get_or_create_pinv v2 u n u1 o : pinv u -> get_or_create v2 u n = (u1, o) -> pinv u1.
Proof.
  intros M. unfold get_or_create. destruct (nlookup n (tkeys u)) as [o0|].
  - intros H; inversion H; subst. exact M.
  - destruct (if str_eqb (fst n) [] then builtin_of v2 (snd n) else None) as [[bn bk]|];
      intros H; injection H as <- <-; intros o' e L Hm; simpl in L;
      match type of L with nlookup _ (match nlookup ?ob _ with _ => _ end) = _ =>
        destruct (nlookup ob (objs u)) eqn:Eo; [exact (M _ _ L Hm)|];
        destruct (name_eqb_spec o' ob) as [->|Hne];
        [rewrite nlookup_nset_same in L; injection L as <-; simpl in Hm; try subst bk; apply Qblank
        |rewrite nlookup_nset_other in L by exact Hne; exact (M _ _ L Hm)] end.
Qed.

(* an update whose result at o has a decided kind cannot break the invariant *)
Lemma update_pinv u o g : pinv u -> (forall e, nlookup o (objs u) = Some e -> e_kind (g e) <> []) -> pinv (update u o g).
Proof.
  intros M Hg o' e' L Hk. unfold update in L. destruct (nlookup o (objs u)) as [e|] eqn:Eo; [|exact (M _ _ L Hk)].
  simpl in L. destruct (name_eqb_spec o' o) as [->|Hne].
  - rewrite nlookup_nset_same in L. injection L as <-. exfalso. exact (Hg e eq_refl Hk).
  - rewrite nlookup_nset_other in L by exact Hne. exact (M _ _ L Hk).
Qed.
Lemma update_pinv_decided u o g : pinv u -> keeps_kind g -> complete u o = true -> pinv (update u o g).
Proof.
  intros M Hg Hc. apply update_pinv; [exact M|]. intros e L. rewrite Hg.
  unfold complete, kind_of in Hc. rewrite L in Hc. destruct (str_eqb_spec (e_kind e) []) as [E|]; [discriminate|assumption].
Qed.
Lemma update_pinv_set_kind u o k : pinv u -> k <> ""%string -> pinv (update u o (set_kind k)).
Proof. intros M Hk. apply update_pinv; [exact M|]. intros e _. simpl. apply s_nonempty, Hk. Qed.

Notation mcomplete := pinv.

Section Methods.
Variable v2 : bool.
Variable p : prog.
Hypothesis Hok : named_ok v2 p.
Variable f : nat.
Notation rec := (walk v2 p f).
Hypothesis IHm : forall u use t u' o, wf u -> canonical v2 u -> mcomplete u -> rec u use t = Some (u', o) -> mcomplete u'.

Definition inv (u : univ) : Prop := wf u /\ canonical v2 u /\ mcomplete u.

Lemma rec_inv3 : forall u use t u' o, inv u -> rec u use t = Some (u', o) -> inv u' /\ ext u u'.
Proof.
  intros u use t u' o (W & C & M) H. pose proof (walk_ext _ _ _ _ _ _ _ _ H) as E.
  split; [|exact E]. split; [exact (wf_ext _ _ E W)|]. split; [|eapply IHm; eauto].
  destruct (walk_canonical v2 p Hok _ _ _ _ _ _ C H); auto.
Qed.
Lemma walk_list_inv : forall l u u' ns, inv u -> walk_list rec u l = Some (u', ns) -> inv u' /\ ext u u'.
Proof.
  induction l as [|x l IH]; intros u u' ns I H; simpl in H.
  - inversion H; subst. split; [exact I|apply ext_refl].
  - destruct (rec u None x) as [[u1 n1]|] eqn:E1; [|discriminate].
    destruct (walk_list rec u1 l) as [[u2 ns2]|] eqn:E2; [|discriminate]. inversion H; subst.
    destruct (rec_inv3 _ _ _ _ _ I E1) as [I1 X1]. destruct (IH _ _ _ I1 E2) as [I2 X2].
    split; [exact I2|eapply ext_trans; eauto].
Qed.
Lemma walk_methods_inv : forall ms u u' r, inv u -> walk_methods v2 rec u ms = Some (u', r) -> inv u' /\ ext u u'.
Proof.
  induction ms as [|[[mn mstr] sg] ms IH]; intros u u' r I H; simpl in H.
  - inversion H; subst. split; [exact I|apply ext_refl].
  - destruct (rec u (Some (name_of_string v2 mstr)) sg) as [[u1 n1]|] eqn:E1; [|discriminate].
    destruct (walk_methods v2 rec u1 ms) as [[u2 r2]|] eqn:E2; [|discriminate]. inversion H; subst.
    destruct (rec_inv3 _ _ _ _ _ I E1) as [I1 X1]. destruct (IH _ _ _ I1 E2) as [I2 X2].
    split; [exact I2|eapply ext_trans; eauto].
Qed.

Lemma inv_goc u n u0 o : inv u -> get_or_create v2 u n = (u0, o) -> inv u0.
Proof.
  intros (W & C & M) Eg. split; [exact (wf_ext _ _ (get_or_create_ext _ _ _ _ _ Eg) W)|].
  split; [destruct (get_or_create_canon _ _ _ _ _ C Eg); auto|eapply get_or_create_pinv; eauto].
Qed.
Lemma inv_set_kind u o k : inv u -> k <> ""%string -> inv (update u o (set_kind k)).
Proof. intros (W & C & M) Hk. split; [apply wf_update, W|]. split; [apply update_canon, C|apply update_pinv_set_kind; auto]. Qed.
Lemma inv_update_decided u o g : inv u -> keeps_kind g -> complete u o = true -> inv (update u o g).
Proof. intros (W & C & M) Hg Hc. split; [apply wf_update, W|]. split; [apply update_canon, C|apply update_pinv_decided; auto]. Qed.

Lemma simple_m u nm k fill u' o : inv u -> k <> ""%string ->
  (forall u1 u2 g, inv u1 -> fill u1 = Some (u2, g) -> inv u2 /\ ext u1 u2 /\ keeps_kind g) ->
  simple v2 u nm k fill = Some (u', o) -> inv u'.
Proof.
  intros I Hk Hf. unfold simple. destruct (get_or_create v2 u nm) as [u0 o0] eqn:Eg.
  pose proof (inv_goc _ _ _ _ I Eg) as I0.
  destruct (complete u0 o0) eqn:Ec; [intros H; inversion H; subst; exact I0|].
  destruct (fill (update u0 o0 (set_kind k))) as [[u2 g]|] eqn:Ef; [|discriminate].
  intros H; inversion H; subst. pose proof (inv_set_kind _ o k I0 Hk) as I1.
  destruct (Hf _ _ _ I1 Ef) as (I2 & X2 & Kg). apply inv_update_decided; [exact I2|exact Kg|].
  destruct I0 as (W0 & _ & _). destruct (W0 _ _ (get_or_create_key _ _ _ _ _ Eg)) as [e0 He0].
  eapply ext_complete; [exact X2|]. eapply complete_kind; [exact Hk|eapply update_set_kind_kind; eauto].
Qed.

Lemma attach_m u1 o ms u' o' : inv u1 -> complete u1 o = true -> attach v2 rec (Some (u1, o)) ms = Some (u', o') -> inv u'.
Proof.
  intros I Hc. unfold attach.
  destruct (nlookup o (objs u1)) as [e|]; [|intros H; inversion H; subst; exact I].
  destruct (e_methods e); [|intros H; inversion H; subst; exact I].
  destruct (walk_methods v2 rec u1 ms) as [[u2 r2]|] eqn:Em; [|discriminate].
  intros H; inversion H; subst. destruct (walk_methods_inv _ _ _ _ I Em) as [I2 X2].
  apply inv_update_decided; [exact I2|auto with kk|eapply ext_complete; eauto].
Qed.

Ltac one_child :=
  let u1 := fresh "u1" in let u2 := fresh "u2" in let g := fresh "g" in let I := fresh "I" in let H := fresh "H" in
  intros u1 u2 g I H; cbv beta in H;
  match type of H with
  | match rec ?a ?b ?c with _ => _ end = _ =>
      let E := fresh "E" in destruct (rec a b c) as [[? ?]|] eqn:E; [|discriminate];
      inversion H; subst; destruct (rec_inv3 _ _ _ _ _ I E); split; [assumption|split; [assumption|auto with kk]]
  end.

Lemma decided_by_rec u0 nmg under' u1 o1 : inv u0 ->
  (exists ts sh, plookup under' p = Some (ts, sh) /\ composite sh = true) ->
  rec u0 (Some nmg) under' = Some (u1, o1) -> o1 = canon v2 nmg /\ complete u1 (canon v2 nmg) = true.
Proof.
  intros (W & C & _) (ts & sh & Epu & Hcomp) E1. split.
  - destruct (walk_canonical v2 p Hok _ _ _ _ _ _ C E1) as [_ K]. apply K. unfold node_key. rewrite Epu.
    destruct sh; try discriminate; reflexivity.
  - destruct f as [|f']; [discriminate|]. simpl in E1.
    destruct (composite_decides v2 p f' _ _ _ _ _ _ _ Epu Hcomp W C E1) as [_ D]. exact D.
Qed.

Lemma walk_step_m u use t u' o : inv u -> walk_step v2 p rec u use t = Some (u', o) -> inv u'.
Proof.
  intros I. unfold walk_step. destruct (plookup t p) as [[tstr sh]|] eqn:Ep; [|discriminate].
  set (nm := match use with Some n => n | None => name_of_string v2 tstr end). clearbody nm.
  destruct sh as [n|e|e|len e|k e|e|fs|ms|ps rs vr recv|cls under ms tps origin| |].
  - destruct (get_or_create v2 u ([], n)) as [u0 o0] eqn:Eg. pose proof (inv_goc _ _ _ _ I Eg) as I0.
    destruct (complete u0 o0) eqn:Ec; intros H; inversion H; subst; [exact I0|]. apply inv_set_kind; [exact I0|discriminate].
  - apply simple_m; [exact I|discriminate|one_child].
  - apply simple_m; [exact I|discriminate|one_child].
  - apply simple_m; [exact I|discriminate|one_child].
  - apply simple_m; [exact I|discriminate|]. intros u1 u2 g I1 H. cbv beta in H.
    destruct (rec u1 None e) as [[ua ne]|] eqn:E1; [|discriminate].
    destruct (rec ua None k) as [[ub nk]|] eqn:E2; [|discriminate]. inversion H; subst.
    destruct (rec_inv3 _ _ _ _ _ I1 E1) as [Ia Xa]. destruct (rec_inv3 _ _ _ _ _ Ia E2) as [Ib Xb].
    split; [exact Ib|]. split; [eapply ext_trans; eauto|auto with kk].
  - apply simple_m; [exact I|discriminate|one_child].
  - apply simple_m; [exact I|discriminate|]. intros u1 u2 g I1 H. cbv beta in H.
    destruct (walk_list rec u1 (map snd fs)) as [[ua ns]|] eqn:E1; [|discriminate].
    inversion H; subst. destruct (walk_list_inv _ _ _ _ I1 E1). split; [assumption|split; [assumption|auto with kk]].
  - apply simple_m; [exact I|discriminate|]. intros u1 u2 g I1 H. cbv beta in H.
    destruct (walk_methods v2 rec u1 ms) as [[ua r]|] eqn:E1; [|discriminate].
    inversion H; subst. destruct (walk_methods_inv _ _ _ _ I1 E1). split; [assumption|split; [assumption|auto with kk]].
  - apply simple_m; [exact I|discriminate|]. intros u1 u2 g I1 H. cbv beta in H.
    destruct (walk_list rec u1 (map snd ps)) as [[ua pn]|] eqn:E1; [|discriminate].
    destruct (walk_list rec ua (map snd rs)) as [[ub rn]|] eqn:E2; [|discriminate].
    destruct (walk_list_inv _ _ _ _ I1 E1) as [Ia Xa]. destruct (walk_list_inv _ _ _ _ Ia E2) as [Ib Xb].
    destruct recv as [r|].
    + destruct (rec ub None r) as [[uc n]|] eqn:E3; [|discriminate]. inversion H; subst.
      destruct (rec_inv3 _ _ _ _ _ Ib E3) as [Ic Xc]. split; [exact Ic|]. split; [|auto with kk].
      eapply ext_trans; [exact Xa|]. eapply ext_trans; eauto.
    + inversion H; subst. split; [exact Ib|]. split; [eapply ext_trans; eauto|auto with kk].
  - destruct (N.eqb cls 0) eqn:Ecls.
    { destruct (get_or_create v2 u (name_of_string v2 tstr)) as [u0 o0] eqn:Eg. pose proof (inv_goc _ _ _ _ I Eg) as I0.
      destruct (complete u0 o0) eqn:Ec; [intros H; inversion H; subst; exact I0|].
      destruct (rec (update u0 o0 (set_kind "Alias")) None under) as [[u2 nu]|] eqn:E1; [|discriminate].
      assert (I1 : inv (update u0 o0 (set_kind "Alias"))) by (apply inv_set_kind; [exact I0|discriminate]).
      destruct (rec_inv3 _ _ _ _ _ I1 E1) as [I2 X2].
      assert (D1 : complete (update u0 o0 (set_kind "Alias")) o0 = true).
      { destruct I0 as (W0 & _ & _). destruct (W0 _ _ (get_or_create_key _ _ _ _ _ Eg)) as [e0 He0].
        eapply (complete_kind _ _ "Alias"%string); [discriminate|eapply update_set_kind_kind; eauto]. }
      pose proof (ext_complete _ _ _ X2 D1) as D2.
      intros H. eapply attach_m; [| |exact H].
      - apply inv_update_decided; [exact I2|auto with kk|exact D2].
      - eapply ext_complete; [apply update_ext; auto with kk|exact D2]. }
    destruct (N.eqb cls 1 && v2) eqn:Egen.
    { pose proof (Hok _ _ _ _ _ _ _ Ep Ecls) as Hu. rewrite Egen in Hu. cbv zeta in Hu.
      destruct (match origin with
                | Some og => match plookup og p with Some (_, SNamed _ u'0 m' _ _) => (u'0, m') | _ => (under, ms) end
                | None => (under, ms) end) as [under' ms'] eqn:Eor.
      assert (Hu' : exists ts sh, plookup under' p = Some (ts, sh) /\ composite sh = true).
      { destruct origin as [og|]; [|inversion Eor; subst; exact Hu].
        destruct (plookup og p) as [[ts0 [| | | | | | | | |c0 u0' m0 t0 o0'| |]]|]; inversion Eor; subst; exact Hu. }
      destruct (walk_list rec u (map snd tps)) as [[ut tpn]|] eqn:Et; [|discriminate].
      destruct (walk_list_inv _ _ _ _ I Et) as [It Xt].
      match goal with |- context [get_or_create v2 ut ?n] => destruct (get_or_create v2 ut n) as [u0 o0] eqn:Eg; set (nmg := n) in * end.
      pose proof (inv_goc _ _ _ _ It Eg) as I0.
      destruct (complete u0 o0) eqn:Ec; [intros H; inversion H; subst; exact I0|].
      destruct (rec u0 (Some nmg) under') as [[u1 o1]|] eqn:E1; [|discriminate].
      destruct (rec_inv3 _ _ _ _ _ I0 E1) as [I1 X1].
      destruct (decided_by_rec _ _ _ _ _ I0 Hu' E1) as [Eo1 D1]. rewrite <- Eo1 in D1.
      intros H. eapply attach_m; [| |exact H].
      - apply inv_update_decided; [exact I1|auto with kk|exact D1].
      - eapply ext_complete; [apply update_ext; auto with kk|exact D1]. }
    pose proof (Hok _ _ _ _ _ _ _ Ep Ecls) as Hu. rewrite Egen in Hu. cbv zeta in Hu.
    destruct (get_or_create v2 u (name_of_string v2 tstr)) as [u0 o0] eqn:Eg. pose proof (inv_goc _ _ _ _ I Eg) as I0.
    destruct (complete u0 o0) eqn:Ec; [intros H; inversion H; subst; exact I0|].
    destruct (rec u0 (Some (name_of_string v2 tstr)) under) as [[u1 o1]|] eqn:E1; [|discriminate].
    destruct (rec_inv3 _ _ _ _ _ I0 E1) as [I1 X1].
    destruct (decided_by_rec _ _ _ _ _ I0 Hu E1) as [Eo1 D1]. rewrite <- Eo1 in D1.
    intros H. eapply attach_m; [exact I1|exact D1|exact H].
  - intros H; inversion H; subst. exact I.
  - destruct (get_or_create v2 u nm) as [u0 o0] eqn:Eg. pose proof (inv_goc _ _ _ _ I Eg) as I0.
    destruct (complete u0 o0) eqn:Ec; intros H; inversion H; subst; [exact I0|]. apply inv_set_kind; [exact I0|discriminate].
Qed.
End Methods.

Theorem walk_mcomplete v2 p : named_ok v2 p -> forall fuel u use t u' o, wf u -> canonical v2 u -> mcomplete u ->
  walk v2 p fuel u use t = Some (u', o) -> mcomplete u'.
Proof.
  intros Hok. induction fuel as [|f IH]; intros u use t u' o W C M H; simpl in H; [discriminate|].
  assert (I : inv v2 u) by (split; [exact W|split; [exact C|exact M]]).
  destruct (walk_step_m v2 p Hok f IH _ _ _ _ _ I H) as (_ & _ & M'). exact M'.
Qed.

(* ---------- loading: the three invariants together ---------- *)
Definition winv (v2 : bool) (u : univ) : Prop := wf u /\ canonical v2 u /\ mcomplete u.
Lemma winv_empty v2 : winv v2 {| objs := []; tkeys := [] |}.
Proof. split; [apply wf_empty|]. split; [apply canonical_empty|apply pinv_empty]. Qed.
Lemma walk_winv v2 p : named_ok v2 p -> forall fuel u use t u' o, winv v2 u -> walk v2 p fuel u use t = Some (u', o) -> winv v2 u'.
Proof.
  intros Hok fuel u use t u' o (W & C & M) H. split; [exact (wf_ext _ _ (walk_ext _ _ _ _ _ _ _ _ H) W)|].
  split; [destruct (walk_canonical v2 p Hok _ _ _ _ _ _ C H); auto|eapply walk_mcomplete; eauto].
Qed.
Lemma add_obj_winv v2 p fuel w o w' : named_ok v2 p -> winv v2 (w_u w) -> add_obj v2 p fuel (Some w) o = Some w' -> winv v2 (w_u w').
Proof.
  intros Hok I. unfold add_obj. destruct o as [t|ostr sg|ostr ty|ostr ty v].
  all: match goal with |- match walk ?vv ?pp ?ff ?a ?b ?c with _ => _ end = _ -> _ =>
         let E := fresh "E" in destruct (walk vv pp ff a b c) as [[u1 n1]|] eqn:E; [|discriminate];
         intros H; inversion H; subst; rewrite ?upd_pkg_u; simpl; eapply walk_winv; eauto end.
Qed.
Lemma add_objs_winv v2 p fuel : named_ok v2 p -> forall l w w', winv v2 (w_u w) ->
  fold_left (add_obj v2 p fuel) l (Some w) = Some w' -> winv v2 (w_u w').
Proof.
  intros Hok. induction l as [|o l IH]; intros w w' H0 H; cbn [fold_left] in H.
  - inversion H; subst. exact H0.
  - destruct (add_obj v2 p fuel (Some w) o) as [w1|] eqn:E1; [|rewrite add_obj_none in H; discriminate].
    eapply IH; [|exact H]. eapply add_obj_winv; eauto.
Qed.
Lemma add_package_winv v2 p fuel w g w' : named_ok v2 p -> winv v2 (w_u w) ->
  add_package v2 p fuel (Some w) g = Some w' -> winv v2 (w_u w').
Proof.
  intros Hok H0. unfold add_package.
  match goal with |- match fold_left _ _ (Some ?w1) with _ => _ end = _ -> _ =>
    destruct (fold_left (add_obj v2 p fuel) (g_scope g) (Some w1)) as [w2|] eqn:E; [|discriminate] end.
  intros H; inversion H; subst. rewrite upd_pkg_u, fold_get_pkg_u.
  eapply add_objs_winv in E; [exact E|exact Hok|rewrite upd_pkg_u; exact H0].
Qed.
Theorem load_winv v2 p fuel : named_ok v2 p -> forall gs w w', winv v2 (w_u w) ->
  fold_left (add_package v2 p fuel) gs (Some w) = Some w' -> winv v2 (w_u w').
Proof.
  intros Hok. induction gs as [|g gs IH]; intros w w' H0 H; cbn [fold_left] in H.
  - inversion H; subst. exact H0.
  - destruct (add_package v2 p fuel (Some w) g) as [w1|] eqn:E1; [|rewrite add_package_none in H; discriminate].
    eapply IH; [|exact H]. eapply add_package_winv; eauto.
Qed.
Lemma lookups_winv v2 : forall ks u, winv v2 u -> winv v2 (lookups v2 u ks).
Proof.
  induction ks as [|k ks IH]; intros u I; simpl; [exact I|]. apply IH.
  destruct (get_or_create v2 u k) as [u1 o] eqn:E. simpl. destruct I as (W & C & M).
  split; [exact (wf_ext _ _ (get_or_create_ext _ _ _ _ _ E) W)|].
  split; [destruct (get_or_create_canon _ _ _ _ _ C E); auto|eapply get_or_create_pinv; eauto].
Qed.

Theorem loaded_winv v2 p fuel : named_ok v2 p -> forall pre gs pk w',
  fold_left (add_package v2 p fuel) gs (Some {| w_u := lookups v2 {| objs := []; tkeys := [] |} pre; w_pkgs := pk |}) = Some w' ->
  wf (w_u w') /\ canonical v2 (w_u w') /\ mcomplete (w_u w').
Proof.
  intros Hok pre gs pk w' H.
  exact (load_winv v2 p fuel Hok gs {| w_u := lookups v2 {| objs := []; tkeys := [] |} pre; w_pkgs := pk |} w'
           (lookups_winv v2 pre _ (winv_empty v2)) H).
Qed.
End Placeholder.

(* ---------- the two instances ---------- *)
(* an undecided entry is exactly the blank placeholder its lookup created *)
Definition pristine (u : univ) : Prop := pinv (fun o e => e = blank o []) u.
(* an entry that carries methods has a decided kind *)
Definition mcomplete (u : univ) : Prop := pinv (fun _ e => e_methods e = []) u.
Lemma pristine_mcomplete u : pristine u -> mcomplete u.
Proof. intros P o e L K. rewrite (P o e L K). reflexivity. Qed.

Lemma undecided_blank u o e : pristine u -> complete u o = false -> nlookup o (objs u) = Some e -> e = blank o [].
Proof.
  intros P Hc L. apply (P o e L). unfold complete, kind_of in Hc. rewrite L in Hc.
  destruct (str_eqb_spec (e_kind e) []) as [E|]; [exact E|discriminate].
Qed.
Lemma undecided_no_methods u o e : pristine u -> complete u o = false -> nlookup o (objs u) = Some e -> e_methods e = [].
Proof. intros P Hc L. rewrite (undecided_blank u o e P Hc L). reflexivity. Qed.

Definition winv' (v2 : bool) (u : univ) : Prop := wf u /\ canonical v2 u /\ pristine u.
Theorem walk_pristine v2 p : named_ok v2 p -> forall fuel u use t u' o, wf u -> canonical v2 u -> pristine u ->
  walk v2 p fuel u use t = Some (u', o) -> pristine u'.
Proof. intros Hok. exact (walk_mcomplete (fun o e => e = blank o []) (fun o => eq_refl) v2 p Hok). Qed.
Theorem loaded_pristine v2 p fuel : named_ok v2 p -> forall pre gs pk w',
  fold_left (add_package v2 p fuel) gs (Some {| w_u := lookups v2 {| objs := []; tkeys := [] |} pre; w_pkgs := pk |}) = Some w' ->
  wf (w_u w') /\ canonical v2 (w_u w') /\ pristine (w_u w').
Proof. intros Hok. exact (loaded_winv (fun o e => e = blank o []) (fun o => eq_refl) v2 p fuel Hok). Qed.
Lemma get_or_create_pristine v2 u n u1 o : pristine u -> get_or_create v2 u n = (u1, o) -> pristine u1.
Proof. exact (get_or_create_pinv (fun o e => e = blank o []) (fun o => eq_refl) v2 u n u1 o). Qed.
