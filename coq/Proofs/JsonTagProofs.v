Require Import Gengo.Base.Str Gengo.Base.Sexp Gengo.Model.JsonTag.

(* ---------- split_on in terms of split_first ---------- *)
Lemma split_acc_unfold c : forall l acc,
  split_acc c acc l = match split_first c l with
                      | (a, Some b) => (rev acc ++ a) :: split_acc c [] b
                      | (a, None) => [rev acc ++ a]
                      end.
Proof.
  induction l as [|x l IH]; intros acc; simpl.
  - rewrite app_nil_r. reflexivity.
  - destruct (N.eqb x c).
    + rewrite app_nil_r. reflexivity.
    + rewrite IH. destruct (split_first c l) as [a [b|]]; simpl; rewrite <- app_assoc; reflexivity.
Qed.
Lemma split_on_unfold c l :
  split_on c l = match split_first c l with
                 | (a, Some b) => a :: split_on c b
                 | (a, None) => [a]
                 end.
Proof. unfold split_on. rewrite split_acc_unfold. simpl. reflexivity. Qed.

Lemma split_first_shorter c l a b : split_first c l = (a, Some b) -> length b < length l.
Proof.
  intros H. apply split_first_some in H. destruct H as [-> _].
  rewrite app_length. simpl. lia.
Qed.

(* ---------- options.Contains ---------- *)
Lemma contains_loop_spec w : w <> [] -> forall fuel o, length o < fuel ->
  contains_loop fuel o w = mem_str w (words o).
Proof.
  intros Hw. induction fuel as [|f IH]; intros o Hlen; [lia|].
  simpl. destruct o as [|c o']; [reflexivity|].
  set (o := c :: o') in *. unfold words. fold o.
  assert (Ho : match o with [] => @nil str | _ => split_on COMMA o end = split_on COMMA o) by reflexivity.
  rewrite Ho. rewrite split_on_unfold.
  destruct (split_first COMMA o) as [a [next|]] eqn:Hs.
  - simpl. rewrite (str_eqb_sym a w).
    destruct (str_eqb w a); simpl; auto.
    rewrite IH.
    + unfold words. destruct next; [|reflexivity].
      simpl. destruct (str_eqb_spec w []); [congruence|reflexivity].
    + apply split_first_shorter in Hs. lia.
  - simpl. rewrite (str_eqb_sym a w). destruct (str_eqb w a); reflexivity.
Qed.

Theorem opt_contains_spec o w : w <> [] -> opt_contains o w = mem_str w (words o).
Proof. intros Hw. unfold opt_contains. apply contains_loop_spec; auto. Qed.

Corollary opt_contains_In o w : w <> [] -> (opt_contains o w = true <-> In w (words o)).
Proof. intros Hw. rewrite opt_contains_spec by auto. apply mem_str_In. Qed.

(* ---------- LookupJSON agrees with encoding/json ---------- *)
Section Agree.
Variable is_letter is_digit : N -> bool.

Lemma parse_tag_no_comma tag : ~ In COMMA (fst (parse_tag tag)).
Proof.
  unfold parse_tag. destruct (split_first COMMA tag) as [a [b|]] eqn:Hs; simpl.
  - apply split_first_some in Hs. tauto.
  - apply split_first_none in Hs. destruct Hs as [-> H]. exact H.
Qed.

Theorem lookup_satisfies_pcheck fname tag :
  pcheck_lookup is_letter is_digit fname tag (lookup_json_value fname tag) = true.
Proof.
  unfold pcheck_lookup, lookup_json_value, json_rule, json_accepts.
  destruct (str_eqb tag [DASH]) eqn:Hd; simpl.
  - reflexivity.
  - destruct (parse_tag tag) as [name opts] eqn:Hp. simpl.
    assert (Hi : opt_contains opts str_inline = mem_str str_inline (words opts))
      by (apply opt_contains_spec; discriminate).
    rewrite <- Hi. rewrite eqb_reflx. simpl.
    generalize (opt_contains opts str_inline) as inl. intros inl.
    generalize (opt_contains opts str_omitempty) as oe. intros oe.
    destruct name as [|c name'].
    + simpl. rewrite eqb_reflx. simpl.
      destruct inl; simpl; auto. apply str_eqb_refl.
    + change (valid_tag_char is_letter is_digit c && forallb (valid_tag_char is_letter is_digit) name')
        with (is_valid_tag is_letter is_digit (c :: name')).
      rewrite andb_false_r.
      destruct (is_valid_tag is_letter is_digit (c :: name')) eqn:Hv; auto.
      rewrite eqb_reflx. simpl.
      destruct inl; simpl; auto. apply str_eqb_refl.
Qed.
End Agree.

(* ---------- StructTag.Get on a tag we built ourselves ---------- *)
Definition clean (v : str) : Prop :=
  ~ In QUOTE v /\ ~ In BACKSLASH v /\ ~ In 10%N v.

Lemma existsb_eqb_false c v : ~ In c v -> existsb (N.eqb c) v = false.
Proof.
  intros H. destruct (existsb (N.eqb c) v) eqn:E; auto.
  apply existsb_exists in E. destruct E as [x [Hx He]]. apply N.eqb_eq in He. subst. tauto.
Qed.

Lemma scan_quoted_clean v r : ~ In QUOTE v -> ~ In BACKSLASH v ->
  scan_quoted (v ++ QUOTE :: r) = Some (v, r).
Proof.
  induction v as [|c v IH]; simpl; intros Hq Hb.
  - reflexivity.
  - destruct (N.eqb_spec c QUOTE); [exfalso; auto|].
    destruct (N.eqb_spec c BACKSLASH); [exfalso; auto|].
    rewrite IH; auto.
Qed.

Definition json_tag_of (v : str) : str := s "json:""" ++ v ++ [QUOTE].

Lemma struct_tag_get_json v : clean v -> struct_tag_get str_json (json_tag_of v) = GFound v.
Proof.
  intros [Hq [Hb Hn]]. unfold struct_tag_get, json_tag_of.
  change (s "json:""") with ([106; 115; 111; 110; 58; 34]%N).
  cbn [app length tag_get trim_left N.eqb SPACE Pos.eqb].
  cbn [span_name name_char]. cbv [SPACE COLON QUOTE]. simpl N.ltb. simpl N.eqb. simpl negb. simpl andb.
  cbn iota. simpl.
  change 34%N with QUOTE. rewrite scan_quoted_clean; auto.
  unfold unquote_plain. rewrite !existsb_eqb_false; auto.
Qed.

(* ---------- String / LookupJSON round trip ---------- *)
Lemma parse_tag_app_comma a b : ~ In COMMA a -> parse_tag (a ++ COMMA :: b) = (a, b).
Proof.
  intros H. unfold parse_tag.
  assert (Hs : split_first COMMA (a ++ COMMA :: b) = (a, Some b)) by (apply split_first_some; auto).
  rewrite Hs. reflexivity.
Qed.
Lemma parse_tag_plain a : ~ In COMMA a -> parse_tag a = (a, []).
Proof.
  intros H. unfold parse_tag.
  assert (Hs : split_first COMMA a = (a, None)) by (apply split_first_none; auto).
  rewrite Hs. reflexivity.
Qed.

Definition omit_rec := {| jname := []; jomit := true; jinline := false; jomitempty := false |}.

Lemma lookup_shape fname tag : ~ In COMMA fname ->
  let r := lookup_json_value fname tag in
  r = omit_rec \/
  (jomit r = false /\ ~ In COMMA (jname r) /\ (jinline r = false -> jname r = [] -> fname = [])).
Proof.
  intros Hf. unfold lookup_json_value. destruct (str_eqb tag [DASH]); [left; reflexivity|right].
  pose proof (parse_tag_no_comma tag) as Hnc.
  destruct (parse_tag tag) as [name opts]. simpl in Hnc. cbn [jname jomit jinline jomitempty].
  destruct (opt_contains opts str_inline); cbn [negb andb].
  - repeat split; auto. discriminate.
  - destruct name; repeat split; auto; discriminate.
Qed.

Lemma record_roundtrip fname nm inl oe :
  ~ In COMMA nm -> (inl = false -> nm = [] -> fname = []) -> (inl = false \/ nm = []) ->
  let r := {| jname := nm; jomit := false; jinline := inl; jomitempty := oe |} in
  lookup_json_value fname (json_string r) = r.
Proof.
  intros Hnm Hempty Hcond r. subst r. unfold json_string. cbn [jname jomit jinline jomitempty].
  destruct inl.
  - destruct Hcond as [Hc|Hc]; [discriminate|]. subst nm. destruct oe; vm_compute; reflexivity.
  - assert (Hnm2 : (if match nm with [] => true | _ => false end then fname else nm) = nm).
    { destruct nm; auto. }
    destruct oe.
    + cbn [app]. rewrite app_nil_r.
      assert (Hne : str_eqb (nm ++ COMMA :: str_omitempty) [DASH] = false).
      { apply str_eqb_neq. destruct nm as [|x [|y nm']]; simpl; discriminate. }
      rewrite Hne. unfold lookup_json_value. rewrite Hne.
      rewrite parse_tag_app_comma by auto.
      change (opt_contains str_omitempty str_inline) with false.
      change (opt_contains str_omitempty str_omitempty) with true.
      cbn [negb andb]. f_equal. destruct nm; auto.
    + cbn [app]. rewrite !app_nil_r.
      destruct (str_eqb nm [DASH]) eqn:Hdash.
      * apply str_eqb_eq in Hdash. rewrite Hdash. vm_compute. reflexivity.
      * unfold lookup_json_value. rewrite Hdash.
        rewrite parse_tag_plain by auto.
        change (opt_contains [] str_inline) with false.
        change (opt_contains [] str_omitempty) with false.
        cbn [negb andb]. f_equal. destruct nm; auto.
Qed.

Lemma value_roundtrip fname tag :
  ~ In COMMA fname ->
  let r := lookup_json_value fname tag in
  (jinline r = false \/ jname r = []) ->
  lookup_json_value fname (json_string r) = r.
Proof.
  intros Hf r Hcond. pose proof (lookup_shape fname tag Hf) as Hs. cbv zeta in Hs. fold r in Hs.
  destruct Hs as [He|[Ho [Hn Hemp]]].
  - rewrite He. reflexivity.
  - destruct r as [nm om il oe]. simpl in *. subst om. apply record_roundtrip; auto.
Qed.

Lemma not_in_app {T} (c : T) a b : ~ In c a -> ~ In c b -> ~ In c (a ++ b).
Proof. intros Ha Hb Hin. apply in_app_or in Hin. tauto. Qed.

Lemma clean_app a b : clean a -> clean b -> clean (a ++ b).
Proof. intros [A1 [A2 A3]] [B1 [B2 B3]]. repeat split; apply not_in_app; auto. Qed.
Lemma clean_const (w : str) : forallb (fun c => negb (N.eqb c QUOTE || N.eqb c BACKSLASH || N.eqb c 10)) w = true -> clean w.
Proof.
  intros H. rewrite forallb_forall in H.
  repeat split; intros Hin; apply H in Hin; vm_compute in Hin; discriminate.
Qed.

Lemma json_string_clean r : clean (jname r) -> clean (json_string r).
Proof.
  intros Hc. unfold json_string.
  destruct (jomit r); [apply clean_const; reflexivity|].
  destruct (str_eqb _ [DASH]); [apply clean_const; reflexivity|].
  repeat apply clean_app.
  - destruct (jinline r); [apply clean_const; reflexivity|auto].
  - destruct (jomitempty r); apply clean_const; reflexivity.
  - destruct (jinline r); apply clean_const; reflexivity.
Qed.

Theorem string_roundtrip fname tags r :
  ~ In COMMA fname ->
  lookup_json fname tags = Some r ->
  (jinline r = false \/ jname r = []) ->
  clean (jname r) ->
  lookup_json fname (json_tag_of (json_string r)) = Some r.
Proof.
  intros Hf Hl Hcond Hclean. unfold lookup_json.
  rewrite struct_tag_get_json by (apply json_string_clean; auto).
  f_equal. unfold lookup_json in Hl.
  destruct (struct_tag_get str_json tags) as [v| |]; inversion Hl; subst.
  - apply value_roundtrip; auto.
  - apply value_roundtrip; auto.
Qed.
