Require Import Gengo.Base.Str Gengo.Base.Sexp Gengo.Model.BuildTags.

(* the header GoBoilerplate emits for tag g: "//go:build !g" *)
Theorem header_matches tags g :
  ceval tags (CNot (CTag g)) = negb (mem_str g tags).
Proof. reflexivity. Qed.

Section TreeProofs.
Variable content : Type.
Variable gen : list content -> content.
Variable out_name tag : str.
Notation universe_of := (fun fs : list (file content) => map f_content fs).
Notation run := (run_tool content universe_of gen out_name tag).

(* a file whose constraint is false under the tool's tags contributes nothing *)
Theorem invisible tags (t : tree content) x :
  In x (universe_of (visible content tags t)) ->
  exists f, In f t /\ f_content f = x /\ file_visible content tags f = true.
Proof.
  intros H. apply in_map_iff in H. destruct H as [f [Hx Hf]]. apply filter_In in Hf. exists f. tauto.
Qed.

Lemma filter_filter {T} (p q : T -> bool) l : filter p (filter q l) = filter (fun x => p x && q x) l.
Proof. induction l as [|x l IH]; simpl; auto. destruct (q x); simpl; rewrite ?IH; destruct (p x); auto. Qed.

Lemma visible_remove (t : tree content) :
  (forall f, In f t -> f_name f = out_name -> file_visible content [tag] f = false) ->
  visible content [tag] (remove_file content out_name t) = visible content [tag] t.
Proof.
  intros H. unfold visible, remove_file. rewrite filter_filter. apply filter_ext_in.
  intros f Hf. destruct (str_eqb_spec (f_name f) out_name) as [E|E]; simpl.
  - rewrite (H f Hf E). reflexivity.
  - rewrite andb_true_r. reflexivity.
Qed.

Lemma out_file_invisible c : file_visible content [tag] {| f_name := out_name; f_constraint := Some (CNot (CTag tag)); f_content := c |} = false.
Proof. unfold file_visible. simpl. rewrite str_eqb_refl. reflexivity. Qed.

Lemma visible_run (t : tree content) :
  (forall f, In f t -> f_name f = out_name -> file_visible content [tag] f = false) ->
  visible content [tag] (run t) = visible content [tag] t.
Proof.
  intros H. unfold run_tool, visible at 1. rewrite filter_app. simpl. rewrite out_file_invisible. rewrite app_nil_r.
  apply visible_remove. exact H.
Qed.

Lemma run_keeps_premise (t : tree content) :
  forall f, In f (run t) -> f_name f = out_name -> file_visible content [tag] f = false.
Proof.
  intros f Hf Hn. unfold run_tool in Hf. apply in_app_or in Hf. destruct Hf as [Hf|[<-|[]]].
  - unfold remove_file in Hf. apply filter_In in Hf. destruct Hf as [_ Hf]. rewrite Hn, str_eqb_refl in Hf. discriminate.
  - apply out_file_invisible.
Qed.

Lemma remove_run (t : tree content) : remove_file content out_name (run t) = remove_file content out_name t.
Proof.
  unfold run_tool, remove_file at 1. rewrite filter_app. simpl. rewrite str_eqb_refl. simpl. rewrite app_nil_r.
  unfold remove_file. rewrite filter_filter. apply filter_ext. intros f. destruct (negb (str_eqb (f_name f) out_name)); reflexivity.
Qed.

(* whatever the generator is: a second run sees the same universe and rewrites the same tree,
   whether the previous output is absent, present (with its !tag header) or stale *)
Theorem regen_fixed_point (t : tree content) :
  (forall f, In f t -> f_name f = out_name -> file_visible content [tag] f = false) ->
  universe_of (visible content [tag] (run t)) = universe_of (visible content [tag] t) /\
  run (run t) = run t.
Proof.
  intros H. split.
  - rewrite visible_run by exact H. reflexivity.
  - unfold run_tool at 1. rewrite remove_run. rewrite visible_run by exact H. reflexivity.
Qed.

Theorem regen_n (t : tree content) n :
  (forall f, In f t -> f_name f = out_name -> file_visible content [tag] f = false) ->
  Nat.iter (S n) run t = run t.
Proof.
  intros H. induction n as [|n IH]; [reflexivity|].
  change (Nat.iter (S (S n)) run t) with (run (Nat.iter (S n) run t)). rewrite IH. apply regen_fixed_point. exact H.
Qed.
End TreeProofs.
