(* C01 / C11: the whole entry of a GENERIC declaration (v2: the branch of walkType that walks the type
   parameters' constraints first, files the entry under "Name[P,Q]", describes it from the origin's
   underlying type and methods and records the type parameters) is a function of the node table:
   whichever instantiation or use is seen first, in whatever universe, the same entry results. *)
Require Import Gengo.Base.Str Gengo.Base.Sexp Gengo.Base.StrOrder Gengo.Model.Universe
               Gengo.Proofs.UniverseProofs Gengo.Proofs.CanonProofs Gengo.Proofs.FaithfulProofs Gengo.Proofs.FrameProofs
               Gengo.Proofs.IndepProofs Gengo.Proofs.MethodsProofs Gengo.Proofs.TerminationProofs Gengo.Proofs.ExactProofs
               Gengo.Proofs.NamedProofs.

Section Generic.
Variable v2 : bool.
Variable p : prog.
Hypothesis Hok : named_ok v2 p.

(* ---------- "nothing about key k changed" ---------- *)
Definition same_at (u u' : univ) (k : name) : Prop :=
  nlookup k (tkeys u') = nlookup k (tkeys u) /\ nlookup (canon v2 k) (objs u') = nlookup (canon v2 k) (objs u).
Lemma same_at_refl u k : same_at u u k. Proof. split; reflexivity. Qed.
Lemma same_at_trans u1 u2 u3 k : same_at u1 u2 k -> same_at u2 u3 k -> same_at u1 u3 k.
Proof. intros [A B] [C D]. split; congruence. Qed.

Lemma kind_of_add o (m : list (name * entry)) bk tk :
  kind_of {| objs := match nlookup o m with Some _ => m | None => nset o (blank o bk) m end; tkeys := tk |} o =
  match nlookup o m with Some e => e_kind e | None => bk end.
Proof.
  unfold kind_of. simpl. destruct (nlookup o m) as [e|] eqn:E; [rewrite E; reflexivity|].
  rewrite nlookup_nset_same. reflexivity.
Qed.

Lemma fresh_same_at u u' k : canonical v2 u -> same_at u u' k -> fresh v2 u k -> fresh v2 u' k.
Proof.
  intros C [Hk Ho]. unfold fresh, get_or_create. rewrite Hk.
  destruct (nlookup k (tkeys u)) as [o|] eqn:Ek.
  - simpl. rewrite (C _ _ Ek) in *. unfold complete, kind_of. rewrite Ho. auto.
  - unfold canon in Ho.
    destruct (if str_eqb (fst k) [] then builtin_of v2 (snd k) else None) as [[bn bk]|]; simpl;
      unfold complete; rewrite !kind_of_add; rewrite Ho; auto.
Qed.

Lemma goc_same_at u n u1 o k : get_or_create v2 u n = (u1, o) -> n <> k -> canon v2 n <> canon v2 k -> same_at u u1 k.
Proof.
  intros H Hn Hc. unfold get_or_create in H. destruct (nlookup n (tkeys u)); [injection H as <- _; apply same_at_refl|].
  unfold canon in Hc at 1.
  destruct (if str_eqb (fst n) [] then builtin_of v2 (snd n) else None) as [[bn bk]|]; injection H as <- _; split; simpl.
  - apply nlookup_nset_other; auto.
  - destruct (nlookup ([], bn) (objs u)); [reflexivity|]. apply nlookup_nset_other; auto.
  - apply nlookup_nset_other; auto.
  - destruct (nlookup n (objs u)); [reflexivity|]. apply nlookup_nset_other; auto.
Qed.
Lemma update_same_at u o g k : o <> canon v2 k -> same_at u (update u o g) k.
Proof.
  intros H. split; [unfold update; destruct (nlookup o (objs u)); reflexivity|]. apply update_other. auto.
Qed.

(* ---------- the nodes type-parameter constraints are made of: leaves ---------- *)
(* the key the leaf is filed under is not k *)
Definition apart (k : name) (t : N) : Prop :=
  forall k0, node_key v2 p None t = Some k0 -> k0 <> k /\ canon v2 k0 <> canon v2 k.

Lemma leaf_same_at f u t u' o k : canonical v2 u -> is_tparam p t = true -> apart k t ->
  walk v2 p (S f) u None t = Some (u', o) -> same_at u u' k.
Proof.
  intros C Ht Ha H. unfold is_tparam in Ht. unfold apart, node_key in Ha. simpl in H. unfold walk_step in H.
  destruct (plookup t p) as [[ts sh]|]; [|discriminate].
  destruct sh as [n| | | | | |[|? ?]|[|? ?]| | | |]; try discriminate.
  - destruct (Ha _ eq_refl) as [A1 A2]. destruct (get_or_create v2 u ([], n)) as [u0 o0] eqn:Eg.
    destruct (get_or_create_canon _ _ _ _ _ C Eg) as [_ Eo].
    pose proof (goc_same_at _ _ _ _ _ Eg A1 A2) as S0.
    destruct (complete u0 o0); injection H as <- _; [exact S0|].
    eapply same_at_trans; [exact S0|]. apply update_same_at. rewrite Eo. exact A2.
  - destruct (Ha _ eq_refl) as [A1 A2]. unfold simple in H. destruct (get_or_create v2 u (name_of_string v2 ts)) as [u0 o0] eqn:Eg.
    destruct (get_or_create_canon _ _ _ _ _ C Eg) as [_ Eo].
    pose proof (goc_same_at _ _ _ _ _ Eg A1 A2) as S0.
    destruct (complete u0 o0); [injection H as <- _; exact S0|]. simpl in H. injection H as <- _.
    eapply same_at_trans; [exact S0|]. eapply same_at_trans; apply update_same_at; rewrite Eo; exact A2.
  - destruct (Ha _ eq_refl) as [A1 A2]. unfold simple in H. destruct (get_or_create v2 u (name_of_string v2 ts)) as [u0 o0] eqn:Eg.
    destruct (get_or_create_canon _ _ _ _ _ C Eg) as [_ Eo].
    pose proof (goc_same_at _ _ _ _ _ Eg A1 A2) as S0.
    destruct (complete u0 o0); [injection H as <- _; exact S0|]. simpl in H. injection H as <- _.
    eapply same_at_trans; [exact S0|]. eapply same_at_trans; apply update_same_at; rewrite Eo; exact A2.
  - injection H as <- _. apply same_at_refl.
  - destruct (Ha _ eq_refl) as [A1 A2]. destruct (get_or_create v2 u (name_of_string v2 ts)) as [u0 o0] eqn:Eg.
    destruct (get_or_create_canon _ _ _ _ _ C Eg) as [_ Eo].
    pose proof (goc_same_at _ _ _ _ _ Eg A1 A2) as S0.
    destruct (complete u0 o0); injection H as <- _; [exact S0|].
    eapply same_at_trans; [exact S0|]. apply update_same_at. rewrite Eo. exact A2.
Qed.

(* the object a leaf walk returns does not depend on the universe *)
Lemma leaf_name f1 f2 u1 u2 t u1' u2' o1 o2 : canonical v2 u1 -> canonical v2 u2 -> is_tparam p t = true ->
  walk v2 p (S f1) u1 None t = Some (u1', o1) -> walk v2 p (S f2) u2 None t = Some (u2', o2) -> o1 = o2.
Proof.
  intros C1 C2 Ht H1 H2.
  destruct (walk_canonical v2 p Hok _ _ _ _ _ _ C1 H1) as [_ K1]. destruct (walk_canonical v2 p Hok _ _ _ _ _ _ C2 H2) as [_ K2].
  unfold is_tparam in Ht. unfold node_key in K1, K2. simpl in H1, H2. unfold walk_step in H1, H2.
  destruct (plookup t p) as [[ts sh]|]; [|discriminate].
  destruct sh as [n| | | | | |[|? ?]|[|? ?]| | | |]; try discriminate;
    try (rewrite (K1 _ eq_refl), (K2 _ eq_refl); reflexivity).
  injection H1 as _ <-. injection H2 as _ <-. reflexivity.
Qed.

Lemma winv'_walk f u use t u' o : winv' v2 u -> walk v2 p f u use t = Some (u', o) -> winv' v2 u'.
Proof.
  intros (W & C & P) H. split; [exact (wf_ext _ _ (walk_ext _ _ _ _ _ _ _ _ H) W)|].
  split; [destruct (walk_canonical v2 p Hok _ _ _ _ _ _ C H); auto|eapply walk_pristine; eauto].
Qed.

(* the constraints of the type parameters, walked in two universes: same names; k stays as it was *)
Lemma tparams_walk_exact f1 f2 k : forall (tps : list (str * N)) u1 u2 u1' u2' n1 n2,
  winv' v2 u1 -> winv' v2 u2 -> forallb (fun a => is_tparam p (snd a)) tps = true -> Forall (fun a => apart k (snd a)) tps ->
  walk_list (walk v2 p f1) u1 (map snd tps) = Some (u1', n1) -> walk_list (walk v2 p f2) u2 (map snd tps) = Some (u2', n2) ->
  n1 = n2 /\ winv' v2 u1' /\ winv' v2 u2' /\ same_at u1 u1' k /\ same_at u2 u2' k.
Proof.
  induction tps as [|a tps IH]; intros u1 u2 u1' u2' n1 n2 I1 I2 Ht Ha H1 H2; simpl in H1, H2.
  - injection H1 as <- <-. injection H2 as <- <-. split; [reflexivity|]. split; [exact I1|]. split; [exact I2|]. split; apply same_at_refl.
  - simpl in Ht. apply andb_true_iff in Ht. destruct Ht as [Hta Htl]. inversion Ha as [|? ? Haa Hal]; subst.
    destruct (walk v2 p f1 u1 None (snd a)) as [[x1 m1]|] eqn:E1; [|discriminate].
    destruct (walk v2 p f2 u2 None (snd a)) as [[x2 m2]|] eqn:E2; [|discriminate].
    destruct (walk_list (walk v2 p f1) x1 (map snd tps)) as [[y1 l1]|] eqn:L1; [|discriminate].
    destruct (walk_list (walk v2 p f2) x2 (map snd tps)) as [[y2 l2]|] eqn:L2; [|discriminate].
    injection H1 as <- <-. injection H2 as <- <-.
    destruct f1 as [|g1]; [discriminate|]. destruct f2 as [|g2]; [discriminate|].
    pose proof (winv'_walk _ _ _ _ _ _ I1 E1) as J1. pose proof (winv'_walk _ _ _ _ _ _ I2 E2) as J2.
    destruct I1 as (_ & C1 & _). destruct I2 as (_ & C2 & _).
    destruct (IH _ _ _ _ _ _ J1 J2 Htl Hal L1 L2) as (En & K1 & K2 & S1 & S2).
    split; [f_equal; [exact (leaf_name _ _ _ _ _ _ _ _ _ C1 C2 Hta E1 E2)|exact En]|].
    split; [exact K1|]. split; [exact K2|].
    split; (eapply same_at_trans; [eapply leaf_same_at; eauto|assumption]).
Qed.

(* ---------- the theorem ---------- *)
Definition origin_of (origin : option N) (under : N) (ms : list (str * str * N)) : N * list (str * str * N) :=
  match origin with
  | Some og => match plookup og p with
               | Some (_, SNamed _ u' m' _ _) => (u', m')
               | _ => (under, ms) end
  | None => (under, ms) end.
Definition generic_name (tstr : str) (tps : list (str * N)) : name :=
  let n0 := name_of_string v2 tstr in
  match tps with
  | [] => n0
  | _ => (fst n0, hd [] (split_on LBR (snd n0)) ++ [LBR] ++ join [44%N] (map fst tps) ++ [93%N])
  end.

(* two nodes that denote one generic declaration (the declaration itself, or any of its
   instantiations: same origin, same type parameters, same "Name[P,Q]"), each walked first in its
   own universe *)
Theorem generic_entry_independent f1 f2 u1 u2 use1 use2 t1 t2 tstr1 tstr2 cls1 cls2 under1 under2 ms1 ms2 tps origin1 origin2
    under' ms' ts sh u1' u2' o1 o2 :
  winv' v2 u1 -> winv' v2 u2 ->
  plookup t1 p = Some (tstr1, SNamed cls1 under1 ms1 tps origin1) -> N.eqb cls1 0 = false -> (N.eqb cls1 1 && v2) = true ->
  plookup t2 p = Some (tstr2, SNamed cls2 under2 ms2 tps origin2) -> N.eqb cls2 0 = false -> (N.eqb cls2 1 && v2) = true ->
  generic_name tstr2 tps = generic_name tstr1 tps ->
  origin_of origin1 under1 ms1 = (under', ms') -> origin_of origin2 under2 ms2 = (under', ms') ->
  plookup under' p = Some (ts, sh) -> children_keyed v2 p sh ->
  Forall (fun m => keyed v2 p (Some (name_of_string v2 (snd (fst m)))) (snd m)) ms' ->
  forallb (fun a => is_tparam p (snd a)) tps = true -> Forall (fun a => apart (generic_name tstr1 tps) (snd a)) tps ->
  fresh v2 u1 (generic_name tstr1 tps) -> fresh v2 u2 (generic_name tstr1 tps) ->
  walk v2 p (S f1) u1 use1 t1 = Some (u1', o1) -> walk v2 p (S f2) u2 use2 t2 = Some (u2', o2) ->
  o1 = o2 /\ exists e, nlookup o1 (objs u1') = Some e /\ nlookup o2 (objs u2') = Some e.
Proof.
  intros I1 I2 Ep1 Ec01 Ec11 Ep2 Ec02 Ec12 Egn Eor1 Eor2 Eu Hkeys Hm Htp Hap F1 F2 H1 H2.
  simpl in H1, H2. unfold walk_step in H1, H2. rewrite Ep1 in H1. rewrite Ep2 in H2. rewrite Ec01, Ec11 in H1. rewrite Ec02, Ec12 in H2.
  unfold origin_of in Eor1, Eor2. rewrite Eor1 in H1. rewrite Eor2 in H2.
  fold (generic_name tstr1 tps) in H1. fold (generic_name tstr2 tps) in H2. rewrite Egn in H2. set (nmg := generic_name tstr1 tps) in *.
  destruct (walk_list (walk v2 p f1) u1 (map snd tps)) as [[ut1 tpn1]|] eqn:T1; [|discriminate].
  destruct (walk_list (walk v2 p f2) u2 (map snd tps)) as [[ut2 tpn2]|] eqn:T2; [|discriminate].
  destruct (tparams_walk_exact _ _ nmg _ _ _ _ _ _ _ I1 I2 Htp Hap T1 T2) as (En & J1 & J2 & S1 & S2). subst tpn2.
  assert (G1 : fresh v2 ut1 nmg) by (destruct I1 as (_ & C & _); eapply fresh_same_at; eauto).
  assert (G2 : fresh v2 ut2 nmg) by (destruct I2 as (_ & C & _); eapply fresh_same_at; eauto).
  unfold fresh in G1, G2.
  destruct (get_or_create v2 ut1 nmg) as [ua oa] eqn:Eg1. destruct (get_or_create v2 ut2 nmg) as [ub ob] eqn:Eg2. simpl in G1, G2.
  rewrite G1 in H1. rewrite G2 in H2.
  pose proof (winv_goc v2 _ _ _ _ J1 Eg1) as Ia. pose proof (winv_goc v2 _ _ _ _ J2 Eg2) as Ib.
  destruct (walk v2 p f1 ua (Some nmg) under') as [[xa pa]|] eqn:Ra; [|discriminate].
  destruct (walk v2 p f2 ub (Some nmg) under') as [[xb pb]|] eqn:Rb; [|discriminate].
  destruct f1 as [|g1]; [discriminate|]. destruct f2 as [|g2]; [discriminate|].
  assert (Fa : fresh v2 ua nmg) by (unfold fresh; rewrite (get_or_create_idem _ _ _ _ _ Eg1); exact G1).
  assert (Fb : fresh v2 ub nmg) by (unfold fresh; rewrite (get_or_create_idem _ _ _ _ _ Eg2); exact G2).
  destruct (composite_entry_independent v2 p Hok g1 g2 ua ub (Some nmg) under' ts sh xa xb pa pb Ia Ib Eu Hkeys Fa Fb Ra Rb) as (Eo & e & La & Lb).
  subst pb.
  assert (Hcomp : composite sh = true) by (destruct sh; try contradiction; reflexivity).
  destruct Ia as (Wa & Ca & _). destruct Ib as (Wb & Cb & _).
  destruct (walk_canonical v2 p Hok _ _ _ _ _ _ Ca Ra) as [Cxa Ka]. destruct (walk_canonical v2 p Hok _ _ _ _ _ _ Cb Rb) as [Cxb _].
  assert (Epa : pa = canon v2 nmg).
  { apply Ka. unfold node_key. rewrite Eu. destruct sh; try discriminate; reflexivity. }
  simpl in Ra. destruct (composite_decides v2 p g1 _ _ _ _ _ _ _ Eu Hcomp Wa Ca Ra) as [_ Da]. rewrite <- Epa in Da.
  assert (Hk : e_kind e <> []).
  { unfold complete, kind_of in Da. rewrite La in Da. destruct (str_eqb_spec (e_kind e) []) as [E|]; [discriminate|assumption]. }
  set (tp := combine (map fst tps) tpn1) in *.
  exact (attach_same v2 p Hok _ _ _ _ _ (with_tparams tp e) _ _ _ _ _
           (update_canon _ _ _ _ Cxa) (update_canon _ _ _ _ Cxb) (update_lookup_same _ _ _ _ La) (update_lookup_same _ _ _ _ Lb) Hk Hm H1 H2).
Qed.

(* the same node walked in two universes (two load histories) *)
Corollary generic_entry_independent_of_history f1 f2 u1 u2 use1 use2 t tstr cls under ms tps origin under' ms' ts sh u1' u2' o1 o2 :
  winv' v2 u1 -> winv' v2 u2 ->
  plookup t p = Some (tstr, SNamed cls under ms tps origin) -> N.eqb cls 0 = false -> (N.eqb cls 1 && v2) = true ->
  origin_of origin under ms = (under', ms') ->
  plookup under' p = Some (ts, sh) -> children_keyed v2 p sh ->
  Forall (fun m => keyed v2 p (Some (name_of_string v2 (snd (fst m)))) (snd m)) ms' ->
  forallb (fun a => is_tparam p (snd a)) tps = true -> Forall (fun a => apart (generic_name tstr tps) (snd a)) tps ->
  fresh v2 u1 (generic_name tstr tps) -> fresh v2 u2 (generic_name tstr tps) ->
  walk v2 p (S f1) u1 use1 t = Some (u1', o1) -> walk v2 p (S f2) u2 use2 t = Some (u2', o2) ->
  o1 = o2 /\ exists e, nlookup o1 (objs u1') = Some e /\ nlookup o2 (objs u2') = Some e.
Proof.
  intros I1 I2 Ep E0 E1 Eor. exact (generic_entry_independent f1 f2 u1 u2 use1 use2 t t tstr tstr cls cls under under ms ms tps origin origin
    under' ms' ts sh u1' u2' o1 o2 I1 I2 Ep E0 E1 Ep E0 E1 eq_refl Eor Eor).
Qed.
End Generic.
