(* C14 proofs. *)
Require Import Gengo.Base.Str Gengo.Base.Sexp Gengo.Model.GType Gengo.Model.Tracker Gengo.Model.Namer.

(* ---------- ASCII case facts ---------- *)
Ltac ascii_cases :=
  repeat (match goal with
          | |- context [N.leb ?a ?b] => destruct (N.leb_spec a b)
          | H : context [N.leb ?a ?b] |- _ => destruct (N.leb_spec a b)
          end; cbn [andb orb negb] in *); try reflexivity; try lia.

Lemma to_lower_to_upper c : to_lower (to_upper c) = to_lower c.
Proof. unfold to_lower, to_upper, is_upper, is_lower. ascii_cases. Qed.
Lemma to_lower_idem c : to_lower (to_lower c) = to_lower c.
Proof. unfold to_lower, is_upper. ascii_cases. Qed.
Lemma to_upper_idem c : to_upper (to_upper c) = to_upper c.
Proof. unfold to_upper, is_lower. ascii_cases. Qed.
Lemma to_upper_to_lower c : to_upper (to_lower c) = to_upper c.
Proof. unfold to_lower, to_upper, is_upper, is_lower. ascii_cases. Qed.

Lemma lower_app a b : lower (a ++ b) = lower a ++ lower b.
Proof. apply map_app. Qed.
Lemma lower_IC x : lower (IC x) = lower x.
Proof. destruct x; simpl; auto. rewrite to_lower_to_upper. reflexivity. Qed.
Lemma lower_IL x : lower (IL x) = lower x.
Proof. destruct x; simpl; auto. rewrite to_lower_idem. reflexivity. Qed.
Lemma length_IC x : length (IC x) = length x. Proof. destruct x; reflexivity. Qed.
Lemma length_IL x : length (IL x) = length x. Proof. destruct x; reflexivity. Qed.
Lemma IC_idem x : IC (IC x) = IC x.
Proof. destruct x; simpl; auto. rewrite to_upper_idem. reflexivity. Qed.
Lemma IC_IL x : IC (IL x) = IC x.
Proof. destruct x; simpl; auto. rewrite to_upper_to_lower. reflexivity. Qed.
Lemma IC_app_nonempty a b : a <> [] -> IC (a ++ b) = IC a ++ b.
Proof. destruct a; [congruence|reflexivity]. Qed.

(* the two capitalisations NewPublicNamer / NewPrivateNamer put first *)
Definition first_case (f : casing) : Prop := f = CIC \/ f = CIL.

Lemma first_lower f x : first_case f -> lower (apply_case f x) = lower x.
Proof. intros [->| ->]; simpl; [apply lower_IC|apply lower_IL]. Qed.
Lemma first_length f x : first_case f -> length (apply_case f x) = length x.
Proof. intros [->| ->]; simpl; [apply length_IC|apply length_IL]. Qed.
Lemma IC_first f x : first_case f -> IC (apply_case f x) = IC x.
Proof. intros [->| ->]; simpl; [apply IC_idem|apply IC_IL]. Qed.
Lemma first_cons f c r : first_case f -> exists c', apply_case f (c :: r) = c' :: r.
Proof. intros [->| ->]; simpl; eauto. Qed.

(* ---------- removePrefixAndSuffix undoes exactly what Join added ---------- *)
Lemma has_prefix_app p r : has_prefix p (p ++ r) = true.
Proof. apply has_prefix_spec. eauto. Qed.
Lemma has_suffix_app p r : has_suffix p (r ++ p) = true.
Proof. apply has_suffix_spec. eauto. Qed.

Section Strip.
Variable c : cfg.
Hypothesis Hfirst : first_case (first_f c).
Hypothesis Hothers : others_f c = CIC.

Lemma join_name_IC parts :
  join_name c parts = apply_case (first_f c) (IC (prefix c) ++ concat (map IC parts) ++ IC (suffix c)).
Proof.
  unfold join_name. rewrite Hothers. simpl. f_equal. f_equal.
  rewrite map_app, concat_app. simpl. rewrite app_nil_r. reflexivity.
Qed.

Lemma strip_joined X :
  exists Y, remove_ps c (apply_case (first_f c) (IC (prefix c) ++ X ++ IC (suffix c))) = Some Y /\ IC Y = IC X.
Proof.
  unfold remove_ps.
  set (nm := apply_case (first_f c) (IC (prefix c) ++ X ++ IC (suffix c))).
  assert (Hl : lower nm = lower (prefix c) ++ lower X ++ lower (suffix c)).
  { unfold nm. rewrite first_lower by auto. rewrite !lower_app, !lower_IC. reflexivity. }
  assert (Hlen : length nm = length (prefix c) + length X + length (suffix c)).
  { unfold nm. rewrite first_length by auto. rewrite !app_length, !length_IC. lia. }
  rewrite Hl. rewrite has_prefix_app.
  replace (lower (prefix c) ++ lower X ++ lower (suffix c)) with ((lower (prefix c) ++ lower X) ++ lower (suffix c))
    by (rewrite app_assoc; reflexivity).
  rewrite has_suffix_app. unfold slice.
  destruct (Nat.leb_spec (length (prefix c)) (length nm - length (suffix c))); [|lia].
  replace (length nm - length (suffix c) - length (prefix c)) with (length X) by lia.
  eexists. split; [reflexivity|].
  unfold nm. destruct (prefix c) as [|p P'] eqn:EP.
  - simpl. destruct X as [|x X'].
    + simpl. reflexivity.
    + simpl app. destruct (first_cons (first_f c) x (X' ++ IC (suffix c)) Hfirst) as [x' Hx].
      rewrite Hx. simpl skipn.
      assert (Hfx : IC (apply_case (first_f c) (x :: X' ++ IC (suffix c))) = IC (x :: X' ++ IC (suffix c))) by (apply IC_first; auto).
      rewrite Hx in Hfx. simpl in Hfx. inversion Hfx as [Hc].
      change (length (x :: X')) with (S (length X')). simpl firstn.
      rewrite firstn_app, firstn_all, Nat.sub_diag. simpl. rewrite app_nil_r. rewrite Hc. reflexivity.
  - simpl IC at 1. simpl app.
    destruct (first_cons (first_f c) (to_upper p) (P' ++ X ++ IC (suffix c)) Hfirst) as [p' Hp].
    rewrite Hp. simpl length. simpl skipn.
    rewrite skipn_app, skipn_all, Nat.sub_diag. simpl.
    rewrite firstn_app, firstn_all, Nat.sub_diag. simpl. rewrite app_nil_r. reflexivity.
Qed.
End Strip.

(* ---------- compositional body of a name ---------- *)
Definition body_parts (c : cfg) : gt -> list str :=
  fix body (t : gt) : list str :=
    match t with
    | GNamed pkg name => map IC (named_parts c pkg name)
    | GBuiltin name => [IC name]
    | GMap k e => [s "Map"] ++ body k ++ [s "To"] ++ body e
    | GSlice e => s "Slice" :: body e
    | GArray n e => s "Array" :: itoa_dec n :: body e
    | GPointer e => s "Pointer" :: body e
    | GChan e => s "Chan" :: body e
    | GStruct ms => s "Struct" :: flat_map (fun m => body (member_type m)) ms
    | GInterface ms => s "Interface" :: map (fun m => IC (fst m)) ms
    | GFunc ps rs _ => s "Func" :: flat_map body ps ++ s "Returns" :: flat_map body rs
    | GOther k => [s "unnameable_" ++ k]
    end.
(* the body depends on the ignore words and the prepend count only -- not on prefix, suffix or
   the capitalisation of the whole *)
Definition body (c : cfg) (t : gt) : str := concat (body_parts c t).

Lemma body_independent c c' t : ignore c = ignore c' -> prepend c = prepend c' -> body c t = body c' t.
Proof.
  intros Hi Hp. unfold body. f_equal.
  induction t using gt_ind'; simpl; try reflexivity; try congruence.
  - unfold named_parts, filter_dirs, ignored. rewrite Hi, Hp. reflexivity.
  - f_equal. induction H as [|m ms Hm _ IH]; simpl; congruence.
  - f_equal. f_equal; [|f_equal].
    + induction H as [|x xs Hx _ IH]; simpl; congruence.
    + induction H0 as [|x xs Hx _ IH]; simpl; congruence.
Qed.

Fixpoint no_other (t : gt) : bool :=
  match t with
  | GNamed _ _ | GBuiltin _ | GInterface _ => true
  | GMap k e => no_other k && no_other e
  | GSlice e | GArray _ e | GPointer e | GChan e => no_other e
  | GStruct ms => forallb (fun m => no_other (member_type m)) ms
  | GFunc ps rs _ => forallb no_other ps && forallb no_other rs
  | GOther _ => false
  end.

Definition IC_normal (x : str) : Prop := IC x = x.
Lemma IC_normal_concat_IC parts : IC_normal (concat (map IC parts)).
Proof.
  unfold IC_normal. induction parts as [|p ps IH]; simpl; auto.
  destruct p as [|ch r]; simpl; auto. rewrite to_upper_idem. reflexivity.
Qed.
Lemma IC_normal_upper_word w x : IC w = w -> w <> [] -> IC_normal (w ++ x).
Proof. intros H Hne. unfold IC_normal. rewrite IC_app_nonempty; auto. rewrite H. reflexivity. Qed.

Lemma itoa_dec_IC n : IC (itoa_dec n) = itoa_dec n.
Proof.
  unfold itoa_dec. destruct (N.to_uint n); simpl; reflexivity.
Qed.

Section Compositional.
Variable c : cfg.
Hypothesis Hfirst : first_case (first_f c).
Hypothesis Hothers : others_f c = CIC.
Hypothesis Hprep : (0 <= prepend c + 1)%Z.

Lemma body_IC_normal t : no_other t = true -> IC_normal (body c t).
Proof.
  unfold body. destruct t; simpl; intros Hn; try discriminate; try (unfold IC_normal; reflexivity).
  - apply IC_normal_concat_IC.
  - rewrite app_nil_r. unfold IC_normal. apply IC_idem.
Qed.

Definition full (X : str) : str := apply_case (first_f c) (IC (prefix c) ++ X ++ IC (suffix c)).

Lemma join_full parts : join_name c parts = full (concat (map IC parts)).
Proof. apply join_name_IC; auto. Qed.

Lemma strip_full t X : name_of c t = Some (full X) -> IC_normal X ->
  exists Y, (match name_of c t with Some n => remove_ps c n | None => None end) = Some Y /\ IC Y = X.
Proof.
  intros H Hn. rewrite H. destruct (strip_joined c Hfirst X) as [Y [H1 H2]].
  exists Y. split; auto. rewrite H2. exact Hn.
Qed.

Lemma omap_strip (l : list gt) :
  Forall (fun t => no_other t = true -> name_of c t = Some (full (body c t))) l ->
  forallb no_other l = true ->
  exists Ys, omap (fun t => match name_of c t with Some n => remove_ps c n | None => None end) l = Some Ys /\
             concat (map IC Ys) = concat (map (body c) l).
Proof.
  induction 1 as [|t l Ht _ IH]; simpl; intros Hn.
  - exists []. auto.
  - apply andb_true_iff in Hn. destruct Hn as [Hn1 Hn2].
    destruct (strip_full t (body c t) (Ht Hn1) (body_IC_normal t Hn1)) as [Y [HY1 HY2]].
    destruct (IH Hn2) as [Ys [HYs1 HYs2]].
    rewrite HY1, HYs1. exists (Y :: Ys). split; auto. simpl. rewrite HY2, HYs2. reflexivity.
Qed.

Lemma concat_flat_map {T} (f : T -> list str) (l : list T) :
  concat (flat_map f l) = concat (map (fun x => concat (f x)) l).
Proof. induction l; simpl; auto. rewrite concat_app, IHl. reflexivity. Qed.

Theorem anon_compositional t : no_other t = true ->
  name_of c t = Some (full (body c t)).
Proof.
  induction t using gt_ind'; intros Hn; simpl in Hn; try discriminate.
  - (* named *) simpl. destruct (Z.ltb_spec (prepend c + 1) 0); [lia|]. rewrite join_full. reflexivity.
  - (* builtin *) simpl. rewrite join_full. unfold body. simpl. reflexivity.
  - (* map *) apply andb_true_iff in Hn. destruct Hn as [H1 H2].
    destruct (strip_full t1 _ (IHt1 H1) (body_IC_normal t1 H1)) as [Y1 [A1 B1]].
    destruct (strip_full t2 _ (IHt2 H2) (body_IC_normal t2 H2)) as [Y2 [A2 B2]].
    simpl. rewrite A1, A2. rewrite join_full. f_equal. unfold body. simpl.
    rewrite B1, B2. unfold body. rewrite concat_app. simpl. rewrite app_nil_r. reflexivity.
  - destruct (strip_full t _ (IHt Hn) (body_IC_normal t Hn)) as [Y [A1 B1]].
    simpl. rewrite A1. rewrite join_full. f_equal. unfold body. simpl. rewrite B1, app_nil_r. reflexivity.
  - destruct (strip_full t _ (IHt Hn) (body_IC_normal t Hn)) as [Y [A1 B1]].
    simpl. rewrite A1. rewrite join_full. f_equal. unfold body. simpl. rewrite B1, app_nil_r, itoa_dec_IC. reflexivity.
  - destruct (strip_full t _ (IHt Hn) (body_IC_normal t Hn)) as [Y [A1 B1]].
    simpl. rewrite A1. rewrite join_full. f_equal. unfold body. simpl. rewrite B1, app_nil_r. reflexivity.
  - destruct (strip_full t _ (IHt Hn) (body_IC_normal t Hn)) as [Y [A1 B1]].
    simpl. rewrite A1. rewrite join_full. f_equal. unfold body. simpl. rewrite B1, app_nil_r. reflexivity.
  - (* struct *)
    assert (Hf : Forall (fun t => no_other t = true -> name_of c t = Some (full (body c t))) (map member_type ms)).
    { apply Forall_map. exact H. }
    assert (Hn' : forallb no_other (map member_type ms) = true).
    { clear -Hn. induction ms as [|m0 ms0 IHm]; simpl in *; auto. apply andb_true_iff in Hn. destruct Hn as [-> Hn]. simpl. auto. }
    destruct (omap_strip _ Hf Hn') as [Ys [A1 B1]].
    simpl.
    assert (Hom : omap (fun m => match name_of c (member_type m) with Some n => remove_ps c n | None => None end) ms = Some Ys).
    { clear -A1. revert Ys A1. induction ms as [|m ms IH]; simpl; intros Ys A1; auto.
      destruct (match name_of c (member_type m) with Some n => remove_ps c n | None => None end); [|discriminate].
      destruct (omap _ (map member_type ms)) eqn:E; [|discriminate].
      rewrite (IH _ eq_refl). exact A1. }
    rewrite Hom. rewrite join_full. f_equal. unfold body. simpl. rewrite B1.
    rewrite concat_flat_map, map_map. reflexivity.
  - (* interface *) simpl. rewrite join_full. f_equal. unfold body. simpl. rewrite map_map. reflexivity.
  - (* func *) apply andb_true_iff in Hn. destruct Hn as [H1 H2].
    destruct (omap_strip _ H H1) as [Ps [A1 B1]]. destruct (omap_strip _ H0 H2) as [Rs [A2 B2]].
    simpl. rewrite A1, A2. rewrite join_full. f_equal. unfold body. simpl.
    rewrite map_app, concat_app. simpl. rewrite B1, B2.
    rewrite concat_app. simpl. rewrite !concat_flat_map. reflexivity.
Qed.
End Compositional.

(* ---------- named types: the formula in the property's words ---------- *)
Lemma named_parts_spec c pkg name k : prepend c = Z.of_nat k ->
  named_parts c pkg name = last_n (Nat.min k (length (filter_dirs c pkg))) (filter_dirs c pkg) ++ [name].
Proof.
  intros Hk. unfold named_parts, last_n. rewrite Hk. set (dirs := filter_dirs c pkg).
  rewrite app_length. simpl.
  replace (Z.to_nat (Z.min (Z.of_nat k + 1) (Z.of_nat (length dirs + 1)))) with (Nat.min k (length dirs) + 1) by lia.
  rewrite skipn_app.
  replace (length dirs + 1 - (Nat.min k (length dirs) + 1)) with (length dirs - Nat.min k (length dirs)) by lia.
  replace (length dirs - Nat.min k (length dirs) - length dirs) with 0 by lia. reflexivity.
Qed.

Theorem named_formula c pkg name k : prepend c = Z.of_nat k ->
  name_of c (GNamed pkg name) =
  Some (apply_case (first_f c)
         (concat (map (apply_case (others_f c))
            (prefix c :: (last_n (Nat.min k (length (filter_dirs c pkg))) (filter_dirs c pkg) ++ [name]) ++ [suffix c])))).
Proof.
  intros Hk. simpl. destruct (Z.ltb_spec (prepend c + 1) 0); [lia|].
  unfold join_name. rewrite (named_parts_spec c pkg name k Hk). reflexivity.
Qed.

(* sanitised directory names: dashes become underscores, dots disappear, nothing else changes *)
Lemma sanitize_dir_spec p :
  sanitize_dir p = flat_map (fun ch => if N.eqb ch 45 then [95%N] else if N.eqb ch 46 then [] else [ch]) p.
Proof. reflexivity. Qed.

(* ---------- the result is a legal identifier ---------- *)
Definition idc (ch : N) : bool := is_ascii_letter ch || is_ascii_digit ch || N.eqb ch 95.
Definition path_char (ch : N) : bool := idc ch || N.eqb ch 45 || N.eqb ch 46.

Lemma sanitize_idc p : forallb path_char p = true -> forallb idc (sanitize_dir p) = true.
Proof.
  induction p as [|ch p IH]; simpl; auto. intros H. apply andb_true_iff in H. destruct H as [Hc Hp].
  destruct (N.eqb_spec ch 45); [simpl; auto|]. destruct (N.eqb_spec ch 46); [simpl; auto|].
  simpl. rewrite IH by auto. unfold path_char in Hc.
  destruct (N.eqb_spec ch 45); [congruence|]. destruct (N.eqb_spec ch 46); [congruence|].
  rewrite !orb_false_r in Hc. rewrite Hc. reflexivity.
Qed.

Lemma idc_to_upper ch : idc ch = true -> idc (to_upper ch) = true.
Proof.
  unfold idc, to_upper, is_ascii_letter, is_ascii_digit, is_upper, is_lower. intros H. revert H.
  ascii_cases; try (intros; exfalso; lia); auto.
Qed.
Lemma idc_to_lower ch : idc ch = true -> idc (to_lower ch) = true.
Proof.
  unfold idc, to_lower, is_ascii_letter, is_ascii_digit, is_upper, is_lower. intros H. revert H.
  ascii_cases; try (intros; exfalso; lia); auto.
Qed.
Lemma idc_apply_case f x : forallb idc x = true -> forallb idc (apply_case f x) = true.
Proof.
  destruct f; simpl; auto; destruct x as [|ch r]; simpl; auto; intros H; apply andb_true_iff in H; destruct H as [H1 H2].
  - rewrite idc_to_upper; auto.
  - rewrite idc_to_lower; auto.
  - rewrite idc_to_lower by auto. simpl. apply forallb_forall. intros y Hy. apply in_map_iff in Hy.
    destruct Hy as [z [<- Hz]]. apply idc_to_lower. rewrite forallb_forall in H2. auto.
Qed.

Lemma forallb_concat {T} (f : T -> bool) ls : forallb (forallb f) ls = true -> forallb f (concat ls) = true.
Proof. induction ls; simpl; auto. intros H. apply andb_true_iff in H. rewrite forallb_app. destruct H as [-> H]. simpl. auto. Qed.

Lemma last_n_incl {T} n (l : list T) : incl (last_n n l) l.
Proof. unfold last_n. intros x Hx. rewrite <- (firstn_skipn (length l - n) l). apply in_or_app. auto. Qed.

Theorem named_identifier_chars c pkg name r :
  forallb idc (prefix c) = true -> forallb idc (suffix c) = true -> forallb idc name = true ->
  forallb path_char pkg || true = true ->
  Forall (fun d => forallb path_char d = true) (split_on SLASH pkg) ->
  name_of c (GNamed pkg name) = Some r -> forallb idc r = true.
Proof.
  intros Hp Hs Hn _ Hd. simpl. destruct (Z.ltb (prepend c + 1) 0); [discriminate|].
  intros H; inversion H; subst. unfold join_name. apply idc_apply_case. apply forallb_concat.
  apply forallb_forall. intros x Hx. apply in_map_iff in Hx. destruct Hx as [y [<- Hy]].
  apply idc_apply_case. destruct Hy as [<-|Hy]; auto. apply in_app_or in Hy. destruct Hy as [Hy|[<-|[]]]; auto.
  apply last_n_incl in Hy. apply in_app_or in Hy. destruct Hy as [Hy|[<-|[]]]; auto.
  unfold filter_dirs in Hy. apply in_map_iff in Hy. destruct Hy as [d [<- Hd']]. apply filter_In in Hd'.
  apply sanitize_idc. rewrite Forall_forall in Hd. apply Hd. tauto.
Qed.

(* capitalisation of the whole: a public name starts upper-case, a private one lower-case,
   whenever the uncapitalised text starts with a letter *)
Theorem first_char_case c parts ch r :
  join_name c parts = ch :: r ->
  (first_f c = CIC -> exists x, ch = to_upper x) /\ (first_f c = CIL -> exists x, ch = to_lower x).
Proof.
  unfold join_name. generalize (concat (map (apply_case (others_f c)) (prefix c :: parts ++ [suffix c]))) as z.
  intros z H. split; intros E; rewrite E in H; destruct z as [|x xs]; simpl in H; try discriminate;
    inversion H; eauto.
Qed.
Lemma to_upper_letter x : is_ascii_letter x = true -> is_upper (to_upper x) = true.
Proof.
  unfold is_ascii_letter, to_upper, is_upper, is_lower. intros H. revert H.
  ascii_cases; try (intros; exfalso; lia); auto.
Qed.
Lemma to_lower_letter x : is_ascii_letter x = true -> is_lower (to_lower x) = true.
Proof.
  unfold is_ascii_letter, to_lower, is_upper, is_lower. intros H. revert H.
  ascii_cases; try (intros; exfalso; lia); auto.
Qed.

(* ---------- memo transparency ---------- *)
Section Memo.
Variable c : cfg.
Variable eqb : gt -> gt -> bool.                 (* pointer identity of *types.Type *)
Hypothesis eqb_eq : forall a b, eqb a b = true -> a = b.

Definition memo := list (gt * str).
Fixpoint mlookup (m : memo) (t : gt) : option str :=
  match m with [] => None | (t', n) :: m' => if eqb t t' then Some n else mlookup m' t end.

Definition consistent (m : memo) : Prop := forall t n, In (t, n) m -> name_of c t = Some n.

Lemma mlookup_consistent m t n : consistent m -> mlookup m t = Some n -> name_of c t = Some n.
Proof.
  induction m as [|[t' n'] m IH]; simpl; intros Hc; [discriminate|].
  destruct (eqb t t') eqn:E.
  - intros H; inversion H; subst. apply eqb_eq in E. subst. apply Hc. left; auto.
  - apply IH. intros a b Hab. apply Hc. right; auto.
Qed.

(* Name with the memo: look up; otherwise compute from the (memoised) names of the parts and
   store.  [sub] is the recursive call, so name_step is one unfolding of the Go method. *)
Section Step.
Variable sub : memo -> gt -> option (memo * str).
Definition strip1 (m : memo) (t : gt) : option (memo * str) :=
  match sub m t with
  | Some (m', n) => match remove_ps c n with Some y => Some (m', y) | None => None end
  | None => None end.
Fixpoint strips (m : memo) (l : list gt) : option (memo * list str) :=
  match l with
  | [] => Some (m, [])
  | x :: l' => match strip1 m x with
               | Some (m1, y) => match strips m1 l' with Some (m2, ys) => Some (m2, y :: ys) | None => None end
               | None => None end
  end.
Definition fin (t : gt) (r : option (memo * list str)) (mk : list str -> list str) : option (memo * str) :=
  match r with Some (m', ys) => let n := join_name c (mk ys) in Some ((t, n) :: m', n) | None => None end.

Definition name_step (m : memo) (t : gt) : option (memo * str) :=
  match mlookup m t with
  | Some n => Some (m, n)
  | None =>
      match t with
      | GNamed pkg name => if Z.ltb (prepend c + 1) 0 then None
                           else let n := join_name c (named_parts c pkg name) in Some ((t, n) :: m, n)
      | GBuiltin name => let n := join_name c [name] in Some ((t, n) :: m, n)
      | GMap k e => fin t (strips m [k; e]) (fun ys => match ys with [a; b] => [s "Map"; a; s "To"; b] | _ => [] end)
      | GSlice e => fin t (strips m [e]) (fun ys => s "Slice" :: ys)
      | GArray n e => fin t (strips m [e]) (fun ys => s "Array" :: itoa_dec n :: ys)
      | GPointer e => fin t (strips m [e]) (fun ys => s "Pointer" :: ys)
      | GChan e => fin t (strips m [e]) (fun ys => s "Chan" :: ys)
      | GStruct ms => fin t (strips m (map member_type ms)) (fun ys => s "Struct" :: ys)
      | GInterface ms => let n := join_name c (s "Interface" :: map fst ms) in Some ((t, n) :: m, n)
      | GFunc ps rs _ =>
          match strips m ps with
          | Some (m1, a) => fin t (strips m1 rs) (fun b => s "Func" :: a ++ s "Returns" :: b)
          | None => None end
      | GOther k => let n := s "unnameable_" ++ k in Some ((t, n) :: m, n)
      end
  end.

Hypothesis sub_ok : forall m t m' n, consistent m -> sub m t = Some (m', n) -> name_of c t = Some n /\ consistent m'.

Lemma strips_ok : forall l m0 m1 ys, consistent m0 -> strips m0 l = Some (m1, ys) ->
  consistent m1 /\
  omap (fun t => match name_of c t with Some n => remove_ps c n | None => None end) l = Some ys.
Proof.
  induction l as [|x l IHl]; simpl; intros m0 m1 ys Hc0 H.
  - inversion H; subst. auto.
  - unfold strip1 in H. destruct (sub m0 x) as [[ma na]|] eqn:Ex; [|discriminate].
    destruct (sub_ok _ _ _ _ Hc0 Ex) as [Hna Hca]. destruct (remove_ps c na) as [y|] eqn:Er; [|discriminate].
    destruct (strips ma l) as [[mb yb]|] eqn:Es; [|discriminate]. inversion H; subst.
    destruct (IHl _ _ _ Hca Es) as [Hcb Hob]. split; auto. rewrite Hna, Er, Hob. reflexivity.
Qed.

Lemma cons_consistent m0 t nm : consistent m0 -> name_of c t = Some nm -> consistent ((t, nm) :: m0).
Proof. intros Hc0 Hn a b [Hab|Hab]; [inversion Hab; subst; auto|auto]. Qed.

Lemma fin_ok t l m0 mk m' n : consistent m0 ->
  (forall ys, omap (fun t => match name_of c t with Some n => remove_ps c n | None => None end) l = Some ys ->
              name_of c t = Some (join_name c (mk ys))) ->
  fin t (strips m0 l) mk = Some (m', n) -> name_of c t = Some n /\ consistent m'.
Proof.
  intros Hc0 Hmk. unfold fin. destruct (strips m0 l) as [[m1 ys]|] eqn:Es; [|discriminate].
  intros H; inversion H; subst. destruct (strips_ok _ _ _ _ Hc0 Es) as [Hc1 Ho].
  pose proof (Hmk _ Ho) as Hn. split; auto. apply cons_consistent; auto.
Qed.

Lemma name_step_ok m t m' n : consistent m -> name_step m t = Some (m', n) -> name_of c t = Some n /\ consistent m'.
Proof.
  intros Hc. unfold name_step. destruct (mlookup m t) as [n0|] eqn:El.
  - intros H; inversion H; subst. split; auto. eapply mlookup_consistent; eauto.
  - destruct t.
    + destruct (Z.ltb (prepend c + 1) 0) eqn:Ez; [discriminate|]. intros H; inversion H; subst.
      assert (Hn : name_of c (GNamed pkg name) = Some (join_name c (named_parts c pkg name))) by (simpl; rewrite Ez; reflexivity).
      split; auto. apply cons_consistent; auto.
    + intros H; inversion H; subst. split; auto. apply cons_consistent; auto.
    + apply fin_ok; auto. intros ys Ho. simpl in *.
      destruct (match name_of c t1 with Some n => remove_ps c n | None => None end) as [a|]; [|discriminate].
      destruct (match name_of c t2 with Some n => remove_ps c n | None => None end) as [b|]; [|discriminate].
      inversion Ho; subst. reflexivity.
    + apply fin_ok; auto. intros ys Ho. simpl in *.
      destruct (match name_of c t with Some n => remove_ps c n | None => None end) as [a|]; [|discriminate].
      inversion Ho; subst. reflexivity.
    + apply fin_ok; auto. intros ys Ho. simpl in *.
      destruct (match name_of c t with Some n => remove_ps c n | None => None end) as [a|]; [|discriminate].
      inversion Ho; subst. reflexivity.
    + apply fin_ok; auto. intros ys Ho. simpl in *.
      destruct (match name_of c t with Some n => remove_ps c n | None => None end) as [a|]; [|discriminate].
      inversion Ho; subst. reflexivity.
    + apply fin_ok; auto. intros ys Ho. simpl in *.
      destruct (match name_of c t with Some n => remove_ps c n | None => None end) as [a|]; [|discriminate].
      inversion Ho; subst. reflexivity.
    + apply fin_ok; auto. intros ys Ho. simpl.
      assert (Hm : omap (fun m => match name_of c (member_type m) with Some n => remove_ps c n | None => None end) ms = Some ys).
      { clear -Ho. revert ys Ho. induction ms as [|x xs IHx]; simpl; intros ys Ho; auto.
        destruct (match name_of c (member_type x) with Some n => remove_ps c n | None => None end); [|discriminate].
        destruct (omap _ (map member_type xs)) eqn:E; [|discriminate]. rewrite (IHx _ eq_refl). exact Ho. }
      rewrite Hm. reflexivity.
    + intros H; inversion H; subst. split; auto. apply cons_consistent; auto.
    + destruct (strips m ps) as [[m1 a]|] eqn:Es1; [|discriminate].
      destruct (strips_ok _ _ _ _ Hc Es1) as [Hc1 Ho1].
      apply fin_ok; auto. intros b Ho2. simpl. rewrite Ho1, Ho2. reflexivity.
    + intros H; inversion H; subst. split; auto. apply cons_consistent; auto.
Qed.
End Step.

Fixpoint name_memo (fuel : nat) (m : memo) (t : gt) : option (memo * str) :=
  match fuel with
  | 0 => None
  | S f => name_step (name_memo f) m t
  end.

(* what a terminating call returns is the memo-free name, and the memo stays consistent *)
Theorem memo_transparent : forall fuel m t m' n,
  consistent m -> name_memo fuel m t = Some (m', n) -> name_of c t = Some n /\ consistent m'.
Proof.
  induction fuel as [|f IH]; intros m t m' n Hc; simpl; [discriminate|].
  apply name_step_ok; auto.
Qed.

(* hence any sequence of calls on one namer returns, call by call, the memo-free names *)
Fixpoint call_seq (fuel : nat) (m : memo) (ts : list gt) : option (list str) :=
  match ts with
  | [] => Some []
  | t :: ts' => match name_memo fuel m t with
                | Some (m', n) => match call_seq fuel m' ts' with Some ns => Some (n :: ns) | None => None end
                | None => None end
  end.
Theorem call_order_independent fuel : forall ts m ns, consistent m ->
  call_seq fuel m ts = Some ns -> omap (name_of c) ts = Some ns.
Proof.
  induction ts as [|t ts IH]; simpl; intros m ns Hc H.
  - inversion H; reflexivity.
  - destruct (name_memo fuel m t) as [[m' n]|] eqn:E; [|discriminate].
    destruct (memo_transparent _ _ _ _ _ Hc E) as [Hn Hc'].
    destruct (call_seq fuel m' ts) as [ns'|] eqn:E2; [|discriminate]. inversion H; subst.
    rewrite Hn, (IH _ _ Hc' E2). reflexivity.
Qed.
End Memo.

(* ---------- plural namer ---------- *)
Theorem plural_short w : length w < 2 -> plural_rule w = w.
Proof. destruct w as [|a [|b w]]; simpl; intros; try reflexivity; lia. Qed.

Theorem plural_table stem a b :
  plural_rule (stem ++ [a; b]) =
    if existsb (N.eqb b) (s "sxz") then stem ++ [a; b] ++ s "es"
    else if N.eqb b 121 then (if is_consonant a then stem ++ [a] ++ s "ies" else stem ++ [a; b] ++ s "s")
    else if N.eqb b 104 then (if N.eqb a 99 || N.eqb a 115 then stem ++ [a; b] ++ s "es" else stem ++ [a; b] ++ s "s")
    else if N.eqb b 101 then (if N.eqb a 102 then stem ++ s "ves" else stem ++ [a; b] ++ s "s")
    else if N.eqb b 102 then stem ++ [a] ++ s "ves"
    else stem ++ [a; b] ++ s "s".
Proof.
  unfold plural_rule. rewrite rev_app_distr. simpl rev. simpl app at 1.
  assert (Hr1 : removelast (stem ++ [a; b]) = stem ++ [a]).
  { replace (stem ++ [a; b]) with ((stem ++ [a]) ++ [b]) by (rewrite <- app_assoc; reflexivity).
    apply removelast_last. }
  assert (Hr2 : removelast (stem ++ [a]) = stem) by apply removelast_last.
  rewrite Hr1, Hr2.
  destruct (existsb (N.eqb b) (s "sxz")); [rewrite <- app_assoc; reflexivity|].
  destruct (N.eqb b 121); [destruct (is_consonant a); rewrite <- ?app_assoc; reflexivity|].
  destruct (N.eqb b 104); [destruct (N.eqb a 99 || N.eqb a 115); rewrite <- ?app_assoc; reflexivity|].
  destruct (N.eqb b 101); [destruct (N.eqb a 102); rewrite <- ?app_assoc; reflexivity|].
  destruct (N.eqb b 102); rewrite <- ?app_assoc; reflexivity.
Qed.

Theorem plural_exceptions_first ex f w p : lookup w ex = Some p -> plural_name ex f w = apply_case f p.
Proof. unfold plural_name. intros ->. reflexivity. Qed.
Theorem plural_no_exception ex f w : lookup w ex = None -> plural_name ex f w = apply_case f (plural_rule w).
Proof. unfold plural_name. intros ->. reflexivity. Qed.
